QBFT_STREAM = {"name": "qbft", "drive": "drive-qbft", "model": "drv-qbft", "reset_ops": ["cfg"],
               "n_quick": 30000, "seeds_quick": 2, "n_thorough": 400000, "seeds_thorough": 8, "search_seeds": 4}
QBFT_TRUSTED = [
    "implementation model CharonV/Model/Qbft.lean mirrors core/qbft/qbft.go (Run and every helper) line by line; tied by lock-step correspondence of every output (broadcast fields and justification multiset, upon-rule, round change, timers, decide with its commit list, unjust) against the real qbft.Run on adversarial cluster executions, with an oracle search over Go's map-iteration orders",
    "system model CharonV/Spec/QbftSys.lean: what reaches Run is what core/consensus/qbft.handle admits (C05): every core signed by its source, attachments freely recombined; ECDSA unforgeability is the hypothesis behind `admCore`",
    "abstract spec CharonV/Spec/Qbft.lean and the safety proof Proofs/QbftSpec.lean; refinement Proofs/QbftRefine1-9.lean (kernel checked)",
    "Compare callback modelled as a per-member deterministic verdict P.cmp (member, value) plus a timeout outcome; goroutine race between comparator and timer inside `compare` not modelled",
]
ENTRY = {
    "lean_props": "CharonV.Props.C02",
    "lean_props_extra": ["CharonV.Props.C02Spec"],
    "streams": [QBFT_STREAM],
    "level_text": "Kernel-checked Lean proof of agreement for the cluster built from the implementation model of qbft.Run: for every n >= 1, every Byzantine set of size <= floor((n-1)/3), every leader function, comparison function, FIFO limit, map-iteration oracle and every finite execution (any delivery order, loss, duplication, replay with recombined attachments, arbitrary Byzantine cores, timers at any point, late/missing starts and inputs) all Decide callbacks of honest members carry the same value. Proved by refinement of an abstract history-based QBFT spec (reach_sim) whose safety (lock lemma incl. the compare-failure path) is proved separately. The model is tied to core/qbft/qbft.go by lock-step differential correspondence with the real Run plus agreement/validity monitors on the real trace.",
    "level_note": "Trusted: Lean kernel; the correspondence harness and line driver; the adversary model (every delivered core is signed by its source = property C05; ECDSA unforgeability); Compare is deterministic per member and value. Not covered: real goroutine scheduling inside Run/compare, libp2p.",
    "trusted_base": QBFT_TRUSTED,
    "monitor_sigs": ['qbft:disagreement'],
    "assumptions": ["at most floor((n-1)/3) Byzantine members", "signatures of honest members are unforgeable (C05 establishes that every delivered core carries its source's signature)",
                    "Compare verdict is a function of (member, value)"],
}

# C02's adversary model ("what C05 admits") is an obligation of the code too: agreement on the real cluster is the
# composition spec-agreement x admission. The check therefore also runs the admission stream of C05 (real
# Consensus.handle) and reports its safety-relevant monitors under C02.
from vlib.props_C05 import ENTRY as _E05
ENTRY["streams"] = ENTRY["streams"] + [dict(_E05["streams"][0], seeds_quick=1)]
ENTRY["monitor_sigs"] = ENTRY["monitor_sigs"] + ["qbftwire:tampered_accepted", "qbftwire:unsigned_justification_accepted",
                                                 "qbftwire:cross_duty_accepted", "qbftwire:value_hash_mismatch_accepted",
                                                 "qbftwire:malformed_accepted", "qbftwire:limit_exceeded_accepted"]
ENTRY["trusted_base"] = ENTRY["trusted_base"] + ["the adversary of the system model (Spec/QbftSys admMsg) is what C05's accept_sound/accept_authentic admit; the admission stream qbftwire (real Consensus.handle, see C05) is run by this check as well"]

# one qbft.Run per duty and node is a premise of the agreement proof (a second run with virgin state would make an
# honest node equivocate): the wrapper model of C03 (Props/C03Wrap.one_run_per_duty, stream conswrap) is part of this check
from vlib import snippet_C03wrap as _w
ENTRY["streams"] = ENTRY["streams"] + [dict(_w.STREAM, seeds_quick=1)]
ENTRY.setdefault("lean_props_extra", []).append(_w.EXTRA_LEAN)
ENTRY["monitor_sigs"] = ENTRY["monitor_sigs"] + ["conswrap:two_runs_for_duty", "conswrap:run_after_expiry", "conswrap:decide_delivered_twice", "conswrap:io_not_deleted"]
