"""Translator T-session for C13: which session hash every DKG protocol hands to dkg/bcast.

dkg/bcast signs H(session, id, type url, value); signatures given in one ceremony must not verify in another, so the
session of every reliable-broadcast component has to be unique per ceremony. The Go tool `trans-bcastsession`
(harness/cmd/trans-bcastsession: go/parser with object resolution, standard library only; fails closed) lists every
non-test call `bcast.New(host, peers, key, session)` under /repo/dkg (the test helper dkg/pedersen/testutils.go is
excluded), prints the session argument after replacing single-assignment locals of the enclosing function by their
defining expressions (`session := def.DefinitionHash; bcast.New(…, session)` is the row `def.DefinitionHash`) and
writes lean/CharonV/Generated/BcastSession.lean; Props/C13Session.lean decides that the table is exactly the expected
one (the initial ceremony uses the definition hash of the cluster being created, every ceremony on an existing cluster
uses its lock hash, and there is no other call site, e.g. in a shared helper).

The tool is built here when the caller did not build it (it is not listed in ENTRY["go_tools"])."""
import os, subprocess
from vlib import core


def bcastsession(bindir):
    exe = os.path.join(bindir, "trans-bcastsession")
    out = os.path.join(core.LEAN, "CharonV", "Generated", "BcastSession.lean")
    os.makedirs(os.path.dirname(out), exist_ok=True)
    if not os.path.exists(exe):
        ok, log, exe = core.go_build("trans-bcastsession", bindir)
        if not ok:
            return False, "trans-bcastsession was not built:\n" + log
    with core.LeanLock():  # do not swap the file under a concurrent lake build
        p = subprocess.run([exe, "-repo", core.REPO, "-out", out], stdout=subprocess.PIPE,
                           stderr=subprocess.STDOUT, text=True, timeout=300, env=dict(core.GOENV))
        if p.returncode != 0 and os.path.exists(out):
            os.remove(out)  # fail closed: a stale table must not keep the theorem true
    return p.returncode == 0, p.stdout
