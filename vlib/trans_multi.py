"""T-multi: regenerate lean/CharonV/Generated/Multi.lean from app/eth2wrap/{eth2wrap_gen,multi}.go."""
import os

from vlib import core


def trans_multi(bindir):
    """Build and run harness/cmd/trans-multi against /repo's working tree. Returns (ok, log)."""
    out = os.path.join(core.LEAN, "CharonV", "Generated", "Multi.lean")
    ok, log, path = core.go_build("trans-multi", bindir)
    if ok:
        os.makedirs(os.path.dirname(out), exist_ok=True)
        rc, lg = core.sh([path, out], env=dict(os.environ, VERIF_REPO=core.REPO), timeout=300)
        log += lg
        ok = rc == 0
    if not ok and os.path.exists(out):
        # fail closed: a stale table must not discharge the obligation
        os.remove(out)
    return ok, log
