"""C10 — only valid partial signatures enter a node (core/validatorapi, core/parsigex)."""
from vlib.trans_vapi import vapi

ENTRY = {
    "lean_props": "CharonV.Props.C10",
    "go_tools": ["trans-vapi"],
    "translators": [vapi],
    "monitor_sigs": ["admit:"],
    "streams": [
        {"name": "admit", "drive": "drive-admit", "model": "drv-admit",
         "reset_ops": ["cfg"],
         "n_quick": 3400, "seeds_quick": 1, "n_thorough": 30000, "seeds_thorough": 6,
         "search_seeds": 2},
    ],
    "level_text": "Kernel-checked Lean theorems over a decision model of every validatorapi.Component endpoint that reaches the subscriber fan-out (ten endpoints), verifyPartialSig, propDataMatchesDuty / the inner selection-proof checks, parsigex handle + NewEth2Verifier, VerifyEth2SignedData / signing.Verify and the duty gater, for an arbitrary symbolic verify function, any lock, any request (any number of elements, repeated validators and slots), any node share index, any number of subscribers, any Go map iteration order and any subscriber failure position: every partial signature in every set handed to a subscriber verifies under exactly the lock's key share for the validator it is filed under and its share index, for the object's own domain, epoch and signing root, is not the zero signature, is a submitted object and (peer door) passed the gater (admitted_valid); unknown validator, missing or out-of-range share index, zero signature, gated duty reject the whole request or message (unknown_rejected); one failing element means no subscriber call at all (batch_atomic, invalid_rejected); the proposal-equality gate and the inner selection proofs are enforced (gate_enforced); under symbolic unforgeability any change of key, domain, fork epoch or signed content makes the partial not valid (tamper_not_valid); nothing valid is turned away (valid_admitted). Translator T-vapi (go/types over the Go source, regenerated every run) shows that the endpoints of the model are exactly the Component methods that reach c.subs, that in each a checked verifyPartialSig dominates the fan-out, that the inserted value is the verified one under the verified-for public key, and likewise for parsigex.handle (every_endpoint_verifies). The model is tied to the code by differential correspondence on the real Component (secure constructor) and the real parsigex handler with real t-of-n tbls keys over a beacon mock with seven fork versions: every endpoint x duty type x data version, a valid submission, every single-field alteration found by a reflection walk, and share / validator / group-key / domain / fork / genesis-root substitutions, zero, infinity, negated and random signatures, out-of-range share indices, unknown validators, wire-level bit flips, wrong and invalid duty types and duties outside the gater window.",
    "level_note": "Trusted: Lean kernel; the Go correspondence harness (its own per-type epoch/root/domain table, its own compute_domain over its own fork table and direct tbls.Verify calls feed the model's symbolic verify function) and line driver; translator trans-vapi (go/packages type information, syntactic dominance and same-value analysis, fails closed). Cryptography is symbolic: BLS unforgeability is a hypothesis of tamper_not_valid only; all other theorems hold for every verify function.",
    "trusted_base": [
        "model CharonV/Model/Admit.lean mirrors validatorapi.go (SubmitAttestations, Proposal, SubmitProposal, SubmitBlindedProposal, SubmitVoluntaryExit, BeaconCommitteeSelections, SubmitAggregateAttestations, SubmitSyncCommitteeMessages, SubmitSyncCommitteeContributions, SyncCommitteeSelections, verifyPartialSig, NewComponent's share lookup), parsigex.go (handle, NewEth2Verifier), eth2signeddata.go (VerifyEth2SignedData, DomainName per type), signing.Verify, core.NewDutyGater; tied by correspondence stream admit (result class, every subscriber call: subscriber, duty type, slot, validator -> payload identity @ share index)",
        "translator trans-vapi: which Component methods reach c.subs, dominance of a checked verifyPartialSig over the fan-out, syntactic identity of verified and inserted value / public key, gate calls, shape of verifyPartialSig, NewComponent, parsigex.handle",
        "harness-side independent validity: per-type message root and epoch written by hand from the consensus spec, compute_domain over the harness's own fork table and genesis root (cross-checked once per run against eth2util/signing on honest inputs), tbls.Verify against every key of the cluster",
        "hook core/parsigex/verif_export.go (build tag verif): handle callable without a libp2p host; go-eth2-client accessors and codecs, herumi BLS, the beacon mock",
    ],
    "assumptions": [
        "symbolic cryptography: tamper_not_valid assumes the signature verifies only for the key, domain, epoch and root it was made over (BLS unforgeability + collision resistance of hash_tree_root); every other theorem is unconditional in verify",
        "a handler call is one atomic step; the environment callbacks of the Component (duty definitions, PubKeyByAttestation, AwaitProposal, ActiveValidators) are inputs: the element's resolved validator and the gate outcome are fields of the model's request",
        "HTTP router decoding is not covered (only the component API); objects that do not survive their own codec are not submitted",
        "the duty a peer files a set under is not compared with the slot of the signed object by handle (only the gater window is checked); C10 speaks about the object's own epoch",
        "pre-merge (phase0/altair) signed proposals have no Slot accessor in the pinned go-eth2-client fork: both doors reject them (modelled as an accessor error)",
    ],
}

# signing-input model (eth2util/signing, eth2wrap exit-domain rule, go-eth2-client Domain): what the symbolic
# `verify` of the admission model stands for (Props/C10Signing.lean)
from vlib import snippet_C10signing as _sg
ENTRY["streams"].append(_sg.STREAM)
ENTRY.setdefault("lean_props_extra", []).append(_sg.EXTRA_LEAN)
ENTRY["monitor_sigs"] = ENTRY["monitor_sigs"] + _sg.MONITOR_SIGS
ENTRY["trusted_base"] = ENTRY["trusted_base"] + _sg.TRUSTED_BASE
ENTRY["assumptions"] = ENTRY["assumptions"] + _sg.ASSUMPTIONS
ENTRY["level_text"] += (" The signing input itself is modelled bit-exactly (Model/Signing.lean over the core-Lean SHA-256): "
    "GetDomain / GetDataRoot incl. the builder genesis-domain and the EIP-7044 exit-domain rules and go-eth2-client's fork choice; "
    "Props/C10Signing.lean proves for every compression function that the domain's first four bytes are its type (domain_separation), "
    "that forkAtEpoch picks the last fork not after the epoch on sorted schedules (fork_version_monotone_choice) and that any change of "
    "object root, domain type, fork version or genesis root changes the signing root or exhibits an explicit (possibly 224-bit truncated) "
    "SHA-256 collision (data_root_binds, signing_root_binds_fork); tied by stream signing (real functions over the beacon mock and the "
    "production http adapter, compared bit for bit).")

# The HTTP door of the validator client: core/validatorapi/router.go in front of the Component (Model/Router.lean composed
# with Model/Admit.lean, Props/C10Router.lean, stream router: real NewRouter over httptest, real Component, real requests).
from vlib import snippet_C10router as _rt
ENTRY["streams"].append(_rt.STREAM)
ENTRY["lean_props_extra"].append(_rt.EXTRA_LEAN)
ENTRY["monitor_sigs"] = ENTRY["monitor_sigs"] + _rt.MONITOR_SIGS
ENTRY["trusted_base"] = ENTRY["trusted_base"] + _rt.TRUSTED_BASE
ENTRY["assumptions"] = [a for a in ENTRY["assumptions"] if not a.startswith("HTTP router decoding is not covered")] + _rt.ASSUMPTIONS
ENTRY["level_text"] += (" The HTTP door itself (core/validatorapi/router.go: NewRouter's fourteen POST endpoints and propose-block v3, wrap, "
    "unmarshal, content-type and Eth-Consensus-Version rules, per-fork decoding, the SingleAttestation conversion) is modelled in "
    "Model/Router.lean in front of the admission model; Props/C10Router.lean proves for every decoder, verify function, lock and request "
    "that everything delivered through the router is a decoded body element, filed under its own validator and slot, valid under the "
    "lock's share (router_admitted_valid, router_passes_body_unchanged, router_composes_with_admit), that the fork version is the "
    "header's and the encoding the Content-Type's (router_version_from_header), that a malformed request or one bad element delivers "
    "nothing (router_rejects_malformed_partial, router_no_call_on_error, router_batch_atomic) and how a SingleAttestation's validator is "
    "looked up (single_attestation_conversion); tied by stream router (the real router over httptest with the real Component).")

# Fifth session: what sits around verification in core/validatorapi/validatorapi.go — the lookup tables built at start-up
# (app.go's pubshares / allPubSharesByKey, NewComponent's closures), the duties endpoints that swap validator keys for this
# node's public shares, Validators / convertValidators: Model/VapiMaps.lean, theorems Props/C10VapiMaps.lean, stream vapimaps
# (real NewComponent, its closures, the endpoints over a scripted beacon node and the real DutiesCache).
from vlib import snippet_C10vapimaps as _vm
ENTRY["streams"].append(_vm.STREAM)
ENTRY["lean_props_extra"].append(_vm.EXTRA_LEAN)
ENTRY["monitor_sigs"] = ENTRY["monitor_sigs"] + [m for m in _vm.MONITOR_SIGS if m not in ENTRY["monitor_sigs"]]
ENTRY["trusted_base"] = ENTRY["trusted_base"] + _vm.TRUSTED_BASE
ENTRY["assumptions"] = ENTRY["assumptions"] + _vm.ASSUMPTIONS
ENTRY["level_text"] += _vm.LEVEL_TEXT
