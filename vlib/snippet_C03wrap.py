"""Wrapper-level extension of C03 (and of C05's last clause): core/consensus/qbft/qbft.go outside
`handle` — Propose / ProposePriority / Participate / propose / runInstance / instance.IO /
getInstanceIO / deleteInstanceIO / Decide callback of newDefinition / Subscribe(Priority).
To be wired into C03's entry by the lead (append STREAM to "streams", audit EXTRA_LEAN as well)."""

STREAM = {"name": "conswrap", "drive": "drive-conswrap", "model": "drv-conswrap",
          "reset_ops": ["cfg"],
          "n_quick": 4000, "seeds_quick": 2, "n_thorough": 40000, "seeds_thorough": 6,
          "search_seeds": 3}

EXTRA_LEAN = "CharonV.Props.C03Wrap"

MONITOR_SIG_PREFIXES = ["conswrap:"]
# sigs: conswrap:two_runs_for_duty, conswrap:decide_delivered_twice, conswrap:delivered_value_hash_mismatch,
#       conswrap:no_run_started, conswrap:run_after_expiry, conswrap:io_not_deleted, conswrap:delivered_wrong_duty

THEOREMS = ["one_run_per_duty", "run_started_at_first_call", "propose_twice_rejected",
            "decided_value_is_hashed_value", "subscribers_once_per_decision", "no_run_after_expiry"]

TRUSTED_BASE = [
    "model CharonV/Model/ConsWrap.lean mirrors core/consensus/qbft Propose/ProposePriority/Participate/propose/runInstance (up to and after qbft.Run), instance.IO (MarkProposed, MarkParticipated, MaybeStart, ValueCh/HashCh, ErrCh), getInstanceIO/getRecvBuffer/deleteInstanceIO, the Decide callback of newDefinition and Subscribe/SubscribePriority; tied by correspondence stream conswrap on the REAL component (hook NewConsensusWrapVerif) running the real qbft.Run as a one-member cluster",
    "Lean driver Driver/ConsWrap.lean supplies what qbft.Run does (decide / return) from the single-member semantics of QBFT (leader of every round, quorum 1: a live attached instance decides as soon as it has a candidate value) and accepts any linearisation of a racing op",
    "scripted deadliner identifies entries into qbft.Run by a deadliner.Add call whose stack contains runInstance and whose answer is scheduled; deleteInstanceIO is called directly for an expiry (the three-line goroutine of Start is not run)",
]

ASSUMPTIONS = [
    "qbft.Run is an environment of the wrapper model: it calls the Decide callback at most once per invocation (C03 decide_once, proved for core/qbft) and may return at any time",
    "concurrent Propose / Participate / handle are linearisable steps (every shared access is an atomic CAS or under c.mutable's mutex); the window between the two getInstanceIO calls of a starter (in Propose/Participate and again in runInstance) is treated as atomic",
    "the deadliner keeps refusing a duty it has already emitted on C() (C16 late-adds-refused): this, not the IO state, is what prevents a second qbft.Run after deleteInstanceIO",
    "compareAttestations (VerifyCh) is off in the harness; round timers never fire during a harness run (slots lie in the future)",
]
