"""Translator T-vapi for C10: regenerate lean/CharonV/Generated/Vapi.lean from the Go source.

`vapi(bindir) -> (ok, log)`; the Go tool `trans-vapi` (listed in ENTRY["go_tools"], built by check
into `bindir`) type-checks core/validatorapi and core/parsigex of the repo with go/packages and
fails closed on any shape it does not understand."""
import os, subprocess
from vlib import core


def vapi(bindir):
    exe = os.path.join(bindir, "trans-vapi")
    out = os.path.join(core.LEAN, "CharonV", "Generated", "Vapi.lean")
    os.makedirs(os.path.dirname(out), exist_ok=True)
    if not os.path.exists(exe):
        return False, "trans-vapi was not built"
    with core.LeanLock():  # do not swap the file under a concurrent lake build
        p = subprocess.run([exe, "-repo", core.REPO, "-out", out], stdout=subprocess.PIPE,
                           stderr=subprocess.STDOUT, text=True, timeout=600,
                           env=dict(core.GOENV))
    if p.returncode != 0 and os.path.exists(out):
        # fail closed: a stale table must not keep the theorem true
        os.remove(out)
    return p.returncode == 0, p.stdout
