"""C04 addition: the timed theorems of Props/C04Timed.lean WITHOUT the synchronisation hypothesis "entry skew sigma <= minimal
latency lo" (Props/C04Resync.lean, proofs Proofs/QbftTimed2.lean ~3000 lines; the timed model Model/QbftTimed.lean is unchanged
and Props/C04Timed.lean builds unchanged). NOT a registry entry (the lead owns C04's ENTRY). No stream, no Go work.

To wire into C04's entry:
    ENTRY.setdefault("lean_props_extra", []).append(EXTRA_LEAN)
    ENTRY["trusted_base"] += TRUSTED_BASE ; ENTRY["assumptions"] += ASSUMPTIONS
and in the assumptions of snippet_C04timed.py the line "timed model: sigma <= lo ..." now only concerns the theorems of
Props/C04Timed.lean; the `_skew` theorems do not need it.
Build: `bin/lk build CharonV.Props.C04Resync` (proofs 6 s, props incl. two kernel-evaluated executions 3 s).
"""

EXTRA_LEAN = "CharonV.Props.C04Resync"

THEOREMS = [
    "CharonV.Qbft.timed_good_round_skew",
    "CharonV.Qbft.timed_silent_round_skew",
    "CharonV.Qbft.timed_decides_within_rotation_skew",
    "CharonV.Qbft.timed_decides_from_start_skew",
    "CharonV.Qbft.timed_rotation_production_skew",
    "CharonV.Qbft.timed_rotation_eager_skew",
    "CharonV.Qbft.timed_rotation_any_timer_skew",
    # non-vacuity: the start state of example F satisfies `Poised2` with sigma = 250 ms, lo = 0
    "CharonV.Qbft.C04ResyncEx.s6_poised",
]

LEVEL_NOTE = (
    "timed composition for ANY entry skew (Props/C04Resync.lean): the members may enter round rho anywhere in [E, E+sigma] with "
    "sigma + 4*delta < timeout rho, and messages of round rho may reach a running member that is still in round rho-1 — PREPAREs / "
    "COMMITs are buffered and count after the entry, f+1 ROUND-CHANGEs make the member enter at once (F+1 rule), a justified "
    "PRE-PREPARE makes it jump into the round without a ROUND-CHANGE, a DECIDED makes it decide, exactly as Qbft.step does; "
    "conclusions unchanged (no fault, nobody times out of the round, everybody decides the leader's value by E + sigma + 4*delta; "
    "a silent round hands the skew on unchanged — it is bounded by the skew before, not shown to shrink to delta; rotation theorems "
    "re-derived, incl. the production timer objects); two kernel-evaluated executions with sigma = 250 ms > delta = 100 ms > lo = 0 "
    "in which a member enters by the F+1 rule resp. jumps on the PRE-PREPARE while still in the previous round. "
    "NOT proved: re-synchronisation from a state in which the running members are in different rounds (timed_resync)"
)

TRUSTED_BASE = [
    "same timed model as Props/C04Timed.lean (CharonV/Model/QbftTimed.lean, unchanged); Proofs/QbftTimed2.lean re-proves the "
    "cluster invariant with a skew-tolerant member view (Act2: a threshold is recorded iff it is reached by everything delivered "
    "AND a message of that type arrived after the entry; Pend2: a member outside the round with messages of the round buffered)",
]

ASSUMPTIONS = [
    "skew-tolerant timed theorems: all running members are in the SAME round rho-1 at the start (`Poised2` = `Poised` + the "
    "members' dedup bookkeeping only has entries of earlier rounds), round timers due anywhere in [E, E+sigma], sigma arbitrary "
    "with sigma + 4*delta < timeout rho (silent round: sigma + delta < timeout rho); from the start of the instance: `Poised1` "
    "(everybody called, the round-1 leader's PRE-PREPARE still in flight)",
    "skew-tolerant timed theorems: bounded delay delta, exact timers, no clock drift, proposals available, compare succeeds, "
    "FIFO limit B + 4 <= fifo, earlier rounds silent (members never prepared) — as for Props/C04Timed.lean",
    "not covered: members spread over different rounds after the last fault (convergence by F+1 rule + growing timeouts), "
    "members prepared in failed rounds, Byzantine members",
]
