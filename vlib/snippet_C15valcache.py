"""Snippet for the lead to wire into C15: the validator cache of app/eth2wrap/cache.go (ValidatorCache: Trim,
cached, activeCached, GetByHead, GetBySlot), its users SetValidatorCache / ActiveValidators / CompleteValidators in
httpwrap.go, lazy.go, multi.go, the wiring and the slot subscriber of app/app.go, and the real Scheduler resolving
epochs through that stack — one more correspondence stream and one more Lean module of property theorems.
Not a registry entry by itself (not named props_C*.py).

Wiring: append STREAM to ENTRY["streams"], append EXTRA_LEAN to ENTRY["lean_props_extra"] (its theorems are audited
like those of Props/C15.lean), add MONITOR_SIGS to ENTRY["monitor_sigs"], extend trusted_base / assumptions with the
lines below. lean_exe `drv-valcache` is already in lakefile.toml; hook app/eth2wrap/verif_export_valcache.go is
committed in /repo (af75d57).

NOTE (lead): the hostile-caller episodes (op `mut`) are modelled as the code is (taint) and only counted as
observed:shared_map_mutated; C15 does not quantify over callers that write into the maps they are handed, so this is an
observation with a candidate hardening (fixes/C15-valcache-clone.diff), not a finding.
"""

STREAM = {"name": "valcache", "drive": "drive-valcache", "model": "drv-valcache",
          "reset_ops": ["cfg"],
          "n_quick": 60000, "seeds_quick": 2, "n_thorough": 400000, "seeds_thorough": 6,
          "search_seeds": 2}

EXTRA_LEAN = "CharonV.Props.C15ValCache"

MONITOR_SIGS = ["valcache:"]

THEOREMS = [
    "CharonV.ValCache.active_answer_is_bn_answer_at_last_fetch",
    "CharonV.ValCache.last_is_most_recent_fetch_since_trim",
    "CharonV.ValCache.never_inactive",
    "CharonV.ValCache.never_foreign_partial",
    "CharonV.ValCache.refetch_after_trim",
    "CharonV.ValCache.hit_returns_same_partial",
    "CharonV.ValCache.hit_returns_same_fixed",
    "CharonV.ValCache.untainted",
    "CharonV.ValCache.slot_query_replaces_head_cache",
    "CharonV.ValCache.error_leaves_cache_unchanged",
    "CharonV.ValCache.interleaved_answers_are_node_answers",
    "CharonV.ValCache.scheduler_resolves_active_or_activating",
    "CharonV.ValCache.slot_changes_head_witness",
    "CharonV.ValCache.shared_map_witness",
    "CharonV.ValCache.foreign_witness",
    "CharonV.ValCache.torn_pair_witness",
]

KNOWN_FINDINGS = [
    {"property": "C15", "sig": "valcache:shared_map_mutated",
     "what": "validator cache (app/eth2wrap/cache.go): GetByHead / GetBySlot return the cache's own active and complete maps "
             "and the node's *Validator objects; a caller that writes into what it was handed changes what every later caller "
             "of ActiveValidators / CompleteValidators is served until the next Trim + refill - the real Scheduler then triggers "
             "an attester duty for a validator the node reported as exited, or skips an active one (replay in the header of "
             "fixes/C15-valcache-clone.diff; kernel-checked witness CharonV.ValCache.shared_map_witness). Latent: no caller in "
             "/repo writes into these maps today. Candidate repair: fixes/C15-valcache-clone.diff (copies on return; "
             "hit_returns_same_fixed)"},
]

LEVEL_TEXT = (" In production the scheduler's active set is what the validator cache serves (app.go: SetValidatorCache("
    "valCache.GetByHead); Trim + GetBySlot on the first slot of an epoch): Props/C15ValCache.lean proves over every op sequence "
    "(Trim, GetByHead direct or through a client, GetBySlot, writes of a hostile caller) and every beacon node (each call's answer "
    "an arbitrary error / nil map / list of entries in any order with any status, pubkey, nil entries) that a returned (active, "
    "complete) pair is the most recently stored response - stored after the most recent Trim - and exactly the validators with an "
    "IsActive() status of it (active_answer_is_bn_answer_at_last_fetch, last_is_most_recent_fetch_since_trim, never_inactive), "
    "contains only cluster validators if the node honours the query's pubkey filter (never_foreign_partial; foreign_witness "
    "otherwise), that the call after a Trim asks the node again (refetch_after_trim), that a hit returns the same "
    "(hit_returns_same_partial; with hostile writes only for the repaired variant: hit_returns_same_fixed, shared_map_witness), "
    "that a successful GetBySlot replaces what GetByHead serves (slot_query_replaces_head_cache) and that an error caches nothing "
    "(error_leaves_cache_unchanged); for every interleaving of the lock scopes of concurrent calls every returned active set is "
    "built from, and every complete set is, a response the node gave (interleaved_answers_are_node_answers; the two may stem "
    "from different responses: torn_pair_witness). Tied by stream valcache: the real ValidatorCache over a scripted node, wired "
    "as in app.go into Instrument(lazy(httpAdapter)), the real Scheduler resolving epochs through it, racing calls behind a "
    "barrier whose observed outcome the model must explain by an interleaving.")

TRUSTED_BASE = [
    "model CharonV/Model/ValCache.lean mirrors app/eth2wrap/cache.go ValidatorCache (fields active / complete as optional maps, "
    "Trim, cached, activeCached, GetByHead = two separately locked reads then - without re-check - fetch and store under the write "
    "lock, GetBySlot = by-slot query, head fallback, same loop, same two assignments; nil-entry error before anything is stored; "
    "the maps are returned uncloned: switch Cfg.cloneOnReturn), the nil-check of httpAdapter.ActiveValidators / CompleteValidators "
    "and the filter of scheduler.resolveActiveValidators; tied by lock-step correspondence stream valcache: after every op the "
    "result (sorted active set, complete set with status and activation epoch, error class), the state ids the node was asked for "
    "in order, the number of node calls so far and the two maps the cache holds (hook VerifSnapshot) are compared",
    "hook app/eth2wrap/verif_export_valcache.go (build tag verif): read-only snapshot of the cache's two maps; the production "
    "http adapter and lazy client constructors without a go-eth2-client service behind them (only SetValidatorCache / "
    "ActiveValidators / CompleteValidators of the adapter are called); multi client through eth2wrap.Instrument",
    "the scripted node implements only Validators (every other method of the client interface is a nil call), honours the "
    "query's pubkey filter unless scripted `raw`, creates fresh maps and validators per call (as the http client does), checks "
    "that each query carries exactly the cluster's pubkeys and no indices, and that no two queries of the cache are in flight "
    "together; ValidatorState.IsActive() is go-eth2-client's: the driver writes its verdict next to every status it scripts and "
    "the model answers `isactive-mismatch` if its own table disagrees",
    "racing ops (GetByHead against GetByHead / Trim / GetBySlot behind a barrier): the observed results, order of node calls and "
    "final cache content are part of the op line; the model enumerates the interleavings of its atomic steps (read complete, read "
    "active, locked fetch; Trim; GetBySlot) and answers `impossible` if none produces them - the interleaving itself is not "
    "controlled (scheduler yields only), torn pairs are proved possible (torn_pair_witness) but need not occur in a run",
    "scheduler episodes: a fresh real Scheduler (hook scheduler.NewVerif) handles one slot; its client answers ActiveValidators / "
    "CompleteValidators through the wired stack and assigns an attester duty in that slot to every validator index the scheduler "
    "asks for; compared: the validators of the triggered attester definition set; the last slot of an epoch is never handled "
    "(it would resolve the next epoch inside the trigger loop)",
    "the creation, wiring (eth2Cl.SetValidatorCache(valCache.GetByHead), submissionEth2Cl likewise) and the slot subscriber "
    "(shouldUpdateCache, Trim, GetBySlot(slot or the epoch's first slot after a head fallback), firstCacheRefresh / refreshedBySlot) "
    "are statements inside app.go's wireCoreWorkflow and cannot be called: the driver replays them (op refresh) and compares the "
    "gofmt-printed text of every statement of app/app.go that mentions valCache / firstCacheRefresh / refreshedBySlot / "
    "shouldUpdateCache with a pinned copy once per run (monitor valcache:app_wiring_differs_from_replica; a legitimate edit of these "
    "statements needs the pin in harness/cmd/drive-valcache/wiring.go and doRefresh updated)",
    "monitors judge every successful answer against the node's most recent well-formed response recorded by the scripted node "
    "itself (independent of the model): inactive_reported_active, active_missing, foreign_validator (only when the node filtered), "
    "answer_differs_from_last_fetch, stale_after_trim, served_without_fetch_before_first_call, shared_map_mutated (any of these "
    "after a hostile write), error_changed_cache, trim_left_entries, head_cache_polluted_by_slot_query (a failed GetBySlot changed "
    "the cache), slot_refresh_not_stored, slot_query_protocol, head_query_protocol, nil_validator_accepted, refreshed_by_slot_flag_wrong, bn_query_not_the_cluster_pubkeys, "
    "bn_fetches_overlap, wired_cache_not_reached, answer_before_cache_was_wired, duty_for_inactive_validator, "
    "duty_after_validators_error, scheduler_validator_queries, panic; race_blocked_timeout and sched_trigger_waited_timeout rest on "
    "60 s time-outs",
]

ASSUMPTIONS = [
    "the beacon node is trusted to honour the `id` filter of the validators query: the cache keeps whatever it answers "
    "(never_foreign_partial has the hypothesis, foreign_witness the counterexample; the stream scripts such a node in ~5% of the "
    "answers and compares, the monitor valcache:foreign_validator is silent for those answers)",
    "staleness inside an epoch is by design: between two refreshes the cache serves the response of the last fetch whatever the "
    "node would answer now (a validator that exits mid-epoch stays in the active set until the next Trim); the theorems speak "
    "about the most recent fetch, not about the node's current state",
    "callers do not write into the maps they are handed (taint = false): holds for every caller in /repo today, is violated by "
    "the hostile caller of the stream (known finding valcache:shared_map_mutated) and is unnecessary for the repaired variant "
    "(untainted, hit_returns_same_fixed)",
    "a response with two entries of the same validator index under different map keys makes the active map depend on Go's map "
    "iteration order: the model takes the list order, the theorems hold for every order, the driver never scripts such a response",
    "not covered: multi with several beacon nodes (every ActiveValidators call then runs one GetByHead per node in parallel - the "
    "same race as op `race hh`, exercised directly on the cache), the go-eth2-client http decoding of the validators response "
    "(JSON status strings), the Prometheus hit / miss counters, data races below the lock scopes (the driver is not built with "
    "-race; removing GetByHead's write lock is caught by valcache:bn_fetches_overlap only through the overlap of node calls)",
]
