"""C15 — scheduler (core/scheduler/scheduler.go, offset.go)."""

ENTRY = {
    "lean_props": "CharonV.Props.C15",
    "lean_props_extra": ["CharonV.Props.C15Head"],
    "streams": [
        {"name": "sched", "drive": "drive-sched", "model": "drv-sched",
         "reset_ops": ["cfg", "headrace"],
         "n_quick": 30000, "seeds_quick": 2, "n_thorough": 200000, "seeds_thorough": 8, "search_seeds": 2},
    ],
    "level_text": "Kernel-checked Lean theorems over every beacon-node oracle (each call may fail or answer anything), every configuration, every clock value at which the ticker starts and every finite sequence of clock advances (all missed-tick patterns) and chain-reorg events: no duty (slot,type) is triggered twice and slots are handled in strictly increasing order; every triggered definition is an assignment the beacon node already gave for that slot and duty type to a validator it named as an active cluster validator with that pubkey; every trigger carries not-before = slot start + offset(type) (1/3, 2/3, 2/3, else 0); if the slot's epoch is resolved when the slot is handled and the beacon node's answers for an epoch do not change between retries, every assignment of that slot is triggered with a definition set equal to the beacon node's assignments restricted to active cluster validators. Head-event path (feature flags FetchAttOnBlock / FetchAttOnBlockWithDelay, every combination; Props/C15Head.lean), for every sequence of clock advances, timer firings, head events for any slot (past, future, skipped, unresolved, repeated) and reorg events in any order: a head event never triggers a duty and never changes what scheduleSlot hands out (the run projects onto the base model, so all theorems above hold with head events); the slot's own attester trigger is delivered at most once, with the definition set scheduleSlot read, never before slot start + 1/3 slot (+ 300 ms with the delay flag), and has been delivered once that deadline has passed; a head event only starts the early fetch (FetchOnly) — for which the code has no time bound, by design of the feature — and only for a slot with a stored attester definition set (resolved epoch, assigned active cluster validators, every definition justified by a beacon-node answer), at most once per bookkeeping entry and never after the slot's own trigger unless the entry was trimmed (resolution of an epoch >= 3 later, or an effective reorg event, after which a second early fetch is by design); an effective trim removes every entry up to the end of the trimmed epoch; with both flags off nothing changes. GetDutyDefinition (isResolvingEpoch / getEpochResolvedChan / isEpochResolved / isEpochTrimmed) is modelled including calls made while resolveDuties runs. The model is tied to core/scheduler by lock-step differential correspondence with the real Scheduler, the real newSlotTicker under a fake clock and the real delaySlotOffset over a scripted beacon node.",
    "level_note": "Trusted: Lean kernel, the Go correspondence harness and line driver, clockwork fake-clock semantics; in stream sched Run()'s select loop is replaced by the harness handing each slot of the real ticker to emitCoreSlot+scheduleSlot (hook HandleSlotVerif), stream schedrun (fifth session) drives the real Run(); goroutine timing of the asynchronous trigger is abstracted (the delay function is injected and records the not-before instant).",
    "trusted_base": [
        "model CharonV/Model/Sched.lean mirrors scheduleSlot, resolveDuties, resolveAtt/Pro/SyncCommDuties, setDutyDefinition, trimDuties, HandleChainReorgEvent, delaySlotOffset/slotOffsets, newSlotTicker; tied by lock-step correspondence (triggers with definition sets and not-before instants, resolvedEpoch, sizes of duties/dutiesByEpoch after every op)",
        "hook core/scheduler/verif_export.go (build tag verif): constructor with fake clock and injectable delay function, newSlotTicker, per-slot handler = body of Run's loop, read-only snapshot",
        "clockwork fake clock semantics (timer fires when now >= deadline; non-positive duration fires at once)",
        "slices.SortFunc is stable for the <= 12 attester duties per answer the driver generates (insertion sort)",
        "model CharonV/Model/SchedHead.lean mirrors HandleHeadEvent, the attester branch of the trigger goroutine with waitForEarlyFetchOrTimeout, trimDuties' feature test, trimEventTriggeredAttestations, GetDutyDefinition with getEpochResolvedChan; tied by the same stream (ops head / fire / advl / getdef / probe: FetchOnly calls with arguments and definition sets, keys of eventTriggeredAttestations and parked triggers after every op, delivery instants)",
        "hook core/scheduler/verif_export_head.go (build tag verif): read-only keys of eventTriggeredAttestations and epochResolved",
        "with a flag on the scheduler gets a clock whose After (called only by waitForEarlyFetchOrTimeout) parks the attester trigger goroutine under the harness' control; the code computes that duration with the wall clock (time.Until) although the timer runs on s.clock, so the harness recovers the deadline by adding the wall clock back: exact inside a window bounded by the wall-clock instants before the tick and at the call (snapped to 1/3 slot + k ms; the specified deadline is taken when it lies in the window, so a 1 ms deviation can go unnoticed in the ~4% of waits whose window is wider than 1 ms)",
        "goroutine interleaving on the head-event path is serialised by the harness: timers that are due run to completion before the next slot is handled (adv), or stay parked until a fire op (advl); GetDutyDefinition's wait is observed through the goroutine's wait state (runtime.Stack)",
    ],
    "assumptions": [
        "the eth2wrap client interface (CompleteValidators, Attester/Proposer/SyncComm DutiesCache) is an arbitrary oracle; what app/eth2wrap/cache.go returns for a given beacon node is covered by C20",
        "complete_after_resolve: the beacon node's successful answers for an epoch do not change between retries (Stable) and name only slots of the requested epoch (WellFormed); both stated as hypotheses",
        "no uint64 overflow (slots < 2^63); the real sleeping of delaySlotOffset is not covered; FetchSlotsConfig never fails inside trimEventTriggeredAttestations (it would skip the trim); definition sets always clone",
        "head-event path: what the fetcher does with an early fetch (core/fetcher attDataCache) is outside this property; the model is sequential: head events racing with a running resolveDuties are exercised by the op `headrace` (child process, 2000-2500 validators, 3-4 head-event goroutines, 16 epochs) only for survival of the process (monitor sched:head_event_races_resolve_fatal), every interleaving being acceptable to the model",
    ],
}

# In production the scheduler resolves duties through the duties cache of app/eth2wrap (C20): "a definition set equal
# to the beacon node's assignments" holds only if the cache answers what the node answers, also after a chain reorg
# invalidation (app.go subscribes Scheduler.HandleChainReorgEvent and DutiesCache.InvalidateCache to the same event).
# The cache's stream is part of this check with its answer-equality monitors.
ENTRY["streams"] = ENTRY["streams"] + [{"name": "cache", "drive": "drive-cache", "model": "drv-dutiescache", "reset_ops": ["cfg"],
                                        "n_quick": 30000, "seeds_quick": 1, "n_thorough": 300000, "seeds_thorough": 2, "search_seeds": 1}]
ENTRY["monitor_sigs"] = list(ENTRY.get("monitor_sigs") or ["sched:"]) + ["dutiescache:stale_after_invalidate", "dutiescache:answer_differs", "dutiescache:"]

# The validator cache (app/eth2wrap/cache.go ValidatorCache) decides in production which validators the scheduler
# sees as active: model Model/ValCache.lean, theorems Props/C15ValCache.lean, stream valcache (real cache wired as in
# app.go, the real Scheduler resolving through it).
from vlib import snippet_C15valcache as _vc
ENTRY["streams"] = ENTRY["streams"] + [_vc.STREAM]
ENTRY.setdefault("lean_props_extra", []).append(_vc.EXTRA_LEAN)
ENTRY["monitor_sigs"] = ENTRY["monitor_sigs"] + _vc.MONITOR_SIGS
ENTRY["trusted_base"] = ENTRY["trusted_base"] + _vc.TRUSTED_BASE
ENTRY["assumptions"] = ENTRY["assumptions"] + _vc.ASSUMPTIONS + [
    "the validator cache hands out its own maps (no caller in /repo writes into them); a hostile caller is outside C15's quantifier: "
    "the model follows the code as it is (taint), the driver counts such episodes as observed:shared_map_mutated and does not report "
    "them; candidate hardening fixes/C15-valcache-clone.diff (theorem hit_returns_same_fixed)"]
ENTRY["level_text"] += _vc.LEVEL_TEXT

# Fifth session: Run itself — waitChainStart / waitBeaconSync, the slot ticker hand-over, the select over ticks / stop, slot
# subscribers, the builder-registration submission once per epoch — on top of Model/Sched.lean: Model/SchedRun.lean, theorems
# Props/C15Run.lean, stream schedrun (the real Run() in its own goroutine, every blocking point a gate answered by the next op).
from vlib import snippet_C15run as _sr
ENTRY["streams"] = ENTRY["streams"] + [_sr.STREAM]
ENTRY.setdefault("lean_props_extra", []).append(_sr.EXTRA_LEAN)
if ENTRY.get("monitor_sigs"):
    ENTRY["monitor_sigs"] = ENTRY["monitor_sigs"] + [m for m in _sr.MONITOR_SIGS if m not in ENTRY["monitor_sigs"]]
ENTRY["trusted_base"] = ENTRY["trusted_base"] + _sr.TRUSTED_BASE
ENTRY["assumptions"] = ENTRY["assumptions"] + _sr.ASSUMPTIONS + list(getattr(_sr, "OBSERVATIONS", []))
ENTRY["level_text"] += _sr.LEVEL_TEXT
