"""C15 — scheduler (core/scheduler/scheduler.go, offset.go)."""

ENTRY = {
    "lean_props": "CharonV.Props.C15",
    "streams": [
        {"name": "sched", "drive": "drive-sched", "model": "drv-sched",
         "reset_ops": ["cfg"],
         "n_quick": 30000, "seeds_quick": 2, "n_thorough": 200000, "seeds_thorough": 8, "search_seeds": 2},
    ],
    "level_text": "Kernel-checked Lean theorems over every beacon-node oracle (each call may fail or answer anything), every configuration, every clock value at which the ticker starts and every finite sequence of clock advances (all missed-tick patterns) and chain-reorg events: no duty (slot,type) is triggered twice and slots are handled in strictly increasing order; every triggered definition is an assignment the beacon node already gave for that slot and duty type to a validator it named as an active cluster validator with that pubkey; every trigger carries not-before = slot start + offset(type) (1/3, 2/3, 2/3, else 0); if the slot's epoch is resolved when the slot is handled and the beacon node's answers for an epoch do not change between retries, every assignment of that slot is triggered with a definition set equal to the beacon node's assignments restricted to active cluster validators. The model is tied to core/scheduler by lock-step differential correspondence with the real Scheduler, the real newSlotTicker under a fake clock and the real delaySlotOffset over a scripted beacon node.",
    "level_note": "Trusted: Lean kernel, the Go correspondence harness and line driver, clockwork fake-clock semantics; Run()'s select loop is replaced by the harness handing each slot of the real ticker to emitCoreSlot+scheduleSlot (hook HandleSlotVerif); goroutine timing of the asynchronous trigger is abstracted (the delay function is injected and records the not-before instant).",
    "trusted_base": [
        "model CharonV/Model/Sched.lean mirrors scheduleSlot, resolveDuties, resolveAtt/Pro/SyncCommDuties, setDutyDefinition, trimDuties, HandleChainReorgEvent, delaySlotOffset/slotOffsets, newSlotTicker; tied by lock-step correspondence (triggers with definition sets and not-before instants, resolvedEpoch, sizes of duties/dutiesByEpoch after every op)",
        "hook core/scheduler/verif_export.go (build tag verif): constructor with fake clock and injectable delay function, newSlotTicker, per-slot handler = body of Run's loop, read-only snapshot",
        "clockwork fake clock semantics (timer fires when now >= deadline; non-positive duration fires at once)",
        "slices.SortFunc is stable for the <= 12 attester duties per answer the driver generates (insertion sort)",
    ],
    "assumptions": [
        "the eth2wrap client interface (CompleteValidators, Attester/Proposer/SyncComm DutiesCache) is an arbitrary oracle; what app/eth2wrap/cache.go returns for a given beacon node is covered by C20",
        "complete_after_resolve: the beacon node's successful answers for an epoch do not change between retries (Stable) and name only slots of the requested epoch (WellFormed); both stated as hypotheses",
        "no uint64 overflow (slots < 2^63); FetchAttOnBlock* feature flags off (default); SSE-triggered early fetch and the real sleeping of delaySlotOffset are not covered",
    ],
}

# In production the scheduler resolves duties through the duties cache of app/eth2wrap (C20): "a definition set equal
# to the beacon node's assignments" holds only if the cache answers what the node answers, also after a chain reorg
# invalidation (app.go subscribes Scheduler.HandleChainReorgEvent and DutiesCache.InvalidateCache to the same event).
# The cache's stream is part of this check with its answer-equality monitors.
ENTRY["streams"] = ENTRY["streams"] + [{"name": "cache", "drive": "drive-cache", "model": "drv-dutiescache", "reset_ops": ["cfg"],
                                        "n_quick": 30000, "seeds_quick": 1, "n_thorough": 300000, "seeds_thorough": 2, "search_seeds": 1}]
ENTRY["monitor_sigs"] = list(ENTRY.get("monitor_sigs") or ["sched:"]) + ["dutiescache:stale_after_invalidate", "dutiescache:answer_differs", "dutiescache:"]
