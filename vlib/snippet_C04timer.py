"""C04 addition: round-timer stream + theorems. NOT a registry entry (the lead owns C04's ENTRY).

File name: deliberately not `props_C*.py` — `vlib/props.py` imports every `props_C*.py` and reads
`ENTRY` from it, so a snippet under that pattern would break the registry import.

To wire into C04's entry:
    ENTRY["streams"].append(STREAM)
    ENTRY.setdefault("lean_props_extra", []).append(EXTRA_LEAN)
    ENTRY["monitor_sigs"] += MONITOR_SIG_PREFIXES          (only if C04 filters by `monitor_sigs`)
    ENTRY["trusted_base"] += TRUSTED_BASE ; ENTRY["assumptions"] += ASSUMPTIONS
and the lakefile already has `[[lean_exe]] name = "drv-roundtimer"`.
"""

STREAM = {
    "name": "roundtimer",
    "drive": "drive-timer",
    "model": "drv-roundtimer",
    # every op line is self-contained (fresh timer objects and fake clocks per op)
    "reset_ops": ["t", "sel"],
    "n_quick": 5000, "seeds_quick": 1,          # ~1.5 s of driver time per 5000 ops
    "n_thorough": 200000, "seeds_thorough": 4,  # ~1 min per seed
}

EXTRA_LEAN = "CharonV.Props.C04Timer"

# monitor signatures emitted by drive-timer
MONITOR_SIG_PREFIXES = ["timer:"]
MONITOR_SIGS = [
    "timer:fires_early",           # measured duration < independently recomputed expectation
    "timer:fires_late",            # measured duration > expectation (or never fires)
    "timer:not_aligned",           # eager type with genesis+slotDuration: two members' first calls for a round fire at different absolute instants
    "timer:no_doubling",           # eager type: repeated Timer(round) does not move the deadline past the first one
    "timer:wrong_selection",       # GetRoundTimerFunc picks another timer type than the feature flags say
    "timer:measure_inconsistent",  # harness self-check: live object vs replayed object disagree
]

TRUSTED_BASE = [
    "model CharonV/Model/RoundTimer.lean mirrors core/consensus/timer/roundtimer.go (three Timer methods, firstDeadlines, "
    "getDutyStartDelayWithDuration, GetRoundTimerFunc selection, constants); tied by stream `roundtimer`: real timers on "
    "clockwork fake clocks, per-call fire delay measured by binary search over clock advances on replayed objects, "
    "ProposalTimeout / linear / eager_double_linear switched through featureset.Init",
    "clockwork fake clock semantics (a timer fires when the clock reaches its expiry; non-positive duration fires at once)",
]

ASSUMPTIONS = [
    "round timers: no int64 overflow (slot * slotDuration and round * 1 s stay below 2^63 ns), rounds >= 1, slotDuration >= 0",
    "round timers: the two clock.Now() reads inside doubleEagerLinearRoundTimer.Timer return the same instant (true for the fake clock; "
    "under the real clock they differ by a few instructions)",
    "three_delays_fit for the aligned eager type is partial: it needs the first Timer(r) call to come at least 1 s before the aligned "
    "end of round r; after a doubled round r expires, rounds r+1..2r get no time (eager_skipped_rounds, kernel-checked witness)",
]
