"""Translator T-wire for C18 (and C01): regenerate lean/CharonV/Generated/Wire.lean from core/interfaces.go.

`wire(bindir) -> (ok, log)`; the Go tool `trans-wire` (listed in ENTRY["go_tools"], built by check
into `bindir`) parses func Wire of $VERIF_REPO/core/interfaces.go with go/ast and fails closed on
any statement shape it does not understand."""
import os, subprocess
from vlib import core


def wire(bindir):
    exe = os.path.join(bindir, "trans-wire")
    out = os.path.join(core.LEAN, "CharonV", "Generated", "Wire.lean")
    os.makedirs(os.path.dirname(out), exist_ok=True)
    if not os.path.exists(exe):
        return False, "trans-wire was not built"
    with core.LeanLock():  # do not swap the file under a concurrent lake build
        p = subprocess.run([exe, "-repo", core.REPO, "-out", out], stdout=subprocess.PIPE,
                           stderr=subprocess.STDOUT, text=True, timeout=300)
    return p.returncode == 0, p.stdout
