"""Translator T-signeddata for C14 (consequences for C09/C10): regenerate lean/CharonV/Generated/SignedData.lean.

`signeddata(bindir) -> (ok, log)`; the Go tool `trans-signeddata` (listed in ENTRY["go_tools"], built by check into
`bindir`) type-checks package core (plus eth2util and go-eth2-client/spec, whose accessors some methods delegate
to) with go/packages, finds every implementation of core.SignedData and core.UnsignedData with go/types, interprets
the bodies of Signature / SetSignature / MessageRoot / Clone / clone / MarshalJSON / UnmarshalJSON per fork version
with a closed set of statement shapes and fails closed on anything else."""
import os, subprocess
from vlib import core


def signeddata(bindir):
    exe = os.path.join(bindir, "trans-signeddata")
    out = os.path.join(core.LEAN, "CharonV", "Generated", "SignedData.lean")
    os.makedirs(os.path.dirname(out), exist_ok=True)
    if not os.path.exists(exe):
        return False, "trans-signeddata was not built"
    with core.LeanLock():  # do not swap the file under a concurrent lake build
        p = subprocess.run([exe, "-repo", core.REPO, "-out", out], stdout=subprocess.PIPE,
                           stderr=subprocess.STDOUT, text=True, timeout=600, env=dict(core.GOENV))
    if p.returncode != 0 and os.path.exists(out):
        os.remove(out)  # fail closed: a stale table must not keep the theorems true
    return p.returncode == 0, p.stdout
