#!/usr/bin/env python3
"""Regenerate MANIFEST.json from the registry (vlib/props.py) and properties.jsonl."""
import json, os, subprocess, sys
sys.path.insert(0, os.path.dirname(os.path.dirname(os.path.abspath(__file__))))
from vlib.props import PROPS, NOT_APPLICABLE
VERIF = os.path.dirname(os.path.dirname(os.path.abspath(__file__)))
ids = [json.loads(l)["id"] for l in open(os.path.join(VERIF, "properties.jsonl"))]
hooks = subprocess.run(["git", "-C", "/repo", "log", "--format=%H %s", "--grep=^verif hook"], capture_output=True, text=True).stdout.strip().split("\n")
baseline = json.load(open("/root/.vp/BASELINE.json"))["cmd"]
checks = []
for pid in ids:
    if pid not in PROPS:
        continue
    P = PROPS[pid]
    checks.append({
        "property_id": pid,
        "quick_cmd": f"./check {pid} --tier quick",
        "thorough_cmd": f"./check {pid} --tier thorough",
        "evidence_file": f"/verif/evidence/{pid}.json",
        "replay_cmd_template": f"./check {pid} --replay {{path}}",
        "engine": "lean4-proof+correspondence",
        "level_claimed": {"category": P.get("level", "proof"), "text": P["level_text"], "design_ref": P.get("design_ref", "DESIGN.md §6 " + pid)},
        "level_note": P["level_note"],
        "technique": P.get("technique", "Lean 4 theorems over an executable model; model tied to the Go code by differential correspondence"),
    })
na = [{"property_id": pid, "reason": NOT_APPLICABLE.get(pid, "no check registered yet; see DESIGN.md")} for pid in ids if pid not in PROPS]
m = {
    "version": 1,
    "setup_cmd": "./check --setup",
    "hooks": {
        "guard": "verif",
        "enable": "go build -tags verif (files named verif_export.go with //go:build verif; add-only exports of unexported entry points)",
        "baseline_off_cmd": baseline,
        "source_commits": [h.split()[0] for h in hooks if h],
        "add_only": True,
    },
    "engines": [{"name": "lean4-proof+correspondence", "path": "/verif/check",
                 "serves_properties": [c["property_id"] for c in checks],
                 "kind_free_text": "Lean 4 (kernel-checked theorems over executable models in /verif/lean) + Go correspondence harness (/verif/harness) driving the real code and the compiled model on the same op streams, with property monitors on the implementation trace"}],
    "checks": checks,
    "notes": "Every check rebuilds the Go harness against /repo's working tree with -tags verif, regenerates translated Lean facts, re-checks the property theorems (lake build + #print axioms audit) and runs the correspondence streams. See DESIGN.md.",
    "not_applicable": na,
}
json.dump(m, open(os.path.join(VERIF, "MANIFEST.json"), "w"), indent=1)
print("checks:", [c["property_id"] for c in checks], "not_applicable:", len(na))
