"""Snippet for the lead to wire into C19: the fork-join under provide / submit (app/forkjoin/forkjoin.go: New with
WithWorkers / WithInputBuffer / WithoutFailFast / WithWaitOnCancel, Fork, Join, the cancel func, Results.Flatten,
NewWithInputs) — one more correspondence stream and one more Lean module of property theorems, which replace the
assumption of props_C19.py "results reach the loop in completion order (one forkjoin worker per node, unbuffered
result channel); simultaneous completions are some order". Not a registry entry by itself (not named props_C*.py).

Wiring: append STREAM to ENTRY["streams"], append EXTRA_LEAN to ENTRY["lean_props_extra"] (its theorems are audited
like those of Props/C19.lean), add MONITOR_SIGS to ENTRY["monitor_sigs"], extend trusted_base / assumptions with the
lines below, and REPLACE the first line of ENTRY["assumptions"] by ASSUMPTION_REPLACEMENT. lean_exe `drv-forkjoin` is
already in lakefile.toml. No hook in /repo is needed (the package's API is exported and generic).

NOTE (lead): nothing in forkjoin.go violates C19 or the six statements asked for. Three observations, modelled as the
code is, proved, counted by the driver as observed:* and not reported as violations (candidate hardening:
fixes/C19-forkjoin-cancel-idempotent.diff):
  * forkjoin.go itself gives NO order guarantee for results (enqueue starts a goroutine per result; not even the results
    of one worker keep their order: no_per_worker_fifo_witness). Completion order = receive order holds exactly when the
    channel serves parked senders first-in first-out (Go's runtime does; theorem fifo_delivery_is_completion_order; monitor
    forkjoin:order_violates_completion_order judges the real runtime). Props/C19.lean needs no order: its theorems hold for
    every order of `rel` events, and provide_loop_receives_every_client_once / provide_events_are_each_client_once show the
    received results are such an event list.
  * the cancel func is typed context.CancelFunc but panics on its second call (double_cancel_panics; observed:second_cancel_panics);
    every caller in /repo calls it once.
  * WithWaitOnCancel: cancel() before Join blocks until Join is called (wait_on_cancel_needs_join; observed:cancel_waits_for_join);
    a forkjoin that is cancelled but never joined leaks its workers (dkg/bcast/client.go returns between New and Join when
    signing fails). Flatten's doc comment ("the error that triggered the fail fast") is imprecise
    (flatten_error_need_not_be_the_trigger_witness).
"""

STREAM = {"name": "forkjoin", "drive": "drive-forkjoin", "model": "drv-forkjoin",
          "reset_ops": ["new", "nwi"],
          "n_quick": 30000, "seeds_quick": 2, "n_thorough": 200000, "seeds_thorough": 6,
          "search_seeds": 2}

EXTRA_LEAN = "CharonV.Props.C19ForkJoin"

MONITOR_SIGS = ["forkjoin:"]

THEOREMS = [
    "CharonV.ForkJoin.each_forked_input_exactly_one_result",
    "CharonV.ForkJoin.without_fail_fast_results_are_work_outcomes",
    "CharonV.ForkJoin.work_result_is_the_answer",
    "CharonV.ForkJoin.join_then_reading_receives_everything_once",
    "CharonV.ForkJoin.progress_terminates",
    "CharonV.ForkJoin.received_only_after_completed",
    "CharonV.ForkJoin.fifo_delivery_is_completion_order",
    "CharonV.ForkJoin.lone_sender_is_next",
    "CharonV.ForkJoin.no_per_worker_fifo_witness",
    "CharonV.ForkJoin.no_deadlock",
    "CharonV.ForkJoin.worker_never_blocks_on_consumer",
    "CharonV.ForkJoin.queued_input_is_taken",
    "CharonV.ForkJoin.stuck_only_if_consumer_stopped",
    "CharonV.ForkJoin.fail_fast_cancels_on_error",
    "CharonV.ForkJoin.no_work_starts_after_cancel",
    "CharonV.ForkJoin.ctx_error_is_sticky",
    "CharonV.ForkJoin.skipped_and_aborted_results",
    "CharonV.ForkJoin.fail_fast_error_implies_cancelled",
    "CharonV.ForkJoin.flatten_spec",
    "CharonV.ForkJoin.flatten_nil_iff_all_succeeded",
    "CharonV.ForkJoin.flatten_error_need_not_be_the_trigger_witness",
    "CharonV.ForkJoin.cancel_lets_honouring_work_return",
    "CharonV.ForkJoin.cancel_cancels",
    "CharonV.ForkJoin.cancel_closes_without_consumer",
    "CharonV.ForkJoin.no_send_on_closed_channel",
    "CharonV.ForkJoin.closed_only_after_join",
    "CharonV.ForkJoin.double_cancel_panics",
    "CharonV.ForkJoin.wait_on_cancel_needs_join",
    "CharonV.ForkJoin.provide_every_client_has_a_worker",
    "CharonV.ForkJoin.provide_loop_receives_every_client_once",
    "CharonV.ForkJoin.provide_loop_sees_completion_order",
    "CharonV.ForkJoin.provide_events_are_each_client_once",
    "CharonV.ForkJoin.provide_cancel_reaches_the_loop",
    "CharonV.ForkJoin.new_with_inputs_forks_all_then_joins",
]

LEVEL_TEXT = (" The fork-join underneath (app/forkjoin/forkjoin.go) is no longer assumed: Props/C19ForkJoin.lean proves over an "
    "executable small-step model of New / Fork / Join / cancel / Flatten / NewWithInputs — every number of workers >= 1, every "
    "input buffer, fail-fast and wait-on-cancel on or off, every input, every answer of every work function, every set of work "
    "functions honouring their context, every schedule (any list of Fork calls, worker receives, work-function returns, consumer "
    "receives from any blocked sender, drops, Join, shutdown, cancel(), end of the caller's context; a disabled event is a no-op) "
    "— that (1) when the results channel is closed and cancel() was not called, every input the channel accepted has exactly one "
    "result (multiset equality; nothing lost, nothing duplicated, no sender left), without fail-fast each carrying its input and "
    "its work function's own answer, and from every joined state a reading consumer reaches that close within `measure` progress "
    "events, every progress event decreasing the measure (each_forked_input_exactly_one_result, "
    "without_fail_fast_results_are_work_outcomes, work_result_is_the_answer, join_then_reading_receives_everything_once, "
    "progress_terminates); (2) a result is received only after it was produced and at most once, in completion order whenever "
    "blocked senders are served first-in first-out — the code itself guarantees no order, not even per worker "
    "(received_only_after_completed, fifo_delivery_is_completion_order, lone_sender_is_next, no_per_worker_fifo_witness); (3) no "
    "deadlock: joined and not closed implies an enabled progress event, workers never wait for the consumer, a queued input is "
    "taken before Join too, and if only a receive can still happen then every worker has returned and what is left are blocked "
    "sender goroutines (no_deadlock, worker_never_blocks_on_consumer, queued_input_is_taken, stuck_only_if_consumer_stopped); "
    "(4) fail-fast cancels the worker context in the step of the first error, after which no work function is started and "
    "every received input yields (input, zero, ctx error) — still exactly one result per input —, Flatten returns all outputs "
    "in receive order and the first non-cancellation error in receive order, else a cancellation error, else nil, nil exactly "
    "when every work function succeeded (fail_fast_cancels_on_error, no_work_starts_after_cancel, skipped_and_aborted_results, "
    "flatten_spec, flatten_nil_iff_all_succeeded; not necessarily the triggering error: "
    "flatten_error_need_not_be_the_trigger_witness); (5) after Join and cancel() the channel closes by internal events alone "
    "if the running work functions honour their context, no goroutine ever sends on the closed channel, it is closed only "
    "after Join with every accepted input received or dropped, WithWaitOnCancel returns exactly at that close "
    "(cancel_closes_without_consumer, no_send_on_closed_channel, closed_only_after_join, wait_on_cancel_needs_join; second "
    "cancel / second Join / Fork after Join panic: double_cancel_panics); (6) for forkjoin.New(WithoutFailFast, "
    "WithWorkers(len(clients))) as provide uses it: every forked client has a free worker at once, the loop receives only "
    "clients' own answers, each client at most once, exactly len(clients) when the channel closes and it does not close "
    "before, as a list of `rel` events of Model/Provide.lean a permutation of the clients, and a request honouring its context "
    "is receivable right after the caller's context ends (provide_every_client_has_a_worker, "
    "provide_loop_receives_every_client_once, provide_loop_sees_completion_order, provide_events_are_each_client_once, "
    "provide_cancel_reaches_the_loop); NewWithInputs forks all inputs in order and joins whatever happens in between "
    "(new_with_inputs_forks_all_then_joins). Tied by stream forkjoin: the real generic New / NewWithInputs with every option "
    "combination, 1..8 workers (and the default), buffers 0/1/2/3/5/default, 0..12 inputs, scripted work functions released "
    "one at a time with any answer (nil / error / cancellation-class / deadline-class error), Fork after Join, second Join / "
    "cancel, cancel and root-context cancellation or deadline at every position, single receives, Flatten, consumers that stop, "
    "driven in lock-step (one forced event per op, then a stop-the-world goroutine snapshot in which every goroutine is parked).")

ASSUMPTION_REPLACEMENT = (
    "the order in which the result loop of runForkJoin receives the clients' results is the order of Model/Provide.lean's `rel` "
    "events; forkjoin.go gives no order guarantee (Props/C19ForkJoin.lean: no_per_worker_fifo_witness), none is needed: the "
    "theorems of Props/C19.lean hold for every order, and provide_loop_receives_every_client_once / "
    "provide_events_are_each_client_once show that the received results are a duplicate-free list of the forked clients' own "
    "outcomes; they are in completion order whenever Go's runtime serves parked senders first-in first-out "
    "(fifo_delivery_is_completion_order; what the `provide` stream enforces by receiving each completion before the next)")

TRUSTED_BASE = [
    "model CharonV/Model/ForkJoin.lean mirrors app/forkjoin/forkjoin.go goroutine by goroutine: Fork = wg.Add + select{send | "
    "rootCtx.Done} + wg.Done if not added (blocked call as state, select's random pick as event parameter), worker loop = receive, "
    "skip with (in, zero, workCtx.Err()) if the worker context is cancelled, else work, cancelWorkers on error if fail-fast, enqueue; "
    "enqueue = one goroutine per result doing select{results <- r | <-dropOutput} then wg.Done; Join = close(input) + goroutine "
    "wg.Wait, close(results), close(done); cancel = close(dropOutput), cancelWorkers, <-done if waitOnCancel; Flatten's loop "
    "literally. Atomicity: receive + context check; work return + cancelWorkers + start of the sender goroutine; close(results) + "
    "close(done). Tied by lock-step correspondence stream forkjoin: after every op the set of inputs inside the work function, "
    "whether a Fork / NewWithInputs / cancel call is blocked, what the consumer received (input, source: work answer / context error "
    "returned by work / never started, output, error class) or that it saw the close, what Flatten returned, the panics, and the "
    "number of live goroutines running or created by forkjoin code (workers + blocked senders + shutdown goroutine + blocked callers) "
    "are compared",
    "quiescence: an op's observation is taken when every goroutine of the driver process except the driver's own is parked in a "
    "channel operation, select, sync wait or sleep in one runtime.Stack(all) snapshot (stop-the-world); five of six episodes run with "
    "GOMAXPROCS(1), the sixth with 4",
    "choices Go leaves to its runtime are observed and written into the op line, the model must explain them (`impossible` "
    "otherwise): which blocked sender a receive was matched with (` ~ got=`), which ready case the select of a Fork took when the "
    "root context was done too (` ~ fp=`, seen through a one-token channel handed out by the scripted root context's Done()), the "
    "order of the outputs Flatten returned (` ~ ord=`; results that reached Flatten in one op may be in any order, across ops in op "
    "order; a result produced after cancel() while Flatten reads may or may not have reached it). The model side applies the op's "
    "event and then enabled internal events (take by the lowest idle worker, abort, delivery to a waiting consumer, drop, close, next "
    "call of a NewWithInputs in progress) until none is enabled; only Model.step changes the model state",
    "the scripted work function: blocks on a per-input gate, inputs with an odd id also return (0, ctx.Err()) when their context is "
    "done; outputs of released work functions are unique and >= 1, so Flatten's outputs identify their results; the scripted root "
    "context implements context.Context itself (Done / Err; cancellation or deadline error), forkjoin's worker context is a real "
    "context.WithCancel child of it",
    "monitors (independent of the model, on the real trace): result_lost, result_duplicated, result_wrong_input, result_wrong_outcome "
    "(identity of the error the work function returned), result_before_completion, input_processed_twice, dropped_input_processed, "
    "work_called_with_unknown_input, work_started_after_cancel, input_skipped_without_cancel, workers_exceed_limit, deadlock (an "
    "accepted input is not started although a worker is idle and nothing is cancelled; or: joined, consumer reading, no work function "
    "running, results outstanding, nothing arrives), channel_not_closed, closed_before_join, closed_while_work_running, "
    "order_violates_completion_order (a result whose work function returned in a later op received before one that returned in an "
    "earlier op, no cancel(): judges forkjoin.go plus the runtime's first-in first-out service of parked senders), "
    "worker_context_not_cancelled / worker_context_cancelled_unprompted (fail-fast, cancel, root cancel vs. the contexts the work "
    "functions hold), cancel_returned_before_workers_done, cancel_never_returns, cancel_blocked_without_wait_option, "
    "fork_blocked_after_root_cancel, fork_after_join_no_panic, double_join_no_panic, unexpected_panic, flatten_wrong_outputs, "
    "flatten_wrong_error, goroutine_leak (after every gate is opened, Join and cancel: no forkjoin goroutine may be left)",
]

ASSUMPTIONS = [
    "work functions are black boxes that return when their gate opens (or their context ends, if they honour it): termination of "
    "the work functions and a consumer that keeps receiving are the two fairness assumptions of the liveness theorems "
    "(join_then_reading_receives_everything_once exhibits the schedule and progress_terminates bounds every schedule; "
    "stuck_only_if_consumer_stopped and cancel_closes_without_consumer say what happens without them)",
    "Fork and Join are called from one goroutine (a Fork call is an event only when no other Fork is blocked; Join under a blocked "
    "Fork of another goroutine is modelled: that Fork panics); cancel() and the end of the root context may come from anywhere at any "
    "time; a WaitGroup misuse panic from a Fork racing with the shutdown goroutine's Wait after Join is not modelled (Fork after Join "
    "panics anyway)",
    "WithWorkers(0) / negative (no worker: nothing is ever processed) and a negative WithInputBuffer (make panics) are outside the "
    "theorems (hypothesis 1 <= workers) and not generated",
    "by design, not violations: the second call of the cancel func panics (double_cancel_panics; observed:second_cancel_panics), "
    "WithWaitOnCancel's cancel() before Join blocks until Join (wait_on_cancel_needs_join; observed:cancel_waits_for_join), cancel "
    "without Join leaves the workers waiting on the input channel for ever; candidate hardening fixes/C19-forkjoin-cancel-idempotent.diff",
    "the stream never issues cancel of the root context while a NewWithInputs call is still inside a Fork, or while a Fork is blocked "
    "and a running work function honours its context (the blocked select's pick would be unobservable); every other interleaving of "
    "the ops is generated",
]
