"""Snippet for the lead to wire into C01: the PRODUCTION WIRING in app/app.go (`Run`, `wireCoreWorkflow`,
`wirePrioritise`, `newTracker`), `consensus.NewConsensusController` and `cluster.Definition.NodeIdx` — the
facts C01's model and drivers silently assume about how the shipped binary assembles the core workflow. One
more translator (regenerated on every run, fails closed) and one more Lean module of property theorems decided
by the kernel over the regenerated table. No correspondence stream, no hook in /repo. Not a registry entry by
itself (not named props_C*.py).

Wiring (in vlib/props_C01.py, same pattern as snippet_C01bcast / props_C10's translator):

    from vlib import snippet_C01wire as _cw
    ENTRY.setdefault("go_tools", []).append(_cw.GO_TOOL)           # built by check and by ./check --setup
    ENTRY.setdefault("translators", []).append(_cw.TRANSLATOR)     # run by check and by ./check --setup: writes
                                                                   # lean/CharonV/Generated/AppWire.lean (not committed)
    ENTRY.setdefault("lean_props_extra", []).append(_cw.EXTRA_LEAN)  # theorems audited like those of Props/C01.lean
    ENTRY["trusted_base"] = ENTRY["trusted_base"] + _cw.TRUSTED_BASE
    ENTRY["assumptions"] = ENTRY["assumptions"] + _cw.ASSUMPTIONS
    ENTRY["level_text"] = ENTRY["level_text"] + " " + _cw.LEVEL_TEXT

lean/CharonV/Props/C01Wire.lean imports CharonV.Generated.AppWire, and lean/lakefile.toml globs CharonV.+ : the
generated file must exist before `lake build CharonV` (./check --setup runs the translators of every ENTRY first,
so wiring TRANSLATOR is enough). Cost: translator ~1 s (go/packages over the build cache), Lean ~10 s when the
table changed, nothing otherwise.
"""
from vlib.trans_appwire import appwire

GO_TOOL = "trans-appwire"

TRANSLATOR = appwire

EXTRA_LEAN = "CharonV.Props.C01Wire"

THEOREMS = [
    "CharonV.AppWire.thresholds_agree",
    "CharonV.AppWire.verifier_is_real",
    "CharonV.AppWire.gater_wired",
    "CharonV.AppWire.single_instances_wired",
    "CharonV.AppWire.share_index_arithmetic",
    "CharonV.AppWire.every_store_has_deadliner",
]

LEVEL_TEXT = (
    "The production wiring is covered too: translator T-appwire (harness/cmd/trans-appwire, go/packages, type-checked, "
    "fails closed) regenerates from app/app.go, core/consensus/controller.go and cluster/definition.go every call of a "
    "constructor of the core workflow with its arguments and enclosing conditions, every assignment to the variables those "
    "arguments are made of, the writes that build the share maps, every use of the component / gater / deadliner / NodeIdx "
    "variables and the call sites of core.Wire; Props/C01Wire.lean decides over that table: parsigdb, sigagg and the priority "
    "protocol get the one expression lock.Threshold of the never-reassigned lock loaded by loadClusterLock (thresholds_agree); "
    "sigagg gets sigagg.NewVerifier(eth2Cl), parsigex gets NewEth2Verifier over a map built only from lock.Validators[].PubShares "
    "unless conf.TestConfig.ParSigExFunc is set, which the wiring itself never sets, the validator API is built by the secure "
    "NewComponent unconditionally (verifier_is_real); the one core.NewDutyGater result reaches parsigex, the consensus controller "
    "and through it qbft.NewConsensus, and the priority protocol (gater_wired); core.Wire is referred to in app/app.go only, "
    "called once, over the instances constructed once each, the Broadcaster and ParSigEx have no other user, sigagg's only "
    "extra subscriber is the test-config BroadcastCallback (single_instances_wired); ShareIdx = PeerIdx + 1 in "
    "cluster.Definition.NodeIdx, the share maps are keyed i+1, ShareIdx goes to the validator API and PeerIdx to the exchange "
    "(share_index_arithmetic); dutydb, parsigdb and both aggsigdb variants get a core.NewDeadliner over the duty deadline "
    "function (every_store_has_deadliner). 35 hand-made mutants of the three files (threshold - 1, cluster.Threshold(len(..)), "
    "group keys instead of shares, NewComponentInsecure, literal gater, index without + 1, second Wire / second Broadcast "
    "feeder, shadowed / aliased / overwritten lock, constructor via function value, ...) each make a theorem false or the "
    "translator refuse; four behaviour-preserving edits (import alias, reflowed call, unrelated statements, a new err "
    "shadow) leave every theorem true."
)

TRUSTED_BASE = [
    "translator trans-appwire (go/packages type information of packages app, core/consensus, cluster; build tag verif off, so "
    "hooks are not part of what is read): lists every call of a function named New* / Wire of package core and core/{parsigdb, "
    "sigagg, parsigex, validatorapi, dutydb, aggsigdb, bcast, consensus, consensus/qbft, fetcher, scheduler, priority, tracker}, "
    "every call of a function of those three packages that contains such a call, every cluster.NodeIdx literal; per argument its "
    "normalised text (package qualifiers by declared package name, the k-th shadowing variable printed name'k, white space "
    "collapsed, texts over 150 characters cut and hashed); per variable occurring in those texts every assignment / range "
    "binding / ++ (with the enclosing if / else / range / func literal / guard conditions), address-of, field and index writes, "
    "aliases; every occurrence of component-, function-, map- and NodeIdx-typed variables; fails closed on a listed function "
    "used as a value, on type-switch bindings of needed variables, on type errors",
    "the Lean side compares texts as numbers (0x01 followed by the UTF-8 bytes, injective); the macro c!\"...\" of "
    "Props/C01Wire.lean computes that number for a literal at elaboration time (four instances are checked by `decide` in the file); "
    "the statements the kernel checks are the expanded ones",
]

ASSUMPTIONS = [
    "the wiring facts are per function plus the argument / parameter correspondence of the listed calls: what a callee does with "
    "a pointer it is handed (loadClusterLock's result, &conf in wireVAPIRouter beyond its own body, the lock inside "
    "NewBuilderRegistrationService) is not followed; values passed through struct fields, channels or package-level variables "
    "are not followed (a listed constructor stored in a variable makes the translator refuse)",
    "feature flags and test-config switches appear as named conditions, not as values: under conf.TestConfig.ParSigExFunc != nil "
    "the exchange is whatever the test supplies (no verifier, no gater) and under conf.TestConfig.BroadcastCallback != nil sigagg "
    "has a second subscriber; featureset.AggSigDBV2 selects the aggregate store variant (both get a deadliner); SimnetBMock / "
    "SimnetBMockFuzz select the beacon client inside newETH2Client, which is not analysed (eth2Cl is 'the first result of "
    "newETH2Client', submissionEth2Cl the second)",
    "that lock.Threshold equals cluster.Threshold(len(operators)) for the lock at hand is not a wiring fact (C12 / lock "
    "verification); that core.Wire connects the components as the model says is T-wire's `wiring_is_pipeline` (C18 / C01), that "
    "NewComponent leaves insecureTest unset is T-vapi's shape row (C10); DKG code that builds cluster.NodeIdx literals (dkg/) is "
    "outside the scanned packages",
]
