"""Snippet for the lead to wire into C10 (with the 'callers receive private copies' clause of C20 for the duties
endpoints): what sits AROUND signature verification in core/validatorapi/validatorapi.go - the lookup tables built at
start-up (app/app.go wireCoreWorkflow: allPubSharesByKey / pubshares from the lock; validatorapi.NewComponent:
sharesByKey, keysByShare, sharesByCoreKey, coreSharesByKey and the closures getVerifyShareFunc / getPubShareFunc /
getPubKeyFunc) and the endpoints that swap keys (ProposerDuties, AttesterDuties, SyncCommitteeDuties, Validators /
convertValidators) - one more correspondence stream and one more Lean module of property theorems.
Not a registry entry by itself (not named props_C*.py).

Wiring: append STREAM to ENTRY["streams"], append EXTRA_LEAN to ENTRY["lean_props_extra"] (its theorems are audited
like those of Props/C10.lean), add MONITOR_SIGS to ENTRY["monitor_sigs"], extend trusted_base / assumptions with the
lines below. lean_exe `drv-vapimaps` is already in lakefile.toml; hook core/validatorapi/verif_export_vapimaps.go is
committed in /repo (5a2dfaa). KNOWN_FINDINGS is empty: no monitor fires on the unchanged tree.

NOTE (lead): three things the model states AS THE CODE IS, none of them a violation of C10 / C20 on the unchanged tree:
(a) NewComponent reads `shares[shareIdx]` from a Go map: a share index the lock does not have gives the all-zero key
    (own_share_out_of_range_is_zero), not an error; app.go's loop `val.PublicShare(nodeIdx.PeerIdx)` panics first for such
    a lock and cluster.Lock verification demands len(PubShares) == len(Operators), so the default is unreachable from
    app.go (own_share_agrees_with_app_pubshares); under the zero key nothing verifies (Model/Admit.verifyPartialSig);
(b) one public share listed as this node's share of TWO validators: keysByShare keeps the validator the Go map
    iteration reached last (duplicate_share_last_in_map_order_wins, inverse_depends_on_map_order_witness; observed in the
    stream as oracle ` ~ inv=` on the cfg line, about 4 per 1000 ops). Only `Validators` requests by public key use this
    map; signature verification does not;
(c) the duties endpoints WRITE the public share into the objects the provider handed over (duties_response_is_the_handed_objects,
    duties_write_into_provider_objects_witness, also on the error path: attester_error_leaves_prefix_rewritten_witness).
    This is harmless exactly because eth2wrap.DutiesCache hands out private copies (C20): the stream's mode `r` puts the
    REAL DutiesCache in front of the scripted beacon node, calls twice and reads the cache back - silent on /repo, fires
    (`vapimaps:bn_response_mutated`) when the cache's hit path is mutated to return pointers into its own slice.
"""

STREAM = {"name": "vapimaps", "drive": "drive-vapimaps", "model": "drv-vapimaps",
          "reset_ops": ["cfg"],
          "n_quick": 20000, "seeds_quick": 2, "n_thorough": 200000, "seeds_thorough": 6,
          "search_seeds": 2}

EXTRA_LEAN = "CharonV.Props.C10VapiMaps"

MONITOR_SIGS = ["vapimaps:"]

THEOREMS = [
    "CharonV.VapiMaps.app_table_keys_nodup",
    "CharonV.VapiMaps.app_table_lookup_last_wins",
    "CharonV.VapiMaps.app_table_lookup",
    "CharonV.VapiMaps.app_table_unknown",
    "CharonV.VapiMaps.all_share_is_lock_share",
    "CharonV.VapiMaps.all_share_out_of_range",
    "CharonV.VapiMaps.all_share_unknown",
    "CharonV.VapiMaps.admit_lock_pubshare",
    "CharonV.VapiMaps.app_pubshares_some_iff",
    "CharonV.VapiMaps.app_pubshares_eq",
    "CharonV.VapiMaps.lookups_order_independent",
    "CharonV.VapiMaps.own_share_is_lock_share",
    "CharonV.VapiMaps.own_share_unknown",
    "CharonV.VapiMaps.own_share_agrees_with_app_pubshares",
    "CharonV.VapiMaps.own_share_out_of_range_is_zero",
    "CharonV.VapiMaps.verify_share_matches_admit",
    "CharonV.VapiMaps.get_pubkey_sound",
    "CharonV.VapiMaps.inverse_iff_distinct",
    "CharonV.VapiMaps.duplicate_share_last_in_map_order_wins",
    "CharonV.VapiMaps.inverse_depends_on_map_order_witness",
    "CharonV.VapiMaps.get_pubkey_error",
    "CharonV.VapiMaps.duties_accept_iff",
    "CharonV.VapiMaps.duties_response",
    "CharonV.VapiMaps.duties_only_pubkey_changes",
    "CharonV.VapiMaps.duties_pubkey_is_lock_share",
    "CharonV.VapiMaps.proposer_passes_unknown_through",
    "CharonV.VapiMaps.attester_sync_reject_unknown",
    "CharonV.VapiMaps.duties_response_is_the_handed_objects",
    "CharonV.VapiMaps.duties_handed_only_key_written",
    "CharonV.VapiMaps.duties_write_into_provider_objects_witness",
    "CharonV.VapiMaps.attester_error_leaves_prefix_rewritten_witness",
    "CharonV.VapiMaps.second_pass_on_shared_objects_witness",
    "CharonV.VapiMaps.convert_accept_iff",
    "CharonV.VapiMaps.convert_result",
    "CharonV.VapiMaps.validators_rejects_foreign_share",
    "CharonV.VapiMaps.validators_share_roundtrip",
    "CharonV.VapiMaps.validators_all",
    "CharonV.VapiMaps.validators_uncached_single",
    "CharonV.VapiMaps.validators_cached_no_query",
    "CharonV.VapiMaps.validators_writes_caller_opts_witness",
]

KNOWN_FINDINGS = []

LEVEL_TEXT = (" The clause 'under the public key share recorded in the cluster lock for that validator and share index' also "
    "rests on the tables being the lock: Props/C10VapiMaps.lean proves over a model of app.go's table construction and "
    "validatorapi.NewComponent (Model/VapiMaps.lean), for every lock, every share index and every iteration order of the Go "
    "map: allPubSharesByKey[pk][i] is exactly the lock's i-th public share of that validator, an unknown validator or an index "
    "outside 1..n is an error (app_table_lookup, all_share_is_lock_share, all_share_out_of_range, all_share_unknown; "
    "admit_lock_pubshare ties this table to the Lock parameter of Model/Admit), getPubShareFunc / getVerifyShareFunc answer the "
    "lock's share of that validator at this node's index and nothing for a key outside the lock (own_share_is_lock_share, "
    "own_share_unknown, lookups_order_independent, verify_share_matches_admit), they agree with app.go's pubshares slice whenever "
    "that loop passed (own_share_agrees_with_app_pubshares; without it a missing index reads as the zero key: "
    "own_share_out_of_range_is_zero), and keysByShare is a true inverse iff this node's shares are pairwise distinct "
    "(inverse_iff_distinct, get_pubkey_sound; with a duplicate the last validator in map order wins: "
    "duplicate_share_last_in_map_order_wins, inverse_depends_on_map_order_witness). For the endpoints that swap keys: a duties "
    "response equals the provider's answer position by position in every field but the key, which becomes the lock's share of "
    "this node (duties_response, duties_only_pubkey_changes, duties_pubkey_is_lock_share), proposer duties of foreign validators "
    "pass through unchanged while attester / sync duties refuse the whole answer (proposer_passes_unknown_through, "
    "attester_sync_reject_unknown, duties_accept_iff), the writes go INTO the handed objects (duties_response_is_the_handed_objects, "
    "duties_handed_only_key_written) - which is why C20's private copies matter - and convertValidators re-keys copies, keeps "
    "every index and refuses a foreign share before asking the beacon node (convert_accept_iff, convert_result, "
    "validators_rejects_foreign_share, validators_share_roundtrip). Tied by stream vapimaps: the real NewComponent and endpoints "
    "on random and adversarial locks, the compiled model on the same ops.")

TRUSTED_BASE = [
    "model CharonV/Model/VapiMaps.lean mirrors app/app.go wireCoreWorkflow's loop over lock.Validators (allPubShares[i+1], "
    "val.PublicShare(nodeIdx.PeerIdx) with its index panic, allPubSharesByKey[corePubkey] = … as last-wins map assignment) and "
    "core/validatorapi/validatorapi.go NewComponent (one loop over the Go map filling sharesByKey / keysByShare / sharesByCoreKey / "
    "coreSharesByKey from shares[shareIdx] with the zero value for an absent index; getVerifyShareFunc, getPubShareFunc, "
    "getPubKeyFunc with the mismatch search over every share of every validator), ProposerDuties / AttesterDuties / "
    "SyncCommitteeDuties (nil check, lookup, `continue` for proposers vs error for attester and sync, the in-place write "
    "d.PubKey = pubshare, early return leaving a rewritten prefix, metadata passed for proposer / attester and dropped for sync), "
    "Validators (all-validators branch, getPubKeyFunc per requested share, CompleteValidators lookup, query for non-cached keys "
    "or any index with opts.PubKeys overwritten, maps.Copy, ignoreNotFound = no indices) and convertValidators (copy of the inner "
    "validator, first bad entry in map order is the error); keys are interned naturals (0 = all-zero key), all other fields of a "
    "duty / validator one opaque natural; tied by correspondence stream vapimaps: after every op the answer is compared (cfg: "
    "pubshares slice, own share per validator, inverse per own share; share / key / all: the lookup or its error class; duties: "
    "the response position by position, metadata, the state of the provider's objects after the call, for mode r the verdict of "
    "a second identical call; vals: the answer map, the beacon node queries made, opts.PubKeys after the call)",
    "app.go's loop is inline in wireCoreWorkflow and is NOT executed by the stream: harness/cmd/drive-vapimaps appTables is a "
    "line-by-line transcript of it (same calls core.PubKeyFromBytes, tblsconv.PubkeyFromBytes, cluster.DistValidator.PublicShare); "
    "NewComponent, the closures, the four endpoints, convertValidators and eth2wrap.DutiesCache are the real code",
    "hook core/validatorapi/verif_export_vapimaps.go (build tag verif, add-only): VerifGetPubShare, VerifGetPubKey, "
    "VerifGetVerifyShare, VerifSharesByKey (copy); VerifConvertValidators is exported for replays and not used by the stream",
    "the beacon node is scripted (a struct embedding testutil/beaconmock.Mock that overrides ProposerDuties / AttesterDuties / "
    "SyncCommitteeDuties / Validators / CompleteValidators and the three *DutiesCache entry points): every call answers fresh "
    "objects built from the op line, as an HTTP client decoding a response does; duty mode c answers the list through the "
    "*DutiesCache entry point, mode d through the direct path (featureset.DisableDutiesCache switched with featureset.Init per op), "
    "mode r through the real eth2wrap.NewDutiesCache over the scripted beacon node (fresh epoch per op: first call a miss, second "
    "a hit); the Validators query semantics (by key or index, everything when both are empty) is scaffolding mirrored in "
    "lean/Driver/VapiMaps.lean",
    "observed oracle on the cfg line, which the model must explain (`impossible` otherwise): for every public share that is this "
    "node's share of several validators, the validator keysByShare ended up with (must be one of them); both convertValidators "
    "errors print as one class err:conv (which of two bad entries is reported depends on Go's map order)",
    "monitors (independent of the model, computed from the lock and the script): vapimaps:wrong_share_for_validator (a lookup, a "
    "duty or a validator answered with a key that is not the lock's share of that validator at this node's index - the zero key "
    "only where the lock has no such index; getVerifyShareFunc / sharesByKey / a second NewComponent disagreeing with "
    "getPubShareFunc; getPubKeyFunc answering a validator whose share it is not; app.go's loop passing or failing against the "
    "share counts), vapimaps:unknown_key_resolved (a key outside the lock resolves, a foreign duty's key is rewritten, a share "
    "that is nobody's resolves), vapimaps:duty_field_changed (any field but the key differs from the beacon node's), "
    "vapimaps:duty_dropped_or_duplicated (length / order / refusal of an all-known answer / nil accepted / requested validator "
    "missing), vapimaps:unknown_validator_duty_accepted (attester or sync answer containing a foreign validator), "
    "vapimaps:bn_response_mutated (mode r: a repeated request answers differently, or the real duties cache holds something "
    "else than the beacon node answered; vals: a CompleteValidators or beacon node object differs after the call), vapimaps:panic",
]

ASSUMPTIONS = [
    "public keys are 48-byte strings compared bytewise (no BLS point validation happens in these functions: "
    "core.PubKeyFromBytes / tblsconv.PubkeyFromBytes check the length only); keys of a wrong length are not generated",
    "own_share_agrees_with_app_pubshares needs ShareIdx = PeerIdx + 1 (cluster.Definition.NodeIdx) and distinct validator keys in "
    "the lock (cluster.Lock verification rejects duplicates; with a repeated key the last entry wins: app_table_lookup_last_wins)",
    "the inverse map theorems need this node's public shares pairwise distinct across validators; nothing in app.go or "
    "NewComponent checks it (a lock with equal shares means equal secret shares: create cluster / DKG do not produce it, see "
    "C12 D-20) - with a duplicate the answer depends on Go's map order, witnessed, and only Validators-by-pubkey is affected",
    "CompleteValidators and the beacon node list every validator key at most once and never hold nil entries in the cache "
    "(splitCached takes the first match; a beacon node answer may contain nil: convert refuses it)",
    "that the provider's objects are private copies is C20's statement about eth2wrap.DutiesCache (Model/DutiesCache); here it is "
    "only exercised (mode r, monitor vapimaps:bn_response_mutated), and the model shows what happens without it "
    "(second_pass_on_shared_objects_witness: a second attester request over shared objects fails with 'pubshare not found')",
    "not covered: Proposal's mutation of the dutydb proposal (C18 D-7), getProposerPubkey, propDataMatchesDuty (abstract gate of "
    "Model/Admit), SubmitValidatorRegistrations (ignored by the component), fee recipient handling (core/fetcher, app.go "
    "setFeeRecipient), tracing / metrics, ctx cancellation, errors of CompleteValidators / of the beacon node calls (passed "
    "through unchanged)",
]
