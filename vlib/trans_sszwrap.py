"""Translator T-sszwrap for C14: regenerate lean/CharonV/Generated/SszWrap.lean from the Go source.

`sszwrap(bindir) -> (ok, log)`; the Go tool `trans-sszwrap` (listed in ENTRY["go_tools"], built by
check into `bindir`) parses core/ssz.go, core/proto.go and eth2util/types.go of the repository
under check with go/ast and fails closed on any statement shape it does not understand."""
import os, subprocess
from vlib import core


def sszwrap(bindir):
    exe = os.path.join(bindir, "trans-sszwrap")
    out = os.path.join(core.LEAN, "CharonV", "Generated", "SszWrap.lean")
    os.makedirs(os.path.dirname(out), exist_ok=True)
    if not os.path.exists(exe):
        return False, "trans-sszwrap was not built"
    with core.LeanLock():  # do not swap the file under a concurrent lake build
        p = subprocess.run([exe, "-repo", core.REPO, "-out", out], stdout=subprocess.PIPE,
                           stderr=subprocess.STDOUT, text=True, timeout=300)
    if p.returncode != 0 and os.path.exists(out):
        os.remove(out)  # fail closed: no stale layout may satisfy the Lean build
    return p.returncode == 0, p.stdout
