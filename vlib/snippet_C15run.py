"""Snippet for the lead to wire into C15: Scheduler.Run itself (core/scheduler/scheduler.go: Run, waitChainStart,
waitBeaconSync, the creation of the slot ticker and the hand-over of its slots through the unbuffered channel, the select
over s.quit, Stop, emitCoreSlot / SubscribeSlots, submitValidatorRegistrations / submitValidatorRegistrationsDelayed /
get/setSubmittedRegistrationEpoch) — one more correspondence stream and one more Lean module of property theorems on top
of Model/Sched.lean (a slot handled = Sched.Sys.tick). Not a registry entry by itself (not named props_C*.py).

Wiring: append STREAM to ENTRY["streams"], append EXTRA_LEAN to ENTRY["lean_props_extra"], add MONITOR_SIGS to
ENTRY["monitor_sigs"], extend trusted_base / assumptions / level_text with the lines below. lean_exe `drv-schedrun` is
appended to lean/lakefile.toml. NO new hook in /repo: the stream uses scheduler.NewVerif / SnapshotVerif of the existing
core/scheduler/verif_export.go and scripts waitChainStart / waitBeaconSync through the beacon mock's GenesisFunc /
NodeSyncingFunc.

NOTE (lead): no defect of C15 found. Four statements of the task do not hold for the code as first formulated; the
model follows the code, the theorems state what does hold, kernel-checked witnesses show the rest (OBSERVATIONS below).
The level_note of props_C15.py ("Run()'s select loop is replaced by the harness ...") no longer applies to this stream.
"""

STREAM = {"name": "schedrun", "drive": "drive-schedrun", "model": "drv-schedrun",
          "reset_ops": ["cfg"],
          "n_quick": 6000, "seeds_quick": 2, "n_thorough": 60000, "seeds_thorough": 6,
          "search_seeds": 2}

EXTRA_LEAN = "CharonV.Props.C15Run"

MONITOR_SIGS = ["schedrun:"]

THEOREMS = [
    "CharonV.SchedRun.no_slot_before_ready",
    "CharonV.SchedRun.slots_handled_in_order_once",
    "CharonV.SchedRun.stop_is_final",
    "CharonV.SchedRun.stop_returns",
    "CharonV.SchedRun.stop_ignored_before_loop",
    "CharonV.SchedRun.slot_subscribers_once",
    "CharonV.SchedRun.registrations_once_per_epoch",
    "CharonV.SchedRun.registrations_only_at_epoch_start",
    "CharonV.SchedRun.registration_failure_does_not_skip_duties",
    "CharonV.SchedRun.run_preserves_at_most_once",
    "CharonV.SchedRun.clock_step_back_no_duplicate_witness",
    "CharonV.SchedRun.slot_after_stop_witness",
    "CharonV.SchedRun.stale_slot_handed_over_late_witness",
    "CharonV.SchedRun.stop_before_loop_witness",
    "CharonV.SchedRun.ticker_error_ends_run_witness",
    "CharonV.SchedRun.registration_not_retried_within_epoch_witness",
    "CharonV.SchedRun.registration_twice_label0_witness",
]

# not findings of C15 (nothing is duplicated, altered or triggered early); reported for the record
OBSERVATIONS = [
    "Stop is not looked at before the loop: waitChainStart / waitBeaconSync poll on a context that is cancelled only when Run "
    "returns, so Run does not return while the node is unreachable, before genesis or syncing (stop_ignored_before_loop, "
    "stop_before_loop_witness; ops `cfg .. / stop / gen fail / adv 121 / gen ok / syn ok / gen fail`)",
    "a transient error of the Genesis call inside newSlotTicker ends Run with that error - the only beacon-node error that is "
    "not retried (ticker_error_ends_run_witness)",
    "after Stop one more slot can be handled: select chooses at random between the closed quit channel and a slot on offer "
    "(slot_after_stop_witness); the stream never generates that race (Stop only while nothing is on offer)",
    "a slot already on offer while the handler is busy is not skipped but handed over late - its duties are triggered when "
    "the clock is in a later slot; the slots after it are skipped; nothing is replayed or reordered "
    "(stale_slot_handed_over_late_witness; the skip test of newSlotTicker runs before the blocking send, not after it)",
    "a failed registration submission is not retried at the next slot: the next attempt is the one of the next epoch's first "
    "slot, and an epoch whose first slot was skipped gets none (registrations_only_at_epoch_start, "
    "registration_not_retried_within_epoch_witness); the start-up submission carries label 0 whatever the current epoch, so the "
    "first slot of the start epoch submits again; under label 0 two submissions can be in flight together (test and store are "
    "separate critical sections: registration_twice_label0_witness)",
    "a second Stop panics in the caller (close of a closed channel); not generated",
]

LEVEL_TEXT = (" Run itself (Props/C15Run.lean, small-step model over goroutine actions, every interleaving): for every "
    "sequence of answers of the chain-start and sync polls (error / genesis in the future / syncing, any number of times), "
    "returns of clock.Sleep, clock moves forward and BACKWARD (Ev.adv / Ev.back: no theorem assumes a monotone clock; "
    "slots_handled_in_order_once holds for arbitrary clock moves because slot.Next() does not read the clock - "
    "clock_step_back_no_duplicate_witness), runs of the ticker goroutine, outcomes of Run's select, returns of the slot handler "
    "(arbitrarily slow), Stop at any point and timer / quit / beacon-node outcomes of every registration goroutine: nothing is "
    "handled, offered, triggered or submitted before waitChainStart saw a genesis time that has passed and waitBeaconSync saw "
    "'not syncing' (no_slot_before_ready); the slots Run receives are strictly increasing and are exactly the ticker's emissions "
    "in order, at most the last one still on offer or abandoned, and lie below everything the ticker can still emit - no slot is "
    "handled twice, reordered or replayed after having been skipped (slots_handled_in_order_once); once Run has returned nothing "
    "is handled, triggered or emitted any more, and after Stop every select that takes quit - any select with nothing on offer - "
    "returns (stop_is_final, stop_returns; before the loop Stop is not looked at: stop_ignored_before_loop); emitCoreSlot spawns "
    "exactly one goroutine per received slot and subscriber, in registration order, whatever subscribers return "
    "(slot_subscribers_once); per epoch label at most one registration goroutine exists besides the start-up one, so at most one "
    "submission (two for label 0) reaches the node, and a new submission is started only by the first slot of an epoch "
    "(registrations_once_per_epoch, registrations_only_at_epoch_start); phase, ticker, received slots, scheduler state and "
    "triggered duties evolve by a function that ignores registration events and state (registration_failure_does_not_skip_duties); "
    "the embedded base model keeps its invariant, so under Run no duty (slot, type) is triggered twice, every trigger belongs to a "
    "handled slot with its not-before instant and justified definitions (run_preserves_at_most_once). Tied by stream schedrun: "
    "the real Run() on the fake-clock scheduler, every blocking point scripted, compared after every op.")

TRUSTED_BASE = [
    "model CharonV/Model/SchedRun.lean mirrors Run (waitChainStart, waitBeaconSync with their loop counters and sleeps, the "
    "start-up registration goroutine, newSlotTicker's genesis call whose error is returned, the select over quit / ticker, "
    "emitCoreSlot, scheduleSlot = Sched.Sys.tick), the ticker goroutine as wait / offer / dead with Sched.tickerStep evaluated "
    "when the goroutine runs, Stop, submitValidatorRegistrationsDelayed (3/4 slot or quit) and submitValidatorRegistrations "
    "(test, call, store); tied by lock-step correspondence stream schedrun: after every op the place where the Run goroutine is "
    "blocked (Genesis / NodeSyncing call, sleep with the retry index recovered from the sleep's duration, select, inside the "
    "handler, returned nil / error), the ticker's state (slot it waits for, from the deadline of its clock.After / offering / "
    "gone), the slots received in order (Run's own `Slot ticked` log lines), duties triggered (slot, type), subscriber calls, "
    "registration goroutines waiting / in flight / submissions so far and resolvedEpoch are compared",
    "the real Run() runs in its own goroutine on scheduler.NewVerif (existing hook core/scheduler/verif_export.go) with "
    "builderEnabled and a BuilderRegistrationProvider; beacon mock with scripted GenesisFunc, NodeSyncingFunc, validators, duties "
    "and SubmitValidatorRegistrationsFunc: each call parks until the op that scripts its answer (gen / syn / rel / regans); the "
    "clock is clockwork's fake clock behind a wrapper that records Sleep and After with their callers (runtime.Callers) and "
    "delegates; after every op the driver waits until a stop-the-world stack dump shows every goroutine with a frame in "
    "core/scheduler/scheduler.go or the driver blocked in a channel operation or select - nothing can move until the next op",
    "op `back <ms>`: the fake clock is stepped back (FakeClock.Advance with a negative duration: pending timers keep their "
    "deadlines, a timer that has fired stays fired) while Run is in its loop - about 1% of the ops, mostly while a slot is on offer "
    "and the handler is busy, two thirds of those just across the start of the current slot; a ticker that re-reads the clock "
    "after the hand-over then emits a slot twice (schedrun:slot_handled_twice / duty_triggered_twice, seeded change "
    "C15-slot-ticker-resync-after-send)",
    "expbackoff jitter: a backoff sleep is only ever covered completely (advance >= 1.2 x nominal + 1 ms, table in both drivers); "
    "the model wakes the sleeper on any such advance and answers `ambiguous` otherwise; durations outside [0.8, 1.2] x nominal of "
    "some retry index raise schedrun:backoff_out_of_range",
    "Go's select between two ready channels is random: the stream calls Stop only while Run rests in its select with nothing on "
    "offer or sits in a wait loop (then the ticker is never created: newSlotTicker's genesis call is scripted to fail), and never "
    "while the handler is inside a beacon-node call; the theorems cover both choices (Ev.take q)",
    "monitors (independent of the model): slot_before_ready, slot_handled_twice, slot_out_of_order (order of Run's log lines), "
    "slot_after_stop, slot_subscribers_count, registration_twice_in_epoch (successful submissions per logged epoch label > 1, > 2 "
    "for label 0; submissions > first slots of an epoch handled + start-up), registration_delay_not_three_quarters, "
    "duty_triggered_twice, run_did_not_return (Stop called, Run at rest in its select and not returned; at episode end a 20 s "
    "watchdog), ticker_leaked, chainstart_sleep_not_until_genesis, backoff_out_of_range, unexpected_sleep / unexpected_after",
]

ASSUMPTIONS = [
    "the handler is applied at the instant scheduleSlot returns: duties it hands out before a blocked validators call inside its "
    "trigger loop are reported when it returns; the registration goroutine of a slot reads the clock when the handler has passed "
    "its (possibly slow) resolution - exact for SLOTS_PER_EPOCH >= 2 (the stream uses 2, 3, 4, 8)",
    "which label ends up in submittedRegistrationEpoch when several submissions complete together is not observable and does "
    "not matter: the test `!= slot.Epoch()` can only be false for epoch 0 (start-up submission); the stream answers all "
    "submissions in flight at once",
    "not covered: a second Stop (panics in the caller); cancellation of in-flight beacon-node calls by the context when Run "
    "returns; triggers still waiting for their offset when Run returns (their context is cancelled: the duty is dropped, never "
    "duplicated - the stream's delay function fires at once); Spec errors / zero slot duration inside newSlotTicker; a genesis "
    "time that moves between waitChainStart and newSlotTicker; the scripted node's duties are a fixed function of the epoch "
    "(the duty side is stream sched's job), only validators calls fail",
]
