"""Snippet for the lead to wire into C12: the file / ordering / mapping logic of eth2util/keystore (keystore.go:
storeKeysInternal behind StoreKeys / StoreKeysInsecure, checkDir, storePassword / loadPassword, KeysharesToValidatorPubkey,
ShareIdxForCluster; load.go: LoadFilesUnordered, LoadFilesRecursively, KeyFiles.Keys, KeyFiles.SequencedKeys,
KeyFile.HasIndex, extractFileIndex) - one more correspondence stream and one more Lean module of property theorems.
The EIP-2335 cryptography is NOT modelled (symbolic: decrypt(encrypt(s, pw), pw) = s, no other password decrypts).
Not a registry entry by itself (not named props_C*.py).

Wiring: append STREAM to ENTRY["streams"], append EXTRA_LEAN to ENTRY["lean_props_extra"] (its theorems are audited
like those of Props/C12.lean), add MONITOR_SIGS to ENTRY["monitor_sigs"], extend trusted_base / assumptions with the
lines below. The two defects this extension found are repaired in /repo (FIXED below; KNOWN_FINDINGS is empty): the
model follows the repaired code (switch record `Fixes`, `Fixes.current` = /repo), the two monitors stay and are silent.
lean_exe `drv-keystore` is already in lakefile.toml; hook eth2util/keystore/verif_export_keystore.go is committed in
/repo (5e88c9a).

NOTE (lead): the stream writes real files below <-dir>/world (removed at the end of the run, never below /tmp). The
episode's absolute base directory is part of the `cfg` op line (` ~ base=<hex>`, rewritten in exec mode): the model
works on absolute paths because extractFileIndex and the ".json" -> ".txt" replacement read the whole path. The check's
work directory (.work/C12-<pid>/keystore-<seed>/...) contains "keystore-<digits>": harmless (no ".json"-like tail
follows), the driver's `inert` test and the model agree on it.
"""

STREAM = {"name": "keystore", "drive": "drive-keystore", "model": "drv-keystore",
          "reset_ops": ["cfg"],
          "n_quick": 2500, "seeds_quick": 2, "n_thorough": 15000, "seeds_thorough": 6,
          "search_seeds": 2}

EXTRA_LEAN = "CharonV.Props.C12Keystore"

MONITOR_SIGS = ["keystore:"]

THEOREMS = [
    "CharonV.Keystore.extract_none_iff",
    "CharonV.Keystore.extract_some_iff",
    "CharonV.Keystore.extract_err_iff",
    "CharonV.Keystore.match_capture_unique",
    "CharonV.Keystore.extract_ignores_leading_zeros",
    "CharonV.Keystore.extract_store_name",
    "CharonV.Keystore.dir_inert_of_no_occurrence",
    "CharonV.Keystore.dir_not_inert_witness",
    "CharonV.Keystore.sequenced_accepts_iff",
    "CharonV.Keystore.sequenced_result",
    "CharonV.Keystore.sequenced_order_independent",
    "CharonV.Keystore.sequenced_rejects_out_of_range",
    "CharonV.Keystore.sequenced_rejects_duplicate",
    "CharonV.Keystore.sequenced_zero_key_duplicate_witness",
    "CharonV.Keystore.roundtrip_sequenced",
    "CharonV.Keystore.keys_unsequenced_is_a_permutation",
    "CharonV.Keystore.keys_unsequenced_order_witness",
    "CharonV.Keystore.roundtrip_empty",
    "CharonV.Keystore.store_checks_dir_only",
    "CharonV.Keystore.store_into_used_dir_mixes_witness",
    "CharonV.Keystore.k2v_accepts_iff",
    "CharonV.Keystore.k2v_sound",
    "CharonV.Keystore.k2v_uses_every_share_once",
    "CharonV.Keystore.k2v_index_is_position",
    "CharonV.Keystore.placement_maps_own_share",
    "CharonV.Keystore.create_cluster_node_finds_own_shares",
    "CharonV.Keystore.share_idx_is_operator_position",
    "CharonV.Keystore.recursive_decrypt_order_independent",
    "CharonV.Keystore.recursive_decrypt_sound",
    "CharonV.Keystore.recursive_no_password_files_is_an_error",
    "CharonV.Keystore.recursive_zero_key_witness",
    "CharonV.Keystore.recursive_indices_never_sequenced",
]

KNOWN_FINDINGS = []

FIXED = [
    {"property": "C12", "sig": "keystore:recursive_zero_key_without_password_files", "commit": "cefbe7e",
     "what": "keystore.LoadFilesRecursively (eth2util/keystore/load.go): with no .txt file anywhere below the directory `ok` was "
             "false, the loop over passwordsMap had nothing to range over, `err` stayed nil and every keystore file was returned "
             "as KeyFile{PrivateKey: all-zero} WITHOUT error (ops `cfg; mkdir r; put r/key.json ks 5 1; loadrec r` gave "
             "`ok files=r/key.json:1:0 keys=0`; reached from cmd/createcluster.go getKeys). Repaired: the work function fails with "
             "'no password files found' (fixes/C12-keystore-recursive-zero-key.diff). Theorems: recursive_decrypt_sound (now "
             "without hypothesis), recursive_no_password_files_is_an_error; recursive_zero_key_witness is a statement about the "
             "unrepaired switch Fixes.asIs and shows the repaired loader failing on the same input. Reverting the commit makes "
             "the monitor fire again (25 times in seed 1) and the streams differ (err:nopw)"},
    {"property": "C12", "sig": "keystore:zero_key_duplicate_index_accepted", "commit": "edaf179",
     "what": "KeyFiles.SequencedKeys (eth2util/keystore/load.go) detected a duplicate file index by `resp[idx] != zero`: a file "
             "holding the all-zero key did not mark its slot; keystore-0.json (zero key) and keystore-00.json (key K, same index "
             "0), delivered in this order, were accepted with the result [K, 0...0], in the other arrival order rejected. Repaired: "
             "a separate `seen` slice (fixes/C12-keystore-sequenced-zero-key-duplicate.diff). Theorems: sequenced_accepts_iff, "
             "sequenced_result, sequenced_order_independent, sequenced_rejects_duplicate now hold for every content, the zero key "
             "included; sequenced_zero_key_duplicate_witness is a statement about Fixes.asIs and shows the repaired code rejecting "
             "both orders. Reverting the commit makes the monitor fire again (4 / 5 times in seeds 1 / 2)"},
]

LEVEL_TEXT = (" The clause 'each key share stored for a node corresponds to that node's public share in the lock' also rests on "
    "position k written = position k read back: Props/C12Keystore.lean proves over a model of eth2util/keystore's file, ordering "
    "and mapping logic (Model/Keystore.lean; EIP-2335 symbolic), for every number of secrets - in particular from 11 on, where "
    "filepath.Glob's lexical order (keystore-10.json before keystore-2.json) differs from the numeric one - and for every order "
    "in which the ten workers of forkjoin deliver the files: StoreKeys into an inert directory without keystore-*.json files, "
    "then LoadFilesUnordered.SequencedKeys returns exactly the stored secrets in the stored order (roundtrip_sequenced), while "
    "Keys() is only a permutation of them (keys_unsequenced_is_a_permutation, keys_unsequenced_order_witness with 12 keys); "
    "SequencedKeys accepts iff the file indices are exactly 0..k-1 each once, puts every key at its index, drops and adds none "
    "and does not depend on the arrival order - for every content, the all-zero key included, since repair edaf179 "
    "(sequenced_accepts_iff, sequenced_result, sequenced_order_independent, sequenced_rejects_duplicate, "
    "sequenced_rejects_out_of_range; before the repair a zero-key file defeated the duplicate check: "
    "sequenced_zero_key_duplicate_witness about Fixes.asIs); extractFileIndex is specified as a total function: the leftmost match of the unanchored "
    "expression keystore-(?:insecure-)?([0-9]+).json whose `.` is a wildcard, on the FULL path, value by strconv.Atoi (leading "
    "zeros dropped: keystore-1.json and keystore-01.json both 1), -1 without match, error from 2^63 (extract_none_iff, "
    "extract_some_iff, extract_err_iff, match_capture_unique, extract_ignores_leading_zeros, extract_store_name, "
    "dir_inert_of_no_occurrence, dir_not_inert_witness); KeysharesToValidatorPubkey succeeds iff no public share is listed under "
    "two validators, every share has a public key listed in the lock and no two shares resolve to one validator, every returned "
    "pair satisfies pub(share) in lock.validators[v].pubshares, every input share is used exactly once, no validator twice, Index = "
    "position + 1 (k2v_accepts_iff, k2v_sound, k2v_uses_every_share_once, k2v_index_is_position - the function ranges over slices "
    "only, so there is no map order to depend on), and composed with create cluster's placement every node finds for every "
    "validator its own share (placement_maps_own_share, create_cluster_node_finds_own_shares); ShareIdxForCluster is the operator "
    "position + 1 (share_idx_is_operator_position); LoadFilesRecursively's password search is order independent and a returned key is "
    "the keystore's own secret under a password that is there (recursive_decrypt_order_independent, recursive_decrypt_sound; "
    "without any password file it fails since repair cefbe7e: recursive_no_password_files_is_an_error, before it returned the "
    "zero key: recursive_zero_key_witness about Fixes.asIs) and its result never passes SequencedKeys (recursive_indices_never_sequenced). Tied "
    "by stream keystore: the real package on real files (insecure keystores, 0..25 secrets, adversarial directories), the compiled "
    "model on the same ops, worlds compared after every op.")

TRUSTED_BASE = [
    "model CharonV/Model/Keystore.lean mirrors eth2util/keystore/keystore.go (storeKeysInternal: file names keystore-%d.json / "
    "keystore-insecure-%d.json in slice order, password file = strings.Replace(filename, \".json\", \".txt\", 1) on the full path, "
    "checkDir, the error of tbls.SecretToPublicKey for the zero key, what a failed work function leaves behind; "
    "KeysharesToValidatorPubkey: both loops with their three + one errors and Index = shareIdx + 1; ShareIdxForCluster over "
    "lock.PeerIDs / NodeIdx) and load.go (LoadFilesUnordered: glob keystore-*.json incl. directories, read, unmarshal, loadPassword, "
    "decrypt, extractFileIndex on the full path, Flatten = first non-cancellation error in arrival order, 'no keys found'; "
    "LoadFilesRecursively: *.json that unmarshal, *.txt as passwords, own password first then all others, 'no password files "
    "found' when there are none, FileIndex from the 1-based atomic counter; Keys; SequencedKeys with its `seen` slice; HasIndex; "
    "the two repairs cefbe7e / edaf179 are switches of the record Fixes (Fixes.current = /repo, what the driver compares "
    "against; Fixes.asIs = before, only in the two witness theorems); the "
    "regular expression as leftmost-first match with greedy digits and one-digit backtracking, strconv.Atoi as value < 2^63); tied "
    "by correspondence stream keystore: after every op the answer (error class; loaded files as path:FileIndex:secret in arrival "
    "order, Keys(), SequencedKeys() or its error class; validator = share @ Index sorted by validator, error class with "
    "share_index) and a digest of the whole directory tree are compared",
    "hook eth2util/keystore/verif_export_keystore.go (build tag verif, add-only): VerifExtractFileIndex (used by op idx); "
    "VerifCheckDir / VerifLoadPassword / VerifStorePassword / VerifDecrypt are exported for replays and not used by the stream",
    "the file system: the model's world is a finite map absolute path -> keystore(secret, password) | other JSON object | "
    "anything else = password text | directory; the driver reads the whole tree below the episode's base directory back after "
    "every op and classifies every file by CONTENT (json.Unmarshal into keystore.Keystore; decryption with "
    "go-eth2-wallet-encryptor-keystorev4 directly and the passwords it has seen; a keystore whose password is in no file of the "
    "world is printed as K? on both sides); secrets are symbolic ids (id -> 32 bytes by SHA-256, op place: real "
    "tbls.ThresholdSplitInsecure shares registered under ids), passwords are interned per dump in order of appearance; os.Mkdir / "
    "os.Rename / os.Remove / copy / crafted keystores (keystorev4 at cost 2^4, the all-zero secret included) are test scaffolding "
    "modelled in lean/Driver/Keystore.lean; the stream runs as root: the 0o444 / 0o400 modes never stop a second write "
    "(model: writeFile fails only on a directory or a missing parent)",
    "observed oracles on the op line, which the model must explain (`impossible` otherwise): the arrival order of the results of "
    "LoadFilesUnordered / LoadFilesRecursively (forkjoin sends every result from its own goroutine) and the FileIndex the atomic "
    "counter gave; on a failing load / store the reported error class, which must be the error of one of the work functions, and "
    "for a failing store the indices whose keystore file was written (fail-fast skips an unpredictable subset); the absolute base "
    "directory of the episode (op cfg)",
    "extractFileIndex is compared on generated strings (op idx, hex encoded UTF-8): names of the store scheme, leading zeros, signs, "
    "values around 2^63 and 2^64, doubled / missing insecure-, every separator in place of the dot incl. newline and a multi-byte "
    "character, directory prefixes that match themselves, random soups over the expression's alphabet; Go strings that are not "
    "valid UTF-8 are not generated",
    "monitors (independent of the model): keystore:decrypt_roundtrip, pubkey_field, store_wrong_files (every stored file decrypts "
    "with its own password file to the secret of its position); roundtrip_order_changed, roundtrip_load_failed, "
    "keys_not_permutation (store into a directory without keystore-*.json, untouched since, inert path: SequencedKeys = the stored "
    "list, Keys() a permutation); gap_accepted, duplicate_index_accepted, indexless_accepted, valid_sequence_rejected, "
    "seq_wrong_order, seq_dropped_or_added (SequencedKeys judged on the FileIndex values the implementation reports); "
    "zero_key_duplicate_index_accepted, recursive_zero_key_without_password_files (the two repaired defects: silent on /repo, "
    "firing again when cefbe7e / edaf179 are reverted); "
    "file_index_differs_from_name (canonical names carry their own number; own parser, and the pattern text copied into a Go "
    "regexp for the inert test of the directory), loaded_wrong_secret, zero_key_loaded, load_dropped_or_added, "
    "recursive_index_not_a_permutation; share_mapped_to_wrong_validator, share_dropped, share_index_not_position, k2v_verdict (the "
    "error conditions recomputed on ids; pub(share) compared on the real bytes), share_idx_wrong, recombine (op place: a random "
    "threshold subset of the stored shares recovers the validator key), panic",
]

ASSUMPTIONS = [
    "EIP-2335 is symbolic: decrypt(encrypt(s, pw), pw) = s, and no other password passes the checksum (needed only for the "
    "recursive loader's 'try other passwords'); exercised on every stored file by keystore:decrypt_roundtrip, never proved",
    "tbls.SecretToPublicKey is injective on the secrets used and fails exactly for the all-zero key (hypotheses hpub / hP of "
    "placement_maps_own_share; the model's `pub` parameter is arbitrary in k2v_accepts_iff / k2v_sound / k2v_uses_every_share_once)",
    "the round trip needs an inert directory path (DirInert: the path itself contains no match of the file-name expression and no "
    "'.json'; dir_inert_of_no_occurrence gives the syntactic criterion, dir_not_inert_witness what happens otherwise: in "
    "x/keystore-7.json.d every file has index 7, in a.json the password files go to a.txt/ - both are loud failures, never a "
    "silent reordering), a directory without keystore-*.json entries (store_into_used_dir_mixes_witness otherwise: callers create "
    "or check the directory first), as many passwords as secrets and at most 2^63 secrets",
    "writes of different indices commute (2n pairwise different paths: proved inside roundtrip_core); the concurrency of "
    "forkjoin itself is C19's (Model/ForkJoin): here only 'results arrive in any order' and 'Flatten reports some work function's "
    "error' are used, as oracle parameters",
    "IndexedKeyShare.Index is the position in the slice handed to KeysharesToValidatorPubkey + 1, not the node's share index: no "
    "caller in /repo reads it as a share index (cmd/exit_sign.go overwrites it with the validator index for logging; "
    "cmd/depositsign.go, feerecipientsign.go, exit_*.go take the share index from ShareIdxForCluster)",
    "not covered: glob metacharacters in the directory path (filepath.Glob would read `[`, `*`, `?` in it as pattern), symlinks, "
    "unreadable files and other I/O errors, file permissions for a non-root process (a second store into the same directory "
    "fails there on the read-only files), strings that are not valid UTF-8, duplicate or unparsable operator ENRs beyond "
    "'PeerIDs fails' (compared as error class), the JSON text of a keystore, Encrypt's uuid / path fields",
]
