"""Snippet for the lead to wire into C18 (and, as the first hop of the pipeline, into C01): the fetcher of
core/fetcher/fetcher.go (Fetch, FetchOnly, HandleChainReorg, fetchAttesterDataWithClient, fetchAggregatorData,
fetchProposerData, fetchContributionData, fetchSubcommContribution, syncSubcommittees, syncSubcommitteeSize, the fan-out
with a clone per subscriber, RegisterAggSigDB / RegisterAwaitAttData / RegisterSyncContributionV2 inputs, and
eth2exp.IsAttAggregator / IsSyncCommAggregator as used by it) — one more correspondence stream and one more Lean module
of property theorems. Not a registry entry by itself (not named props_C*.py).

Wiring: append STREAM to ENTRY["streams"], append EXTRA_LEAN to ENTRY["lean_props_extra"] (its theorems are audited like
those of Props/C18.lean), add MONITOR_SIGS to ENTRY["monitor_sigs"], extend trusted_base / assumptions with the lines
below, KNOWN_FINDINGS to known_findings.json. lean_exe `drv-fetcher` is already in lakefile.toml; no hook in /repo is
needed (the early-fetch cache's slots are read through reflection by the driver, read-only). Guard corpus:
corpus/_shared/fetcher-guards.ops (58 hand-made ops: de-duplication, Electra index 0, early fetch / reorg / eviction /
head mismatch, every error class and panic, plural and single sync contributions; silent on the unchanged tree).

NOTE (lead): the one finding on the unchanged tree — `fetcher:early_cache_shares_bn_response` — is latent (no holder of
a beacon client response object writes into it in /repo). Unlike the validator-cache case of C15 it IS inside C18's
statement ("mutating an object after handing it to a store ... never changes what any ... later query observes"; the
Heap port table row ("fetch", "FetchOnly", .clone) claims the opposite and drive-alias does not mutate between
FetchOnly and Fetch), so it is delivered as a monitor violation with a known-finding entry, not as an observation. If it
is to be an observation instead: in harness/cmd/drive-fetcher/main.go the two lines that call
e.viol("fetcher:early_cache_shares_bn_response", ...) already also count observed:early_cache_shares_bn_response.
With fixes/C18-fetcher-early-cache-clone.diff applied to /repo, compare against `drv-fetcher fixed`
(Cfg.cloneOnCache; the switch is an argument of the line driver, not a constant of the model).
"""

STREAM = {"name": "fetcher", "drive": "drive-fetcher", "model": "drv-fetcher",
          "reset_ops": ["cfg"],
          "n_quick": 12000, "seeds_quick": 2, "n_thorough": 80000, "seeds_thorough": 6,
          "search_seeds": 2}

EXTRA_LEAN = "CharonV.Props.C18Fetch"

MONITOR_SIGS = ["fetcher:"]

THEOREMS = [
    "CharonV.Fetcher.subscribers_called_once_in_order",
    "CharonV.Fetcher.every_subscriber_reads_the_same_set",
    "CharonV.Fetcher.delivered_keys_in_definition_set",
    "CharonV.Fetcher.attester_and_proposer_deliver_every_validator",
    "CharonV.Fetcher.aggregator_delivers_only_selected",
    "CharonV.Fetcher.early_fetch_is_served_whole",
    "CharonV.Fetcher.attester_same_committee_same_data",
    "CharonV.Fetcher.attester_one_query_per_committee",
    "CharonV.Fetcher.aggregator_same_committee_same_data",
    "CharonV.Fetcher.aggregate_queried_for_decided_root",
    "CharonV.Fetcher.aggregate_is_for_decided_data_partial",
    "CharonV.Fetcher.contribution_one_query_per_key",
    "CharonV.Fetcher.subscriber_memory_is_private",
    "CharonV.Fetcher.hostile_subscribers_cannot_interfere",
    "CharonV.Fetcher.honest_subscriber_value_never_changes",
    "CharonV.Fetcher.beacon_node_cannot_interfere_fixed",
    "CharonV.Fetcher.fetch_order_independent",
    "CharonV.Fetcher.early_cache_shares_bn_response_witness",
    "CharonV.Fetcher.cache_hit_ignores_definitions_witness",
    "CharonV.Fetcher.aggregate_for_other_data_witness",
    "CharonV.Fetcher.error_depends_on_order_witness",
]

KNOWN_FINDINGS = [
    {"property": "C18", "sig": "fetcher:early_cache_shares_bn_response",
     "what": "fetcher early-fetch cache (core/fetcher/fetcher.go FetchOnly): the set stored in attDataCache consists of struct "
             "copies of the beacon client's response objects (core.AttestationData{Data: *eth2AttData}) that share the "
             "response's Source / Target checkpoints; whoever still holds a response object and writes into it between the "
             "head event and the scheduled trigger changes the attestation data Fetch hands to every subscriber (consensus) "
             "(replay in the header of fixes/C18-fetcher-early-cache-clone.diff; kernel-checked witness "
             "CharonV.Fetcher.early_cache_shares_bn_response_witness). Latent: go-eth2-client decodes a fresh object per "
             "request and eth2wrap keeps no reference. Candidate repair: fixes/C18-fetcher-early-cache-clone.diff (FetchOnly "
             "caches a clone; beacon_node_cannot_interfere_fixed)"},
]

LEVEL_TEXT = (" The fetcher — one of C18's anchors and the place where every node's candidate data comes from (C01: \"nodes fetch "
    "different candidate data\") — has its own executable model (Model/Fetcher.lean: Fetch, FetchOnly, HandleChainReorg, the four "
    "fetch*Data loops with their de-duplication tables, IsAttAggregator / IsSyncCommAggregator arithmetic, the fan-out with a clone "
    "per subscriber, the early-fetch cache; memory as cells with identities, values as the cells they reach). Props/C18Fetch.lean "
    "proves, for every configuration, duty, definition set in every iteration order and every environment (each answer of the beacon "
    "node, of the aggsigdb function and of the dutydb function an arbitrary error / nil / datum that may differ every time the same "
    "question is asked; every subscriber may fail), in every state reachable by any sequence of Fetch / FetchOnly / reorg / hostile "
    "writes: (1) subscribers are called once each in registration order, all of them on success, none on an error of the fetch, "
    "none after the first subscriber that fails, none when an aggregator / sync contribution duty has nobody to serve "
    "(subscribers_called_once_in_order); every subscriber reads exactly the set that was built, whatever earlier subscribers did to "
    "theirs (every_subscriber_reads_the_same_set); its keys are pubkeys of the definition set "
    "(delivered_keys_in_definition_set), all of them for attester and proposer duties "
    "(attester_and_proposer_deliver_every_validator), only validators whose selection proof IsAttAggregator accepted for aggregator "
    "duties (aggregator_delivers_only_selected); a cache hit serves the whole answer of the early fetch and ignores the call's own "
    "definition set (early_fetch_is_served_whole, cache_hit_ignores_definitions_witness); (2) one AttestationData query per "
    "committee index — index 0 only from the Electra slot on with fetchOnlyCommIdx0 — and the same datum for all validators of a "
    "committee (attester_one_query_per_committee, attester_same_committee_same_data), likewise for aggregates and contributions "
    "(aggregator_same_committee_same_data, contribution_one_query_per_key); the aggregate is asked for by exactly the root of the "
    "attestation data the dutydb function has just returned (aggregate_queried_for_decided_root) — that the answer is over that "
    "data is NOT checked by the code (aggregate_is_for_decided_data_partial under the hypothesis, aggregate_for_other_data_witness); "
    "(3) isolation: no memory cell is ever handed out twice, none is part of a beacon node response object or of the cache "
    "(subscriber_memory_is_private); for every op sequence all results, calls and deliveries equal those of the run in which no "
    "subscriber ever writes into what it was handed (hostile_subscribers_cannot_interfere); what an honest subscriber holds never "
    "changes (honest_subscriber_value_never_changes); the code as it is lets the holder of a response object change a later "
    "cache-served Fetch (early_cache_shares_bn_response_witness, known finding), the repaired variant does not "
    "(beacon_node_cannot_interfere_fixed); (4) for environments whose answers depend on the question only, whether a set is built "
    "and what every validator's value reads is independent of the iteration order of the definition set (fetch_order_independent); "
    "which error is returned is not (error_depends_on_order_witness). Tied by stream fetcher: the real fetcher.New over a scripted "
    "eth2wrap.Client, scripted aggsigdb / dutydb functions, recording and hostile (hx.Scribble) subscribers, compared per op: result "
    "class, the calls made in order with their arguments, every delivery, the cache's slots.")

TRUSTED_BASE = [
    "model CharonV/Model/Fetcher.lean mirrors core/fetcher/fetcher.go line by line where it matters: FetchOnly (type check, eviction "
    "of older slots BEFORE fetching, scoped client, head check over every value, Store; nothing stored and an older entry for the "
    "slot kept when the head differs), HandleChainReorg, Fetch (cache hit deletes the entry and ignores the call's definition set; "
    "deprecated / unsupported duty types; empty aggregator / contribution set returns nil before the fan-out; clone per subscriber, "
    "stop at the first clone or subscriber error), fetchAttesterDataWithClient (effective committee index, dataByCommIdx), "
    "fetchAggregatorData (aggsigdb query, type assertion, IsAttAggregator incl. its division by zero, aggAttByCommIdx keyed by the "
    "definition's index, dutydb query, hash tree root, AggregateAttestation, nil answer), fetchProposerData (no look at the "
    "definition, randao from any SignedData, graffiti per pubkey, builder boost factor, nil proposal dereferenced, "
    "verifyFeeRecipient before NewVersionedProposal), fetchContributionData / fetchSubcommContribution / syncSubcommittees / "
    "syncSubcommitteeSize (spec keys, sorted unique subcommittees, contribByKey keyed by (subcommittee, block root), plural vs single "
    "encoding, break); tied by lock-step correspondence stream fetcher",
    "the memory model: a value is the list of cells it reaches; a struct copy of a response object (Data: *resp) IS the response "
    "object's cell (shared Source/Target checkpoints, attestations, blocks, aggregation bits); scalars copied by value "
    "(BeaconBlockRoot, AttesterDuty) are fields of the value; UnsignedDataSet.Clone() = fresh cells with copied contents "
    "(relabel / copyCells); hx.Scribble = the `dirty` flag of a cell. That Clone() really reaches no old memory is what the driver's "
    "alias monitors (reflection walk over pointer targets, slice backing arrays, maps) and Scribble-then-compare establish on the "
    "real values, and what core.Clone's row of the Heap port table claims",
    "scripted environment of drive-fetcher: an eth2wrap.Client of which only Spec, AttestationData, AggregateAttestation, Proposal, "
    "SyncCommitteeContribution, ClientForAddress, NodeVersion exist (anything else is a nil call), answers by query from the op line "
    "(anything unscripted answers error 999) with per-position overrides (error / nil at the k-th call of the op), a fresh deep copy "
    "of the value template per answer (as an http client); values are built from small ids and recognised again by a hash of their "
    "JSON; roots / signatures / pubkeys / graffiti are interned; the number IsAttAggregator judges (first 8 bytes LE of the SHA-256 "
    "of the selection proof) is computed by the driver and written into the op line, the modulo arithmetic is the model's own",
    "Go map iteration order: the driver derives the order in which the real code visited the definition set from the calls it "
    "observed (per validator for aggregator / proposer / contribution duties, per committee group for attester duties, invalid "
    "definitions next, the rest sorted) and writes it into the op line (ord=); the model runs in that order and must reproduce the "
    "result, the call sequence and the deliveries; an order that explains the calls always exists for a correct implementation",
    "error classes: substring match on the returned error's message (scripted-error-N, sub-error-N, the literal messages of "
    "fetcher.go / eth2exp); panics are recovered by the driver and compared as `panic`; the early-fetch cache's slots are read from "
    "the unexported sync.Map through reflect + unsafe (read only)",
    "monitors (independent of the model, judged against the script): subscriber_called_on_error, subscriber_skipped, "
    "subscriber_called_twice_or_out_of_order, called_after_subscriber_error, subscriber_error_swallowed, "
    "subscriber_error_without_call, empty_set_delivered, fetched_data_not_delivered, fetchonly_called_subscriber, "
    "subscribers_got_different_sets, key_outside_definition_set, validator_missing, aggregator_missing, non_aggregator_delivered "
    "(the real eth2exp.IsAttAggregator / IsSyncCommAggregator as oracle), sync_wrong_contributions, wrong_value_type, "
    "delivered_data_not_bn_answer, delivered_content_unknown, same_committee_different_data, duplicate_bn_query, "
    "wrong_committee_index_queried, wrong_client_scope, aggregate_query_not_decided_root, aggregate_not_for_decided_data (honest "
    "scripts only), duty_not_from_definition, builder_boost_factor_wrong, graffiti_wrong (bytes computed independently of "
    "graffiti.go), randao_not_from_aggsigdb, subscribers_share_memory, subscriber_shares_bn_response, "
    "subscriber_shares_store_value, subscriber_shares_definition_set, entries_share_memory, honest_subscriber_value_changed, "
    "input_definition_set_mutated, served_from_cache_unexpectedly, early_fetch_not_used, early_cache_content_wrong, "
    "stale_cache_after_reorg, early_cache_shares_bn_response",
]

ASSUMPTIONS = [
    "the beacon node's AggregateAttestation answer is trusted to be over the attestation data whose root was asked for: the code "
    "does not compare (aggregate_is_for_decided_data_partial has the hypothesis, aggregate_for_other_data_witness the "
    "counterexample; the stream scripts such a node in ~8% of the aggregate answers, the monitor "
    "fetcher:aggregate_not_for_decided_data is silent for those)",
    "determinism is stated for environments whose answers depend on the question only (Env.Stateless) and for definition sets "
    "with pairwise different pubkeys (a Go map); with answers that change between calls the set depends on which validator asks "
    "first, and which of several failures is reported depends on the order in any case (error_depends_on_order_witness)",
    "a cache hit hands out the early fetch's set whatever definition set Fetch is called with: equal to \"keys of the definition "
    "set\" only because the scheduler passes the slot's definition set to both calls and HandleChainReorg clears the cache; a second "
    "FetchOnly for a slot whose data does not vote for the new head leaves the first one's entry in place (modelled, compared)",
    "panics of the code as it is are part of the model (Res.panic) and are counted, not reported: a nil proposal Data, a nil "
    "SignedData for the randao, a nil *AttestationData from the dutydb function, TARGET_AGGREGATORS_PER_COMMITTEE / "
    "SYNC_COMMITTEE_SUBNET_COUNT / TARGET_AGGREGATORS_PER_SYNC_SUBCOMMITTEE = 0 in IsAttAggregator / IsSyncCommAggregator, a "
    "proposal of a version >= bellatrix without block in verifyFeeRecipient; none is produced by go-eth2-client's http client, the "
    "real aggsigdb / dutydb or a real spec",
    "not covered: concurrent Fetch / FetchOnly calls (sync.Map makes the cache operations atomic one by one; the scheduler "
    "serialises per slot), context cancellation, the tracing span, metrics and log lines, the content of the fee recipient "
    "warning, GraffitiBuilder construction beyond what the stream configures (default, per-pubkey custom with client token), "
    "SSZ / JSON codec correctness of Clone() (C14), values other than the templates of the driver (phase0 attestation data; "
    "deneb / electra / fulu aggregates; bellatrix..fulu proposals, blinded bellatrix / capella; altair contributions)",
]
