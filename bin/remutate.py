#!/usr/bin/env python3
"""bin/remutate.py — re-run the check on the mutants recorded as missed in .work/mut/*.jsonl (the first campaign ran
with an unbounded search phase: a check that hit the campaign's time-out was recorded as "missed"). Writes
.work/mut/recheck.jsonl."""
import json, glob, os, subprocess, sys, time
VERIF = os.path.dirname(os.path.dirname(os.path.abspath(__file__)))
env = dict(os.environ, GOFLAGS="-mod=mod", GOPROXY="off")
out = os.path.join(VERIF, ".work", "mut", "recheck.jsonl")
done = set()
if os.path.exists(out):
    for l in open(out):
        d = json.loads(l); done.add((d["file"], d["line"], d["new"]))
recs = []
for f in sorted(glob.glob(os.path.join(VERIF, ".work", "mut", "C*.jsonl"))):
    for l in open(f):
        d = json.loads(l)
        if not d["detected"] and (d["file"], d["line"], d["new"]) not in done:
            recs.append(d)
only = sys.argv[1:]  # optional property filter
for d in recs:
    if only and d["property"] not in only:
        continue
    wt = f"/var/tmp/remut-{os.getpid()}"
    subprocess.run(f"git -C /repo worktree remove --force {wt}", shell=True, capture_output=True)
    subprocess.run(f"git -C /repo worktree add -q --detach {wt} HEAD", shell=True, check=True)
    try:
        path = os.path.join(wt, d["file"])
        src = open(path).read().split("\n")
        li = d["line"] - 1
        if src[li].strip() != d["old"]:
            # line numbers moved (fix commits): find the line by content
            cand = [i for i, x in enumerate(src) if x.strip() == d["old"]]
            if not cand:
                continue
            li = min(cand, key=lambda i: abs(i - li))
        indent = src[li][:len(src[li]) - len(src[li].lstrip())]
        src[li] = indent + d["new"]
        open(path, "w").write("\n".join(src))
        pkg = "./" + os.path.dirname(d["file"])
        rc = subprocess.run(f"go build {pkg}/ && go build -tags verif {pkg}/", shell=True, cwd=wt, env=env, capture_output=True).returncode
        if rc != 0:
            continue
        t0 = time.time()
        p = subprocess.run("timeout 1500 ./check %s --tier quick" % d["property"], shell=True, cwd=VERIF,
                           env=dict(env, VERIF_REPO=wt), capture_output=True, text=True)
        lines = [l for l in (p.stdout + p.stderr).split("\n") if "VIOLATION" in l or "monitor violation" in l or "no longer checks" in l]
        rec = dict(d, detected=(p.returncode == 1 and any("VIOLATION" in l for l in lines)), check_exit=p.returncode,
                   how=[l[:200] for l in lines[:3]], wall_s=int(time.time() - t0))
        open(out, "a").write(json.dumps(rec) + "\n")
        print(d["property"], d["line"], d["func"], rec["detected"], rec["wall_s"], flush=True)
    finally:
        subprocess.run(f"git -C /repo worktree remove --force {wt}", shell=True, capture_output=True)
