#!/usr/bin/env python3
"""Regenerate DESIGN.md §9 (seeded changes table) from seeded/*/meta.json."""
import glob, json, os, re
rows = []
for m in sorted(glob.glob('/verif/seeded/*/meta.json')):
    d = json.load(open(m))
    v = d.get('verification', {})
    chk = v.get('check', {})
    lines = chk.get('lines', [])
    how = ''
    for l in lines:
        mm = re.search(r'monitor violation on the implementation: (\S+?):? ', l)
        if mm: how = 'monitor `%s` (concrete replay)' % mm.group(1).rstrip(':'); break
    if not how:
        nl = [l for l in lines if 'no longer checks' in l]
        vio = [l for l in lines if l.startswith('VIOLATION')]
        if vio and 'no-failing-input-found' in vio[0]:
            how = 'correspondence / proof obligation broke (no-failing-input-found)'
        elif vio: how = 'violation reported'
    name = os.path.basename(os.path.dirname(m))
    rows.append((d.get('property', name[:3]), name, (d.get('what_it_breaks') or '')[:150].replace('|', '/').replace('\n', ' '),
                 (d.get('needs_to_manifest') or '')[:150].replace('|', '/').replace('\n', ' '),
                 'caught: ' + how if v.get('detected') else '**MISSED**'))
out = ["## 9. Seeded changes: which checks catch which changes", "",
       "Changes were written by fresh sub-agents that saw only the property text and a scratch worktree (nothing from",
       "`/verif`). Each was confirmed here (`bin/seedtest.py`: compiles, the existing tests of the touched packages pass, the",
       "demonstration fails with the change and passes without it) and then the property's quick check was run against a",
       "worktree carrying the change (`VERIF_REPO=<worktree> ./check Cxx`). Everything is filed under `seeded/<Cxx>-<name>/`",
       "(patch.diff, the demonstration as `*_test.go.txt`, meta.json with the commands run and the check's output).", "",
       "| prop | change | what it breaks | needs to manifest | quick check |", "|---|---|---|---|---|"]
for r in rows:
    out.append("| %s | `%s` | %s | %s | %s |" % r)
out += ["", "%d seeded changes, %d caught by the quick tier." % (len(rows), sum(1 for r in rows if r[4].startswith('caught'))), ""]
txt = "\n".join(out)
p = '/verif/DESIGN.md'
s = open(p).read()
a = s.index('## 9. Seeded changes')
b = s.index('## 10. False alarms corrected')
s = s[:a] + txt + "\n---------------------------------------------------------------------------------------\n\n" + s[b:]
open(p, 'w').write(s)
print(len(rows), 'rows')
