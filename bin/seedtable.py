#!/usr/bin/env python3
"""Regenerate DESIGN.md §9 (seeded changes table) from seeded/*/meta.json."""
import glob, json, os, re
rows = []
for m in sorted(glob.glob('/verif/seeded/*/meta.json')):
    d = json.load(open(m))
    v = d.get('verification', {})
    chk = v.get('check', {})
    lines = chk.get('lines', [])
    how = ''
    for l in lines:
        mm = re.search(r'monitor violation on the implementation: (\S+?):? ', l)
        if mm: how = 'monitor `%s` (concrete replay)' % mm.group(1).rstrip(':'); break
    if not how:
        nl = [l for l in lines if 'no longer checks' in l]
        vio = [l for l in lines if l.startswith('VIOLATION')]
        if vio and 'no-failing-input-found' in vio[0]:
            how = 'correspondence / proof obligation broke (no-failing-input-found)'
        elif vio: how = 'violation reported'
    name = os.path.basename(os.path.dirname(m))
    hist = d.get('history', [])
    missed_before = any(h.get('detected') is False for h in hist)
    rows.append((name[:3], name, (d.get('what_it_breaks') or '')[:150].replace('|', '/').replace('\n', ' '),
                 (d.get('needs_to_manifest') or '')[:150].replace('|', '/').replace('\n', ' '),
                 ('caught: ' + how + (' — MISSED by the first version of the check, caught after the check was strengthened (see §9 notes)' if missed_before else '')) if v.get('detected') else '**MISSED**'))
out = ["## 9. Seeded changes: which checks catch which changes", "",
       "Changes were written by fresh sub-agents that saw only the property text and a scratch worktree (nothing from",
       "`/verif`). Each was confirmed here (`bin/seedtest.py`: compiles, the existing tests of the touched packages pass, the",
       "demonstration fails with the change and passes without it) and then the property's quick check was run against a",
       "worktree carrying the change (`VERIF_REPO=<worktree> ./check Cxx`). Everything is filed under `seeded/<Cxx>-<name>/`",
       "(patch.diff, the demonstration as `*_test.go.txt`, meta.json with the commands run and the check's output).", "",
       "| prop | change | what it breaks | needs to manifest | quick check |", "|---|---|---|---|---|"]
for r in rows:
    out.append("| %s | `%s` | %s | %s | %s |" % r)
out += ["", "%d runs of seeded changes against checks (a change seeded for C01 is also run against the component check it belongs to), %d caught by the quick tier, %d of them only after strengthening." % (len(rows), sum(1 for r in rows if r[4].startswith('caught')), sum(1 for r in rows if 'MISSED by the first' in r[4])), "",
        "Notes on the misses and what was strengthened:", "",
        "* `C13-dedup-record-after-sign` (check-then-record of the signed hash no longer atomic): the driver issued requests sequentially; added racing `sreq2` ops (two goroutines through the real handler, a gate around the server's sign function forces the overlap) and theorem `concurrent_requests_one_signature`.",
        "* `C09-att-verify-before-local-copy` (published carrier is not the verified object): carrier-with-validator-index and content-altered-after-signing were separate single corruptions; the generator now builds all carrier positions × altered/consistent content systematically.",
        "* `C12-combine-exact-threshold` (`combine` refuses exactly-threshold share sets): `combine` was only run with all node directories; it is now run on every exactly-threshold subset (n ≤ 5), all, threshold+1 and threshold−1 directories, with model function `combineAccepts` and theorems.",
        "* `C08-verify-memo-ignores-message` (memo of successful verifications keyed without the message): every substitution built a new signature; the driver now re-verifies the SAME signature bytes against other messages/keys in both orders (`vfy` ops) and `verify_stateless` states the obligation.",
        "* `C01-*` (single-component slips: sigagg publishing after a failed verification; parsigex forwarding the unfiltered set): not reachable in the one-validator attester cluster simulator; C01's check now also runs the aggregator (C09) and admission (C10) streams and reports their safety monitors under C01.",
        "* `C16-full-buffer-retry-stall` (deadliner stuck for good after one overflow of its 10-slot output buffer): the generator split clock advances so that the buffer never overflowed; it now contains overflow probes (11–22 duties, many sharing a deadline, expire in one advance) followed by ordinary registrations that must still be reported.",
        "* `C17-v2-notify-after-lookup` (V2 reader re-reads the notify channel after its lookup: a Store in between is a lost wake-up): needs one exact interleaving; new op `awaitst` runs the Store of the awaited key from inside the reader's own `ctx.Done()` call (the 1st/2nd/3rd call, i.e. inside the lookup's lock or exactly between lookup and wait); the model outcome is that of `await; store`.",
        "* `C01-parsigex-forward-unfiltered-set` additionally needed mixed batches (a valid entry for one validator and an invalid entry for another in ONE message) early in the admission stream; they are now part of the systematic sweep.",
        "* `C07-skip-deadliner-add-when-indexed` (the store skips the deadliner when the duty still has an index entry): first made the driver hang (its racing calls met at a barrier inside the scripted deadliner's `Add`; now with a time-out, and every driver has a no-progress watchdog reporting `harness:stuck_no_progress`); the state it needs — a partial stored for a duty that was trimmed between the deadliner's answer and the store — is now generated by call status `T` (the scripted deadliner processes the duty's expiry inside `Add`; model: `trim; call`).",
        "* `C06-deadline-add-outside-lock` (dutydb asks the deadliner before taking its lock): new op `addrace` — the driver's deadliner expires the duty and runs a second real `Store` from inside `Add`; monitor `dutydb:expired_duty_data_served_after_race`.",
        "* `C02-justification-sig-memo` (consensus wrapper memoises verified justification signatures by signature bytes only): a change of the admission layer, invisible to the `qbft.Run` stream; C02's check now also runs C05's admission stream (the adversary model of the agreement proof is what `handle` admits).",
        "* `C04-justification-limit-quorum` (receive-side limit `2*quorum` instead of `2*nodes` in `verifyMsgLimits`): the `qbft.Run` stream does not pass through the handler; C04's check now runs translator T-const with theorem `honest_within_wire_limits` (`Props/C04Limits.lean`) and the admission stream with the largest honest shapes (n ROUND-CHANGEs + n PREPAREs) and monitor `qbftwire:honest_message_rejected`.",
        "* `C03-vote-filter-zero-wildcard` (a zero value acts as a wildcard in `filterMsgs`): the model admits Byzantine votes for the empty value (the theorems cover them) but the generator never sent any; Byzantine forgeries now include value 0 in PREPARE/COMMIT/PRE-PREPARE and DECIDED for 0 on top of authentic COMMITs.",
        "* `C14-hash-any-bytes` (received values hashed by their wire bytes): values in the admission stream were always canonically encoded; multi-entry sets now travel with their map entries in non-canonical order, and C14's check runs that stream.",
        "* `C10-gater-signed-slot` (`int64` arithmetic in the duty gater): extreme wire slots (2^63, 2^64-1, …) added to the peer sweep.",
        "* `C01-qbft-decided-dup-commits`, `C01-parsigdb-internal-reject-leak`: component slips outside the one-validator simulator's honest paths; C01's check now also runs the consensus (`qbft`) and partial-signature-store (`parsigdb`) streams; new monitor `parsigdb:rejected_set_exchanged`.",
        "* `C11-r1cast-dedup-wrong-round`, `C11-r2cast-dup-fallthrough` (FROST transport glue loses its de-duplication): the in-memory transport bypassed `dkg/frostp2p.go`; new stream `frostp2p` drives the real callbacks and `frostP2P.Round1/Round2` with re-delivered broadcasts (theorems `round1_one_from_each_peer`, `round2_one_from_each_peer`).",
        "* `C13-hash-any-boundary` was first reported only as a broken correspondence (no failing input); monitor `bcast:signed_hash_collision` now gives the colliding pair.",
        "* `C02-instance-io-released-on-decide` (the wrapper deletes the instance IO after a decision: a late `Propose` starts a second `qbft.Run`): C02's check now runs the wrapper stream `conswrap` and `C03Wrap.one_run_per_duty` (one run per duty and node is a premise of the agreement proof).",
        "* `C15-invalidate-cache-short-circuit` (`InvalidateCache` short-circuits after the proposer cache): the scheduler driver uses a scripted beacon node, not the duties cache; C15's check now runs the cache stream of C20 with its answer-equality monitors.",
        "* `C06-deadliner-backpressure-deadlock` (the deadliner blocks on a full output buffer; `dutydb.Store` then blocks in `Add` under its lock): the dutydb driver uses a scripted deadliner; the real deadliner's stream (with new monitor `deadliner:add_blocked`) is now part of C06's check.",
        "* `C06-att-answer-shallow-copy` (answers share their checkpoints with the stored value): the driver never touched what it received; it now scribbles over every answer (`hx.Scribble`, the hostile caller), likewise the aggsigdb driver.",
        "* `C20-active-set-alias` (the shared active-index slice is stored without cloning; a later `append` writes into memory shared by several epochs): the driver handed the cache exact-capacity slices, so every append reallocated; slices now carry spare capacity, as slices built by `append` do in production.",
        "* `C04-round-change-value-hash-guard` first crashed the admission driver (the package's own `createMsg` refused an honest ROUND-CHANGE): reported as a broken correspondence without input; the driver now reports `qbftwire:honest_message_not_constructible`.",
        "* `C09-genesis-domain-epoch0` (`GetDomain` takes the genesis domain for epoch 0): the aggregator driver derives its expectation through the same function; the bit-exact signing model and stream of C10 (`signing`, epochs 0/1/boundaries, fork at epoch 0) are now part of C09's check.",
        "* `C12-deposit-network-from-flag` (deposit domain taken from the `--network` default when `--testnet-*` flags are used): `create cluster` was only run on named networks; the driver now also creates a custom test network.",
        "* `C16-stale-clock-late-add` (the late-add check compares with a clock value read before the `select`): the driver's quiescence ping after every op is itself a deadliner event and refreshed the stale value; new op `qadv` moves the clock without any call into the deadliner before a registration whose deadline passed meanwhile.",
        "* `C18-aggsigdb-blocked-waiters-share-clone` (readers blocked on one key when it is stored all receive the same object): the alias walker only queried after the store; new environment variant `+w` parks two readers before the first `Store` and walks their answers (the hostile-caller scribbling of the C17 driver sees it as well).",
        "* `C08-aggregate-scratch-stale-after-error` (pooled scratch buffer of `ThresholdAggregate` not emptied on the error path): every aggregation in the driver was independent; a refused aggregation (one partial that is not a curve point) now precedes every qualified one.",
        "* `C01-qbft-wire-single-value-unhashed` (a single attached value filed under the signed hash without re-hashing): C01's check now also runs the consensus admission stream (agreeing on a hash means storing the same object only if values are bound to their hashes).",
        "* `C04-round-timer-cached-per-duty-type` (the wrapper memoises the round timer per duty type; the default timer captures the duty's slot): timers were only driven through `timer.GetRoundTimerFunc`; the wrapper stream now wraps the component's timer factory (hook `WrapTimerFuncVerif`) and reports `conswrap:round_timer_of_other_duty`; C04's check runs it.",
        "* `C10-parsigex-verify-workers` (entries beyond the fourth of a received set are never verified) was first reported only through translator T-vapi (no input): peer sets had at most three entries; the generator now sends sets of 6–8 validators with one bad entry at any position.",
        "* `C02-instance-io-recycled-with-stale-recv` made the admission driver block inside `handle` (a recycled receive buffer fuller than the driver knew): `handle` calls are now bounded (`qbftwire:handle_blocked`); the change itself is reported as a broken correspondence of the wrapper stream.",
        "* `C06-cancel-drops-sibling-waiters` made the dutydb driver crawl for 25 minutes (every blocked waiter waited out its time-out): all drivers now stop generating after 200 violations that are not known findings.",
        "* `C11-bcast-dedup-mark-after-handover` (check-then-mark of the broadcast de-duplication no longer atomic) and `C11-r1p2p-envelope-checked-once` (only the first share of a round-1 message is checked for its addressing): new op `race` (two overlapping deliveries of one cast, the first held in the hand-over) with theorem `overlapping_no_duplicate_sender`; forged messages with exactly one mis-addressed entry at a later position with theorem `every_entry_validated`. The first change also showed that the search phase of the check was unbounded (25 minutes): it is now limited to the broken streams and to 6 minutes in the quick tier.",
        "* `C20-reorg-epoch-floor-arithmetic` (the SSE listener computes the reorg epoch as `slot/spe - depth/spe`): the epoch handed to `InvalidateCache` was an input of the driver; the real `handleChainReorgEvent` is now driven (hook, op `sse`) with model `Model/SseReorg.lean`, theorems `Props/C20Sse.lean` and monitor `dutiescache:sse_reorg_epoch_wrong`.",
        "* `C19-proxy-shared-body-reader`, `C19-node-client-created-with-detached-ctx`: `multi.Proxy` and the lazy http client path were not driven; ops `proxy` (real `multi` over scripted nodes that read the body they are handed; model `Model/ProxyCall.lean`, 8 theorems in `Props/C19Proxy.lean`) and `http` (real `NewMultiHTTP` against loopback servers: healthy, accepts-and-never-answers, closed port, slow) were added to the provide stream.",
        "* `C12-nodesig-recid-unchecked` (only the first 64 bytes of a node signature are verified): hex fields were altered in the middle only; alterations of the first and the last hex digit were added.",
        "* `C07-parsigex-seen-cache-ignores-subcommittee` (a de-duplication cache in the peer handler swallows the second subcommittee's partials): C07's check now runs the admission stream; monitor `admit:valid_not_delivered`.",
        "* `C13-caster-session-definition-hash` (the cluster-changing ceremonies hand the definition hash instead of the lock hash to `bcast.New`): glue outside `dkg/bcast`; translator T-session regenerates the table of `bcast.New` call sites and `Props/C13Session.sessions_per_ceremony` decides it (reported without input: it is a configuration slip).",
        ""]
# notes of later sessions are kept in bin/seednotes_extra.md (plain markdown bullets)
_extra = os.path.join(os.path.dirname(os.path.abspath(__file__)), "seednotes_extra.md")
if os.path.exists(_extra):
    if out and out[-1] == "":
        out.pop()
    out += open(_extra).read().rstrip("\n").split("\n") + [""]
out += [
 "### 9.2 Single-token mutation campaign (`bin/mutate.py`, `bin/remutate.py`)",
 "",
 "Besides the hand-made changes, one anchored source file per property was mutated mechanically (relational and logical operator",
 "replacements, off-by-one constants, dropped `!`; one token per mutant, in a scratch worktree). A mutant was kept only if it",
 "compiles, vets and **passes the existing tests of its package**; then the property's quick check was run against it. Of 67",
 "such surviving mutants (12 files) 37 were reported by the check. The other 30 were examined one by one; none changes behaviour",
 "the property speaks about:",
 "",
 "| file (property) | surviving | caught | not caught: why equivalent for the property |",
 "|---|---|---|---|",
 "| `core/bcast/bcast.go` (C01) | 4 | 2 | 2 × `newDelayFunc` (metrics delay) |",
 "| `core/qbft/qbft.go` (C02) | 6 | 4 | token inside a `/* */` comment; `>`→`>=` between two ROUND-CHANGEs of one source and one round (same round: same result) |",
 "| `core/consensus/qbft/qbft.go` (C05) | 8 | 4 | tracing span status, `LogRoundChange` wrapper, round-timeout log selector, compare callback of the alpha feature `chain_split_halt` |",
 "| `core/dutydb/memory.go` (C06) | 1 | 1 | – |",
 "| `core/parsigdb/memory.go` (C07) | 8 | 4 | which of two errors is remembered on an unreachable `MessageRoot` failure; `len==0 \\|\\| len<t` → `&&` (same result for t ≥ 1); warning log; exit metrics counter |",
 "| `tbls/herumi.go` (C08) | 5 | 3 | `threshold <= 1` → `< 1` in both split functions (accepts t = 1, outside the property's 2 ≤ t) |",
 "| `core/sigagg/sigagg.go` (C09) | 4 | 4 | – |",
 "| `core/parsigex/parsigex.go` (C10) | 2 | 1 | tracing span only for proposer duties |",
 "| `cluster/lock.go` (C12) | 5 | 1 | `threshold < 1` → `<= 1` (t = 1 locks are not created); reconstruct with t+1 instead of t shares (same key); two `\\|\\|`→`&&` in the \"no registration\" test whose other branch rejects the same files |",
 "| `core/scheduler/scheduler.go` (C15) | 8 | 6 | warning log; builder-registration submission (not a duty). Five more survivors in the head-event functions led to the model extension `C15Head` and to D-17 and are caught now |",
 "| `app/eth2wrap/eth2wrap.go` (C19) | 8 | 2 | error wrapping text, latency/best-address metrics, reset period of a counter |",
 "| `app/eth2wrap/cache.go` (C20) | 8 | 5 | debug log branches, `cacheUsed` metric |",
 "",
 "For the other files tried (`core/aggsigdb/memory_v2.go`, `dkg/bcast/server.go`, `core/deadline.go`) every mutant attempted was",
 "already killed by the package's own tests. The first run of the campaign also exposed that a check could spend 25 minutes in its",
 "search phase (recorded as a miss by the campaign's time-out): the phase is bounded now, the affected mutants were re-run.",
 ""]
txt = "\n".join(out)
p = '/verif/DESIGN.md'
s = open(p).read()
a = s.index('## 9. Seeded changes')
b = s.index('## 10. False alarms corrected')
s = s[:a] + txt + "\n---------------------------------------------------------------------------------------\n\n" + s[b:]
open(p, 'w').write(s)
print(len(rows), 'rows')
