#!/usr/bin/env python3
"""bin/coverage.py [tier] [Cxx ...] — which statements of /repo do the correspondence drivers execute?

Builds every driver of the registry with `go build -cover -coverpkg=github.com/obolnetwork/charon/...`,
runs each stream's corpus and generated workload (tier quick by default) with GOCOVERDIR set, and prints
per-function statement coverage of the packages the properties are anchored in. Functions of those
packages that no stream reaches are blind spots of the correspondence (a change there cannot be seen by any
driver); the output of this script is what directs the next extension of the drivers. Not part of any check."""
import fcntl, glob, json, os, subprocess, sys, shutil
sys.path.insert(0, os.path.dirname(os.path.dirname(os.path.abspath(__file__))))
from vlib import core
from vlib.props import PROPS

tier = sys.argv[1] if len(sys.argv) > 1 else "quick"
only = set(sys.argv[2:])
work = os.path.join(core.VERIF, ".work", "cover")
shutil.rmtree(work, ignore_errors=True)
os.makedirs(work + "/bin"); os.makedirs(work + "/data")
core.mkmod()
streams = {}
for pid, P in PROPS.items():
    if only and pid not in only:
        continue
    for s in P.get("streams", []):
        streams.setdefault((s["name"], s["drive"]), (pid, s))
env = dict(core.GOENV)
built = {}
for (name, drive), (pid, s) in sorted(streams.items()):
    if drive not in built:
        out = os.path.join(work, "bin", drive)
        lf = open(os.path.join(core.HARNESS, ".mod.lock"), "w"); fcntl.flock(lf, fcntl.LOCK_EX); core.mkmod()
        p = subprocess.run(["go", "build", "-tags", "verif", "-cover", "-coverpkg=github.com/obolnetwork/charon/...,verifharness/...",
                            "-o", out, "./cmd/" + drive], cwd=core.HARNESS, env=env, capture_output=True, text=True)
        fcntl.flock(lf, fcntl.LOCK_UN); lf.close()
        if p.returncode != 0:
            print("build failed", drive, p.stderr[-2000:]); continue
        built[drive] = out
    d = os.path.join(work, "data", name); os.makedirs(d, exist_ok=True)
    renv = dict(os.environ, GOCOVERDIR=d, GOMEMLIMIT="8GiB")
    for cf in sorted(glob.glob(os.path.join(core.VERIF, "corpus", "*", name + "*.ops"))):
        subprocess.run([built[drive], "-mode", "exec", "-ops", cf, "-dir", os.path.join(work, "run-" + name + "-c")],
                       env=renv, capture_output=True, text=True, timeout=3600)
    for k in range(s.get("seeds_" + tier, 1)):
        subprocess.run([built[drive], "-mode", "gen", "-seed", str(1000 + k), "-n", str(s.get("n_" + tier, 1000)), "-tier", tier,
                        "-dir", os.path.join(work, "run-" + name)], env=renv, capture_output=True, text=True, timeout=3600)
    print("ran", name, flush=True)
lf = open(os.path.join(core.HARNESS, ".mod.lock"), "w"); fcntl.flock(lf, fcntl.LOCK_EX); core.mkmod()
dirs = ",".join(sorted(glob.glob(work + "/data/*")))
subprocess.run(["go", "tool", "covdata", "textfmt", "-i=" + dirs, "-o", work + "/all.txt"], cwd=core.HARNESS, env=env)
p = subprocess.run(["go", "tool", "cover", "-func", work + "/all.txt"], cwd=core.HARNESS, env=env, capture_output=True, text=True)
open(work + "/func.txt", "w").write(p.stdout)
print("wrote", work + "/func.txt")
