#!/usr/bin/env python3
"""bin/mutate.py <Cxx> <go file relative to /repo> [--max N] [--seed S] [--funcs f1,f2] [--out file.jsonl]

Systematic single-token mutation of one source file of /repo in a scratch worktree (never /repo itself):
relational / logical operator replacements, off-by-one constants, dropped `!`. A mutant is kept only if it
compiles (also with -tags verif), passes `go vet` and the EXISTING tests of its package (so it is a change the
test suite cannot see); then the property's quick check is run against it (VERIF_REPO=<worktree>). One JSON line
per surviving mutant: site, operator, whether the check reported a violation and how. Equivalent mutants show up
as "missed" and have to be triaged by hand; the table in DESIGN.md lists them with the verdict.
"""
import json, os, random, re, subprocess, sys, time

VERIF = os.path.dirname(os.path.dirname(os.path.abspath(__file__)))
args = sys.argv[1:]
prop, rel = args[0], args[1]
def opt(name, default=None):
    if name in args:
        return args[args.index(name) + 1]
    return default
maxn = int(opt("--max", "25"))
seed = int(opt("--seed", "1"))
funcs = [f for f in (opt("--funcs", "") or "").split(",") if f]
out = opt("--out", os.path.join(VERIF, ".work", "mut", f"{prop}-{os.path.basename(rel)}.jsonl"))
os.makedirs(os.path.dirname(out), exist_ok=True)
wt = f"/var/tmp/mut-{prop}-{os.getpid()}"
env = dict(os.environ, GOFLAGS="-mod=mod", GOPROXY="off")

def sh(cmd, cwd=None, timeout=900, extra_env=None):
    e = dict(env)
    if extra_env:
        e.update(extra_env)
    try:
        p = subprocess.run(cmd, shell=True, cwd=cwd, env=e, capture_output=True, text=True, timeout=timeout)
        return p.returncode, p.stdout + p.stderr
    except subprocess.TimeoutExpired:
        return 124, "timeout"

OPS = [
    (r"<=", "<"), (r">=", ">"), (r"(?<![<\-=!>])<(?![=<\-])", "<="), (r"(?<![>\-=!<])>(?![=>])", ">="),
    (r"==", "!="), (r"!=", "=="), (r"&&", "||"), (r"\|\|", "&&"),
    (r"\+ 1\b", "+ 0"), (r"- 1\b", "- 0"), (r"\+ 1\b", "+ 2"),
    (r"!(?=[a-zA-Z_(])", ""),
]

def sites(src):
    """(line index, start, end, replacement) for every operator occurrence in code (not comments/strings/imports)."""
    res = []
    infunc = None
    depth = 0
    for li, line in enumerate(src):
        m = re.match(r"func (?:\([^)]*\) )?(\w+)\(", line)
        if m and depth == 0:
            infunc = m.group(1)
        code = line.split("//")[0]
        if infunc is None or (funcs and infunc not in funcs):
            depth += code.count("{") - code.count("}")
            continue
        stripped = code.strip()
        depth += code.count("{") - code.count("}")
        if not stripped or stripped.startswith(("log.", "return errors.", "z.", "import", "\"")):
            continue
        if "errors.New(" in code or "errors.Wrap(" in code or "log." in code or "fmt.Sprintf" in code:
            continue
        # blank out string literals
        masked = re.sub(r'"(?:\\.|[^"\\])*"', lambda m: " " * len(m.group(0)), code)
        masked = re.sub(r"'(?:\\.|[^'\\])'", lambda m: " " * len(m.group(0)), masked)
        for pat, rep in OPS:
            for m in re.finditer(pat, masked):
                if pat.startswith("(?<![<") and ("chan" in masked or "<-" in masked or "[" in masked[max(0, m.start() - 30):m.start()] and "]" not in masked[max(0, m.start() - 30):m.start()]):
                    continue  # channel ops / generics
                if pat == r"==" and "nil" in masked[m.end():m.end() + 6] and "err" in masked[max(0, m.start() - 6):m.start()]:
                    continue  # err == nil flips are loud
                if pat == r"!=" and "nil" in masked[m.end():m.end() + 6] and "err" in masked[max(0, m.start() - 6):m.start()]:
                    continue
                res.append((li, m.start(), m.end(), rep, infunc))
    return res

sh(f"git -C /repo worktree remove --force {wt}")
rc, o = sh(f"git -C /repo worktree add -q --detach {wt} HEAD")
assert rc == 0, o
pkg = "./" + os.path.dirname(rel)
try:
    path = os.path.join(wt, rel)
    orig = open(path).read()
    src = orig.split("\n")
    cand = sites(src)
    random.Random(seed).shuffle(cand)
    done = 0
    tried = 0
    seen_lines = {}
    # baseline test time / result
    rc0, o0 = sh(f"go test -count=1 -timeout 45s {pkg}/", cwd=wt, timeout=300)
    base_fail = sorted(set(re.findall(r"^--- FAIL: (\S+)", o0, flags=re.M)))
    for (li, a, b, rep, fn) in cand:
        if done >= maxn or tried >= 6 * maxn:
            break
        if seen_lines.get(li, 0) >= 2:
            continue
        seen_lines[li] = seen_lines.get(li, 0) + 1
        tried += 1
        line = src[li]
        new = line[:a] + rep + line[b:]
        msrc = list(src)
        msrc[li] = new
        open(path, "w").write("\n".join(msrc))
        rcb, ob = sh(f"go build {pkg}/ && go build -tags verif {pkg}/ && go vet {pkg}/", cwd=wt, timeout=600)
        if rcb != 0:
            continue
        rct, ot = sh(f"go test -count=1 -timeout 45s {pkg}/", cwd=wt, timeout=300)
        fails = sorted(set(re.findall(r"^--- FAIL: (\S+)", ot, flags=re.M)))
        if rct != 0 and not (fails and fails == base_fail):
            continue  # killed by the existing tests
        t0 = time.time()
        rcc, oc = sh(f"timeout 1500 ./check {prop} --tier quick", cwd=VERIF, timeout=1600, extra_env={"VERIF_REPO": wt})
        lines = [l for l in oc.split("\n") if "VIOLATION" in l or "monitor violation" in l or "no longer checks" in l]
        rec = {"property": prop, "file": rel, "line": li + 1, "func": fn, "old": line.strip(), "new": new.strip(),
               "check_exit": rcc, "detected": rcc == 1 and any("VIOLATION" in l for l in lines),
               "how": [l[:200] for l in lines[:3]], "wall_s": int(time.time() - t0)}
        with open(out, "a") as f:
            f.write(json.dumps(rec) + "\n")
        print(json.dumps({k: rec[k] for k in ("line", "func", "old", "new", "detected")}), flush=True)
        done += 1
    open(path, "w").write(orig)
finally:
    sh(f"git -C /repo worktree remove --force {wt}")
