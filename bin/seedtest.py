#!/usr/bin/env python3
"""bin/seedtest.py <Cxx> <seed-dir> — confirm a seeded change (compiles, existing tests pass, demo
fails with / passes without), run the property's check against it, and file it under
/verif/seeded/<Cxx>-<name>/ with meta.json recording what was run and what the check reported."""
import json, os, shutil, subprocess, sys, glob, time
prop, src = sys.argv[1], sys.argv[2].rstrip("/")
name = os.path.basename(src)
meta = json.load(open(os.path.join(src, "meta.json")))
wt = f"/var/tmp/seedrun-{prop}-{name}"
env = dict(os.environ, GOFLAGS="-mod=mod", GOPROXY="off")
def sh(cmd, cwd=None, timeout=3000):
    p = subprocess.run(cmd, shell=True, cwd=cwd, env=env, capture_output=True, text=True, timeout=timeout)
    return p.returncode, (p.stdout + p.stderr)
subprocess.run(f"git -C /repo worktree remove --force {wt}", shell=True, capture_output=True)
rc, out = sh(f"git -C /repo worktree add -q --detach {wt} HEAD")
assert rc == 0, out
res = {"property": prop, "name": name, "base_commit": sh("git -C /repo rev-parse --short HEAD")[1].strip()}
try:
    tests = [f for f in glob.glob(os.path.join(src, "*_test.go")) + glob.glob(os.path.join(src, "*_test.go.txt"))
             + glob.glob(os.path.join(src, "*.go.txt"))]
    tests = sorted(set(tests))
    def tname(t):
        b = os.path.basename(t)
        b = b[:-4] if b.endswith(".txt") else b
        return b if b.endswith("_test.go") else b[:-3] + "_test.go"
    files = meta.get("files_changed", [])
    pkgs = sorted({"./" + os.path.dirname(f) for f in files})
    # where does the demo go? meta demo_cmd names the package; fall back to the first changed package
    demo_pkg = pkgs[0]
    import re
    m = re.search(r"(\./[\w/]+)/?\s*$", meta.get("demo_cmd", ""))
    if m: demo_pkg = m.group(1)
    for t in tests:
        shutil.copy(t, os.path.join(wt, demo_pkg, tname(t)))
    run_names = "|".join(sorted(set(re.findall(r"func (Test\w+)\(", "".join(open(t).read() for t in tests)))))
    demo = f"go test -count=1 -run '^({run_names})$' {demo_pkg}/"
    rc0, o0 = sh(demo, cwd=wt)
    res["demo_without_patch"] = "pass" if rc0 == 0 else "FAIL"
    rc, o = sh(f"git apply {os.path.join(src, 'patch.diff')}", cwd=wt)
    assert rc == 0, o
    rcb, ob = sh("go build ./... && go build -tags verif ./...", cwd=wt)
    res["compiles"] = rcb == 0
    rc1, o1 = sh(demo, cwd=wt)
    res["demo_with_patch"] = "pass" if rc1 == 0 else "fail"
    res["demo_cmd"] = demo
    # existing tests of the touched packages without the demo test
    for t in tests:
        os.remove(os.path.join(wt, demo_pkg, tname(t)))
    tp = " ".join(p + "/..." for p in pkgs)
    rct, ot = sh(f"go test -count=1 {tp}", cwd=wt)
    fails = sorted(set(re.findall(r"^--- FAIL: (\S+)", ot, flags=re.M)))
    result = "pass" if rct == 0 else "FAIL: " + ot[-800:]
    if rct != 0:
        # some tests fail in this sandbox without any change (no network, running as root): compare with the untouched tree
        sh(f"git apply -R {os.path.join(src, 'patch.diff')}", cwd=wt)  # (the stash is shared between worktrees: not used)
        rcb0, ob0 = sh(f"go test -count=1 {tp}", cwd=wt)
        sh(f"git apply {os.path.join(src, 'patch.diff')}", cwd=wt)
        base = sorted(set(re.findall(r"^--- FAIL: (\S+)", ob0, flags=re.M)))
        if fails == base and fails:
            result = "pass (same %d sandbox-related failures as the untouched tree: %s)" % (len(base), ",".join(base)[:200])
    res["existing_tests"] = {"cmd": f"go test -count=1 {tp}", "result": result}
    # the property's check against the changed tree
    t0 = time.time()
    chk = subprocess.run(f"VERIF_REPO={wt} timeout 1500 ./check {prop} --tier quick", shell=True, cwd="/verif", capture_output=True, text=True)
    lines = [l for l in chk.stdout.split("\n") if l.startswith("VIOLATION") or l.startswith(f"[{prop}]")]
    res["check"] = {"cmd": f"VERIF_REPO=<worktree with patch> ./check {prop} --tier quick", "exit": chk.returncode,
                    "wall_s": round(time.time() - t0), "lines": [l[:400] for l in lines][:8]}
    res["detected"] = chk.returncode == 1
finally:
    subprocess.run(f"git -C /repo worktree remove --force {wt}", shell=True, capture_output=True)
ok = res.get("compiles") and res.get("demo_without_patch") == "pass" and res.get("demo_with_patch") == "fail" and res["existing_tests"]["result"].startswith("pass")
res["confirmed"] = bool(ok)
dst = f"/verif/seeded/{name}" if name.startswith(prop + "-") else f"/verif/seeded/{prop}-{name}"
if ok:
    os.makedirs(dst, exist_ok=True)
    same = os.path.realpath(src) == os.path.realpath(dst)   # re-run of a filed change
    if not same:
        shutil.copy(os.path.join(src, "patch.diff"), dst)
    for t in tests:
        b = os.path.basename(t)
        if not same:
            shutil.copy(t, os.path.join(dst, b if b.endswith(".txt") else b + ".txt"))  # .txt: not part of any Go package
    m2 = {k: v for k, v in meta.items() if k not in ("verification", "history")}; m2["verification"] = res
    old_meta_path = os.path.join(dst, "meta.json")
    if os.path.exists(old_meta_path):
        try:
            om = json.load(open(old_meta_path))
            hist = om.get("history", [])
            ov = om.get("verification", {})
            hist.append({"detected": ov.get("detected"), "check_lines": ov.get("check", {}).get("lines", [])[:2],
                         "note": "earlier run of the check against this change (before the machinery was strengthened)" if not ov.get("detected") else "earlier run"})
            m2["history"] = hist
        except Exception:
            pass
    json.dump(m2, open(os.path.join(dst, "meta.json"), "w"), indent=1)
print(json.dumps(res, indent=1))
