/-
C11 — DKG (FROST) yields one consistent threshold key (`dkg/frost.go`, `dkg/frostp2p.go`,
`dkg/share/share.go`).

"After a successful distributed key generation among n nodes with threshold t, for every validator
all nodes hold the same group public key and the same n public shares, each node's secret share
matches the public share published for it, any t public shares reconstruct the group public key,
and any t secret shares produce partial signatures that combine into a signature valid under the
group key. This holds for every cluster size, threshold and validator count."

Part A (algebra, Mathlib; arbitrary field `F`, modules `G1`, `G2`): for every dealer set `D`, every
threshold `t`, every family of dealer polynomials `f v i` of degree `< t` indexed by an arbitrary
validator type `V` (any validator count), every identifier set `S` with `|S| ≥ t` and distinct
identifiers. Reduces to C08 through `dkg_is_shamir`.

Part B (charon's routing glue, `Model/FrostGlue.lean`): for every iteration order of the Go maps.

Honest ceremony: all dealers follow the protocol (degree `< t`, same polynomial towards every
receiver). Malicious dealers are excluded by the property's premise "successful" + Feldman
verification inside kryptology, which is not modelled.
-/
import CharonV.Proofs.Frost
import CharonV.Props.C08
import CharonV.Proofs.TblsFr
import CharonV.Proofs.FrPrime
import CharonV.Proofs.FrostP2P

namespace CharonV.Frost

open Polynomial Finset CharonV.Tbls

variable {F : Type*} [Field F]
variable {G1 G2 Msg V : Type*} [AddCommGroup G1] [Module F G1] [AddCommGroup G2] [Module F G2]

/-- **The DKG output is a Shamir sharing.** For every validator `v`: the nodes' secret shares are
the evaluations of one polynomial of degree `< t` (the sum of the dealers' polynomials), whose value
at 0 is the group secret `Σ_i f_i(0)`. -/
theorem dkg_is_shamir (t : ℕ) (D : Finset ℕ) (f : V → ℕ → F[X])
    (hf : ∀ v, ∀ i ∈ D, (f v i).degree < t) (v : V) :
    (groupPoly D (f v)).degree < t ∧
    (∀ j, nodeShare D (f v) j = share (groupPoly D (f v)) j) ∧
    groupSecret D (f v) = (groupPoly D (f v)).eval 0 :=
  ⟨groupPoly_degree_lt t D (f v) (hf v), nodeShare_eq_share D (f v), groupSecret_eq_eval D (f v)⟩

/-- **All nodes hold the same group public key**: the key node `j` computes (its own constant
commitment plus all received ones, kryptology round 2 step 8) is the same for every node and is the
public key of the group secret. -/
theorem group_key_agreement (g1 : G1) (D : Finset ℕ) (f : V → ℕ → F[X]) (v : V) (j : ℕ) (hj : j ∈ D) :
    vkAt g1 D (f v) j = groupKey g1 D (f v) := by
  unfold vkAt groupKey groupSecret commit0 pk
  rw [Finset.add_sum_erase D (fun i => ((f v i).eval 0) • g1) hj, Finset.sum_smul]

/-- **Each node's secret share matches the public share published for it**, and that public share
is the sharing polynomial's evaluation in the exponent — the same value whoever computes it. -/
theorem pubshare_consistent (g1 : G1) (D : Finset ℕ) (f : V → ℕ → F[X]) (v : V) (j : ℕ) :
    pubShare g1 D (f v) j = pk g1 (nodeShare D (f v) j) ∧
    pubShare g1 D (f v) j = pk g1 (share (groupPoly D (f v)) j) := by
  refine ⟨rfl, ?_⟩
  unfold pubShare
  rw [nodeShare_eq_share]

/-- **Any `t` public shares reconstruct the group public key.** -/
theorem pubshares_reconstruct_group_key (t : ℕ) (D : Finset ℕ) (f : V → ℕ → F[X])
    (hf : ∀ v, ∀ i ∈ D, (f v i).degree < t) (v : V) (g1 : G1) (S : Finset ℕ) (hS : t ≤ S.card)
    (hinj : IdsDistinct F S) :
    recoverG F S (pubShare g1 D (f v)) = groupKey g1 D (f v) := by
  have h := recover_pubkey t (groupPoly D (f v)) (groupPoly_degree_lt t D (f v) (hf v)) S hS hinj g1
  unfold groupKey
  rw [groupSecret_eq_eval, ← h]
  unfold pubShare
  simp only [nodeShare_eq_share]

/-- **Any `t` secret shares recover the group secret** (never done in production; this is what
"threshold key" means). -/
theorem shares_recover_group_secret (t : ℕ) (D : Finset ℕ) (f : V → ℕ → F[X])
    (hf : ∀ v, ∀ i ∈ D, (f v i).degree < t) (v : V) (S : Finset ℕ) (hS : t ≤ S.card)
    (hinj : IdsDistinct F S) :
    recover S (nodeShare D (f v)) = groupSecret D (f v) := by
  have h := recover_secret t (groupPoly D (f v)) (groupPoly_degree_lt t D (f v) (hf v)) S hS hinj
  rw [groupSecret_eq_eval, ← h]
  unfold recover
  simp only [nodeShare_eq_share]

/-- **Any `t` partial signatures combine into a signature valid under the group key**, namely the
signature of the (never materialised) group secret — the same for every qualified set. -/
theorem partials_combine_to_group_signature (t : ℕ) (D : Finset ℕ) (f : V → ℕ → F[X])
    (hf : ∀ v, ∀ i ∈ D, (f v i).degree < t) (v : V) (g1 : G1) (Hm : Msg → G2) (m : Msg)
    (S : Finset ℕ) (hS : t ≤ S.card) (hinj : IdsDistinct F S) :
    recoverG F S (fun j => sign Hm (nodeShare D (f v) j) m) = sign Hm (groupSecret D (f v)) m ∧
    Verifies F g1 Hm (groupKey g1 D (f v)) m
      (recoverG F S (fun j => sign Hm (nodeShare D (f v) j) m)) := by
  have h := threshold_aggregate t (groupPoly D (f v)) (groupPoly_degree_lt t D (f v) (hf v)) S hS hinj
    g1 Hm m
  simp only [← nodeShare_eq_share, ← groupSecret_eq_eval] at h
  exact h

/-! ### Pedersen variant (`dkg/pedersen`, kyber `share/dkg`) and resharing

The theorems above do not depend on the scheme: kyber's Pedersen DKG ends with a set `Q` of
qualified dealers (in an honest run all `n` nodes; dealers whose deals drew an unanswered complaint
are dropped), every `i ∈ Q` having dealt the evaluations of one polynomial `f i` of degree `< t`
(`Threshold` coefficients, enforced towards the receivers by the public commitments in
`DealBundle.Public`); node `j`'s `DistKeyShare.Share` is `Σ_{i∈Q} f_i(j)` at evaluation point
`j = PeerIdx + 1 = ShareIdx`, `DistKeyShare.Commits` are the coefficient-wise sums of the
commitments, and `processKey` publishes `Commits[0]` as the validator key and `share • g` as public
share. These are the hypotheses of `dkg_is_shamir` with the dealer set `D := Q`. -/

/-- **Pedersen DKG, any qualified set.** Whatever set `Q` of dealers ends up qualified, the outputs
are a degree-`< t` sharing of `Σ_{i∈Q} f_i(0)`: the group key is the sum of the qualified constant
commitments, any `t` public shares reconstruct it, and any `t` partial signatures combine into a
signature valid under it. -/
theorem pedersen_outputs (t : ℕ) (Q : Finset ℕ) (f : V → ℕ → F[X])
    (hf : ∀ v, ∀ i ∈ Q, (f v i).degree < t) (v : V) (g1 : G1) (Hm : Msg → G2) (m : Msg)
    (S : Finset ℕ) (hS : t ≤ S.card) (hinj : IdsDistinct F S) :
    groupKey g1 Q (f v) = ∑ i ∈ Q, commit0 g1 (f v) i ∧
    recoverG F S (pubShare g1 Q (f v)) = groupKey g1 Q (f v) ∧
    recover S (nodeShare Q (f v)) = groupSecret Q (f v) ∧
    Verifies F g1 Hm (groupKey g1 Q (f v)) m
      (recoverG F S (fun j => sign Hm (nodeShare Q (f v) j) m)) := by
  refine ⟨?_, pubshares_reconstruct_group_key t Q f hf v g1 S hS hinj,
    shares_recover_group_secret t Q f hf v S hS hinj,
    (partials_combine_to_group_signature t Q f hf v g1 Hm m S hS hinj).2⟩
  unfold groupKey groupSecret commit0 pk
  rw [Finset.sum_smul]

/-- **Resharing yields a sharing of the same secret.** Let `p` (degree `< t`) be the current
sharing polynomial and `O` any `≥ t` old nodes with distinct identifiers. If every old node `i`
deals a polynomial `g i` of degree `< t'` with `g i (0) = p i` (a sub-sharing of its own share),
the new shares `Σ_{i∈O} λ_i^O · g_i(j)` are the evaluations of one polynomial of degree `< t'`
whose value at 0 is `p 0` — for all `t`, `t'`, `O`, and any new node identifiers. -/
theorem reshare_is_shamir (t t' : ℕ) (p : F[X]) (hp : p.degree < t) (O : Finset ℕ) (hO : t ≤ O.card)
    (hinj : IdsDistinct F O) (g : ℕ → F[X]) (hg : ∀ i ∈ O, (g i).degree < t')
    (hg0 : ∀ i ∈ O, (g i).eval 0 = share p i) :
    (resharePoly O g).degree < t' ∧
    (∀ j, reshareShare O g j = share (resharePoly O g) j) ∧
    (resharePoly O g).eval 0 = p.eval 0 := by
  refine ⟨resharePoly_degree_lt t' O g hg, reshareShare_eq_share O g, ?_⟩
  rw [← recover_secret t p hp O hO hinj]
  unfold resharePoly recover
  rw [eval_finsetSum]
  exact Finset.sum_congr rfl fun i hi => by rw [eval_mul, eval_C, hg0 i hi]

/-- **After a reshare** any `t'` new shares recover the old secret, the new public shares
reconstruct the unchanged group key, and `t'` partial signatures verify under it. -/
theorem reshare_keeps_key (t t' : ℕ) (p : F[X]) (hp : p.degree < t) (O : Finset ℕ) (hO : t ≤ O.card)
    (hinj : IdsDistinct F O) (g : ℕ → F[X]) (hg : ∀ i ∈ O, (g i).degree < t')
    (hg0 : ∀ i ∈ O, (g i).eval 0 = share p i) (g1 : G1) (Hm : Msg → G2) (m : Msg)
    (S : Finset ℕ) (hS : t' ≤ S.card) (hinjS : IdsDistinct F S) :
    recover S (reshareShare O g) = p.eval 0 ∧
    recoverG F S (fun j => pk g1 (reshareShare O g j)) = pk g1 (p.eval 0) ∧
    Verifies F g1 Hm (pk g1 (p.eval 0)) m
      (recoverG F S (fun j => sign Hm (reshareShare O g j) m)) := by
  obtain ⟨hd, hs, h0⟩ := reshare_is_shamir t t' p hp O hO hinj g hg hg0
  have hfun : reshareShare O g = share (resharePoly O g) := funext hs
  rw [hfun, ← h0]
  exact ⟨recover_secret t' _ hd S hS hinjS, recover_pubkey t' _ hd S hS hinjS g1,
    (threshold_aggregate t' _ hd S hS hinjS g1 Hm m).2⟩

end CharonV.Frost

/-! ### Part B — charon's message routing (`dkg/frost.go`) -/

namespace CharonV.FrostGlue

/-- **Messages of validator `v'` never reach the participant of validator `v`.** Whatever the
iteration order of the maps, every round-1 share (and broadcast) that `getRound2Inputs` hands to
validator `v`'s participant under source id `src` was filed under a key with exactly that validator
index and source. -/
theorem no_cross_validator_delivery {S C : Type} (p2pR1 : List (MsgKey × S)) (castR1 : List (MsgKey × C))
    (v src : Nat) :
    (∀ s, r2Share p2pR1 v src = some s → ∃ k, (k, s) ∈ p2pR1 ∧ k.valIdx = v ∧ k.sourceID = src) ∧
    (∀ c, r2Cast castR1 v src = some c → ∃ k, (k, c) ∈ castR1 ∧ k.valIdx = v ∧ k.sourceID = src) := by
  constructor
  · intro s h
    obtain ⟨k, hm, hp⟩ := lastMatch_some_mem _ _ _ h
    simp only [Bool.and_eq_true, beq_iff_eq] at hp
    exact ⟨k, hm, hp.1, hp.2⟩
  · intro c h
    obtain ⟨k, hm, hp⟩ := lastMatch_some_mem _ _ _ h
    simp only [Bool.and_eq_true, beq_iff_eq] at hp
    exact ⟨k, hm, hp.1, hp.2⟩

/-- **Every validator's participant gets exactly the share its source sent for that validator.**
The map a node receives from the transport has pairwise different keys and only shares addressed
to that node (`targetID = self`); then for every entry, and every iteration order, the participant
of the entry's validator receives precisely that share under the entry's source id. -/
theorem round2_inputs_exact {S : Type} (p2pR1 : List (MsgKey × S)) (self : Nat)
    (hnd : (p2pR1.map (·.1)).Nodup) (htgt : ∀ e ∈ p2pR1, e.1.targetID = self)
    (k : MsgKey) (s : S) (hm : (k, s) ∈ p2pR1) :
    r2Share p2pR1 k.valIdx k.sourceID = some s := by
  refine lastMatch_of_unique _ _ k s hm (by simp) ?_
  intro k' s' hm' hp'
  simp only [Bool.and_eq_true, beq_iff_eq] at hp'
  have hk : k' = k := by
    have h1 := htgt _ hm
    have h2 := htgt _ hm'
    cases k; cases k'
    simp_all
  subst hk
  exact value_unique p2pR1 hnd k' s' s hm' hm

/-- **`PublicShares[v][j]` is node `j`'s verification share for validator `v`.** Round-2 results
are broadcasts (`targetID = 0`) with pairwise different keys; `makeShares` then files the
`VkShare` broadcast by node `j` for validator `v` — and nothing else — under `[v][j]`. -/
theorem public_shares_are_vkshares {P : Type} (r2 : List (MsgKey × P))
    (hnd : (r2.map (·.1)).Nodup) (htgt : ∀ e ∈ r2, e.1.targetID = 0) (v j : Nat) (vk : P) :
    pubShareAt r2 v j = some vk ↔ (⟨v, j, 0⟩, vk) ∈ r2 := by
  constructor
  · intro h
    obtain ⟨k, hm, hp⟩ := lastMatch_some_mem _ _ _ h
    simp only [Bool.and_eq_true, beq_iff_eq] at hp
    have h0 := htgt _ hm
    have : k = ⟨v, j, 0⟩ := by cases k; simp_all
    rw [← this]; exact hm
  · intro hm
    refine lastMatch_of_unique _ _ ⟨v, j, 0⟩ vk hm (by simp) ?_
    intro k' vk' hm' hp'
    simp only [Bool.and_eq_true, beq_iff_eq] at hp'
    have h0 := htgt _ hm'
    have : k' = ⟨v, j, 0⟩ := by cases k'; simp_all
    subst this
    exact value_unique r2 hnd _ vk' vk hm' hm

/-- **An incomplete round-1 message leaves a gap, never a substitute.** If the shares a node received
contain no entry of source `src` for validator `v` (a peer whose message to this node lacks that
validator's share), `getRound2Inputs` hands validator `v`'s participant NO share under source `src`
— for every iteration order, whatever else was received: the share of another validator or another
source is never taken instead. (kryptology's `Round2` then has a broadcast of `src` without its
share and cannot complete; a node that went on without `src`'s contribution would compute a key the
other nodes do not hold — stream `frost`, op `fcer`.) -/
theorem incomplete_message_leaves_gap {S : Type} (p2pR1 : List (MsgKey × S)) (v src : Nat)
    (hmiss : ∀ e ∈ p2pR1, ¬ (e.1.valIdx = v ∧ e.1.sourceID = src)) :
    r2Share p2pR1 v src = none ∧ src ∉ r2Sources p2pR1 v := by
  constructor
  · cases h : r2Share p2pR1 v src with
    | none => rfl
    | some s =>
      obtain ⟨k, hm, hp⟩ := lastMatch_some_mem _ _ _ h
      simp only [Bool.and_eq_true, beq_iff_eq] at hp
      exact absurd ⟨hp.1, hp.2⟩ (hmiss _ hm)
  · intro hin
    unfold r2Sources at hin
    rw [List.mem_eraseDups] at hin
    simp only [List.mem_map, List.mem_filter, beq_iff_eq] at hin
    obtain ⟨e, ⟨hm, hv⟩, hs⟩ := hin
    exact hmiss e hm ⟨hv, hs⟩

/-- **`round1` files every outgoing message under this node's id and the right validator**:
broadcasts with target 0, shares with the receiving node as target. -/
theorem round1_keys_spec (self : Nat) (vals targets : List Nat) (k : MsgKey) :
    (k ∈ (round1Keys self vals targets).1 ↔ k.valIdx ∈ vals ∧ k.sourceID = self ∧ k.targetID = 0) ∧
    (k ∈ (round1Keys self vals targets).2 ↔
      k.valIdx ∈ vals ∧ k.sourceID = self ∧ k.targetID ∈ targets) := by
  unfold round1Keys
  constructor
  · simp only [List.mem_map]
    constructor
    · rintro ⟨v, hv, rfl⟩; exact ⟨hv, rfl, rfl⟩
    · rintro ⟨hv, hs, ht⟩; exact ⟨k.valIdx, hv, by cases k; simp_all⟩
  · simp only [List.mem_flatMap, List.mem_map]
    constructor
    · rintro ⟨v, hv, tgt, ht, rfl⟩; exact ⟨hv, rfl, ht⟩
    · rintro ⟨hv, hs, ht⟩; exact ⟨k.valIdx, hv, k.targetID, ht, by cases k; simp_all⟩

end CharonV.FrostGlue

/-! ### Part C — the real transport's receive side (`dkg/frostp2p.go`, model `Model/FrostP2P.lean`)

`newBcastCallback` / `newP2PCallback` decide per delivered message (queue, drop as duplicate, refuse);
`frostP2P.Round1` / `Round2` then collect *by count*. The theorems quantify over every delivery
sequence: any order, any number of re-deliveries of identical messages, any invalid messages
interleaved (from non-members always; for shares also from members). -/

namespace CharonV.FrostP2P

/-- **One message per peer, validated.** After any delivery sequence whatsoever each of the three
queues holds only messages of cluster members that passed validation, and no two of the same
sender (`Inv`). -/
theorem queues_one_message_per_peer (c : Cfg) (d1 dp d2 : List Msg) :
    Inv c 0 (some c.t) (runCb (bcastCb c (some c.t)) {} d1) ∧
    Inv c c.self none (runCb (p2pCb c) {} dp) ∧
    Inv c 0 none (runCb (bcastCb c none) {} d2) :=
  ⟨runCb_inv (P := Inv c 0 (some c.t)) _ (fun s m h => bcastCb_inv c _ s m h) d1 _ (inv_empty ..),
   runCb_inv (P := Inv c c.self none) _ (fun s m h => p2pCb_inv c s m h) dp _ (inv_empty ..),
   runCb_inv (P := Inv c 0 none) _ (fun s m h => bcastCb_inv c _ s m h) d2 _ (inv_empty ..)⟩

/-- **Round 1 returns exactly one cast from every node and one share message from every other
node — duplicates never displace a distinct peer's message.** For every delivery sequence
`d1`/`dp` allowed by `Fair1` and every order `evs` in which the loop's `select` receives the
channel contents (own broadcast + queued casts; queued shares): the loop never fails with "too
many"; whenever it returns, it returns the genuine cast of each of the `n` nodes and the genuine
share message of each of the `n-1` others, each exactly once; and it does return once every peer's
genuine messages have been delivered (at least once, anywhere in the sequence). -/
theorem round1_one_from_each_peer (c : Cfg) (hself : 1 ≤ c.self ∧ c.self ≤ c.n)
    (d1 dp : List Msg) (hf : Fair1 c d1 dp) (evs : List (Bool × Msg))
    (hev1 : (castsOf evs).Perm (genCast1 c c.self :: (runCb (bcastCb c (some c.t)) {} d1).queue))
    (hevp : (p2psOf evs).Perm (runCb (p2pCb c) {} dp).queue) :
    collect1 c.n evs [] [] ≠ .tooMany ∧
    (∀ cs ps, collect1 c.n evs [] [] = .done cs ps →
      cs.length = c.n ∧ (cs.map (·.sender)).Nodup ∧ (∀ p, 1 ≤ p ∧ p ≤ c.n → genCast1 c p ∈ cs) ∧
      ps.length = c.n - 1 ∧ (ps.map (·.sender)).Nodup ∧
      (∀ p, (1 ≤ p ∧ p ≤ c.n) ∧ p ≠ c.self → genP2P c p ∈ ps)) ∧
    ((∀ p, (1 ≤ p ∧ p ≤ c.n) ∧ p ≠ c.self → genCast1 c p ∈ d1 ∧ genP2P c p ∈ dp) →
      ∃ cs ps, collect1 c.n evs [] [] = .done cs ps) := by
  obtain ⟨hnd1, hm1, hg1⟩ := cast_list_facts c (some c.t) (genCast1 c) (fun _ => rfl) hself d1
    hf.notSelf1 hf.honest1 _ hev1
  obtain ⟨hndp, hmp, hgp⟩ := p2p_list_facts c dp hf.notSelfP hf.honestP _ hevp
  obtain ⟨hlen1, hcov1⟩ := exact_cover c.n _ hnd1 hm1
  obtain ⟨hlenp, hcovp⟩ := exact_cover_others c.n c.self hself _ hndp hmp
  have hshape := collect1_shape c.n evs [] [] (by simpa using hlen1) (by simpa using hlenp)
  simp only [List.nil_append] at hshape
  have hdone : ∀ cs ps, collect1 c.n evs [] [] = .done cs ps →
      cs.length = c.n ∧ (cs.map (·.sender)).Nodup ∧ (∀ p, 1 ≤ p ∧ p ≤ c.n → genCast1 c p ∈ cs) ∧
      ps.length = c.n - 1 ∧ (ps.map (·.sender)).Nodup ∧
      (∀ p, (1 ≤ p ∧ p ≤ c.n) ∧ p ≠ c.self → genP2P c p ∈ ps) := by
    intro cs ps h
    rcases hshape with ⟨cs', ps', h', hl1, hl2, hp1, hp2⟩ | h'
    · rw [h'] at h
      simp only [CRes.done.injEq] at h
      obtain ⟨rfl, rfl⟩ := h
      obtain ⟨he1, hc1⟩ := hcov1 _ hp1 hl1
      obtain ⟨he2, hc2⟩ := hcovp _ hp2 hl2
      refine ⟨hl1, he1 ▸ hnd1, ?_, hl2, he2 ▸ hndp, ?_⟩
      · intro p hp
        obtain ⟨m, hm, hs⟩ := hc1 p hp
        have := hg1 m (he1 ▸ hm)
        rw [hs] at this; rw [← this]; exact hm
      · intro p hp
        obtain ⟨m, hm, hs⟩ := hc2 p hp
        have := hgp m (he2 ▸ hm)
        rw [hs] at this; rw [← this]; exact hm
    · rw [h'] at h; cases h
  refine ⟨?_, hdone, ?_⟩
  · rcases hshape with ⟨cs', ps', h', _⟩ | h' <;> rw [h'] <;> simp
  · intro hall
    rcases hshape with ⟨cs', ps', h', _⟩ | h'
    · exact ⟨cs', ps', h'⟩
    · exfalso
      -- everything arrived: the channel contents have full length, the loop cannot still wait
      have hq1 : ∀ p, (1 ≤ p ∧ p ≤ c.n) ∧ p ≠ c.self →
          genCast1 c p ∈ (runCb (bcastCb c (some c.t)) {} d1).queue := fun p hp =>
        bcast_complete c (some c.t) (genCast1 c) (fun _ => rfl) (fun q _ => genCast1_valid c q) d1
          hf.honest1 {} (by simp) p ((isMember_iff c p).mpr hp.1) (hall p hp).1
      have hqp : ∀ p, (1 ≤ p ∧ p ≤ c.n) ∧ p ≠ c.self →
          genP2P c p ∈ (runCb (p2pCb c) {} dp).queue := fun p hp =>
        p2p_complete c (genP2P c) (fun _ => rfl) (fun q _ => genP2P_valid c q) dp
          hf.honestP {} (by simp) p ((isMember_iff c p).mpr hp.1) (hall p hp).2
      have hc1 : c.n ≤ (castsOf evs).length := by
        have := length_ge_of_covers c.n ((castsOf evs).map (·.sender)) (by
          intro p hp
          by_cases hps : p = c.self
          · exact List.mem_map.mpr ⟨genCast1 c c.self, hev1.mem_iff.mpr List.mem_cons_self, hps ▸ rfl⟩
          · exact List.mem_map.mpr ⟨genCast1 c p,
              hev1.mem_iff.mpr (List.mem_cons_of_mem _ (hq1 p ⟨hp, hps⟩)), rfl⟩)
        simpa using this
      have hcp : c.n - 1 ≤ (p2psOf evs).length := by
        have := length_ge_of_covers_others c.n c.self hself ((p2psOf evs).map (·.sender)) (by
          intro p hp
          exact List.mem_map.mpr ⟨genP2P c p, hevp.mem_iff.mpr (hqp p hp), rfl⟩)
        simpa using this
      refine collect1_waiting_incomplete c.n evs [] [] _ _ ?_ h' ⟨by omega, by omega⟩
      simp only [List.length_nil]
      omega

/-- **Round 2 returns exactly one cast from every node.** Same quantification; `q` is the channel
content (own broadcast + queued casts) in any order. -/
theorem round2_one_from_each_peer (c : Cfg) (hself : 1 ≤ c.self ∧ c.self ≤ c.n)
    (d2 : List Msg) (hf : Fair2 c d2) (q : List Msg)
    (hq : q.Perm (genCast2 c c.self :: (runCb (bcastCb c none) {} d2).queue)) :
    (∀ r, collect2 c.n q = some r →
      r.length = c.n ∧ (r.map (·.sender)).Nodup ∧ ∀ p, 1 ≤ p ∧ p ≤ c.n → genCast2 c p ∈ r) ∧
    ((∀ p, (1 ≤ p ∧ p ≤ c.n) ∧ p ≠ c.self → genCast2 c p ∈ d2) → (collect2 c.n q).isSome) := by
  obtain ⟨hnd, hm, hg⟩ := cast_list_facts c none (genCast2 c) (fun _ => rfl) hself d2
    hf.notSelf hf.honest _ hq
  obtain ⟨hlen, hcov⟩ := exact_cover c.n _ hnd hm
  constructor
  · intro r hr
    unfold collect2 at hr
    by_cases hge : q.length ≥ c.n
    · simp only [hge, if_true, Option.some.injEq] at hr
      have hql : q.length = c.n := by omega
      have hr' : r = q := by rw [← hr, ← hql, List.take_length]
      obtain ⟨_, hc⟩ := hcov q (List.prefix_refl q) hql
      subst hr'
      refine ⟨hql, hnd, fun p hp => ?_⟩
      obtain ⟨m, hmq, hs⟩ := hc p hp
      have := hg m hmq
      rw [hs] at this; rw [← this]; exact hmq
    · simp [hge] at hr
  · intro hall
    have hq2 : ∀ p, (1 ≤ p ∧ p ≤ c.n) ∧ p ≠ c.self →
        genCast2 c p ∈ (runCb (bcastCb c none) {} d2).queue := fun p hp =>
      bcast_complete c none (genCast2 c) (fun _ => rfl) (fun q _ => genCast2_valid c q) d2
        hf.honest {} (by simp) p ((isMember_iff c p).mpr hp.1) (hall p hp)
    have hc : c.n ≤ q.length := by
      have := length_ge_of_covers c.n (q.map (·.sender)) (by
        intro p hp
        by_cases hps : p = c.self
        · exact List.mem_map.mpr ⟨genCast2 c c.self, hq.mem_iff.mpr List.mem_cons_self, hps ▸ rfl⟩
        · exact List.mem_map.mpr ⟨genCast2 c p,
            hq.mem_iff.mpr (List.mem_cons_of_mem _ (hq2 p ⟨hp, hps⟩)), rfl⟩)
      simpa using this
    unfold collect2
    simp [hc]

/-- **Overlapping deliveries never queue two messages of one sender.** However the `enter`
(duplicate check *and* mark, one atomic step) and `handover` (validation, channel send) steps of any
number of concurrent callback invocations interleave, the queue holds at most one message per
sender. What must be atomic is check-and-mark; holding the lock across the hand-over is not needed
for this (the code does hold it). The variant that marks only at hand-over violates it — see the
example with `cstepLate`. Tied to the code by the `race` op of the `frostp2p` stream. -/
theorem overlapping_no_duplicate_sender (c : Cfg) (commits : Option ℕ) (evs : List CEv) :
    ((crun c commits {} evs).queue.map (·.sender)).Nodup := by
  have h := crun_inv c commits evs {} ⟨by simp, by simp⟩
  have hsl : (crun c commits {} evs).queue.Sublist
      ((crun c commits {} evs).queue ++ (crun c commits {} evs).inside) := List.sublist_append_left _ _
  exact h.nodup.sublist (hsl.map _)

/-- **Every entry of a message is validated.** A message is queued only if *each* of its entries
carries the sender as source, the required target, a validator index in range (and, in round 1,
`t` commitments): one bad entry at any position makes the whole message be refused. -/
theorem every_entry_validated (c : Cfg) (sender tgt : ℕ) (commits : Option ℕ) (es : List Entry)
    (h : firstErr c sender tgt commits es = none) (e : Entry) (he : e ∈ es) :
    e.key.sourceID = sender ∧ e.key.targetID = tgt ∧ e.key.valIdx < c.nv ∧
      ∀ t, commits = some t → e.commits = t := by
  induction es with
  | nil => simp at he
  | cons x rest ih =>
    unfold firstErr at h
    by_cases h1 : x.key.sourceID ≠ sender
    · simp [h1] at h
    · by_cases h2 : x.key.targetID ≠ tgt
      · simp [h1, h2] at h
      · by_cases h3 : x.key.valIdx ≥ c.nv
        · simp [h1, h2, h3] at h
        · simp only [h1, h2, h3, if_false] at h
          have hx : x.key.sourceID = sender ∧ x.key.targetID = tgt ∧ x.key.valIdx < c.nv :=
            ⟨by simpa using h1, by simpa using h2, by omega⟩
          cases commits with
          | none =>
            simp only at h
            rcases List.mem_cons.mp he with rfl | hr
            · exact ⟨hx.1, hx.2.1, hx.2.2, fun t ht => by cases ht⟩
            · exact ih h hr
          | some t =>
            simp only at h
            by_cases h4 : x.commits ≠ t
            · simp [h4] at h
            · simp only [h4, if_false] at h
              rcases List.mem_cons.mp he with rfl | hr
              · exact ⟨hx.1, hx.2.1, hx.2.2, fun t' ht => by cases ht; simpa using h4⟩
              · exact ih h hr

end CharonV.FrostP2P

/-! ### The executable scalar layer used by the correspondence driver (`Model/Fr.lean`) -/

namespace CharonV.Frost

open CharonV.Tbls

/-- **Executable DKG recovery**: with dealers' coefficient lists `css` (each of length `≤ t`), node
`j`'s secret share computed as in `dkg/frost.go` / kryptology round 2 — `Fr.sum` of the dealers'
Horner evaluations at `j` — Lagrange recovery (`Fr.lagrangeAt0`, the function compared bit-for-bit
with the implementation) over any `≥ t` distinct identifiers below `r` gives the sum of the
dealers' constant terms. Hypothesis: `r` is prime. -/
theorem exec_dkg_recovers_sum_of_secrets [Fact (Nat.Prime Fr.r)] (t : ℕ) (css : List (List ℕ))
    (hcs : ∀ cs ∈ css, cs.length ≤ t) (ids : List ℕ) (hnd : ids.Nodup) (hlt : ∀ i ∈ ids, i < Fr.r)
    (hlen : t ≤ ids.length) :
    Fr.lagrangeAt0 (ids.map fun j => (j, Fr.sum (css.map fun cs => Fr.evalPoly cs j))) =
      Fr.sum (css.map fun cs => Fr.evalPoly cs 0) := by
  have hcast : ((Fr.lagrangeAt0 (ids.map fun j => (j, Fr.sum (css.map fun cs => Fr.evalPoly cs j))) : ℕ) :
      ZMod Fr.r) = ((Fr.sum (css.map fun cs => Fr.evalPoly cs 0) : ℕ) : ZMod Fr.r) := by
    rw [Fr.cast_lagrangeAt0 ids hnd]
    have hfun : recover ids.toFinset
          (fun j => ((Fr.sum (css.map fun cs => Fr.evalPoly cs j) : ℕ) : ZMod Fr.r)) =
        recover ids.toFinset (share (Fr.polySum css)) := by
      unfold recover share idF
      refine Finset.sum_congr rfl fun j _ => ?_
      beta_reduce
      rw [Fr.cast_sum, Fr.polySum_eval, List.map_map]
      congr 2
      refine List.map_congr_left fun cs _ => ?_
      simp [Fr.cast_evalPoly]
    rw [hfun, recover_secret t (Fr.polySum css) (Fr.polySum_degree_lt t css hcs) ids.toFinset
      (by rw [List.toFinset_card_of_nodup hnd]; exact hlen)
      (idsDistinct_of_lt_char Fr.r _ fun k hk => hlt k (List.mem_toFinset.mp hk)),
      Fr.cast_sum, Fr.polySum_eval, List.map_map]
    congr 1
    refine List.map_congr_left fun cs _ => ?_
    simp [Fr.cast_evalPoly]
  have h1 := (ZMod.natCast_eq_natCast_iff' _ _ _).mp hcast
  rwa [Nat.mod_eq_of_lt (Fr.lagrangeAt0_lt _), Nat.mod_eq_of_lt (Fr.sum_lt _)] at h1

end CharonV.Frost

/-! ### Non-vacuity -/

section Examples

open Polynomial CharonV.Tbls CharonV.Frost CharonV.FrostGlue

/-- two dealers with `3 + 2X` and `1 + X` (t = 2), two validators using the same pair. -/
private noncomputable def fEx : Bool → ℕ → ℚ[X] := fun _ i => if i = 1 then pEx else C 1 + X

example : nodeShare ({1, 2} : Finset ℕ) (fEx true) 2 = 10 := by
  simp [nodeShare, share, fEx, pEx]; norm_num

example : groupSecret ({1, 2} : Finset ℕ) (fEx true) = 4 := by
  simp [groupSecret, fEx, pEx]; norm_num

/-- reshare of the 2-of-n sharing `3 + 2X` by old nodes {1,2} (shares 5, 7) with sub-sharings
`5 + X` and `7 + 3X`: the new polynomial `2(5+X) − (7+3X) = 3 − X` shares the same secret 3. -/
private noncomputable def gEx : ℕ → ℚ[X] := fun i => if i = 1 then C 5 + C 1 * X else C 7 + C 3 * X

example : (resharePoly ({1, 2} : Finset ℕ) gEx).eval 0 = pEx.eval 0 := by
  refine (reshare_is_shamir 2 2 pEx pEx_deg {1, 2} (by decide) (idsDistinct_of_charZero _) gEx
    ?_ ?_).2.2
  · intro i _; unfold gEx; split <;> exact lin_deg _ _
  · intro i hi
    simp only [Finset.mem_insert, Finset.mem_singleton] at hi
    rcases hi with rfl | rfl <;> simp [gEx, share, pEx] <;> norm_num

/-- a Go map delivered in an order where validator 1's share comes last still gives validator 0's
participant validator 0's share. -/
example : r2Share [(⟨0, 2, 1⟩, "s0"), (⟨1, 2, 1⟩, "s1")] 0 2 = some "s0" := by decide

example : pubShareAt [(⟨1, 3, 0⟩, "vk13"), (⟨0, 3, 0⟩, "vk03")] 0 3 = some "vk03" := by decide

/-- the hypotheses of `round2_inputs_exact` matter: a map mixing shares addressed to two different
nodes is order dependent. -/
example : r2Share [(⟨0, 2, 1⟩, "a"), (⟨0, 2, 3⟩, "b")] 0 2 ≠
    r2Share [(⟨0, 2, 3⟩, "b"), (⟨0, 2, 1⟩, "a")] 0 2 := by decide

/-- executable layer: dealers `3 + 2X` and `1 + X`, node shares 7, 10, 13; nodes {1,3} recover 4. -/
example : CharonV.Fr.lagrangeAt0 ([1, 3].map fun j =>
    (j, CharonV.Fr.sum ([[3, 2], [1, 1]].map fun cs => CharonV.Fr.evalPoly cs j)))
    = 4 := by decide +kernel

/-! receive side of `frostp2p.go`: node 1 of 3 (t = 2, one validator). -/

private def cEx : CharonV.FrostP2P.Cfg := { n := 3, t := 2, nv := 1, self := 1 }

open CharonV.FrostP2P in
/-- node 2's round-1 cast delivered three times, then node 3's: one of each is queued. -/
example : (runCb (bcastCb cEx (some 2)) {} [genCast1 cEx 2, genCast1 cEx 2, genCast1 cEx 2, genCast1 cEx 3]).queue
    = [genCast1 cEx 2, genCast1 cEx 3] := by decide

open CharonV.FrostP2P in
/-- the loop then returns one cast per node and one share message per other node. -/
example : (match collect1 3 [(true, genCast1 cEx 1), (true, genCast1 cEx 2), (false, genP2P cEx 3),
      (false, genP2P cEx 2), (true, genCast1 cEx 3)] [] [] with
    | .done cs ps => (cs.map (·.sender), ps.map (·.sender)) | _ => ([], [])) = ([1, 2, 3], [3, 2]) := by
  decide

open CharonV.FrostP2P in
/-- forged share messages of a member (wrong target) are refused and do not block its genuine one. -/
example : (runCb (p2pCb cEx) {} [{ sender := 2, entries := [{ key := ⟨0, 2, 3⟩ }] }, genP2P cEx 2]).queue
    = [genP2P cEx 2] := by decide

open CharonV.FrostP2P in
/-- `Fair1.honest1` is needed: the bcast callback marks the sender before validating, so a member's
malformed first broadcast (here: wrong source id) makes the node ignore its later valid one. -/
example : (runCb (bcastCb cEx (some 2)) {}
    [{ sender := 2, entries := [{ key := ⟨0, 3, 0⟩, commits := 2 }] }, genCast1 cEx 2]).queue = [] := by
  decide

open CharonV.FrostP2P in
/-- without per-sender de-duplication counting would go wrong: three casts `{1, 2, 2}` already make
the loop of a 3-node cluster return (this is what the callbacks' de-duplication excludes). -/
example : (match collect1 3 [(true, genCast1 cEx 1), (false, genP2P cEx 2), (false, genP2P cEx 3),
      (true, genCast1 cEx 2), (true, genCast1 cEx 2)] [] [] with
    | .done cs _ => cs.map (·.sender) | _ => []) = [1, 2, 2] := by decide

open CharonV.FrostP2P in
/-- two overlapping deliveries of node 2's cast: with atomic check-and-mark one is queued … -/
example : (crun cEx (some 2) {} [.enter (genCast1 cEx 2), .enter (genCast1 cEx 2),
    .handover (genCast1 cEx 2), .handover (genCast1 cEx 2)]).queue = [genCast1 cEx 2] := by decide

open CharonV.FrostP2P in
/-- … with the mark deferred to the hand-over both are queued. -/
example : ([CEv.enter (genCast1 cEx 2), .enter (genCast1 cEx 2), .handover (genCast1 cEx 2),
    .handover (genCast1 cEx 2)].foldl (cstepLate cEx (some 2)) {}).queue
    = [genCast1 cEx 2, genCast1 cEx 2] := by decide

open CharonV.FrostP2P in
/-- a share message whose *second* share is addressed to node 3 is refused as a whole. -/
example : (p2pCb { cEx with nv := 2 } {} { sender := 2, entries := [{ key := ⟨0, 2, 1⟩ }, { key := ⟨1, 2, 3⟩ }] }).2
    = .err .target := by decide

end Examples

/-! ### Unconditional form: `Fr.r` is proved prime (`Proofs/FrPrime.lean`, Lucas certificate) -/

namespace CharonV.Frost

/-- **Executable DKG recovery, no hypothesis on `r`**: `exec_dkg_recovers_sum_of_secrets` with the
primality of the BLS12-381 scalar-field order discharged by `Fr.r_prime` (kernel-checked Lucas /
Pratt certificate, witness 7). -/
theorem exec_dkg_recovers_sum_of_secrets_unconditional (t : ℕ) (css : List (List ℕ))
    (hcs : ∀ cs ∈ css, cs.length ≤ t) (ids : List ℕ) (hnd : ids.Nodup) (hlt : ∀ i ∈ ids, i < Fr.r)
    (hlen : t ≤ ids.length) :
    Fr.lagrangeAt0 (ids.map fun j => (j, Fr.sum (css.map fun cs => Fr.evalPoly cs j))) =
      Fr.sum (css.map fun cs => Fr.evalPoly cs 0) :=
  @exec_dkg_recovers_sum_of_secrets ⟨Fr.r_prime⟩ t css hcs ids hnd hlt hlen

end CharonV.Frost
