/-
C15 — which validators the scheduler treats as active: the validator cache (`app/eth2wrap/cache.go`).

In production `scheduler.resolveActiveValidators` does not ask the beacon node: it reads
`eth2Cl.CompleteValidators`, i.e. `valCache.GetByHead` (app.go: `eth2Cl.SetValidatorCache(valCache.GetByHead)`),
a cache that the slot subscriber of app.go empties (`Trim`) and refills (`GetBySlot`) on the first slot of an
epoch. C15's "a definition set equal to the beacon node's assignments for cluster validators … in no
circumstance … for a validator outside the cluster, for an inactive validator" therefore rests on what this
cache serves. Model: `CharonV.Model.ValCache`; helper lemmas: `CharonV.Proofs.ValCache`.

All theorems quantify over every cluster pubkey list, every finite sequence of operations (`trim`, direct
`GetByHead` calls whose caller keeps the maps, calls through a client, `GetBySlot`, writes of a hostile caller
into maps it holds) and every beacon node: each call's answer is an arbitrary `Ans` (error, nil map, any list of
entries in any order, nil entries, any status, any pubkey). `interleaved_answers_are_node_answers` quantifies
over every interleaving of the lock scopes of any number of concurrent calls.

The code as it is violates two of the statements one would like to make:

* FULL STATEMENT (does not hold for `Cfg.asIs`): *as long as nobody calls Trim / GetBySlot, GetByHead keeps
  returning the answer of the last fetch.* `GetByHead` / `GetBySlot` return the cache's own two maps (and the
  node's `*Validator` objects): a caller that writes into what it was handed changes what every later caller — the
  scheduler included — is served: `shared_map_witness`. Proved for the code as it is: `hit_returns_same_partial`
  (no write in between); for the repaired variant (`Cfg.fixed`, fixes/C15-valcache-clone.diff):
  `hit_returns_same_fixed` over sequences WITH hostile writes. No caller in /repo writes today (latent).
  The ghost flag `taint` of the model records such a write; the theorems about the content are stated for
  untainted states, which is every state of a run without hostile writes and every state of the repaired
  variant (`untainted`).
* FULL STATEMENT (does not hold): *every validator handed out belongs to the cluster.* The cache passes the
  cluster's pubkeys in the query and keeps whatever the node answers: `foreign_witness`. Proved:
  `never_foreign_partial` under the hypothesis that the node honours the query's filter.

`slot_query_does_not_change_head_cache` is not what the code does and not what app.go wants: `GetBySlot` is
the refill — `slot_query_replaces_head_cache` (witness `slot_changes_head_witness`).
-/
import CharonV.Proofs.ValCache

namespace CharonV.ValCache

/-- **What GetByHead / GetBySlot return is the node's answer of the most recent fetch.** For every op sequence
from a fresh cache and every next operation that returns a result `(A, C)` (served from the cache or fetched, by
head or by slot, directly or through a client): if no caller wrote into the live maps since they were stored,
`C` is the content of the most recently stored response (`last`, see `last_is_most_recent_fetch_since_trim`) and
`A` is exactly what the loop of the code builds from it; when the node was asked in this very operation, `C` is
one of the answers it gave in it. -/
theorem active_answer_is_bn_answer_at_last_fetch (cfg : Cfg) (pks : List Nat) (ops : List Op) (op : Op)
    {s' : St} {A : AMap} {C : List Entry} {f r : Bool} {k : Nat}
    (h : step cfg (run cfg (St.init pks) ops) op = (s', .res (.ok A C) f r k)) (hclean : s'.taint = false) :
    s'.last = some C ∧ buildActive C [] = some A ∧ (f = true → C ∈ opAnswers op) :=
  step_ok_result cfg (inv_run cfg ops (inv_init pks)) h hclean

/-- **`last` is the most recent fetch, and that fetch is later than the most recent Trim.** In every state, one
step changes the recorded response only in two ways: `Trim` erases it, and an operation that asked the node and
got a well-formed answer replaces it by that answer (one of the answers given in that operation). Nothing else
touches it — so `last = some C` means: `C` was fetched, no `Trim` and no other successful fetch came after. -/
theorem last_is_most_recent_fetch_since_trim (cfg : Cfg) (s : St) (op : Op) :
    (step cfg s .trim).1.last = none ∧
    ((step cfg s op).1.last = s.last ∨ (op = .trim ∧ (step cfg s op).1.last = none) ∨
      ∃ A C r k, (step cfg s op).2 = .res (.ok A C) true r k ∧ (step cfg s op).1.last = some C ∧ C ∈ opAnswers op) :=
  ⟨rfl, last_step cfg s op⟩

/-- **Never an inactive validator, never a missing active one.** Under the hypotheses of
`active_answer_is_bn_answer_at_last_fetch`: every (index, pubkey) of the active set is a well-formed entry of the
last fetched response with a status for which `IsActive()` holds; every entry with such a status is reported under
its index — with its own pubkey if the response has no two entries with the same validator index. -/
theorem never_inactive (cfg : Cfg) (pks : List Nat) (ops : List Op) (op : Op)
    {s' : St} {A : AMap} {C : List Entry} {f r : Bool} {k : Nat}
    (h : step cfg (run cfg (St.init pks) ops) op = (s', .res (.ok A C) f r k)) (hclean : s'.taint = false) :
    (∀ p ∈ A, ∃ e ∈ C, e.bad = 0 ∧ isActive e.status = true ∧ p = (e.idx, e.pk)) ∧
    (∀ e ∈ C, isActive e.status = true → ∃ pk, (e.idx, pk) ∈ A) ∧
    ((C.map (·.idx)).Nodup → ∀ e ∈ C, isActive e.status = true → (e.idx, e.pk) ∈ A) := by
  obtain ⟨_, hb, _⟩ := active_answer_is_bn_answer_at_last_fetch cfg pks ops op h hclean
  refine ⟨fun p hp => ?_, buildActive_complete C [] A hb, buildActive_complete_nodup C [] A hb⟩
  rcases buildActive_sound C [] A hb p hp with h0 | h1
  · cases h0
  · exact h1

/-- **Never a validator outside the cluster — if the node honours the query's pubkey filter.** (The code
does not check: see `foreign_witness`.) -/
theorem never_foreign_partial (cfg : Cfg) (pks : List Nat) (ops : List Op) (op : Op)
    (hflt : Filtered pks (ops ++ [op]))
    {s' : St} {A : AMap} {C : List Entry} {f r : Bool} {k : Nat}
    (h : step cfg (run cfg (St.init pks) ops) op = (s', .res (.ok A C) f r k)) (hclean : s'.taint = false) :
    (∀ p ∈ A, p.2 ∈ pks) ∧ (∀ e ∈ C, e.pk ∈ pks) := by
  obtain ⟨hlast, hb, _⟩ := active_answer_is_bn_answer_at_last_fetch cfg pks ops op h hclean
  have hC : ∀ e ∈ C, e.pk ∈ pks := by
    have hl := last_step cfg (run cfg (St.init pks) ops) op
    rw [h] at hl
    simp only at hl
    rcases hl with hl | ⟨_, hl⟩ | ⟨A', C', r', k', _, hl, hmem⟩
    · rw [hlast] at hl
      have := last_mem_run cfg ops (St.init pks) [] (fun es he => by simp [St.init] at he) C hl.symm
      simp only [List.nil_append, answersOfOps, List.mem_flatMap] at this
      obtain ⟨o, ho, hCo⟩ := this
      exact hflt o (List.mem_append_left _ ho) C hCo
    · rw [hlast] at hl; cases hl
    · rw [hlast] at hl; cases hl
      exact hflt op (List.mem_append_right _ List.mem_cons_self) C hmem
  refine ⟨fun p hp => ?_, hC⟩
  rcases buildActive_sound C [] A hb p hp with h0 | ⟨e, he, _, _, rfl⟩
  · cases h0
  · exact hC e he

/-- **After Trim the next GetByHead asks the node again** and returns that answer or that error — in every state,
whatever was cached before, whatever the node answers. -/
theorem refetch_after_trim (cfg : Cfg) (s : St) (ans : Ans) (o : Op) (ho : o = .head ans ∨ o = .peek ans) :
    ∃ res, (step cfg (step cfg s .trim).1 o).2 = .res res true false 1 ∧
      (∀ A C, res = .ok A C → C ∈ ansContent ans ∧ buildActive C [] = some A) ∧
      (ans = .err → res = .err false) := by
  have hmiss : getByHead s.c.trim ans = ((fetchStore s.c.trim ans).1, (fetchStore s.c.trim ans).2, true) := by
    unfold getByHead readComplete readActive; exact finish_miss ans (Or.inl rfl)
  refine ⟨(fetchStore s.c.trim ans).2, ?_, fun A C hr => ?_, fun he => by subst he; rfl⟩
  · rcases ho with rfl | rfl <;> simp [step, hmiss]
  · obtain ⟨hb, _, _, hm, _⟩ := fetchStore_ok hr
    exact ⟨hm, hb⟩

/-- **A hit returns the same.** After any operation that returned `(A, C)` (with a non-nil response map), every
further `GetByHead` — direct or through a client, any number, whatever the node would answer — returns `(A, C)`
without asking the node, and leaves the cache as it is. (Without the restriction to `GetByHead` calls the
statement fails for the code as it is: `shared_map_witness`.) -/
theorem hit_returns_same_partial (cfg : Cfg) (s : St) (op : Op)
    {s1 : St} {A : AMap} {C : List Entry} {f r : Bool} {k : Nat}
    (h : step cfg s op = (s1, .res (.ok A C) f r k)) (hC : s1.c.complete.isSome = true)
    (gets : List Op) (hg : ∀ o ∈ gets, ∃ ans, o = .head ans ∨ o = .peek ans) :
    (∀ o ∈ outs cfg s1 gets, o = .res (.ok A C) false false 0) ∧ (run cfg s1 gets).c = s1.c := by
  obtain ⟨ha, hc⟩ := step_ok_cache cfg h
  rcases hc with hc | ⟨hc, _⟩
  · exact gets_full cfg gets ha hc hg
  · rw [hc] at hC; cases hC

/-- **With the proposed repair a hit returns the same, hostile writes included.** -/
theorem hit_returns_same_fixed (pks : List Nat) (ops : List Op) (op : Op)
    {s1 : St} {A : AMap} {C : List Entry} {f r : Bool} {k : Nat}
    (h : step Cfg.fixed (run Cfg.fixed (St.init pks) ops) op = (s1, .res (.ok A C) f r k))
    (hC : s1.c.complete.isSome = true)
    (mid : List Op) (hg : ∀ o ∈ mid, (∃ ans, o = .head ans ∨ o = .peek ans) ∨ ∃ m, o = .mutate m) :
    ∀ o ∈ outs Cfg.fixed s1 mid, o = .res (.ok A C) false false 0 ∨ o = .none := by
  obtain ⟨ha, hc⟩ := step_ok_cache Cfg.fixed h
  have hc : s1.c.complete = some C := by
    rcases hc with hc | ⟨hc, _⟩
    · exact hc
    · rw [hc] at hC; cases hC
  have hnl : s1.liveA = false ∧ s1.liveC = false ∧ s1.taint = false := by
    have := nolive_step (nolive_run ops (s := St.init pks) ⟨rfl, rfl, rfl⟩) op
    rw [h] at this; exact this
  have key : ∀ (mid : List Op) (s1 : St), s1.c.active = some A → s1.c.complete = some C →
      (s1.liveA = false ∧ s1.liveC = false ∧ s1.taint = false) →
      (∀ o ∈ mid, (∃ ans, o = .head ans ∨ o = .peek ans) ∨ ∃ m, o = .mutate m) →
      ∀ o ∈ outs Cfg.fixed s1 mid, o = .res (.ok A C) false false 0 ∨ o = .none := by
    intro mid
    induction mid with
    | nil => intro s1 _ _ _ _ o ho; simp [outs] at ho
    | cons g gs ih =>
      intro s1 ha hc hnl hg o ho
      simp only [outs, List.mem_cons] at ho
      rcases hg g List.mem_cons_self with hget | ⟨m, rfl⟩
      · obtain ⟨h1, h2⟩ := step_get_full Cfg.fixed ha hc hget
        rcases ho with rfl | ho
        · exact Or.inl h1
        · exact ih _ (by rw [h2]; exact ha) (by rw [h2]; exact hc) (nolive_step hnl g)
            (fun o ho => hg o (List.mem_cons_of_mem _ ho)) o ho
      · have hstep : step Cfg.fixed s1 (.mutate m) = (s1, .none) := by
          simp only [step]
          split
          · simp [hnl.1]
          · simp [hnl.2.1]
        rcases ho with rfl | ho
        · rw [hstep]; exact Or.inr rfl
        · rw [hstep] at ho
          exact ih s1 ha hc hnl (fun o ho => hg o (List.mem_cons_of_mem _ ho)) o ho
  exact key mid s1 ha hc hnl hg

/-- **When is the content untainted?** In every run without hostile writes, and in every run of the repaired
variant. -/
theorem untainted (pks : List Nat) (ops : List Op) :
    (∀ cfg, (∀ o ∈ ops, ∀ m, o ≠ .mutate m) → (run cfg (St.init pks) ops).taint = false) ∧
    (run Cfg.fixed (St.init pks) ops).taint = false := by
  refine ⟨fun cfg hno => ?_, (nolive_run ops (s := St.init pks) ⟨rfl, rfl, rfl⟩).2.2⟩
  have : ∀ (ops : List Op) (s : St), s.taint = false → (∀ o ∈ ops, ∀ m, o ≠ .mutate m) → (run cfg s ops).taint = false := by
    intro ops
    induction ops with
    | nil => intro s hs _; exact hs
    | cons o os ih =>
      intro s hs hno
      exact ih _ (taint_step_nomut cfg hs (hno o List.mem_cons_self)) (fun o' ho' => hno o' (List.mem_cons_of_mem _ ho'))
  exact this ops _ rfl hno

/-- **A slot query replaces what GetByHead serves** (there is no separate head cache): after a successful
`GetBySlot` that returned `(A, C)` every `GetByHead` returns `(A, C)` — the by-slot state, or the head state the
query fell back to — without asking the node, whatever it would answer for "head" now. -/
theorem slot_query_replaces_head_cache (cfg : Cfg) (s : St) (aS aH : Ans)
    {s1 : St} {A : AMap} {C : List Entry} {f r : Bool} {k : Nat}
    (h : step cfg s (.slot aS aH) = (s1, .res (.ok A C) f r k)) (hC : s1.c.complete.isSome = true)
    (ans : Ans) (o : Op) (ho : o = .head ans ∨ o = .peek ans) :
    (step cfg s1 o).2 = .res (.ok A C) false false 0 := by
  have := (hit_returns_same_partial cfg s (.slot aS aH) h hC [o] (fun o' ho' => by
    simp only [List.mem_singleton] at ho'; subst ho'; exact ⟨ans, ho⟩)).1
  exact this _ (by simp [outs])

/-- **An error leaves everything as it was**: a call that returns an error (the node's, or "validator data is
nil" for a response with a nil entry; `GetBySlot` after both queries failed) changes neither of the two maps nor
anything else — no partial result is cached. -/
theorem error_leaves_cache_unchanged (cfg : Cfg) (s : St) (op : Op) {s' : St} {b f r : Bool} {k : Nat}
    (h : step cfg s op = (s', .res (.err b) f r k)) : s' = s :=
  step_err_result cfg h

/-- **Every interleaving.** For every schedule of the atomic steps (lock scopes) of any number of concurrent
`GetByHead` calls, `Trim`s and `GetBySlot`s from a fresh cache, every result `(A, C)` any call returns is made of
responses the node gave in that schedule: `A` is what the loop builds from one of them — so no inactive
validator and, with a filtering node, no foreign one under ANY interleaving — and `C` is one of them. (They need
not be the same response: `torn_pair_witness`.) -/
theorem interleaved_answers_are_node_answers (pks : List Nat) (xs : List AStep) :
    ∀ r ∈ (arun ⟨Cache.init pks, []⟩ xs).2, ∀ A C, r = .ok A C →
      (∃ es ∈ answersOf xs, buildActive es [] = some A ∧
        ∀ p ∈ A, ∃ e ∈ es, e.bad = 0 ∧ isActive e.status = true ∧ p = (e.idx, e.pk)) ∧
      C ∈ answersOf xs := by
  intro r hr A C hrc
  subst hrc
  have hinit : AInv [] ⟨Cache.init pks, []⟩ :=
    ⟨fun a ha => by simp [Cache.init] at ha, fun es he => by simp [Cache.init] at he, fun p hp => by cases hp⟩
  have := ainv_run xs _ [] hinit _ hr
  simp only [List.nil_append, ResOk] at this
  obtain ⟨⟨es, hes, hb⟩, hC⟩ := this
  refine ⟨⟨es, hes, hb, fun p hp => ?_⟩, hC⟩
  rcases buildActive_sound es [] A hb p hp with h0 | h1
  · cases h0
  · exact h1

/-- **What the scheduler makes of the complete set** (`resolveActiveValidators` for `epoch`): exactly the
entries whose status is active or whose activation epoch is the epoch being resolved, under their map key. With
`active_answer_is_bn_answer_at_last_fetch`: the scheduler schedules a validator iff the most recently fetched
response lists it with such a status / activation epoch. -/
theorem scheduler_resolves_active_or_activating (epoch : Nat) (C : List Entry) (vs : List (Nat × Nat))
    (h : resolveActive epoch C = some vs) (p : Nat × Nat) :
    p ∈ vs ↔ ∃ e ∈ C, p = (e.key, e.pk) ∧ (isActive e.status = true ∨ e.act = epoch) :=
  resolveActive_spec epoch C vs h p

/-! ### non-vacuity and witnesses -/

private def eActive : Entry := ⟨1, 1, 101, 3, 0, 0⟩     -- active_ongoing
private def eExited : Entry := ⟨2, 2, 102, 6, 0, 0⟩     -- exited_unslashed
private def ePending : Entry := ⟨3, 3, 103, 2, 7, 0⟩    -- pending_queued, activation epoch 7
private def eForeign : Entry := ⟨21, 21, 921, 3, 0, 0⟩  -- active, not a cluster pubkey
private def ansX : Ans := .ok [eActive, eExited, ePending]

/-- `active_answer_is_bn_answer_at_last_fetch`, `never_inactive`: a fetch, then a hit, return the active one only. -/
example : (step Cfg.asIs (run Cfg.asIs (St.init [101, 102, 103]) [.head ansX]) (.peek .err)).2
    = .res (.ok [(1, 101)] [eActive, eExited, ePending]) false false 0 := by decide

/-- `refetch_after_trim`: after Trim the node is asked again and its CURRENT answer is returned. -/
example : (step Cfg.asIs (run Cfg.asIs (St.init [101, 102, 103]) [.head ansX, .trim]) (.head (.ok [eExited]))).2
    = .res (.ok [] [eExited]) true false 1 := by decide

/-- `error_leaves_cache_unchanged`: a response with a nil entry is an error and is not cached (the next call asks again). -/
example : (outs Cfg.asIs (St.init [101]) [.head (.ok [eActive, ⟨5, 0, 0, 0, 0, 1⟩]), .head (.ok [eActive])])
    = [.res (.err true) true false 1, .res (.ok [(1, 101)] [eActive]) true false 1] := by decide

/-- `slot_query_replaces_head_cache` / `slot_changes_head_witness`: the negation of "a slot query does not change the
head cache" — `GetByHead` served `ansX` before the slot query and serves the slot's state after it. -/
theorem slot_changes_head_witness :
    outs Cfg.asIs (St.init [101, 102, 103]) [.head ansX, .slot (.ok [eExited]) .err, .head .err]
    = [.res (.ok [(1, 101)] [eActive, eExited, ePending]) true false 1,
       .res (.ok [] [eExited]) true true 1,
       .res (.ok [] [eExited]) false false 0] := by decide

/-- a failed by-slot query falls back to "head" (refreshedBySlot = false, two node calls) -/
example : (step Cfg.asIs (St.init [101]) (.slot .err (.ok [eActive]))).2
    = .res (.ok [(1, 101)] [eActive]) true false 2 := by decide

/-- **The code as it is hands out its own maps**: a caller deletes an entry from the active map and sets a status
in the complete map it was handed; the next caller is served the altered content — the negation of the full
statement of `hit_returns_same`. With the repair the writes have no effect. -/
theorem shared_map_witness :
    outs Cfg.asIs (St.init [101, 102, 103]) [.head ansX, .mutate (.adel 1), .mutate (.cstat 2 3), .peek .err]
      = [.res (.ok [(1, 101)] [eActive, eExited, ePending]) true false 1, .none, .none,
         .res (.ok [] [eActive, { eExited with status := 3 }, ePending]) false false 0] ∧
    outs Cfg.fixed (St.init [101, 102, 103]) [.head ansX, .mutate (.adel 1), .mutate (.cstat 2 3), .peek .err]
      = [.res (.ok [(1, 101)] [eActive, eExited, ePending]) true false 1, .none, .none,
         .res (.ok [(1, 101)] [eActive, eExited, ePending]) false false 0] := by decide

/-- **The code keeps what the node answers**: a node that ignores the pubkey filter gets a foreign validator into
the active set — the negation of the full statement of `never_foreign`. -/
theorem foreign_witness :
    (step Cfg.asIs (St.init [101]) (.head (.ok [eActive, eForeign]))).2
      = .res (.ok [(21, 921), (1, 101)] [eActive, eForeign]) true false 1 ∧ (921 ∉ [101]) := by decide

/-- **A torn pair under interleaving**: call 0 reads the complete map, a `GetBySlot` replaces both maps, call 0
reads the active map and returns the new active set together with the old complete set. -/
theorem torn_pair_witness :
    (arun ⟨Cache.init [101, 102], []⟩
        [.fin 9 (.ok [eActive]), .r1 0, .slot (.ok [eExited]) .err, .r2 0, .fin 0 .err]).2
      = [.ok [(1, 101)] [eActive], .ok [] [eExited], .ok [] [eActive]] := by decide

/-- `interleaved_answers_are_node_answers` is not vacuous: two racing calls on an empty cache both ask the node. -/
example : (arun ⟨Cache.init [101], []⟩ [.r1 0, .r1 1, .r2 0, .r2 1, .fin 0 (.ok [eActive]), .fin 1 (.ok [eExited])]).2
    = [.ok [(1, 101)] [eActive], .ok [] [eExited]] := by decide

/-- `scheduler_resolves_active_or_activating`: the pending validator is scheduled in its activation epoch only. -/
example : resolveActive 7 [eActive, eExited, ePending] = some [(1, 101), (3, 103)] ∧
          resolveActive 6 [eActive, eExited, ePending] = some [(1, 101)] := by decide

/-- the model's `IsActive` table: exactly the three active states -/
example : (List.range 10).filter isActive = [3, 4, 5] := by decide

end CharonV.ValCache
