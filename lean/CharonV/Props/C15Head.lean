/-
C15 — scheduler, head-event path (`featureset.FetchAttOnBlock`, `featureset.FetchAttOnBlockWithDelay`;
`HandleHeadEvent`, `eventTriggeredAttestations`, `waitForEarlyFetchOrTimeout`,
`trimEventTriggeredAttestations`, `getEpochResolvedChan`).

What the code guarantees, for every beacon-node oracle, every configuration (both flags in every
combination) and every finite sequence of clock advances (eager or not), firings of parked attester
triggers, head events (any slot: past, future, skipped, unresolved, repeated) and reorg events
(`HReach`):

* a head event never triggers a duty and never changes what `scheduleSlot` does: the attester duty of a
  slot is handed to its trigger goroutine by the slot's own schedule exactly as without head events
  (`head_events_never_change_the_schedule`), so all theorems of `Props/C15.lean` hold verbatim for the
  base component of every state reachable with head events (`head_reach_projects`);
* that trigger is delivered to the duty subscribers at most once, with the definition set
  `scheduleSlot` read (`delivered_at_most_once`), and once its deadline has passed it has been delivered
  (`due_triggers_are_delivered`);
* the deadline on the head-event path is slot start + 1/3 slot, + 300 ms with `FetchAttOnBlockWithDelay`;
  a delivery through `waitForEarlyFetchOrTimeout` never happens before it
  (`delivered_not_before_deadline`). The head event itself only starts the *early fetch*
  (`fetcherFetchOnly`), for which the code has no time bound at all (it is made the moment the event
  arrives, whatever the slot: by design of the feature); what does hold: an early fetch is made only for
  a slot with a stored attester definition set — hence of a resolved epoch, for assigned validators —,
  with exactly that set, all of it justified by beacon-node answers (`early_fetch_only_assigned`,
  `head_event_effect`, `no_early_fetch_without_definitions`);
* per bookkeeping entry there is at most one early fetch, and none once the slot's own trigger has been
  delivered (`early_fetch_at_most_once_per_entry`, `own_trigger_closes_the_window`,
  `no_early_fetch_while_entry`); entries disappear only by a trim: of an epoch at least three before the
  one being resolved, or by an effective reorg event (`entry_kept`). After a reorg event a second early
  fetch for the same slot is possible (witness below; the beacon node's data may have changed);
* an effective trim removes every entry up to the end of the trimmed epoch (`trim_removes_old_entries`);
  a trim of an epoch under which no duty is filed removes nothing (witness below);
* with both flags off nothing of this exists and the deliveries are the base model's triggers
  (`flags_off_unchanged`).
-/
import CharonV.Proofs.SchedHead
import CharonV.Props.C15

namespace CharonV.Sched

variable (bn : BN) (cfg : Cfg)

/-- **Head events never change the schedule.** The scheduler state, the ticker and the list of
triggers handed to trigger goroutines after any run with head events, firings and flags are those of
the base model run on the clock advances and reorg events alone. -/
theorem head_events_never_change_the_schedule (es : List HEv) (h : HSys) :
    (HSys.run bn cfg h es).sys = Sys.run bn cfg h.sys (eraseEv es) := run_sys bn cfg es h

/-- so every theorem about `Reach` (at most once, only assigned, not before the offset, frozen
definition sets, completeness after resolve, …) applies to every state reachable with head events. -/
theorem head_reach_projects {h : HSys} (hr : HReach bn cfg h) : Reach bn cfg h.sys := hr.base

/-- **At most once, definition set unchanged.** The duties delivered to the subscribers and the
parked attester triggers are, together and without repetition of a duty `(slot, type)`, exactly the
triggers `scheduleSlot` handed out (each with the definition set it read): nothing is delivered
twice, nothing is delivered that the slot's own schedule did not trigger, nothing is lost. -/
theorem delivered_at_most_once (hdur : 0 < cfg.slotDur) {h : HSys} (hr : HReach bn cfg h) :
    (h.fired.map (fun f => f.trig.duty) ++ h.pend.map (fun t => t.duty)).Nodup ∧
    (∀ f ∈ h.fired, f.trig ∈ h.sys.hist) ∧ (∀ t ∈ h.pend, t ∈ h.sys.hist) ∧
    (∀ t ∈ h.sys.hist, t ∈ h.fired.map Fired.trig ∨ t ∈ h.pend) ∧
    (h.sys.hist.map (fun t => t.duty)).Nodup := by
  have hi := hreach_inv hdur hr
  refine ⟨?_, ?_, ?_, ?_, hi.base.nodup⟩
  · have := hi.firedNodup
    rw [List.map_append, List.map_map] at this
    exact this
  · intro f hf
    exact hi.perm.subset (List.mem_append_left _ (List.mem_map.mpr ⟨f, hf, rfl⟩))
  · intro t ht
    exact hi.perm.subset (List.mem_append_right _ ht)
  · intro t ht
    exact List.mem_append.mp (hi.perm.symm.subset ht)

/-- **Delivered once the deadline has passed.** After a clock advance in which due timers run
(`adv d true`), no parked trigger is due: every trigger handed out whose deadline has been reached has
been delivered (and, by `delivered_at_most_once`, exactly once). -/
theorem due_triggers_are_delivered (hdur : 0 < cfg.slotDur) {h : HSys} (hr : HReach bn cfg h) (d : Nat) :
    (∀ t ∈ (HSys.step bn cfg h (.adv d true)).pend, (HSys.step bn cfg h (.adv d true)).sys.now < t.nb) ∧
    ∀ t ∈ (HSys.step bn cfg h (.adv d true)).sys.hist, t.nb ≤ (HSys.step bn cfg h (.adv d true)).sys.now →
      t ∈ (HSys.step bn cfg h (.adv d true)).fired.map Fired.trig := by
  show (∀ t ∈ (HSys.adv bn cfg h d true).1.pend, (HSys.adv bn cfg h d true).1.sys.now < t.nb) ∧
    ∀ t ∈ (HSys.adv bn cfg h d true).1.sys.hist, t.nb ≤ (HSys.adv bn cfg h d true).1.sys.now →
      t ∈ (HSys.adv bn cfg h d true).1.fired.map Fired.trig
  have hi := hreach_inv hdur hr
  have hn : NoDue (HSys.adv bn cfg h d true).1 := adv_noDue hdur hi d
  have hi' : HInv bn cfg (HSys.adv bn cfg h d true).1 := hi.adv hdur d true
  have h1 : ∀ t ∈ (HSys.adv bn cfg h d true).1.pend, (HSys.adv bn cfg h d true).1.sys.now < t.nb := by
    intro t ht
    have := hn t ht
    simp only [due, decide_eq_false_iff_not] at this
    omega
  refine ⟨h1, ?_⟩
  intro t ht hle
  rcases List.mem_append.mp (hi'.perm.symm.subset ht) with hf | hp
  · exact hf
  · have := h1 t hp
    exact absurd hle (by omega)

/-- **Never before the deadline of the head-event path.** Every delivery carries the deadline slot
start + offset(type) (+ 300 ms for the attester duty with `FetchAttOnBlockWithDelay`), which is never
earlier than the duty type's offset; a delivery goes through `waitForEarlyFetchOrTimeout` iff it is an
attester duty and a flag is on, and then the clock has reached the deadline when it is delivered. -/
theorem delivered_not_before_deadline (hdur : 0 < cfg.slotDur) {h : HSys} (hr : HReach bn cfg h) :
    ∀ f ∈ h.fired,
      f.trig.nb = f.trig.duty.slot * cfg.slotDur +
        (if f.trig.duty.ty = tyAttester then cfg.slotDur * 1 / 3
         else if f.trig.duty.ty = tyAggregator ∨ f.trig.duty.ty = tySyncContribution then cfg.slotDur * 2 / 3
         else 0) +
        (if f.trig.duty.ty = tyAttester ∧ cfg.fetchAttOnBlockWithDelay = true then 300000000 else 0) ∧
      (f.waited = true ↔ earlyFetchOn cfg = true ∧ f.trig.duty.ty = tyAttester) ∧
      (f.waited = true → f.trig.nb ≤ f.clock) ∧ f.clock ≤ h.sys.now := by
  intro f hf
  have hi := hreach_inv hdur hr
  have hm : f.trig ∈ h.sys.hist := hi.perm.subset (List.mem_append_left _ (List.mem_map.mpr ⟨f, hf, rfl⟩))
  obtain ⟨hw, hnb, hck⟩ := hi.firedW f hf
  refine ⟨(not_before_offset bn cfg hdur hr.base f.trig hm).1, ?_, hnb, hck⟩
  rw [hw]
  simp [waits]

/-- **Only assigned duties are delivered** (the base theorem, read on the deliveries). -/
theorem delivered_only_assigned (hdur : 0 < cfg.slotDur) {h : HSys} (hr : HReach bn cfg h) :
    ∀ f ∈ h.fired, ∀ pk df, (pk, df) ∈ f.trig.defs → Justified bn cfg h.sys.st f.trig.duty pk df := by
  intro f hf
  have hi := hreach_inv hdur hr
  exact only_assigned bn cfg hdur hr.base f.trig
    (hi.perm.subset (List.mem_append_left _ (List.mem_map.mpr ⟨f, hf, rfl⟩)))

/-- **What a head event does.** It starts an early fetch iff the fetch-only function is registered,
a flag is on, an attester definition set is stored for the slot and the bookkeeping has no entry for
the slot; the fetch carries exactly the stored set. It never delivers, parks or hands out a duty and
never touches the scheduler state; without a fetch it changes nothing at all. -/
theorem head_event_effect (h : HSys) (slot : Nat) :
    (∀ f, (h.head cfg slot).2 = some f ↔
      (cfg.fetchOnlyRegistered = true ∧ earlyFetchOn cfg = true ∧ slot ∉ h.evt ∧
        AMap.get? h.sys.st.duties ⟨slot, tyAttester⟩ = some f.defs ∧ f.slot = slot ∧ f.clock = h.sys.now)) ∧
    ((h.head cfg slot).2 = none → (h.head cfg slot).1 = h) ∧
    (h.head cfg slot).1.sys = h.sys ∧ (h.head cfg slot).1.fired = h.fired ∧ (h.head cfg slot).1.pend = h.pend := by
  unfold HSys.head
  cases hreg : cfg.fetchOnlyRegistered with
  | false => simp
  | true =>
    cases hon : earlyFetchOn cfg with
    | false => simp
    | true =>
      cases hg : AMap.get? h.sys.st.duties ⟨slot, tyAttester⟩ with
      | none => simp
      | some ds =>
        by_cases hc : slot ∈ h.evt
        · simp [hc]
        · simp only [Bool.not_true, Bool.false_eq_true, if_false, List.contains_iff_mem, hc, Option.some.injEq,
            true_and, not_false_eq_true, reduceCtorEq, false_imp_iff, and_true]
          intro f
          constructor
          · rintro rfl; exact ⟨rfl, rfl, rfl⟩
          · rintro ⟨h1, h2, h3⟩
            cases f
            simp only at h1 h2 h3
            subst h1 h2 h3
            rfl

/-- **No early fetch for unresolved or unassigned slots.** Without a stored attester definition set
for the slot (its epoch is not resolved, no cluster validator attests in it, or its duties were
trimmed) a head event is a no-op. -/
theorem no_early_fetch_without_definitions (h : HSys) (slot : Nat)
    (hn : AMap.get? h.sys.st.duties ⟨slot, tyAttester⟩ = none) : h.head cfg slot = (h, none) := by
  unfold HSys.head
  simp only [hn]
  split
  · rfl
  · split <;> rfl

/-- **Early fetches only for assigned duties.** Every early fetch was made with a flag on, for a
definition set all of whose entries are justified: the beacon node gave exactly this attester
assignment for this slot to a validator it named as an active cluster validator with this pubkey. -/
theorem early_fetch_only_assigned (hdur : 0 < cfg.slotDur) {h : HSys} (hr : HReach bn cfg h) :
    ∀ f ∈ h.fetches, earlyFetchOn cfg = true ∧ cfg.fetchOnlyRegistered = true ∧ f.clock ≤ h.sys.now ∧
      ∀ pk df, (pk, df) ∈ f.defs → Justified bn cfg h.sys.st ⟨f.slot, tyAttester⟩ pk df := by
  intro f hf
  have hi := hreach_inv hdur hr
  obtain ⟨h1, h2, h3⟩ := hi.fetchOn f hf
  exact ⟨h1, h2, h3, hi.fetchJ f hf⟩

/-- **At most one early fetch per bookkeeping entry.** For every slot: the number of early fetches
plus the number of times the slot's own trigger created the entry is the number of times the entry
was trimmed plus one if the entry exists. In particular a slot whose entry was never trimmed has at
most one early fetch, and none if its own trigger came first. -/
theorem early_fetch_at_most_once_per_entry (hdur : 0 < cfg.slotDur) {h : HSys} (hr : HReach bn cfg h) (S : Nat) :
    (h.fetches.map Fetch.slot).count S + h.stored.count S = h.trimmed.count S + (if S ∈ h.evt then 1 else 0) ∧
    (h.fetches.map Fetch.slot).count S + h.stored.count S ≤ h.trimmed.count S + 1 ∧ h.evt.Nodup := by
  have hi := hreach_inv hdur hr
  refine ⟨hi.cnt S, ?_, hi.evtNodup⟩
  have := hi.cnt S
  split at this <;> omega

/-- **The slot's own trigger closes the window.** When the parked attester trigger of a slot
proceeds, the slot has an entry afterwards … -/
theorem own_trigger_closes_the_window (h : HSys) (t : Trigger) (hp : t ∈ h.pend) (hd : t.nb ≤ h.sys.now) :
    t.duty.slot ∈ (h.fireT t).evt ∧ (h.fireT t).fired = h.fired ++ [⟨t, h.sys.now, true⟩] := by
  unfold HSys.fireT
  have hg : (h.pend.contains t && due h.sys.now t) = true := by simp [hp, due, hd]
  simp only [hg, if_true]
  exact ⟨mem_evtStore.mpr (Or.inl rfl), trivial⟩

/-- … and while a slot has an entry (created by a head event or by its own trigger) a head event for
it starts no early fetch. -/
theorem no_early_fetch_while_entry (h : HSys) (slot : Nat) (he : slot ∈ h.evt) : h.head cfg slot = (h, none) := by
  unfold HSys.head
  have hc : h.evt.contains slot = true := by simpa using he
  split
  · rfl
  · split
    · rfl
    · split
      · rfl
      · simp [hc]

/-- **Entries disappear only by trims of old epochs or by an effective reorg event.** Firings and
head events keep every entry. A clock advance to `now'` removes an entry only with a flag on and only
if the entry's epoch is at least three before the epoch of the slot after the current one (i.e. the
trim at the resolution of an epoch `≥ epoch(entry) + 3`). A reorg event removes an entry only if it
is effective (feature on, reorg epoch before the resolved epoch) and the entry's slot lies before the
end of the resolved epoch. -/
theorem entry_kept (hdur : 0 < cfg.slotDur) (h : HSys) (e : HEv) {S : Nat} (hS : S ∈ h.evt)
    (hn : S ∉ (HSys.step bn cfg h e).evt) :
    earlyFetchOn cfg = true ∧
    match e with
    | .adv d _ => S / cfg.spe + 3 ≤ ((h.sys.now + d) / cfg.slotDur + 1) / cfg.spe
    | .reorg ep => cfg.reorgEnabled = true ∧ ep < h.sys.st.resolvedEpoch ∧ S < (h.sys.st.resolvedEpoch + 1) * cfg.spe
    | .fire _ => False
    | .head _ => False := by
  cases e with
  | adv d eager => exact adv_keep bn cfg hdur h d eager S hS hn
  | fire slot => exact absurd (fire_evt_subset h slot hS) hn
  | head slot => exact absurd (head_evt_subset cfg h slot hS) hn
  | reorg ep =>
    obtain ⟨h1, h2, h3, h4⟩ := reorgH_removed (cfg := cfg) (s := h.sys.st) (ep := ep) hS hn
    exact ⟨h1, h2, h3, h4⟩

/-- **Trimming removes the bookkeeping of old epochs.** With a flag on, a `trimDuties(ep)` that finds
duties filed under `ep` leaves only entries of later epochs; for the trim made by a successful
`resolveDuties` of epoch `e ≥ 3` these are the entries from epoch `e - 2` on. (A trim that finds no
duty filed under its epoch returns early and removes nothing: `trimH` is then the identity.) -/
theorem trim_removes_old_entries {s : State} {evt : List Nat} (hon : earlyFetchOn cfg = true) :
    (∀ ep, (byEp s ep).isEmpty = false → ∀ S ∈ (trimH cfg s evt ep).2, S ∈ evt ∧ (ep + 1) * cfg.spe ≤ S) ∧
    (∀ e, 3 ≤ e → (byEp s (e - 3)).isEmpty = false → ∀ S ∈ (trimBackH cfg s evt e).2, S ∈ evt ∧ (e - 2) * cfg.spe ≤ S) ∧
    (∀ ep, (byEp s ep).isEmpty = true → trimH cfg s evt ep = (s, evt)) := by
  refine ⟨fun ep hne S hS => trimH_kept hon hne hS, fun e h3 hne S hS => trimBackH_kept h3 hon hne hS, ?_⟩
  intro ep he
  unfold trimH
  simp [he]

/-- **Flags off: nothing changes.** With both flags off (the default) there is no bookkeeping, no
parked trigger and no early fetch in any reachable state, whatever head events arrive, and the
deliveries are exactly the base model's triggers, in order, none of them through
`waitForEarlyFetchOrTimeout`. -/
theorem flags_off_unchanged (hdur : 0 < cfg.slotDur) (hoff : earlyFetchOn cfg = false) {h : HSys} (hr : HReach bn cfg h) :
    h.evt = [] ∧ h.pend = [] ∧ h.fetches = [] ∧ h.fired.map Fired.trig = h.sys.hist ∧
    ∀ f ∈ h.fired, f.waited = false := by
  have hi := hreach_inv hdur hr
  obtain ⟨h1, h2, h3, _, _, h6⟩ := hi.off hoff
  refine ⟨h1, h2, h3, h6, ?_⟩
  intro f hf
  rw [(hi.firedW f hf).1]
  simp [waits, hoff]

/-- **`GetDutyDefinition`.** Outside a resolution it answers a definition set only for a resolved,
not yet trimmed epoch, and then the stored set. Called while `resolveDuties` runs it blocks (until its
context ends) iff it asks for the epoch being resolved, that epoch is not covered by `resolvedEpoch`
yet (`getEpochResolvedChan`: `resolvedEpoch ≠ MaxInt64 ∧ resolvedEpoch ≥ epoch` gives a closed
channel) and this resolution fails. -/
theorem get_duty_definition (s s' : State) (slot : Nat) (d : Duty) :
    (∀ ds, getDutyDefinition cfg s d = .ok ds →
      d.ty ≠ tyBuilderProposer ∧ s.resolvedEpoch ≠ maxInt64 ∧ d.slot / cfg.spe ≤ s.resolvedEpoch ∧
      s.resolvedEpoch < d.slot / cfg.spe + 3 ∧ AMap.get? s.duties d = some ds) ∧
    (probe cfg s s' slot d = .blocked ↔
      d.ty ≠ tyBuilderProposer ∧ slot / cfg.spe = d.slot / cfg.spe ∧
      ¬ (s.resolvedEpoch ≠ maxInt64 ∧ d.slot / cfg.spe ≤ s.resolvedEpoch) ∧ s'.resolvedEpoch ≠ d.slot / cfg.spe) := by
  have htail : ∀ (x : State), getDefTail cfg x d ≠ .blocked := by
    intro x
    unfold getDefTail
    simp only
    split
    · simp
    · split
      · simp
      · split <;> simp
  constructor
  · intro ds hok
    unfold getDutyDefinition at hok
    split at hok
    · cases hok
    · rename_i hty
      unfold getDefTail isEpochResolved isEpochTrimmed at hok
      simp only at hok
      by_cases hmax : s.resolvedEpoch = maxInt64
      · simp [hmax] at hok
      · simp only [hmax, if_false] at hok
        by_cases h1 : d.slot / cfg.spe ≤ s.resolvedEpoch
        · by_cases h2 : d.slot / cfg.spe + 3 ≤ s.resolvedEpoch
          · simp [h1, h2] at hok
          · simp only [h1, h2, decide_true, decide_false, Bool.not_true, Bool.false_eq_true, if_false] at hok
            cases hg : AMap.get? s.duties d with
            | none => rw [hg] at hok; cases hok
            | some ds' =>
              rw [hg] at hok
              simp only [GetDef.ok.injEq] at hok
              subst hok
              exact ⟨hty, hmax, h1, by omega, rfl⟩
        · simp [h1] at hok
  · unfold probe
    split
    · rename_i hty
      constructor
      · intro hb; cases hb
      · rintro ⟨h1, _⟩; exact absurd hty h1
    · rename_i hty
      simp only
      split
      · rename_i he
        constructor
        · intro hb; exact absurd hb (htail s)
        · rintro ⟨_, h2, _⟩; exact absurd h2 he
      · rename_i he
        split
        · rename_i hc
          constructor
          · intro hb; exact absurd hb (htail s)
          · rintro ⟨_, _, h3, _⟩; exact absurd hc h3
        · rename_i hc
          split
          · rename_i hw
            constructor
            · intro hb; exact absurd hb (htail s')
            · rintro ⟨_, _, _, h4⟩; exact absurd hw h4
          · rename_i hw
            exact ⟨fun _ => ⟨hty, Decidable.of_not_not he, hc, hw⟩, fun _ => rfl⟩

/-! ### Non-vacuity and witnesses (concrete runs; tests of the statements, not proofs) -/

/-- `exCfg` of `Props/C15.lean` (4 slots per epoch, 1200 ns per slot) with `FetchAttOnBlock`. -/
def hxCfg : Cfg := { exCfg with fetchAttOnBlock := true }

/-- a beacon node that always answers the truth of `Props/C15.lean` (validator 0 attests in slot `4e+1`). -/
def hxBN : BN where
  vals _ e := some ((exTruth.vals e).map some)
  att _ e _ := some ((exTruth.att e).map some)
  pro _ e _ := some ((exTruth.pro e).map some)
  sync _ e _ := some ((exTruth.sync e).map some)

def hxView (h : HSys) : List (Nat × Nat × Nat × Bool) × List (Nat × Nat) × List Nat × List Nat :=
  (h.fired.filterMap (fun f => if f.trig.duty.ty = tyAttester then some (f.trig.duty.slot, f.trig.nb, f.clock, f.waited) else none),
   h.fetches.map (fun f => (f.slot, f.clock)), h.evt, h.pend.map (fun t => t.duty.slot))

-- The ticker starts in slot 4. A head event for slot 5 arrives before slot 5 starts (at 4800: early
-- fetch — the feature has no lower time bound), a second one is ignored; slot 5 is handled at 6000 and
-- its attester trigger parks until 6400; a head event at 6399 is ignored (entry exists); the trigger is
-- delivered once at 6400 (deadline 6000 + 1200/3); a head event afterwards is ignored. For slot 9 no
-- head event arrives: the trigger itself creates the entry (deadline 11200, delivered when the clock
-- is advanced past it to 11600), a late head event is ignored.
set_option maxRecDepth 1000000 in
example :
    hxView (HSys.run hxBN hxCfg (HSys.init hxCfg 4800)
      [.adv 0 true, .head 5, .head 5, .adv 1200 true, .adv 399 true, .head 5, .adv 1 true, .head 5,
       .adv 1200 true, .adv 1200 true, .adv 1200 true, .adv 1600 true, .head 9]) =
    ([(5, 6400, 6400, true), (9, 11200, 11600, true)], [(5, 4800)], [9, 5], []) := by decide

-- By design (not a violation of C15: an early fetch is not a duty trigger): after an effective reorg
-- event the entry of the current epoch's slots is gone, the duties are resolved again and a further
-- head event for the same slot starts a second early fetch. Here slot 6 (validator 0 attests in 4e+2).
def hxBN2 : BN where
  vals _ _ := some (exVals.map some)
  att _ e _ := some [some ⟨0, 100, 4 * e + 2, 7⟩]
  pro _ _ _ := some []
  sync _ _ _ := some []

set_option maxRecDepth 1000000 in
example :
    (hxView (HSys.run hxBN2 hxCfg (HSys.init hxCfg 4800)
      [.adv 0 true, .head 6, .reorg 0, .adv 1200 true, .head 6, .adv 1600 true])) =
    ([(6, 7600, 7600, true)], [(6, 4800), (6, 6000)], [6], []) := by decide

-- A trim that finds no duties filed under its epoch returns before the bookkeeping is touched. The
-- cluster's only validator attests in slot 6 (epoch 1) and never again. `trimDuties(1)` would run at the
-- resolution of epoch 4, which never happens (the clock jumps from slot 15 to slot 23, epoch 5); the
-- resolutions of epochs 5, 6, 7 find nothing filed under epochs 2, 3, 4. The duties of epoch 1 and the
-- entry of slot 6 stay for good (a bounded leak: one entry per slot that ever had a duty).
def hxBN3 : BN where
  vals _ _ := some (exVals.map some)
  att _ e _ := if e = 1 then some [some ⟨0, 100, 6, 7⟩] else some []
  pro _ _ _ := some []
  sync _ _ _ := some []

set_option maxRecDepth 1000000 in
example :
    let h := HSys.run hxBN3 hxCfg (HSys.init hxCfg 4800)
      [.adv 0 true, .head 6, .adv 1200 true, .adv 1200 true, .adv 1200 true,   -- slots 4 … 7 (epoch 1)
       .adv 4800 true, .adv 4800 true,                                        -- slots 11, 15 (epochs 2, 3)
       .adv 9600 true, .adv 4800 true, .adv 4800 true]                        -- slots 23, 27, 31 (epochs 5, 6, 7)
    (h.evt, h.sys.ticked, h.sys.st.dutiesByEpoch.map (fun p => p.1), h.sys.st.resolvedEpoch) =
      ([6], [4, 5, 6, 7, 11, 15, 23, 27, 31], [1], 7) := by decide

-- With `FetchAttOnBlockWithDelay` the attester deadline is 300 ms later; the other duty types keep
-- their offsets (slot of 12 s: attester at 4 s + 300 ms, aggregator at 8 s).
example : notBefore { spe := 32, slotDur := 12000000000, reorgEnabled := true, fetchAttOnBlockWithDelay := true } 10 tyAttester
      = 10 * 12000000000 + 4000000000 + 300000000 ∧
    notBefore { spe := 32, slotDur := 12000000000, reorgEnabled := true, fetchAttOnBlockWithDelay := true } 10 tyAggregator
      = 10 * 12000000000 + 8000000000 := by decide

-- `GetDutyDefinition` while the epoch is being resolved for the first time blocks when that resolution
-- fails, and answers after it when it succeeds; once `resolvedEpoch` covers the epoch it never blocks.
example :
    probe exCfg {} { resolvedEpoch := maxInt64 } 4 ⟨5, tyAttester⟩ = .blocked ∧
    probe exCfg {} { resolvedEpoch := 1, duties := [(⟨5, tyAttester⟩, [(100, .att ⟨0, 100, 5, 7⟩)])] } 4 ⟨5, tyAttester⟩
      = .ok [(100, .att ⟨0, 100, 5, 7⟩)] ∧
    probe exCfg { resolvedEpoch := 1 } { resolvedEpoch := 1 } 4 ⟨5, tyAttester⟩ = .notFound := by decide

end CharonV.Sched
