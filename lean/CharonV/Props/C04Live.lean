/-
C04 — Consensus liveness: a good round decides (implementation level, every cluster size).

C04: "If at most f members crash, start late or stay silent, the other members keep running the
duty's consensus instance with their proposals available, and messages between running members
arrive well within a round's timeout, then every running member decides, within at most one full
leader rotation after the last such fault."

`Props/C04.lean` has the ingredients (producer/verifier agreement, leader rotation, round
synchronisation). Here the *core* is proved on multi-member executions of the implementation model
`CharonV.Model.Qbft` (`step` = one iteration of `qbft.Run`'s loop), for

  * every `d : Def` with `1 ≤ d.nodes` — every cluster size, **every leader function**;
  * every FIFO limit `d.fifo ≥ 3` (round 1) resp. `≥ 4` (round `r ≥ 2`): per source a member buffers
    at most one ROUND-CHANGE, PRE-PREPARE, PREPARE and COMMIT in a good round, so nothing is trimmed
    (production: `FIFOLimit = instance.RecvBufferSize = 100`; no dependence on `n`);
  * every duplicate-free list `R` of running members with `d.quorum ≤ R.length` (the others — at
    most `f` if `R` are all members but the faulty ones — are silent for the whole execution);
  * every environment `env : Env` with `env.Fair`: an **oracle per step** (Go map iteration orders
    `srcOrd`, `pqPerm`; may differ at every delivery of every member) and, per phase and member, an
    arbitrary **arrival order** of that phase's messages (`env.ord ph p msgs` is any permutation).

Execution model (`Proofs/QbftGoodRound.lean`): `phase` lets every running member execute a schedule
and collects the broadcasts as wire messages `{ core := ⟨typ, p, round, value, pr, pv⟩, just }`
exactly like the production transport; `deliverAll` delivers all messages of the previous phase to
every running member (including the sender) with `CmpOut.ok`. "All messages are delivered before any
timer fires" = no `.timeout` event inside the good round.

* `good_round_1`: members start, the round-1 leader (running) has its input `v ≠ 0`, the others have
  any input or none (`inp p = 0` = none). PRE-PREPARE → PREPAREs → COMMITs (three round trips):
  every member of `R` is running, decided (`qCommit ≠ []`, `qCommitValue = v`), emitted exactly one
  `decide` output, namely `decide v 1 _`, and no `bug` / `unjust` output (`GoodOutcome`).
* `good_round_r` (`r ≥ 2`): members start, obtain inputs, and time out together `r-1` times while
  nothing is delivered (rounds `1…r-1` lost: leaders silent or messages dropped); the leader of
  round `r` is running with input `v ≠ 0`. ROUND-CHANGEs for `r` → the leader's PRE-PREPARE (own
  input, justified by the null quorum it selected) → PREPAREs → COMMITs: as above with round `r`.
* `decides_within_rotation`: with the production leader function, for every running member `l` with
  an input and every `r0 ≥ 1` there is exactly one round `r ∈ [r0, r0+n)` led by `l`, and the
  execution "rounds `< r` lost, round `r` good" decides `inp l` at every running member.

Oracle independence: nothing is fixed — states differ between oracles only in the *order* of the
quorum lists (`preparedJust`, `qCommit`, the PRE-PREPARE justification), hence `decide v r _`.

Not covered (see report): asynchronous overlap of phases (a COMMIT overtaking a PREPARE), earlier
rounds that progressed partially (members prepared in a failed round — then the leader must
re-propose the prepared value; `Props/C04.honest_msgs_justified` shows its PRE-PREPARE is accepted,
but the quorum bookkeeping of such a round is not composed here), `CmpOut.fail`/`.timeout`, and
real time.
-/
import CharonV.Proofs.QbftGoodRound
import CharonV.Props.C04

namespace CharonV.Qbft

/-- **Good round 1.** All running members are freshly started, the leader of round 1 is running
and has its input `v`; its PRE-PREPARE, then all PREPAREs, then all COMMITs are delivered to all
running members (any arrival orders, any oracles) and no timer fires: every running member decides
`v` in round 1, exactly once, without `bug`/`unjust`. -/
theorem good_round_1 (d : Def) (hn : 1 ≤ d.nodes) (hf : 3 ≤ d.fifo)
    (R : List Nat) (hR : R.Nodup) (hq : d.quorum ≤ R.length) (hl : d.leader 1 ∈ R)
    (inp : Nat → Nat) (v : Nat) (hv : v ≠ 0) (hinp : inp (d.leader 1) = v)
    (env : Env) (henv : env.Fair) :
    ∀ p ∈ R, GoodOutcome v 1 (goodRound1 d env R inp p) :=
  goodRound1_decides d hn hf R hR hq hl inp v hv hinp env henv

/-- **Good round `r ≥ 2`.** The running members start, obtain their inputs and time out `r-1` times
with nothing delivered; the leader of round `r` is running and has input `v`. The ROUND-CHANGEs for
round `r`, then the leader's PRE-PREPARE, then all PREPAREs, then all COMMITs are delivered to all
running members (any arrival orders, any oracles) and no further timer fires: every running member
decides `v` in round `r`, exactly once, without `bug`/`unjust`. -/
theorem good_round_r (d : Def) (hn : 1 ≤ d.nodes) (hf : 4 ≤ d.fifo)
    (R : List Nat) (hR : R.Nodup) (hq : d.quorum ≤ R.length)
    (r : Nat) (hr : 2 ≤ r) (hl : d.leader r ∈ R)
    (inp : Nat → Nat) (v : Nat) (hv : v ≠ 0) (hinp : inp (d.leader r) = v)
    (env : Env) (henv : env.Fair) :
    ∀ p ∈ R, GoodOutcome v r (goodRoundR d env R inp r p) :=
  goodRoundR_decides d hn hf R hR hq r hr hl inp v hv hinp env henv

/-- **A good round within every leader rotation.** With the production leader function, every
running member `l < n` that has an input leads exactly one round `r` of any `n` consecutive rounds
`r0 … r0+n-1`, and if the rounds before `r` are lost silently and round `r` is good
(`goodRoundAt` = `goodRound1` for `r = 1`, `goodRoundR` otherwise), every running member decides
`inp l` in round `r`. -/
theorem decides_within_rotation (slot ty n fifo : Nat) (hn : 1 ≤ n) (hf : 4 ≤ fifo)
    (R : List Nat) (hR : R.Nodup) (hq : (rotDef slot ty n fifo).quorum ≤ R.length)
    (l : Nat) (hl : l ∈ R) (hln : l < n) (inp : Nat → Nat) (hinp : inp l ≠ 0)
    (r0 : Nat) (hr0 : 1 ≤ r0) (env : Env) (henv : env.Fair) :
    ∃ r, r0 ≤ r ∧ r < r0 + n ∧ leaderFn slot ty r n = l ∧
      (∀ r', r0 ≤ r' → r' < r0 + n → leaderFn slot ty r' n = l → r' = r) ∧
      ∀ p ∈ R, GoodOutcome (inp l) r (goodRoundAt (rotDef slot ty n fifo) env R inp r p) := by
  obtain ⟨r, h1, h2, h3, h4⟩ := leader_rotation slot ty n hn r0 l hln
  refine ⟨r, h1, h2, h3, h4, ?_⟩
  have e : (rotDef slot ty n fifo).leader r = l := h3
  have := goodRoundAt_decides (rotDef slot ty n fifo) hn hf R hR hq r (by omega)
    (by rw [e]; exact hl) inp (by rw [e]; exact hinp) env henv
  rw [e] at this
  exact this

/-! ### Non-vacuity: concrete clusters, evaluated by the kernel -/

namespace C04LiveEx

/-- 4 members (quorum 3, f = 1), FIFO limit 4, leader of round `r` = `r % 4`. -/
def d4 : Def := { nodes := 4, fifo := 4, leader := fun r => r % 4 }
/-- 7 members (quorum 5, f = 2), FIFO limit 4, leader of round `r` = `(r + 2) % 7`. -/
def d7 : Def := { nodes := 7, fifo := 4, leader := fun r => (r + 2) % 7 }

/-- default oracles, messages arrive in sending order. -/
def env0 : Env := { orc := fun _ _ _ => {}, ord := fun _ _ l => l }
/-- oracles and arrival orders that differ per phase, member and delivery. -/
def env1 : Env :=
  { orc := fun ph p i => { srcOrd := [p, i, 6, 5, 4, 3, 2, 1, 0], pqPerm := ph + i },
    ord := fun ph p l => if (ph + p) % 2 = 0 then l else l.reverse }

example : env0.Fair := fun _ _ l => List.Perm.refl l
example : env1.Fair := by
  intro ph p l
  show (if (ph + p) % 2 = 0 then l else l.reverse).Perm l
  split
  · exact List.Perm.refl l
  · exact List.reverse_perm l

/-- running members of `d4`: member 0 is down. Inputs `7 + p`. -/
def R4 : List Nat := [1, 2, 3]
/-- running members of `d7`: members 2 and 4 are down; member 1 runs but has no input. -/
def R7 : List Nat := [6, 1, 3, 5, 0]
def inp4 : Nat → Nat := fun p => 7 + p
def inp7 : Nat → Nat := fun p => if p = 1 then 0 else 10 + p

-- the hypotheses of `good_round_1` / `good_round_r` hold …
example : 1 ≤ d4.nodes ∧ 4 ≤ d4.fifo ∧ R4.Nodup ∧ d4.quorum ≤ R4.length ∧ d4.leader 1 ∈ R4 ∧
    inp4 (d4.leader 1) = 8 ∧ d4.leader 3 ∈ R4 ∧ inp4 (d4.leader 3) = 10 := by decide
example : 1 ≤ d7.nodes ∧ 4 ≤ d7.fifo ∧ R7.Nodup ∧ d7.quorum ≤ R7.length ∧ d7.leader 1 ∈ R7 ∧
    inp7 (d7.leader 1) = 13 ∧ d7.leader 4 ∈ R7 ∧ inp7 (d7.leader 4) = 16 := by decide

-- … and the model evaluates to the conclusions. n = 4, round 1 (leader 1) and round 3 (leader 3):
example : ∀ p ∈ R4, GoodOutcome 8 1 (goodRound1 d4 env0 R4 inp4 p) := by decide
example : ∀ p ∈ R4, GoodOutcome 8 1 (goodRound1 d4 env1 R4 inp4 p) := by decide
example : ∀ p ∈ R4, GoodOutcome 10 3 (goodRoundR d4 env0 R4 inp4 3 p) := by decide
example : ∀ p ∈ R4, GoodOutcome 10 3 (goodRoundR d4 env1 R4 inp4 3 p) := by decide
-- n = 7, round 1 (leader 3) and round 4 (leader 6), two members down, one without input:
example : ∀ p ∈ R7, GoodOutcome 13 1 (goodRound1 d7 env0 R7 inp7 p) := by decide
example : ∀ p ∈ R7, GoodOutcome 13 1 (goodRound1 d7 env1 R7 inp7 p) := by decide
example : ∀ p ∈ R7, GoodOutcome 16 4 (goodRoundR d7 env0 R7 inp7 4 p) := by decide
example : ∀ p ∈ R7, GoodOutcome 16 4 (goodRoundR d7 env1 R7 inp7 4 p) := by decide

-- the quorum hypothesis is necessary: with only 4 of 7 members running nobody decides
example : ∀ p ∈ [6, 1, 3, 5], (goodRoundR d7 env1 [6, 1, 3, 5] (fun p => 10 + p) 4 p).1.qCommit = [] := by
  decide
-- the leader's input is necessary: the running round-1 leader of `d4` without input proposes nothing
example : ∀ p ∈ R4, (goodRound1 d4 env0 R4 (fun p => if p = 1 then 0 else 7 + p) p).1.qCommit = [] := by
  decide

-- `decides_within_rotation`: slot 10, duty type 1, 4 members, window of rounds 3..6 — member 2
-- leads round 3 (`Props/C04`: leaders 2,3,0,1), and the composed execution decides its input
example : leaderFn 10 1 3 4 = 2 ∧ (rotDef 10 1 4 4).quorum ≤ [1, 2, 3].length := by decide
example : ∀ p ∈ [1, 2, 3], GoodOutcome 9 3 (goodRoundAt (rotDef 10 1 4 4) env1 [1, 2, 3] inp4 3 p) := by
  decide

end C04LiveEx

end CharonV.Qbft
