/-
C16 — Duty deadlines are reported exactly once, never early, never for late adds.

Property theorems only (helper lemmas live in `CharonV.Proofs.Deadliner`). All theorems
quantify over an arbitrary deadline function `dl`, an arbitrary buffer capacity `cap`, every
finite event sequence from the initial state and every value of the map-iteration oracle.
-/
import CharonV.Proofs.Deadliner

namespace CharonV.Deadliner

variable (dl : Duty → Option Nat) (cap : Nat)

/-- **At most once.** In every reachable state the history of reports (and of drops) contains no
duty twice: a duty is never handed to the consumer twice, whatever is re-added and whenever. -/
theorem reported_at_most_once {s : State} (h : Reach dl cap s) :
    (s.reported ++ s.dropped).Nodup :=
  (reach_inv dl cap h).doneNodup

/-- **Never early, in deadline order.** Whenever a step extends the report history, it appends
exactly one duty `c`; `c` was pending, its deadline has been reached, and no pending duty has a
strictly earlier deadline. -/
theorem report_step {s : State} (h : Reach dl cap s) (e : Ev)
    (hne : (step dl cap s e).1.reported ≠ s.reported) :
    ∃ c, (step dl cap s e).1.reported = s.reported ++ [c] ∧ c ∈ s.duties ∧
      dlOf dl c ≤ s.now ∧ ∀ d ∈ s.duties, dlOf dl c ≤ dlOf dl d := by
  have hi := reach_inv dl cap h
  cases e with
  | add d o =>
    exfalso; apply hne
    simp only [step]
    cases dl d with
    | none => rfl
    | some t =>
      simp only
      split
      · rfl
      · split <;> split <;> simp [setCurr]
  | advance k => exfalso; apply hne; simp [step]
  | read =>
    exfalso; apply hne; simp only [step]
    cases s.out <;> rfl
  | fire o =>
    simp only [step] at hne ⊢
    cases hf : s.fired with
    | false => rw [hf] at hne; simp at hne
    | true =>
      obtain ⟨c, hc, hle⟩ := hi.firedIff.mp hf
      have hcm := hi.currMin c hc
      rw [hf] at hne
      simp only [hc, if_true] at hne ⊢
      by_cases hlen : s.out.length < cap
      · simp only [hlen, if_true, setCurr]
        exact ⟨c, rfl, hcm.1, hle, hcm.2⟩
      · simp [hlen, setCurr] at hne

/-- All reports ever made were due: holds in every reachable state, in particular in the state
right after the report, whose clock value is the clock value at the moment of reporting. -/
theorem never_early {s : State} (h : Reach dl cap s) : ∀ d ∈ s.reported, dlOf dl d ≤ s.now :=
  fun d hd => ((reach_inv dl cap h).pastDone d (List.mem_append_left _ hd)).1

/-- **Late adds are refused**: a duty whose deadline has been reached is answered `expired` and
the state does not change at all. -/
theorem late_add_refused (s : State) (d : Duty) (o t : Nat) (hd : dl d = some t) (hle : t ≤ s.now) :
    step dl cap s (.add d o) = (s, .status .expired) := by
  simp [step, hd, hle]

/-- **A refused duty is never reported.** Once a duty's deadline is reached while it is neither
pending nor in the history (in particular: it was only ever added late), no continuation
whatsoever — including any number of further `Add`s of it — gets it reported. -/
theorem late_never_reported {d : Duty} {t : Nat} (hd : dl d = some t) {s : State}
    (h : Reach dl cap s) (hl : Late d t s) (es : List Ev) :
    d ∉ (run dl cap s es).reported :=
  (late_run dl cap hd (reach_inv dl cap h) hl es).2.2

/-- **Exempt duty types are never reported** and `Add` answers `exempt` without touching state. -/
theorem exempt_never_reported {d : Duty} (hd : dl d = none) {s : State} (h : Reach dl cap s) :
    d ∉ s.reported ∧ ∀ o, step dl cap s (.add d o) = (s, .status .exempt) := by
  refine ⟨?_, fun o => by simp [step, hd]⟩
  intro hmem
  obtain ⟨t, ht⟩ := ((reach_inv dl cap h).pastDone d (List.mem_append_left _ hmem)).2
  rw [hd] at ht; cases ht

/-- **Re-adding a pending duty has no effect** on anything observable: pending set, current
timer, buffer and histories are unchanged (only the ghost list of scheduled adds grows). -/
theorem readd_idempotent {s : State} (h : Reach dl cap s) {d : Duty} (hmem : d ∈ s.duties) (o : Nat) :
    let s' := (step dl cap s (.add d o)).1
    s'.now = s.now ∧ s'.duties = s.duties ∧ s'.curr = s.curr ∧ s'.fired = s.fired ∧
    s'.out = s.out ∧ s'.reported = s.reported ∧ s'.dropped = s.dropped :=
  readd_noop dl cap (reach_inv dl cap h) hmem o

/-- **Exactly once** (with `reported_at_most_once`): in a quiescent reachable state (no timer
event pending) every duty that was ever accepted as scheduled and whose deadline is reached has
been reported, provided nothing was dropped because the consumer let the buffer fill up. -/
theorem exactly_once {s : State} (h : Reach dl cap s) (hq : s.fired = false)
    (hdrop : s.dropped = []) {d : Duty} (hs : d ∈ s.sched) (hdue : dlOf dl d ≤ s.now) :
    d ∈ s.reported ∧ s.reported.count d = 1 := by
  have hi := reach_inv dl cap h
  have hmem : d ∈ s.reported := by
    rcases hi.schedAcc d hs with h1 | h1
    · -- still pending: then the current duty is due as well, so the timer has fired
      exfalso
      cases hc : s.curr with
      | none => have := hi.currNone hc; rw [this] at h1; cases h1
      | some c =>
        have hmin := (hi.currMin c hc).2 d h1
        have : s.fired = true := hi.firedIff.mpr ⟨c, hc, by omega⟩
        rw [hq] at this; cases this
    · simpa [hdrop] using h1
  refine ⟨hmem, ?_⟩
  have hnd : s.reported.Nodup := by
    have := hi.doneNodup; rw [hdrop] at this; simpa using this
  rw [hnd.count]; simp [hmem]

/-- **An overflow loses only the duties it drops.** Without the hypothesis that nothing was ever
dropped: in a quiescent reachable state every duty that was accepted as scheduled and is due has
been reported exactly once or is one of the duties dropped while the buffer was full
(`drop_only_when_full`). In particular a duty registered after an overflow, which finds room in the
buffer when its deadline fires, is reported: an overflow does not stall the deadliner. -/
theorem reported_unless_dropped {s : State} (h : Reach dl cap s) (hq : s.fired = false)
    {d : Duty} (hs : d ∈ s.sched) (hdue : dlOf dl d ≤ s.now) (hnd : d ∉ s.dropped) :
    d ∈ s.reported ∧ s.reported.count d = 1 := by
  have hi := reach_inv dl cap h
  have hmem : d ∈ s.reported := by
    rcases hi.schedAcc d hs with h1 | h1
    · exfalso
      cases hc : s.curr with
      | none => have := hi.currNone hc; rw [this] at h1; cases h1
      | some c =>
        have hmin := (hi.currMin c hc).2 d h1
        have : s.fired = true := hi.firedIff.mpr ⟨c, hc, by omega⟩
        rw [hq] at this; cases this
    · rcases List.mem_append.mp h1 with h2 | h2
      · exact h2
      · exact absurd h2 hnd
  refine ⟨hmem, ?_⟩
  have hnodup : s.reported.Nodup := (List.nodup_append.mp hi.doneNodup).1
  rw [hnodup.count]; simp [hmem]

/-- A drop happens only when the buffer is full at the moment the timer event is processed
(hypothesis H1 of `exactly_once`: "a consumer that keeps reading"). -/
theorem drop_only_when_full (s : State) (e : Ev)
    (hne : (step dl cap s e).1.dropped ≠ s.dropped) : cap ≤ s.out.length := by
  cases e with
  | add d o =>
    exfalso; apply hne; simp only [step]
    cases dl d with
    | none => rfl
    | some t => simp only; split; · rfl
                · split <;> split <;> simp [setCurr]
  | advance k => exfalso; apply hne; simp [step]
  | read => exfalso; apply hne; simp only [step]; cases s.out <;> rfl
  | fire o =>
    simp only [step] at hne
    cases hf : s.fired with
    | false => rw [hf] at hne; simp at hne
    | true =>
      rw [hf] at hne
      cases hc : s.curr with
      | none => rw [hc] at hne; simp at hne
      | some c =>
        rw [hc] at hne
        by_cases hlen : s.out.length < cap
        · simp [hlen, setCurr] at hne
        · omega

/-- **Quiescence is reached**: processing timer events at most `|pending|` times leaves no timer
event pending — so as time progresses every due duty does get reported. -/
theorem flush_quiescent {s : State} (h : Reach dl cap s) :
    (flush dl cap s.duties.length s).fired = false ∧ Reach dl cap (flush dl cap s.duties.length s) :=
  ⟨flush_fired_false dl cap (reach_inv dl cap h) _ (Nat.le_refl _), flush_reach dl cap h _⟩

/-! ### Non-vacuity and witnesses (concrete runs; these are tests of the statements, not proofs) -/

/-- deadline function used by the examples: duty `d` expires at `d / 10`, duties `≥ 1000` are exempt. -/
def exDl (d : Duty) : Option Nat := if d < 1000 then some (d / 10) else none

-- two duties with different deadlines are reported in deadline order, once each, and a re-add at
-- the deadline instant is refused (this is the scenario of defect D-3 before the `fix:` commit).
example :
    let s := run exDl 10 {} [.add 52 0, .add 31 0, .advance 3, .fire 0, .advance 2, .fire 0,
                              .add 52 0, .fire 0]
    s.reported = [31, 52] ∧ s.fired = false ∧ s.sched = [31, 52] ∧ s.dropped = [] := by decide

-- H1 is needed: 11 simultaneous expiries with nobody reading lose one report.
example :
    let adds := (List.range 11).map (fun i => Ev.add (50 + i % 10 + 100 * (i / 10)) 0)
    let s := run exDl 10 {} (adds ++ [.advance 20] ++ List.replicate 11 (.fire 0))
    s.reported.length = 10 ∧ s.dropped.length = 1 := by decide

end CharonV.Deadliner
