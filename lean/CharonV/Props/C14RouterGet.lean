/-
C14 on the RESPONSE side of the validator API (with C20 / C10 for the duties and validators
endpoints): `core/validatorapi/router.go` `proposeBlockV3` / `createProposeBlockResponse`,
`aggregateAttestation` / `createAggregateAttestation`, `attestationData`, `getValidators` /
`getValidator` / `getValidatorsByID`, the duties wrappers, and `Component.Proposal`.

C14: "Every duty data value (… for every supported fork version) survives encoding and decoding
through each wire … format … with every field the workflow carries … Arbitrary, … structurally
incomplete data … is either rejected with an error or decoded into a value the node can handle safely;
in no case does receiving … it crash the process."

Property theorems only (helper lemmas: `CharonV.Proofs.RouterGet`). The theorems quantify over every
answer of the Handler / duty store (every version number, every combination of populated and nil
fields, nil values), every request string and every id list.

Full statement that the code AS IT IS does not satisfy (kept here, see the `_partial` theorems and
witnesses): "a nil or inconsistent answer gives an error status, never a panic or an empty 200".
What holds: every NON-nil inconsistent answer is a 500 (`inconsistent_answer_is_500`,
`aggregate_inconsistent_is_500`, `duties_malformed_metadata_is_500`); a nil response / nil data
pointer is dereferenced (`nil_answer_panics`, `aggregate_nil_answer_panics`,
`component_nil_store_panics`: recovered by net/http, the process survives) and nil attestation data
is answered `200 {"data":null}` (`attestation_data_null_200`).
-/
import CharonV.Proofs.RouterGet

namespace CharonV.RouterGet

/-! ### produce block v3 -/

/-- **Version header, blinded header and body variant always agree with the served object.** For every
answer of the Handler and every 200 response: the answer was a non-nil proposal of a known fork; the
`Eth-Consensus-Version` header and the body's `version` both name that fork; the
`Eth-Execution-Payload-Blinded` header and the body's flag are the proposal's flag; the two value
headers equal the body's values and the proposal's; `data` is the field selected by (version,
blinded); and a validator client that picks the Go type from the two headers alone decodes exactly
that object — no version / variant confusion, for every fork × blinded. -/
theorem proposal_response_consistent (paramsOk : Bool) (ans : Ans Proposal) (r : PropResp)
    (h : proposeBlockV3 paramsOk ans = (.ok200, some r)) :
    ∃ p f, ans = .data p ∧ paramsOk = true ∧ Fork.ofRaw p.version = some f ∧
      r.hVersion = .fork f ∧ r.bVersion = .fork f ∧
      r.hBlinded = p.blinded ∧ r.bBlinded = p.blinded ∧
      r.hExec = p.execValue ∧ r.bExec = p.execValue ∧
      r.hCons = p.consValue ∧ r.bCons = p.consValue ∧
      p.served = some r.data ∧ vcDecode r = p.served := by
  unfold proposeBlockV3 at h
  cases paramsOk with
  | false => simp at h
  | true =>
    simp only [Bool.not_true, Bool.false_eq_true, if_false] at h
    cases ans with
    | err => simp at h
    | nilResp => simp at h
    | nilData => simp at h
    | panics => simp at h
    | data p =>
      simp only at h
      cases hc : createProposeBlockResponse p with
      | none => simp [hc] at h
      | some vp =>
        obtain ⟨v, pl⟩ := vp
        simp only [hc, Prod.mk.injEq, Option.some.injEq, true_and] at h
        obtain ⟨f, hf, hv, hs, het⟩ := create_some hc
        subst h
        refine ⟨p, f, rfl, rfl, hf, ?_, hv, rfl, rfl, rfl, rfl, rfl, rfl, hs, ?_⟩
        · simp [versionString, hf]
        · simp [vcDecode, versionString, hf, het, hs]

/-- **A non-nil inconsistent answer is a 500** (`_partial`: for nil answers see `nil_answer_panics`):
version unknown or out of range, the version's field nil (whatever other fields are populated),
blinded flag set on a fork without blinded blocks, blinded flag set but only the full block populated
or the other way round. -/
theorem inconsistent_answer_is_500_partial (p : Proposal) (h : p.served = none) :
    proposeBlockV3 true (.data p) = (.ise500, none) := by
  simp [proposeBlockV3, (create_none_iff p).mpr h]

/-- and a consistent answer is always served: 200 with exactly the selected object. -/
theorem consistent_answer_is_200 (p : Proposal) (pl : Payload) (h : p.served = some pl) :
    ∃ r, proposeBlockV3 true (.data p) = (.ok200, some r) ∧ r.data = pl ∧ vcDecode r = some pl := by
  have hc := create_of_served h
  refine ⟨⟨versionString p.version, p.blinded, p.execValue, p.consValue,
    versionString p.version, p.blinded, p.execValue, p.consValue, pl⟩,
    by simp [proposeBlockV3, hc], rfl, ?_⟩
  obtain ⟨f, hf, _, _, het⟩ := create_some hc
  simp [vcDecode, versionString, hf, het]

/-- what "consistent" means, spelled out. -/
theorem served_some_iff (p : Proposal) (pl : Payload) :
    p.served = some pl ↔ ∃ f, Fork.ofRaw p.version = some f ∧
      ((p.blinded = true ∧ ∃ ty id, blindType f = some ty ∧ p.blind f = some id ∧ pl = ⟨ty, id⟩) ∨
       (p.blinded = false ∧ ∃ id, p.full f = some id ∧ pl = ⟨fullType f, id⟩)) := by
  unfold Proposal.served
  cases hf : Fork.ofRaw p.version with
  | none => simp
  | some f =>
    cases hb : p.blinded with
    | false =>
      cases hfl : p.full f with
      | none => simp [hfl]
      | some id =>
        simp [hfl]
        exact eq_comm
    | true =>
      cases hbt : blindType f with
      | none => simp [hbt]
      | some ty =>
        cases hbl : p.blind f with
        | none => simp [hbt, hbl]
        | some id =>
          simp [hbt, hbl]
          exact eq_comm

/-- the status of the endpoint is one of four, and a panic happens exactly on a nil answer (or a
Handler that panics itself). -/
theorem proposal_status_total (paramsOk : Bool) (ans : Ans Proposal) :
    ((proposeBlockV3 paramsOk ans).1 = .ok200 ∨ (proposeBlockV3 paramsOk ans).1 = .param400 ∨
     (proposeBlockV3 paramsOk ans).1 = .ise500 ∨ (proposeBlockV3 paramsOk ans).1 = .panic) ∧
    ((proposeBlockV3 paramsOk ans).1 = .panic ↔
      paramsOk = true ∧ (ans = .nilResp ∨ ans = .nilData ∨ ans = .panics)) := by
  unfold proposeBlockV3
  cases paramsOk <;> cases ans <;> simp
  rename_i p
  cases createProposeBlockResponse p <;> simp

/-- witness against the full statement: a nil response or nil data is dereferenced. -/
theorem nil_answer_panics :
    proposeBlockV3 true (.nilResp : Ans Proposal) = (.panic, none) ∧
    proposeBlockV3 true (.nilData : Ans Proposal) = (.panic, none) := ⟨rfl, rfl⟩

/-- the response depends on the answer only through its version, flag, values and the selected field:
whatever else is populated never leaks into the response. -/
theorem unselected_fields_ignored (p q : Proposal) (hv : p.version = q.version)
    (hb : p.blinded = q.blinded) (he : p.execValue = q.execValue) (hc : p.consValue = q.consValue)
    (hs : p.served = q.served) (paramsOk : Bool) :
    proposeBlockV3 paramsOk (.data p) = proposeBlockV3 paramsOk (.data q) := by
  unfold proposeBlockV3
  cases paramsOk with
  | false => rfl
  | true =>
    cases hsp : p.served with
    | none =>
      have hq : q.served = none := hs ▸ hsp
      simp [(create_none_iff p).mpr hsp, (create_none_iff q).mpr hq]
    | some pl =>
      have hq : q.served = some pl := hs ▸ hsp
      simp [create_of_served hsp, create_of_served hq, hv, hb, he, hc]

/-- witness: a Handler that leaves the values nil is answered 200 with the value headers `"<nil>"`. -/
theorem nil_value_rendered_witness :
    ∃ r, proposeBlockV3 true (.data ⟨5, false, none, none, fun _ => some 1, fun _ => none⟩) =
      (.ok200, some r) ∧ r.hExec = none ∧ r.hCons = none := ⟨_, rfl, rfl, rfl⟩

example : proposeBlockV3 true (.data ⟨7, true, some 1, some 1, fun _ => none, fun _ => some 9⟩) =
    (.ok200, some ⟨.fork .fulu, true, some 1, some 1, .fork .fulu, true, some 1, some 1, ⟨.elBlind, 9⟩⟩) := rfl
example : (⟨2, true, none, none, fun _ => some 1, fun _ => some 2⟩ : Proposal).served = none := rfl
example : (⟨9, false, none, none, fun _ => some 1, fun _ => some 2⟩ : Proposal).served = none := rfl
example : (⟨5, true, none, none, fun _ => some 1, fun _ => none⟩ : Proposal).served = none := rfl

/-! ### `Component.Proposal` behind the endpoint -/

/-- **What the Component serves is what the duty store holds for the requested slot.** Every 200: one
proposer duty definition for the slot, every subscriber was called, the store's entry for exactly the
requested slot is a consistent proposal, the client decodes exactly its selected object, the blinded
header is the stored flag (the builder boost factor decides nothing), the two values are 1. -/
theorem component_served_is_stored (e : CompEnv) (builder : Bool) (slot : Nat) (r : PropResp) (c : Nat)
    (h : serveProposal e builder true slot = (.ok200, some r, c)) :
    ∃ p, e.store slot = .prop p ∧ e.defs slot = some 1 ∧ c = e.nsub ∧
      p.served = some r.data ∧ vcDecode r = some r.data ∧ r.hBlinded = p.blinded ∧
      r.hVersion = versionString p.version ∧ r.hExec = some 1 ∧ r.hCons = some 1 := by
  unfold serveProposal componentProposal at h
  simp only [Bool.not_true, Bool.false_eq_true, if_false] at h
  cases hd : e.defs slot with
  | none => simp [hd, proposeBlockV3] at h
  | some n =>
    simp only [hd] at h
    by_cases hn : n = 1
    · subst hn
      simp only [ne_eq, not_true_eq_false, if_false] at h
      cases hsc : (subCalls e.nsub e.failAt).2 with
      | true => simp [hsc, proposeBlockV3] at h
      | false =>
        simp only [hsc, Bool.false_eq_true, if_false] at h
        have hcalls : (subCalls e.nsub e.failAt).1 = e.nsub := subCalls_all hsc
        cases hst : e.store slot with
        | err => simp [hst, proposeBlockV3] at h
        | nil => simp [hst, proposeBlockV3] at h
        | prop p =>
          simp only [hst, Prod.mk.injEq] at h
          obtain ⟨h1, h2, h3⟩ := h
          have hpr := proposal_response_consistent true _ r (Prod.ext h1 h2)
          obtain ⟨p', f, hp', _, hf, hhv, _, hhb, _, hhe, _, hhc, _, hs, hdec⟩ := hpr
          cases hp'
          refine ⟨p, rfl, rfl, ?_, ?_, ?_, hhb, ?_, hhe, hhc⟩
          · rw [← h3, hcalls]
          · simpa [Proposal.served] using hs
          · rw [hdec]; exact hs
          · rw [hhv]; unfold versionString; rw [show Fork.ofRaw p.version = some f from hf]
    · simp [hn, proposeBlockV3] at h

/-- only the requested slot's entries matter (other slots of the store and the duty definitions, and
the builder switch, never influence the answer). -/
theorem component_only_requested_slot (e e' : CompEnv) (b b' paramsOk : Bool) (slot : Nat)
    (hs : e.store slot = e'.store slot) (hd : e.defs slot = e'.defs slot) (hn : e.nsub = e'.nsub)
    (hf : e.failAt = e'.failAt) :
    serveProposal e b paramsOk slot = serveProposal e' b' paramsOk slot := by
  simp [serveProposal, componentProposal, hs, hd, hn, hf]

/-- no or several proposer duty definitions: refused before any subscriber or the store is touched. -/
theorem component_needs_single_proposer (e : CompEnv) (b : Bool) (slot : Nat)
    (h : e.defs slot ≠ some 1) : serveProposal e b true slot = (.ise500, none, 0) := by
  unfold serveProposal componentProposal
  cases hd : e.defs slot with
  | none => simp [proposeBlockV3]
  | some n =>
    have : n ≠ 1 := fun hn => h (by rw [hd, hn])
    simp [this, proposeBlockV3]

/-- witness against the full statement: a nil proposal from the duty store is dereferenced. -/
theorem component_nil_store_panics :
    serveProposal ⟨fun _ => some 1, 2, none, fun _ => .nil⟩ false true 7 = (.panic, none, 2) := rfl

example : ∃ r, serveProposal ⟨fun _ => some 1, 2, none,
      fun s => if s = 7 then .prop ⟨5, true, none, none, fun _ => none, fun _ => some 3⟩ else .err⟩ true true 7 =
    (.ok200, some r, 2) ∧ r.data = ⟨.denBlind, 3⟩ := ⟨_, rfl, rfl⟩

/-! ### aggregate attestation v2 -/

/-- **The version header, the body's version and the attestation always agree.** -/
theorem aggregate_response_consistent (paramsOk : Bool) (ans : Ans AggAtt) (r : AggResp)
    (h : aggregateAttestation paramsOk ans = (.ok200, some r)) :
    ∃ a f, ans = .data a ∧ Fork.ofRaw a.version = some f ∧ r.hVersion = .fork f ∧
      r.bVersion = .fork f ∧ a.field f = some r.data.id ∧ r.data.ty = attType f ∧
      a.served = some r.data ∧ vcDecodeAgg r = some r.data := by
  unfold aggregateAttestation at h
  cases paramsOk with
  | false => simp at h
  | true =>
    simp only [Bool.not_true, Bool.false_eq_true, if_false] at h
    cases ans with
    | err => simp at h
    | nilResp => simp at h
    | nilData => simp at h
    | panics => simp at h
    | data a =>
      simp only [createAgg_eq] at h
      cases hs : a.served with
      | none => simp [hs] at h
      | some pl =>
        simp only [hs, Option.map_some, Prod.mk.injEq, Option.some.injEq, true_and] at h
        obtain ⟨f, hf, hfl, hty⟩ := aggServed_type hs
        subst h
        refine ⟨a, f, rfl, hf, ?_, ?_, hfl, hty, hs, ?_⟩ <;> simp [versionString, hf, vcDecodeAgg, hty]

theorem aggregate_inconsistent_is_500_partial (a : AggAtt) (h : a.served = none) :
    aggregateAttestation true (.data a) = (.ise500, none) := by
  simp [aggregateAttestation, createAgg_eq, h]

theorem aggregate_consistent_is_200 (a : AggAtt) (pl : Payload) (h : a.served = some pl) :
    ∃ r, aggregateAttestation true (.data a) = (.ok200, some r) ∧ r.data = pl := by
  exact ⟨⟨versionString a.version, versionString a.version, pl⟩,
    by simp [aggregateAttestation, createAgg_eq, h], rfl⟩

/-- witness against the full statement. -/
theorem aggregate_nil_answer_panics :
    aggregateAttestation true (.nilResp : Ans AggAtt) = (.panic, none) ∧
    aggregateAttestation true (.nilData : Ans AggAtt) = (.panic, none) := ⟨rfl, rfl⟩

example : aggregateAttestation true (.data ⟨6, fun f => if f = .electra then some 4 else none⟩) =
    (.ok200, some ⟨.fork .electra, .fork .electra, ⟨.elAtt, 4⟩⟩) := rfl
example : (⟨6, fun f => if f = .deneb then some 4 else none⟩ : AggAtt).served = none := rfl

/-! ### unsigned parameters, attestation data -/

/-- **`uintQuery` / `uintParam` accept exactly the decimal strings below 2^64**: non-empty, every
character an ASCII digit (no sign, no `0x`, no `_`, no blank), value (leading zeros allowed) below 2^64. -/
theorem parseUint_spec (s : List Char) (n : Nat) :
    parseUint s = some n ↔
      s ≠ [] ∧ ∃ ds, s.map digitVal = ds.map some ∧ decValue ds = n ∧ n < 2 ^ 64 := by
  unfold parseUint
  cases s with
  | nil => simp
  | cons c cs =>
    simp only [ne_eq, reduceCtorEq, not_false_eq_true, true_and]
    cases hm : mapOpt digitVal (c :: cs) with
    | none =>
      constructor
      · intro h; simp at h
      · rintro ⟨ds, hds, _⟩
        rw [← mapOpt_some_iff, hm] at hds
        cases hds
    | some ds =>
      have hds := (mapOpt_some_iff _ _ _).mp hm
      simp only
      constructor
      · intro h
        by_cases hlt : decValue ds < 2 ^ 64
        · simp only [hlt, if_true, Option.some.injEq] at h
          exact ⟨ds, hds, h, h ▸ hlt⟩
        · simp [hlt] at h
      · rintro ⟨ds', hds', hv, hlt⟩
        have : ds' = ds := by
          have h3 : ds'.map some = ds.map some := hds'.symm.trans hds
          exact (List.map_inj_right (fun _ _ h => Option.some.inj h)).mp h3
        subst this
        subst hv
        simp [hlt]

/-- witnesses at the boundary: 2^64 - 1 is read, 2^64 is refused, so are a sign, a hex prefix, an
underscore, a blank and the empty string. -/
theorem parseUint_boundary_witness :
    parseUint ['1','8','4','4','6','7','4','4','0','7','3','7','0','9','5','5','1','6','1','5'] =
      some 18446744073709551615 ∧
    parseUint ['1','8','4','4','6','7','4','4','0','7','3','7','0','9','5','5','1','6','1','6'] = none ∧
    parseUint ['+','1'] = none ∧ parseUint ['-','1'] = none ∧ parseUint ['0','x','1'] = none ∧
    parseUint ['1','_','0'] = none ∧ parseUint [' ','1'] = none ∧ parseUint [] = none ∧
    parseUint ['0','0','7'] = some 7 := by decide

/-- **attestation data: the request reaches the Handler unchanged and its object is served.** -/
theorem attestation_data_passthrough (sq cq : Option (List Char)) (h : Nat → Nat → Ans Nat) (id : Nat)
    (seen : Option (Nat × Nat))
    (hr : attestationData sq cq h = (.ok200, some (some id), seen)) :
    ∃ slot ci, uintQuery sq = .ok slot ∧ uintQuery cq = .ok ci ∧ h slot ci = .data id ∧
      seen = some (slot, ci) := by
  unfold attestationData at hr
  cases hs : uintQuery sq with
  | error e => simp [hs] at hr
  | ok slot =>
    cases hc : uintQuery cq with
    | error e => simp [hs, hc] at hr
    | ok ci =>
      simp only [hs, hc] at hr
      cases ha : h slot ci <;> simp [ha] at hr
      obtain ⟨h1, h2⟩ := hr
      exact ⟨slot, ci, rfl, rfl, by rw [ha, h1], h2.symm⟩

/-- a missing or unreadable parameter is a 400 and the Handler is not called. -/
theorem attestation_data_bad_param (sq cq : Option (List Char)) (h : Nat → Nat → Ans Nat)
    (hb : (∀ n, uintQuery sq ≠ .ok n) ∨ (∀ n, uintQuery cq ≠ .ok n)) :
    attestationData sq cq h = (.param400, none, none) := by
  unfold attestationData
  cases hs : uintQuery sq with
  | error e =>
    have : e = .param400 := by
      unfold uintQuery at hs
      cases sq with
      | none => cases hs; rfl
      | some s => cases hp : parseUint s <;> simp [hp] at hs; exact hs.symm
    simp [this]
  | ok slot =>
    cases hc : uintQuery cq with
    | error e =>
      have : e = .param400 := by
        unfold uintQuery at hc
        cases cq with
        | none => cases hc; rfl
        | some s => cases hp : parseUint s <;> simp [hp] at hc; exact hc.symm
      simp [this]
    | ok ci =>
      rcases hb with hb | hb
      · exact absurd hs (hb slot)
      · exact absurd hc (hb ci)

/-- witness against the full statement: nil attestation data is answered 200 with `"data":null`. -/
theorem attestation_data_null_200 :
    attestationData (some ['1']) (some ['2']) (fun _ _ => .nilData) = (.ok200, some none, some (1, 2)) := by
  decide

/-! ### validator ids -/

/-- **`ids_partition`: every id list is read as public keys xor as indices xor refused, exactly as
coded** — the FIRST id alone decides the reading of all; the public keys / indices handed on are the
readings of the ids in the same order, nothing dropped, duplicates kept (`map` equalities). -/
theorem ids_partition (ids : List (List Char)) :
    (∀ ks, classifyIds ids = .pubkeys ks ↔
      ∃ first rest, ids = first :: rest ∧ has0x first = true ∧ ids.map parsePubkey = ks.map some) ∧
    (∀ is, classifyIds ids = .indices is ↔
      (ids = [] ∧ is = []) ∨
      ∃ first rest, ids = first :: rest ∧ has0x first = false ∧ ids.map parseUint = is.map some) ∧
    (classifyIds ids = .error ↔
      ∃ first rest, ids = first :: rest ∧
        ((has0x first = true ∧ ∃ id ∈ ids, parsePubkey id = none) ∨
         (has0x first = false ∧ ∃ id ∈ ids, parseUint id = none))) := by
  cases ids with
  | nil =>
    refine ⟨?_, ?_, ?_⟩
    · intro ks; simp [classifyIds]
    · intro is
      simp only [classifyIds, Ids.indices.injEq, true_and, reduceCtorEq, false_and, exists_false, or_false]
      exact eq_comm
    · simp [classifyIds]
  | cons first rest =>
    cases h0 : has0x first with
    | true =>
      cases hm : mapOpt parsePubkey (first :: rest) with
      | none =>
        have hc : classifyIds (first :: rest) = .error := by rw [classify_cons_true rest h0, hm]
        have hn := (mapOpt_none_iff _ _).mp hm
        rw [hc]
        refine ⟨?_, ?_, ?_⟩
        · intro ks
          constructor
          · intro h; cases h
          · rintro ⟨f, r, _, _, hmap⟩
            rw [← mapOpt_some_iff, hm] at hmap
            cases hmap
        · intro is
          constructor
          · intro h; cases h
          · rintro (⟨h, _⟩ | ⟨f, r, hfr, hf, _⟩)
            · cases h
            · cases hfr; rw [h0] at hf; cases hf
        · constructor
          · intro _; exact ⟨first, rest, rfl, Or.inl ⟨h0, hn⟩⟩
          · intro _; rfl
      | some ks =>
        have hc : classifyIds (first :: rest) = .pubkeys ks := by rw [classify_cons_true rest h0, hm]
        have hs := (mapOpt_some_iff _ _ _).mp hm
        rw [hc]
        refine ⟨?_, ?_, ?_⟩
        · intro ks'
          constructor
          · intro h; cases h; exact ⟨first, rest, rfl, h0, hs⟩
          · rintro ⟨f, r, _, _, hmap⟩
            rw [← mapOpt_some_iff, hm] at hmap
            cases hmap; rfl
        · intro is
          constructor
          · intro h; cases h
          · rintro (⟨h, _⟩ | ⟨f, r, hfr, hf, _⟩)
            · cases h
            · cases hfr; rw [h0] at hf; cases hf
        · constructor
          · intro h; cases h
          · rintro ⟨f, r, hfr, h⟩
            cases hfr
            rcases h with ⟨_, hex⟩ | ⟨hf, _⟩
            · rw [← mapOpt_none_iff, hm] at hex
              cases hex
            · rw [h0] at hf; cases hf
    | false =>
      cases hm : mapOpt parseUint (first :: rest) with
      | none =>
        have hc : classifyIds (first :: rest) = .error := by rw [classify_cons_false rest h0, hm]
        have hn := (mapOpt_none_iff _ _).mp hm
        rw [hc]
        refine ⟨?_, ?_, ?_⟩
        · intro ks
          constructor
          · intro h; cases h
          · rintro ⟨f, r, hfr, hf, _⟩
            cases hfr; rw [h0] at hf; cases hf
        · intro is
          constructor
          · intro h; cases h
          · rintro (⟨h, _⟩ | ⟨f, r, _, _, hmap⟩)
            · cases h
            · rw [← mapOpt_some_iff, hm] at hmap
              cases hmap
        · constructor
          · intro _; exact ⟨first, rest, rfl, Or.inr ⟨h0, hn⟩⟩
          · intro _; rfl
      | some is =>
        have hc : classifyIds (first :: rest) = .indices is := by rw [classify_cons_false rest h0, hm]
        have hs := (mapOpt_some_iff _ _ _).mp hm
        rw [hc]
        refine ⟨?_, ?_, ?_⟩
        · intro ks
          constructor
          · intro h; cases h
          · rintro ⟨f, r, hfr, hf, _⟩
            cases hfr; rw [h0] at hf; cases hf
        · intro is'
          constructor
          · intro h; cases h; exact Or.inr ⟨first, rest, rfl, h0, hs⟩
          · rintro (⟨h, _⟩ | ⟨f, r, _, _, hmap⟩)
            · cases h
            · rw [← mapOpt_some_iff, hm] at hmap
              cases hmap; rfl
        · constructor
          · intro h; cases h
          · rintro ⟨f, r, hfr, h⟩
            cases hfr
            rcases h with ⟨hf, _⟩ | ⟨_, hex⟩
            · rw [h0] at hf; cases hf
            · rw [← mapOpt_none_iff, hm] at hex
              cases hex

/-- as many keys / indices as ids: duplicates are preserved. -/
theorem ids_count_preserved (ids : List (List Char)) :
    (∀ ks, classifyIds ids = .pubkeys ks → ks.length = ids.length) ∧
    (∀ is, classifyIds ids = .indices is → is.length = ids.length) := by
  obtain ⟨hp, hi, _⟩ := ids_partition ids
  constructor
  · intro ks h
    obtain ⟨_, _, _, _, hm⟩ := (hp ks).mp h
    simpa using (congrArg List.length hm).symm
  · intro is h
    rcases (hi is).mp h with ⟨h1, h2⟩ | ⟨_, _, _, _, hm⟩
    · simp [h1, h2]
    · simpa using (congrArg List.length hm).symm

/-- a public key is read from a 98 character id whose last 96 are hex digits (either case; handed on
lower-cased, i.e. as bytes); hex without `0x` (96 characters) is not a key, and as a first id it is
read as a decimal and refused. -/
theorem parsePubkey_spec (s k : List Char) :
    parsePubkey s = some k ↔ s.length = 98 ∧ (s.drop 2).all isHex = true ∧ k = (s.drop 2).map lowerAscii := by
  unfold parsePubkey
  by_cases h : s.length = 98 ∧ (s.drop 2).all isHex = true
  · simp [h, eq_comm]
  · simp only [h, if_false, reduceCtorEq, false_iff]
    rintro ⟨h1, h2, _⟩
    exact h ⟨h1, h2⟩

/-- witnesses for the id reading as coded: a key followed by an index is refused as a whole, and so is
an index followed by a key; an empty list asks for everything; after a first `0x…` id a 98 character
id with ANY two leading characters is read as a key (`PubKey.Bytes` cuts them off unseen). -/
theorem ids_reading_witness :
    classifyIds [('0' :: 'x' :: List.replicate 96 'a'), ['1']] = .error ∧
    classifyIds [['1'], ('0' :: 'x' :: List.replicate 96 'a')] = .error ∧
    classifyIds [] = .indices [] ∧
    classifyIds [List.replicate 96 'a'] = .error ∧
    classifyIds [('0' :: 'x' :: List.replicate 96 'A'), ('z' :: 'z' :: List.replicate 96 'b')] =
      .pubkeys [List.replicate 96 'a', List.replicate 96 'b'] ∧
    classifyIds [['7'], ['7']] = .indices [7, 7] := by decide

/-- the Handler is asked for exactly the state id of the path and the reading of the ids; an
unreadable id list never reaches it. -/
theorem validators_request_passthrough (state : String) (csvs : List (List Char)) (body : BodyIds)
    (h : ValReq → Ans ValAns) (s : Status) (n : Nat) (rq : ValReq)
    (hr : getValidators state csvs body h = (s, n, some rq)) :
    rq.state = state ∧ rq.ids ≠ .error ∧
    (rq.ids = classifyIds (queryIds csvs) ∨
      (queryIds csvs = [] ∧ ((body = .empty ∧ rq.ids = .indices []) ∨ ∃ ids, body = .ok ids ∧ rq.ids = classifyIds ids))) := by
  have key : ∀ ids, getValidatorsByID state ids h = (s, n, some rq) →
      rq.state = state ∧ rq.ids ≠ .error ∧ rq.ids = classifyIds ids := by
    intro ids hv
    unfold getValidatorsByID at hv
    cases hc : classifyIds ids with
    | error => simp [hc] at hv
    | pubkeys ks =>
      simp only [hc] at hv
      cases ha : h ⟨state, .pubkeys ks⟩ with
      | data a => cases hn : a.hasNil <;> simp [ha, hn] at hv <;> (obtain ⟨_, _, h3⟩ := hv; subst h3; simp)
      | _ => simp [ha] at hv <;> (obtain ⟨_, _, h3⟩ := hv; subst h3; simp)
    | indices is =>
      simp only [hc] at hv
      cases ha : h ⟨state, .indices is⟩ with
      | data a => cases hn : a.hasNil <;> simp [ha, hn] at hv <;> (obtain ⟨_, _, h3⟩ := hv; subst h3; simp)
      | _ => simp [ha] at hv <;> (obtain ⟨_, _, h3⟩ := hv; subst h3; simp)
  unfold getValidators at hr
  simp only at hr
  by_cases hq : (queryIds csvs).isEmpty = true
  · have hq' : queryIds csvs = [] := by simpa using hq
    simp only [hq, if_true] at hr
    cases body with
    | empty =>
      obtain ⟨h1, h2, h3⟩ := key [] hr
      exact ⟨h1, h2, Or.inr ⟨hq', Or.inl ⟨rfl, by simpa [classifyIds] using h3⟩⟩⟩
    | fail => simp at hr
    | ok ids =>
      obtain ⟨h1, h2, h3⟩ := key ids hr
      exact ⟨h1, h2, Or.inr ⟨hq', Or.inr ⟨ids, rfl, h3⟩⟩⟩
  · simp only [hq] at hr
    obtain ⟨h1, h2, h3⟩ := key _ hr
    exact ⟨h1, h2, Or.inl h3⟩

/-- the body is looked at only if the query names no id. -/
theorem validators_query_wins (state : String) (csvs : List (List Char)) (b b' : BodyIds)
    (h : ValReq → Ans ValAns) (hq : queryIds csvs ≠ []) :
    getValidators state csvs b h = getValidators state csvs b' h := by
  unfold getValidators
  have : (queryIds csvs).isEmpty = false := by
    cases hh : queryIds csvs with
    | nil => exact absurd hh hq
    | cons _ _ => rfl
  simp [this]

/-- witness: query ids are split at commas and trimmed, body ids are taken as they are (a blank makes
a body id unreadable); an empty query value is an (unreadable) id, not "no id". -/
theorem query_trimmed_body_not_witness :
    queryIds [['1', ',', ' ', '2'], ['3']] = [['1'], ['2'], ['3']] ∧
    classifyIds (queryIds [[' ', '5', '\t']]) = .indices [5] ∧
    classifyIds [[' ', '5']] = .error ∧
    queryIds [[]] = [[]] ∧ classifyIds (queryIds [[]]) = .error := by decide

/-! ### duties -/

/-- **`duties_metadata_passthrough`: proposer and attester duties carry `execution_optimistic` and
`dependent_root` of the Handler's metadata unchanged**, default to (false, zero root) exactly when the
metadata map is nil, and the number of duties and the request (epoch, indices) pass through. -/
theorem duties_metadata_passthrough (k : DutyKind) (ep : List Char) (body : BodyIdx)
    (h : DutySeen → Ans DutyAns) (r : DutyResp) (seen : Option DutySeen) (hk : k ≠ .sync)
    (hr : duties k ep body h = (.ok200, some r, seen)) :
    ∃ epoch sn a, parseUint ep = some epoch ∧ seen = some sn ∧ sn.1 = epoch ∧ h sn = .data a ∧
      r.n = a.n ∧
      (if k.hasBody then ∃ is, body = .ok is ∧ sn.2 = some is else sn.2 = none) ∧
      ((a.md = .nil ∧ r.eo = false ∧ r.dr = some 0) ∨
       (∃ root, a.md = .map .tt (.root root) ∧ r.eo = true ∧ r.dr = some root) ∨
       (∃ root, a.md = .map .ff (.root root) ∧ r.eo = false ∧ r.dr = some root)) := by
  have key : ∀ sn, dutiesAnswer k sn (h sn) = (.ok200, some r, seen) →
      ∃ a, seen = some sn ∧ h sn = .data a ∧ r.n = a.n ∧
      ((a.md = .nil ∧ r.eo = false ∧ r.dr = some 0) ∨
       (∃ root, a.md = .map .tt (.root root) ∧ r.eo = true ∧ r.dr = some root) ∨
       (∃ root, a.md = .map .ff (.root root) ∧ r.eo = false ∧ r.dr = some root)) := by
    intro sn hd
    unfold dutiesAnswer at hd
    cases ha : h sn with
    | data a =>
      simp only [ha, hk, if_false] at hd
      refine ⟨a, ?_⟩
      cases hm : a.md with
      | nil =>
        simp [hm, getExecutionOptimistic, getDependentRoot] at hd
        obtain ⟨h1, h2⟩ := hd
        subst h1
        simp [h2]
      | map eo dr =>
        cases eo <;> cases dr <;> simp [hm, getExecutionOptimistic, getDependentRoot] at hd <;>
          (obtain ⟨h1, h2⟩ := hd; subst h1; simp [h2])
    | _ => simp [ha] at hd
  unfold duties at hr
  cases hp : parseUint ep with
  | none => simp [hp] at hr
  | some epoch =>
    simp only [hp] at hr
    cases hb : k.hasBody with
    | true =>
      simp only [hb, if_true] at hr
      cases body with
      | empty => simp at hr
      | fail => simp at hr
      | ok is =>
        obtain ⟨a, h1, h2, h3, h4⟩ := key _ hr
        exact ⟨epoch, _, a, rfl, h1, rfl, h2, h3, by simp, h4⟩
    | false =>
      simp only [hb, Bool.false_eq_true, if_false] at hr
      obtain ⟨a, h1, h2, h3, h4⟩ := key _ hr
      exact ⟨epoch, _, a, rfl, h1, rfl, h2, h3, by simp, h4⟩

/-- metadata that is present but lacks or mistypes one of the two members: 500, never a default. -/
theorem duties_malformed_metadata_is_500 (k : DutyKind) (sn : DutySeen) (a : DutyAns) (hk : k ≠ .sync)
    (hm : getExecutionOptimistic a.md = none ∨ getDependentRoot a.md = none) :
    dutiesAnswer k sn (.data a) = (.ise500, none, some sn) := by
  unfold dutiesAnswer
  simp only [hk, if_false]
  rcases hm with hm | hm
  · simp [hm]
  · cases getExecutionOptimistic a.md <;> simp [hm]

/-- the sync committee duties response has no `dependent_root` and its `execution_optimistic` is
always false, whatever the metadata says (as coded: the metadata is not read). -/
theorem sync_duties_ignore_metadata (sn : DutySeen) (a : DutyAns) :
    dutiesAnswer .sync sn (.data a) = (.ok200, some ⟨false, none, a.n⟩, some sn) := by
  simp [dutiesAnswer]

/-- an unreadable epoch or body is a 400 and the Handler is not called. -/
theorem duties_bad_request (k : DutyKind) (ep : List Char) (body : BodyIdx) (h : DutySeen → Ans DutyAns)
    (hb : parseUint ep = none ∨ (k.hasBody = true ∧ ∀ is, body ≠ .ok is)) :
    (duties k ep body h).2.2 = none ∧
    ((duties k ep body h).1 = .param400 ∨ (duties k ep body h).1 = .empty400 ∨
     (duties k ep body h).1 = .json400) := by
  unfold duties
  cases hp : parseUint ep with
  | none => simp
  | some epoch =>
    rcases hb with hb | ⟨hb1, hb2⟩
    · rw [hp] at hb; cases hb
    · simp only [hb1, if_true]
      cases body with
      | empty => simp
      | fail => simp
      | ok is => exact absurd rfl (hb2 is)

example : duties .attester ['5'] (.ok [1, 2]) (fun _ => .data ⟨3, .map .tt (.root 9)⟩) =
    (.ok200, some ⟨true, some 9, 3⟩, some (5, some [1, 2])) := by decide
example : duties .proposerV2 ['5'] .empty (fun _ => .data ⟨0, .nil⟩) =
    (.ok200, some ⟨false, some 0, 0⟩, some (5, none)) := by decide
example : (duties .proposerV1 ['5'] .empty (fun _ => .data ⟨1, .map .missing (.root 1)⟩)).1 = .ise500 := by decide

end CharonV.RouterGet
