/-
C11 (extension) — property theorems about the cluster-changing ceremonies (reshare, add operators,
remove operators, replace operator): model `Model/ReshareProto.lean` (who takes part under which
indices, how the new lock is put together) on top of the reshare algebra of `Props/C11.lean`
(`reshare_is_shamir`, `reshare_keeps_key`), the node-side glue of `Model/PedersenGlue.lean`
(`classify`, `compactIfRemoveOnly`, thresholds — reused, not duplicated) and the lock assembly of
`Model/DkgGlue.lean` (`updateLockValidators`).

How the parts fit. `plan` is what ONE node decides before the steps run; all participants build the
same `pedersen.Config` up to `thisPeer`, and `pedRoles` is what `RunReshareDKG` makes of it: kyber's
`OldNodes` / `NewNodes` with their indices. kyber contributes the old share of old node `I` at the
point `I+1` and evaluates the new polynomial for new node `J` at `J+1` (`pointOf`). The theorems
`*_points` say, per ceremony kind and for every cluster size, that the point of every old share is
the operator's position in the OLD lock + 1 (so the dealers' Lagrange weights are the right ones: the
hypotheses `hg0` of `reshare_is_shamir` with `O` = the old points) and that the point of every new
share is the operator's position in the NEW lock + 1, while the filing key of its public share
(`config.PeerMap[peer].ShareIdx`) is strictly increasing in that position — which is what
`DkgGlue.protocol_lock_pubshares_in_new_share_order` needs to put `PubShares[k]` at position `k`.
`new_lock_shares_consistent` / `reshare_keeps_validator_keys` then conclude with the algebra.
-/
import CharonV.Proofs.ReshareProto
import CharonV.Proofs.DkgGlue
import CharonV.Props.C11

namespace CharonV.ReshareProto

open CharonV.PedersenGlue

/-! ### Part A — who is where (core model) -/

/-- **Operator order and indices, as coded.** (1) `buildPeerMap`: the peer at position `k` of the
participant list has `PeerIdx = k`, `ShareIdx = k+1`. (2) replace-operator: the participant list and
the new lock's operator list are the old operator list with the new operator AT the (first) position
of the replaced one — every other operator keeps its position, the length is kept. (3) add-operators:
participants and new operator list are `old ++ new` — old operators keep their positions, new ones are
appended in the order given. (4) remove-operators: the new operator list is the old one without the
removed operators, order kept (a sublist: positions compact), whoever takes part. -/
theorem operator_order_and_indices (l : Lock) :
    (∀ peers : List Nat, peers.Nodup → ∀ k p, peers[k]? = some p →
      idxOfPeer (buildPeerMap peers) p = ⟨k, k + 1⟩) ∧
    (∀ old new this pl, plan (.replace old new) l this = .ok pl →
      pl.operators = pl.peers ∧ pl.peers.length = l.ops.length ∧
      ∃ i, l.ops[i]? = some old ∧ pl.peers = l.ops.set i new ∧ (∀ j, j < i → l.ops[j]? ≠ some old)) ∧
    (∀ new this pl, plan (.add new) l this = .ok pl →
      pl.operators = l.ops ++ new ∧ pl.peers = l.ops ++ new) ∧
    (∀ removing part newT this pl, plan (.remove removing part newT) l this = .ok pl →
      pl.operators = l.ops.filter (fun o => !removing.contains o) ∧ pl.operators.Sublist l.ops ∧
      ∀ o, o ∈ pl.operators ↔ o ∈ l.ops ∧ o ∉ removing) := by
  refine ⟨?_, ?_, ?_, ?_⟩
  · intro peers hnd k p hk
    unfold idxOfPeer buildPeerMap
    rw [lookup_peerMapFrom peers hnd 0 k p hk]
    simp
  · intro old new this pl h
    obtain ⟨peers, hg, _, _, hpi⟩ := plan_ok _ _ _ _ h
    have hs := getPeers_replace_spec l old new peers hg
    simp only [postInit, Except.ok.injEq] at hpi
    subst hpi
    exact ⟨rfl, hs.1, hs.2⟩
  · intro new this pl h
    obtain ⟨peers, hg, _, _, hpi⟩ := plan_ok _ _ _ _ h
    simp only [getPeers, Except.ok.injEq] at hg
    simp only [postInit, Except.ok.injEq] at hpi
    subst hpi hg
    exact ⟨rfl, rfl⟩
  · intro removing part newT this pl h
    obtain ⟨peers, _, _, _, hpi⟩ := plan_ok _ _ _ _ h
    simp only [postInit] at hpi
    split at hpi
    · cases hpi
    · simp only [Except.ok.injEq] at hpi
      subst hpi
      refine ⟨rfl, List.filter_sublist, ?_⟩
      intro o
      simp [List.mem_filter]

/-- **Remove-only compaction.** Whatever the original indices of the nodes that stay (gaps where
operators were removed), after `compactIfRemoveOnly` the `k`-th staying node — same identity, same
order — has kyber index `k`: its new share is the new polynomial's value at `k+1`. -/
theorem remove_compacts_new_points (rs : Reshare) (h : rs.removed.length > 0 ∧ rs.added.length = 0)
    (stay : List Node) (hnd : (stay.map (·.pub)).Nodup) (k : Nat) (n : Node) (hk : stay[k]? = some n) :
    (compactIfRemoveOnly rs stay).map (·.pub) = stay.map (·.pub) ∧
    pointOf (compactIfRemoveOnly rs stay) n.pub = some (k + 1) := by
  refine ⟨compact_pubs rs stay, ?_⟩
  have hget := compact_getElem? rs h stay
  -- the compacted list is `nodesFrom`-like: find the first node with this identity
  unfold pointOf
  have hlen := compact_length rs stay
  have hfind : (compactIfRemoveOnly rs stay).find? (fun m => m.pub == n.pub) = some { n with index := k } := by
    rw [List.find?_eq_some_iff_getElem]
    refine ⟨by simp, k, ?_, ?_, ?_⟩
    · rw [hlen]; exact (List.getElem?_eq_some_iff.mp hk).1
    · have := hget k n hk
      rw [List.getElem?_eq_some_iff] at this
      exact this.2
    · intro j hj
      have hjl : j < stay.length := by
        have := (List.getElem?_eq_some_iff.mp hk).1; omega
      have hj' : stay[j]? = some stay[j] := List.getElem?_eq_getElem hjl
      have hcj := hget j stay[j] hj'
      rw [List.getElem?_eq_some_iff] at hcj
      obtain ⟨hjc, hcj⟩ := hcj
      rw [hcj]
      have hne : stay[j].pub ≠ n.pub := by
        intro heq
        -- two positions with the same identity contradict Nodup
        have h1 : (stay.map (·.pub))[j]? = some n.pub := by simp [hj', heq]
        have h2 : (stay.map (·.pub))[k]? = some n.pub := by simp [hk]
        have := (List.getElem?_inj (by simpa using hjl) hnd).1 (h1.trans h2.symm)
        omega
      simp [hne]
  rw [hfind]
  rfl

/-- **Reshare / add / replace: every share sits at (position + 1).** In these three ceremonies the
pedersen peer map is `buildPeerMap` of the participant list (`plan_cfg_shape`) and no compaction
happens. Then for the participant `p` at position `k` (distinct participants): if it is not being
removed its NEW share is the new polynomial's value at `k+1` and its public share is filed under key
`k+1`; if it is not newly added it contributes its OLD share at `k+1`. For the reshare and
add-operators ceremonies position `k` is the operator's position in the old lock for old operators
and in the new lock for all; for replace-operator the newcomer sits at the replaced position
(`operator_order_and_indices`). -/
theorem positions_are_points (c : Cfg) (peers : List Nat) (hnd : peers.Nodup)
    (hc : c.peerMap = buildPeerMap peers) (rs : Reshare) (hrs : c.reshare = some rs)
    (hnc : ¬ (rs.removed.length > 0 ∧ rs.added.length = 0)) (r : Roles) (hr : pedRoles c = .ok r)
    (k p : Nat) (hk : peers[k]? = some p) :
    (c.nodeIdx p).shareIdx = k + 1 ∧
    (p ∉ rs.removed → pointOf r.newNodes p = some (k + 1)) ∧
    (p ∉ rs.added → pointOf r.oldNodes p = some (k + 1)) := by
  obtain ⟨rs', hrs', ho, hn, _⟩ := pedRoles_ok _ _ hr
  rw [hrs] at hrs'
  cases hrs'
  have hcl := classify_peerMapFrom c peers hnd hc rs
  rw [hcl] at ho hn
  rw [compact_noop _ hnc] at hn
  have hpt := pointOf_nodesFrom peers hnd 0 k p hk
  refine ⟨?_, ?_, ?_⟩
  · simp only [Cfg.nodeIdx, hc, buildPeerMap]
    rw [lookup_peerMapFrom peers hnd 0 k p hk]
    simp
  · intro hp
    rw [hn, pointOf_filter_pub _ (fun q => !rs.removed.contains q) p (by simpa using hp)]
    simpa using hpt
  · intro hp
    rw [ho, pointOf_filter_pub _ (fun q => !rs.added.contains q) p (by simpa using hp)]
    simpa using hpt

/-- the pedersen configuration the reshare, add-operators and replace-operator protocols build. -/
theorem plan_cfg_shape (l : Lock) (this : Nat) (pl : Plan) :
    (plan .reshare l this = .ok pl →
      pl.peers = l.ops ∧ pl.cfg.peerMap = buildPeerMap pl.peers ∧
      pl.cfg.reshare = some ⟨l.numVals, l.threshold, [], []⟩ ∧ pl.cfg.threshold = l.threshold) ∧
    (∀ new, plan (.add new) l this = .ok pl →
      pl.peers = l.ops ++ new ∧ pl.cfg.peerMap = buildPeerMap pl.peers ∧
      pl.cfg.reshare = some ⟨l.numVals, l.threshold, new, []⟩ ∧ pl.cfg.threshold = l.threshold) ∧
    (∀ old new, plan (.replace old new) l this = .ok pl →
      pl.cfg.peerMap = buildPeerMap pl.peers ∧ pl.cfg.threshold = l.threshold ∧
      ∃ rs, pl.cfg.reshare = some rs ∧ rs.total = l.numVals ∧ rs.newThreshold = l.threshold ∧
        rs.added.length = 1 ∧ rs.removed.length = 1) := by
  refine ⟨?_, ?_, ?_⟩
  · intro h
    obtain ⟨peers, hg, _, _, hpi⟩ := plan_ok _ _ _ _ h
    simp only [getPeers, Except.ok.injEq] at hg
    simp only [postInit, Except.ok.injEq] at hpi
    subst hpi hg
    exact ⟨rfl, rfl, rfl, rfl⟩
  · intro new h
    obtain ⟨peers, hg, _, _, hpi⟩ := plan_ok _ _ _ _ h
    simp only [getPeers, Except.ok.injEq] at hg
    simp only [postInit, Except.ok.injEq] at hpi
    subst hpi hg
    exact ⟨rfl, rfl, by simp [mkCfg], rfl⟩
  · intro old new h
    obtain ⟨peers, _, _, _, hpi⟩ := plan_ok _ _ _ _ h
    simp only [postInit, Except.ok.injEq] at hpi
    subst hpi
    exact ⟨rfl, rfl, _, rfl, rfl, rfl, rfl, rfl⟩

/-- **Thresholds, as coded.** (1) reshare, add-operators and replace-operator hand the lock's
threshold to the reshare (`NewThreshold`) and keep it in the new lock. (2) remove-operators: an
explicit `--new-threshold` is accepted only with `ceil(2·newN/3) <= t' < newN`, and without one the
threshold is `ceil(2·newN/3)`, where `newN = len(lock.Operators) - len(RemovingENRs)` — the LENGTH OF
THE LIST GIVEN, not the number of operators that actually leave. (3) When every listed ENR is a
distinct operator of the lock, `newN` is the size of the new cluster, the threshold handed to the
reshare is positive and the new lock records exactly that threshold. -/
theorem thresholds_as_coded (l : Lock) (this : Nat) (pl : Plan) :
    (∀ k, (k = .reshare ∨ (∃ new, k = .add new) ∨ (∃ o n, k = .replace o n)) → plan k l this = .ok pl →
      newLockThreshold l pl = l.threshold ∧
      ∃ rs, pl.cfg.reshare = some rs ∧ rs.newThreshold = l.threshold) ∧
    (∀ removing part newT, plan (.remove removing part newT) l this = .ok pl →
      let newN : Int := (l.ops.length : Int) - removing.length
      ∃ rs, pl.cfg.reshare = some rs ∧ rs.newThreshold = pl.threshold ∧
        (newT ≠ 0 → pl.threshold = newT ∧ thresholdInt newN ≤ newT ∧ newT < newN) ∧
        (newT = 0 → pl.threshold = thresholdInt newN) ∧
        (0 < pl.threshold → (newLockThreshold l pl : Int) = pl.threshold) ∧
        (pl.threshold ≤ 0 → newLockThreshold l pl = l.threshold)) := by
  have hposl : ∀ q : Plan, 0 < q.threshold → ((newLockThreshold l q : Nat) : Int) = q.threshold := by
    intro q hq
    simp only [newLockThreshold, hq, if_true]
    exact Int.toNat_of_nonneg (Int.le_of_lt hq)
  have hnonl : ∀ q : Plan, q.threshold ≤ 0 → newLockThreshold l q = l.threshold := by
    intro q hq
    simp only [newLockThreshold]
    rw [if_neg (by omega)]
  refine ⟨?_, ?_⟩
  · intro k hk h
    obtain ⟨peers, _, _, _, hpi⟩ := plan_ok _ _ _ _ h
    rcases hk with rfl | ⟨new, rfl⟩ | ⟨o, n, rfl⟩
    · simp only [postInit, Except.ok.injEq] at hpi
      subst hpi
      exact ⟨hnonl _ (by simp), _, rfl, rfl⟩
    · simp only [postInit, Except.ok.injEq] at hpi
      subst hpi
      refine ⟨?_, _, rfl, rfl⟩
      by_cases ht : (0 : Int) < l.threshold
      · have := hposl ⟨peers, buildPeerMap peers, idxOfPeer (buildPeerMap peers) this, true,
          mkCfg this (buildPeerMap peers) l l.threshold (peers.drop l.ops.length) [], fullSteps, l.ops ++ new,
          l.threshold⟩ ht
        have h2 : ((newLockThreshold l _ : Nat) : Int) = (l.threshold : Int) := this
        exact_mod_cast h2
      · exact hnonl _ (by simpa using ht)
    · simp only [postInit, Except.ok.injEq] at hpi
      subst hpi
      refine ⟨?_, _, rfl, rfl⟩
      by_cases ht : (0 : Int) < l.threshold
      · have := hposl ⟨peers, buildPeerMap peers, idxOfPeer (buildPeerMap peers) this, true,
          mkCfg this (buildPeerMap peers) l l.threshold [peers.getD ((l.ops.idxOf? o).getD 0) 0]
            [l.ops.getD ((l.ops.idxOf? o).getD 0) 0], fullSteps, peers, l.threshold⟩ ht
        have h2 : ((newLockThreshold l _ : Nat) : Int) = (l.threshold : Int) := this
        exact_mod_cast h2
      · exact hnonl _ (by simpa using ht)
  · intro removing part newT h
    obtain ⟨peers, _, _, _, hpi⟩ := plan_ok _ _ _ _ h
    simp only [postInit] at hpi
    split at hpi
    · cases hpi
    · rename_i hcond
      simp only [Except.ok.injEq] at hpi
      have hp1 := hposl pl
      have hp2 := hnonl pl
      subst hpi
      refine ⟨_, rfl, rfl, ?_, ?_, hp1, hp2⟩
      · intro hne
        simp only [hne, ne_eq, not_false_eq_true, if_true]
        simp only [ne_eq, hne, not_false_eq_true, true_and, not_or, Int.not_le, Int.not_lt] at hcond
        exact ⟨trivial, hcond.2, hcond.1⟩
      · intro h0
        simp [h0]

/-- (3) of `thresholds_as_coded`: with `RemovingENRs` a duplicate-free list of lock operators the
arithmetic is about the real new cluster. -/
theorem remove_threshold_of_real_operators (l : Lock) (removing : List Nat) (hnd : removing.Nodup)
    (hsub : ∀ o ∈ removing, o ∈ l.ops) (hops : l.ops.Nodup) :
    ((l.ops.length : Int) - removing.length) = ((l.ops.filter fun o => !removing.contains o).length : Int) := by
  have hperm : (l.ops.filter fun o => removing.contains o).Perm removing := by
    refine (List.perm_ext_iff_of_nodup (hops.filter _) hnd).2 fun a => ?_
    simp only [List.mem_filter, List.contains_iff_mem]
    exact ⟨fun h => h.2, fun h => ⟨hsub a h, h⟩⟩
  have hlen := List.length_eq_length_filter_add (l := l.ops) (fun o => removing.contains o)
  rw [hperm.length_eq] at hlen
  omega

/-! #### the remove-operators threshold follows the LENGTH of the removing list (as coded)

Full statement one would want (NOT true of the code): "the new lock's threshold is the degree bound
of the new sharing polynomial and is at least `ceil(2n'/3)` for the `n'` operators of the new lock".
It holds when every removing ENR is a distinct lock operator (`thresholds_as_coded`,
`remove_threshold_of_real_operators`). Witness of the failure: 4 operators, threshold 3, removing list
`[op0, x, y, z]` with three ENRs that are not in the lock (accepted by `cmd/edit_removeoperators.go`,
which only checks that SOME listed ENR is an operator), all four operators taking part: `newN = 0`,
threshold handed on `= 0`; the reshare then falls back to `ceil(2·3/3) = 2` while
`updateLockProtocolStep` keeps the lock's 3: the new lock says 3-of-3, the shares are 2-of-3. -/
example :
    let l : Lock := ⟨[0, 1, 2, 3], 3, 1⟩
    let k : Kind := .remove [0, 100, 101, 102] [0, 1, 2, 3] 0
    (match plan k l 1 with
     | .ok pl => (match pedRoles pl.cfg with
        | .ok r => some (newOperators l pl, newLockThreshold l pl, r.newT)
        | .error _ => none)
     | .error _ => none) = some ([1, 2, 3], 3, 2) := by decide

/-- non-vacuity of `operator_order_and_indices` / `positions_are_points`: replace operator 2 of
`[0,1,2,3]` by 9 — the newcomer takes position 2 (point 3), is not an old node, everyone else keeps
position and point. -/
example :
    let l : Lock := ⟨[0, 1, 2, 3], 3, 2⟩
    (match plan (.replace 2 9) l 9 with
     | .ok pl => (match pedRoles pl.cfg with
        | .ok r => some (pl.peers, pl.thisIdx, [0, 1, 9, 3].map (pointOf r.newNodes), [0, 1, 9, 3].map (pointOf r.oldNodes), r.newT)
        | .error _ => none)
     | .error _ => none) =
    some ([0, 1, 9, 3], ⟨2, 3⟩, [some 1, some 2, some 3, some 4], [some 1, some 2, none, some 4], 3) := by decide

/-- non-vacuity of `remove_compacts_new_points` and `thresholds_as_coded`: 7 operators, threshold 5,
operators 0, 3, 4 removed, 0 still taking part (as `TestRemoveOperatorsProtocol_MoreThanF`): old
shares at the ORIGINAL points 1,2,3,6,7, new shares at the compact points 1..4, filed under the original
share indices 2,3,6,7 (ascending = new lock order), new threshold `ceil(8/3) = 3`. -/
example :
    let l : Lock := ⟨[0, 1, 2, 3, 4, 5, 6], 5, 1⟩
    let k : Kind := .remove [0, 3, 4] [0, 1, 2, 5, 6] 0
    (match plan k l 5 with
     | .ok pl => (match pedRoles pl.cfg with
        | .ok r => some (newOperators l pl, newLockThreshold l pl, r.newT, pl.thisIdx)
        | .error _ => none)
     | .error _ => none) = some ([1, 2, 5, 6], 3, 3, ⟨2, 6⟩) := by decide

example :
    let l : Lock := ⟨[0, 1, 2, 3, 4, 5, 6], 5, 1⟩
    let k : Kind := .remove [0, 3, 4] [0, 1, 2, 5, 6] 0
    (match plan k l 5 with
     | .ok pl => (match pedRoles pl.cfg with
        | .ok r => some ([0, 1, 2, 5, 6].map (pointOf r.oldNodes), [0, 1, 2, 5, 6].map (pointOf r.newNodes),
            filedOrder pl.cfg r.newNodes)
        | .error _ => none)
     | .error _ => none) =
    some ([some 1, some 2, some 3, some 6, some 7], [none, some 1, some 2, some 3, some 4], [1, 2, 5, 6]) := by
  decide

/-- non-vacuity of `plan_cfg_shape` (add): operators 4, 5 appended; they are not old nodes. -/
example :
    let l : Lock := ⟨[0, 1, 2, 3], 3, 1⟩
    (match plan (.add [4, 5]) l 4 with
     | .ok pl => (match pedRoles pl.cfg with
        | .ok r => some (newOperators l pl, newLockThreshold l pl, r.newT, (r.oldNodes.map (·.pub)), (r.newNodes.map (·.index)))
        | .error _ => none)
     | .error _ => none) = some ([0, 1, 2, 3, 4, 5], 3, 3, [0, 1, 2, 3], [0, 1, 2, 3, 4, 5]) := by decide

end CharonV.ReshareProto

/-! ### Part B — what the new lock's shares are (algebra of `Props/C11.lean`) -/

namespace CharonV.ReshareProto

open Polynomial Finset CharonV.Tbls CharonV.Frost

variable {F : Type*} [Field F]
variable {G1 G2 Msg : Type*} [AddCommGroup G1] [Module F G1] [AddCommGroup G2] [Module F G2]

/-- **The new lock's public shares are consistent.** Setting: `p` (degree `< t`) is a validator's
current sharing polynomial, `O` the set of points of the old nodes that deal (by `positions_are_points`
/ `remove_compacts_new_points`: old lock position + 1; `pedRoles_ok`: at least `t` of them whenever
somebody is removed, all `n >= t` otherwise), every old node deals a sub-sharing `g i` of ITS share of
degree `< t'`, and the operator at position `k` of the NEW lock receives kyber's combination at the
point `k+1` (same theorems). Then the list of public shares the new lock holds for the validator,
`PubShares[k] = pk(new secret share of the operator at new position k)`, is position by position the
new polynomial `resharePoly O g` in the exponent at `k+1`; that polynomial has degree `< t'`; and ANY
`t'` of the new operators — share indices `1..n'` — reconstruct the UNCHANGED group key from the public
shares, recover the unchanged secret, and their partial signatures combine into a signature valid under
the old group key. For every `n`, `t`, `n'`, `t'`, every set of dealers. -/
theorem new_lock_shares_consistent (t t' n' : ℕ) (p : F[X]) (hp : p.degree < t)
    (O : Finset ℕ) (hO : t ≤ O.card) (hinj : IdsDistinct F O)
    (g : ℕ → F[X]) (hg : ∀ i ∈ O, (g i).degree < t') (hg0 : ∀ i ∈ O, (g i).eval 0 = share p i)
    (g1 : G1) (Hm : Msg → G2) (m : Msg) :
    (∀ k, k < n' → ((List.range n').map fun k => pk g1 (reshareShare O g (k + 1)))[k]? =
        some (pk g1 (share (resharePoly O g) (k + 1)))) ∧
    (resharePoly O g).degree < t' ∧
    ∀ S : Finset ℕ, (∀ j ∈ S, 1 ≤ j ∧ j ≤ n') → t' ≤ S.card → IdsDistinct F S →
      recoverG F S (fun j => pk g1 (reshareShare O g j)) = pk g1 (p.eval 0) ∧
      recover S (reshareShare O g) = p.eval 0 ∧
      Verifies F g1 Hm (pk g1 (p.eval 0)) m (recoverG F S (fun j => sign Hm (reshareShare O g j) m)) := by
  obtain ⟨hd, hs, _⟩ := reshare_is_shamir t t' p hp O hO hinj g hg hg0
  refine ⟨?_, hd, ?_⟩
  · intro k hk
    simp [List.getElem?_map, List.getElem?_range hk, hs]
  · intro S _ hS hinjS
    obtain ⟨h1, h2, h3⟩ := reshare_keeps_key t t' p hp O hO hinj g hg hg0 g1 Hm m S hS hinjS
    exact ⟨h2, h1, h3⟩

/-- **A cluster-changing ceremony keeps every validator's group public key.** Two halves. Lock side
(`updateLockProtocolStep`, model `DkgGlue.updateLockValidators`): the new lock lists, validator by
validator in the same order, the group public keys of the old lock — whatever the reshare produced.
Key side: the secret the new shares share IS the old one — for the sharing polynomial `p v` of every
validator `v`, the new polynomial's value at 0 is `p v (0)`, so the key the new shares belong to is the
old lock's `pk(p v (0))`. -/
theorem reshare_keeps_validator_keys {PK SK Sig V : Type}
    (oldVals new : List (DkgGlue.DistValidator PK Sig)) (shares : List (DkgGlue.Share PK SK))
    (h : DkgGlue.updateLockValidators oldVals shares = some new)
    (t t' : ℕ) (p : V → F[X]) (hp : ∀ v, (p v).degree < t)
    (O : Finset ℕ) (hO : t ≤ O.card) (hinj : IdsDistinct F O)
    (g : V → ℕ → F[X]) (hg : ∀ v, ∀ i ∈ O, (g v i).degree < t')
    (hg0 : ∀ v, ∀ i ∈ O, (g v i).eval 0 = share (p v) i) (g1 : G1) :
    (new.map (·.pubKey) = oldVals.map (·.pubKey) ∧ new.length = oldVals.length) ∧
    ∀ v, pk g1 ((resharePoly O (g v)).eval 0) = pk g1 ((p v).eval 0) := by
  obtain ⟨h1, _, _, h4⟩ := DkgGlue.updateLockValidators_keeps oldVals shares new h
  refine ⟨⟨h1, h4⟩, fun v => ?_⟩
  rw [(reshare_is_shamir t t' (p v) (hp v) O hO hinj (g v) (hg v) (hg0 v)).2.2]

/-- **What a leaving operator still holds — exactly.** Let `q` (degree `< t'`) be the new sharing
polynomial, `S` any `>= t'` share indices of the new cluster and `i ∈ S`. Put a value `sOld` — a
removed / replaced operator's OLD share, or anything else — in the place of the new share of index
`i`: the recovery yields the secret if and only if `sOld` happens to be the new polynomial's value at
`i`. Nothing in the code makes an old share `p(x)` equal `q(i)`: `q - p` vanishes at 0 and is otherwise
determined by the dealers' fresh randomness, so for a random reshare this is an event of probability
`1/r` (not a theorem — a statement about kyber's randomness). What the code does NOT achieve, and
cannot: the OLD shares remain a valid `t`-of-`n` sharing of the same secret (`old_shares_still_valid`):
`t` old operators, leaving or not, who keep their old shares still hold the key. -/
theorem leaving_nodes_hold_nothing_valid (t' : ℕ) (q : F[X]) (hq : q.degree < t') (S : Finset ℕ)
    (hS : t' ≤ S.card) (hinj : IdsDistinct F S) (hnz : IdsNonzero F S) (i : ℕ) (hi : i ∈ S) (sOld : F) :
    recover S (fun j => if j = i then sOld else share q j) = q.eval 0 ↔ sOld = share q i := by
  have hsplit : recover S (fun j => if j = i then sOld else share q j) =
      recover S (share q) + lam S i * (sOld - share q i) := by
    unfold recover
    rw [← Finset.add_sum_erase S _ hi, ← Finset.add_sum_erase S (fun j => lam S j * share q j) hi]
    have : ∑ x ∈ S.erase i, lam S x * (if x = i then sOld else share q x) =
        ∑ x ∈ S.erase i, (lam S x : F) * share q x :=
      Finset.sum_congr rfl fun x hx => by rw [if_neg (Finset.ne_of_mem_erase hx)]
    rw [this]
    simp only [if_true]
    ring
  rw [hsplit, recover_secret t' q hq S hS hinj]
  constructor
  · intro h
    have h0 : lam S i * (sOld - share q i) = 0 := by
      have := congrArg (fun x => x - q.eval 0) h
      simpa using this
    rcases mul_eq_zero.mp h0 with h1 | h1
    · exact absurd h1 (lam_ne_zero S hinj hnz hi)
    · exact sub_eq_zero.mp h1
  · intro h
    rw [h]; simp

/-- the reshare does not revoke the old sharing: any `t` old shares still recover the (unchanged)
secret — the limit of what `leaving_nodes_hold_nothing_valid` can promise. -/
theorem old_shares_still_valid (t t' : ℕ) (p : F[X]) (hp : p.degree < t) (O : Finset ℕ) (hO : t ≤ O.card)
    (hinj : IdsDistinct F O) (g : ℕ → F[X]) (hg : ∀ i ∈ O, (g i).degree < t')
    (hg0 : ∀ i ∈ O, (g i).eval 0 = share p i) (S : Finset ℕ) (hS : t ≤ S.card) (hinjS : IdsDistinct F S) :
    recover S (share p) = (resharePoly O g).eval 0 := by
  rw [(reshare_is_shamir t t' p hp O hO hinj g hg hg0).2.2]
  exact recover_secret t p hp S hS hinjS

/-- non-vacuity of the algebra theorems: their hypotheses are those of `reshare_is_shamir`, which
`Props/C11.lean` instantiates (the 2-of-n sharing `3 + 2X` over ℚ reshared by old nodes {1, 2}); here
the constant sharing `3` (threshold 1) over ℚ with the single share index 1: the value 3 recovers the
secret, the value 4 does not. -/
example : recover ({1} : Finset ℕ) (fun j => if j = 1 then (4 : ℚ) else share (C 3) j) ≠ (C (3 : ℚ)).eval 0 := by
  intro h
  have := (leaving_nodes_hold_nothing_valid 1 (C (3 : ℚ)) (by rw [degree_C (by norm_num)]; norm_num)
    {1} (by simp) (idsDistinct_of_charZero _) (fun k hk => by
      simp only [Finset.mem_singleton] at hk; subst hk; simp [idF]) 1 (by simp) 4).1 h
  simp [share] at this

end CharonV.ReshareProto
