/-
C20 — Duties served through the duties cache equal what the beacon node itself answers; after a
reorg invalidation or trimming the affected epochs are fetched afresh; callers receive private
copies.

Property theorems only (helper lemmas and the invariants are in `CharonV.Proofs.DutiesCache`).
All theorems quantify over an arbitrary beacon node `bn : version → kind → epoch → List Duty`
(any assignment: validators with no, one or several duties), an arbitrary metadata function, every
duty kind, every epoch, every index list (overlapping, disjoint, repeated) and every reachable
state, i.e. every finite sequence of complete calls (`get`), interleaved two-phase calls
(`begin`/`finish`, any number in flight, any completion order), `reorg` (InvalidateCache), `trim`
and `setActive` operations.

The code as it is (`Cfg.asIs`) violates the property in three ways (known finding D-8 and one more):

* FULL STATEMENT (does not hold for `Cfg.asIs`): *for every op sequence from the initial state,
  every answer is a permutation of the node's answer for the request.* Counterexamples
  `dup_on_amend_witness` (a partially missed request that repeats an index stores that validator's
  duties twice) and `inflight_invalidate_witness` (a response fetched before `InvalidateCache` is
  stored after it and served as current). What is proved for the code as it is:
  `answer_equals_bn_partial` etc. under the side conditions `OpOk` (requests on the store path list
  an index once; no response is stored across an invalidation of its epoch). With the proposed
  fixes (`Cfg.dedupAmend`, `Cfg.guardInflight`) the side conditions are vacuous:
  `reach_all_fixed` proves reachability for *every* op sequence, so the same theorems are the full
  statement for the fixed variant.
* FULL STATEMENT (does not hold for `Cfg.asIs`): *no object returned to a caller is held by the
  cache or was returned to another caller.* Counterexamples `shared_metadata_witness`,
  `shared_slice_witness`; proved for the variant with `cloneMeta`/`cloneSlices`:
  `answers_private_fixed`.
-/
import CharonV.Proofs.DutiesCache

namespace CharonV.DutiesCache

variable (cfg : Cfg) (bn : Nat → Nat → Epoch → List Duty) (bnMeta : Nat → Nat → Epoch → Nat)

/-- **Answer = beacon node's answer (complete call).** In every reachable state a complete call
for kind `k`, epoch `e` and indices `idxs` returns, as a multiset, exactly the duties the node
answers for that request (and the node's metadata) — whatever was asked before. -/
theorem answer_equals_bn_partial {s : State} (h : Reach cfg bn bnMeta s) {k : Nat} {e : Epoch}
    {idxs : List VIdx} (hok : OpOk cfg s (.get k e idxs))
    {s' : State} {ds : List DObj} {md mo : Nat} {call : Option (List VIdx)}
    (hstep : step cfg bn bnMeta s (.get k e idxs) = (s', .ans ds md mo call)) :
    (cont ds).Perm (bnAnswer bn (verOf s.reorgs e) k e (effReq s idxs)) ∧
      md = bnMeta (verOf s.reorgs e) k e :=
  get_answer cfg bn bnMeta (reach_inv cfg bn bnMeta h) hok hstep

/-- **Concurrent callers, served from the cache.** A call that returns without asking the node
(while any number of other calls are in flight) returns the node's answer. -/
theorem begin_hit_equals_bn {s : State} (h : Reach cfg bn bnMeta s) {id k : Nat} {e : Epoch}
    {idxs : List VIdx} {s' : State} {ds : List DObj} {md mo : Nat} {call : Option (List VIdx)}
    (hstep : step cfg bn bnMeta s (.begin id k e idxs) = (s', .ans ds md mo call)) :
    (cont ds).Perm (bnAnswer bn (verOf s.reorgs e) k e (effReq s idxs)) ∧
      md = bnMeta (verOf s.reorgs e) k e ∧ call = none :=
  begin_hit_answer cfg bn bnMeta (reach_inv cfg bn bnMeta h) hstep

/-- A call that asks the node is parked with its request, its kind and epoch, and the version of
the node's answer at that moment (its linearisation point). -/
theorem begin_records {s s' : State} {id k : Nat} {e : Epoch} {idxs c : List VIdx}
    (hstep : step cfg bn bnMeta s (.begin id k e idxs) = (s', .pend c)) :
    ∃ p, s'.pending = p :: s.pending ∧ p.id = id ∧ p.kind = k ∧ p.epoch = e ∧
      p.reqV = effReq s idxs ∧ p.ver = verOf s.reorgs e ∧ p.req = c := by
  obtain ⟨p, h1, h2, h3, h4, h5, h6, h7, _⟩ := begin_pend_head cfg bn bnMeta hstep
  exact ⟨p, h1, h2, h3, h4, h5, h6, h7⟩

/-- **Concurrent callers, two-phase calls (linearisability).** When a call in flight completes —
after any interleaving of other callers' lookups and stores, trims and invalidations — it returns
the node's answer for its request as of the moment it was begun. -/
theorem finish_equals_bn {s : State} (h : Reach cfg bn bnMeta s) {id : Nat}
    {s' : State} {ds : List DObj} {md mo : Nat} {call : Option (List VIdx)}
    (hstep : step cfg bn bnMeta s (.finish id) = (s', .ans ds md mo call)) :
    ∃ p ∈ s.pending, p.id = id ∧
      (cont ds).Perm (bnAnswer bn p.ver p.kind p.epoch p.reqV) ∧
      md = bnMeta p.ver p.kind p.epoch ∧ call = some p.req :=
  finish_answer cfg bn bnMeta (reach_inv cfg bn bnMeta h) hstep

/-- The side conditions of `Reach` for the code as it is, as a predicate on op sequences. -/
def OkRun : State → List Op → Prop
  | _, [] => True
  | s, o :: os => OpOk cfg s o ∧ OkRun (step cfg bn bnMeta s o).1 os

/-- every op sequence satisfying the side conditions stays within `Reach`. -/
theorem reach_run_partial {s : State} (h : Reach cfg bn bnMeta s) (ops : List Op)
    (hok : OkRun cfg bn bnMeta s ops) : Reach cfg bn bnMeta (run cfg bn bnMeta s ops) := by
  induction ops generalizing s with
  | nil => exact h
  | cons o os ih => exact ih (Reach.step h o hok.1) hok.2

/-- **Fixed variant: no side conditions.** With the two proposed functional fixes every op
sequence whatsoever (repeated indices, stores across invalidations) is reachable in the sense of
`Reach`, so `answer_equals_bn_partial`, `begin_hit_equals_bn` and `finish_equals_bn` hold for all
histories. -/
theorem reach_all_fixed (h1 : cfg.dedupAmend = true) (h2 : cfg.guardInflight = true)
    (act : List VIdx) (ops : List Op) :
    Reach cfg bn bnMeta (run cfg bn bnMeta { active := act } ops) := by
  apply reach_run_partial cfg bn bnMeta (Reach.init act)
  generalize ({ active := act } : State) = s
  induction ops generalizing s with
  | nil => trivial
  | cons o os ih =>
    refine ⟨?_, ih _⟩
    cases o <;> simp [OpOk, h1, h2]

/-- **Reorg invalidation drops exactly the later epochs**: after `InvalidateCache(r)` nothing is
held for any epoch `> r` (all kinds), and epochs `≤ r` are untouched. -/
theorem invalidate_drops (s : State) (r : Epoch) (k : Nat) (e : Epoch) :
    lookup (step cfg bn bnMeta s (.reorg r)).1.cache k e =
      if r < e then none else lookup s.cache k e := by
  simp [step, lookup_dropEpochs]

/-- **Trimming drops exactly the old epochs**: after `Trim(t)` with `t ≥ 3` nothing is held for any
epoch `< t - 3`; later epochs are untouched; `Trim(t)` with `t < 3` does nothing. -/
theorem trim_drops (s : State) (t : Nat) (k : Nat) (e : Nat) :
    lookup (step cfg bn bnMeta s (.trim t)).1.cache k e =
      if 3 ≤ t ∧ e < t - 3 then none else lookup s.cache k e := by
  simp only [step]
  by_cases h : t < 3
  · have h' : ¬ (3 ≤ t ∧ e < t - 3) := by omega
    simp [h, h']
  · simp only [h, if_false, lookup_dropEpochs, decide_eq_true_eq]
    by_cases h2 : e < t - 3
    · have h' : 3 ≤ t ∧ e < t - 3 := ⟨by omega, h2⟩
      simp [h2, h']
    · have h' : ¬ (3 ≤ t ∧ e < t - 3) := by omega
      simp [h2, h']

/-- **Fetched afresh.** A call for an epoch for which nothing is held asks the node for the whole
request and returns exactly (same order, fresh objects) the node's current answer. -/
theorem miss_fetches_afresh (s : State) (k : Nat) (e : Epoch) (idxs : List VIdx)
    (h : lookup s.cache k e = none) :
    (step cfg bn bnMeta s (.get k e idxs)).2 =
      .ans (mkObjs (s.nextObj + 1) (bnAnswer bn (verOf s.reorgs e) k e (effReq s idxs)))
        (bnMeta (verOf s.reorgs e) k e) s.nextObj (some (effReq s idxs)) :=
  miss_fetches cfg bn bnMeta idxs h

/-- **After a reorg invalidation the affected epochs are fetched afresh**: the first call for an
epoch `> r` after `InvalidateCache(r)` asks the node for everything and returns the node's *new*
answer (version bumped by the reorg). -/
theorem refetch_after_invalidate (s : State) (r : Epoch) (k : Nat) (e : Epoch) (idxs : List VIdx)
    (hre : r < e) :
    let s1 := (step cfg bn bnMeta s (.reorg r)).1
    (step cfg bn bnMeta s1 (.get k e idxs)).2 =
      .ans (mkObjs (s1.nextObj + 1) (bnAnswer bn (verOf s.reorgs e + 1) k e (effReq s idxs)))
        (bnMeta (verOf s.reorgs e + 1) k e) s1.nextObj (some (effReq s idxs)) := by
  intro s1
  have hl : lookup s1.cache k e = none := by
    simp only [s1]; rw [invalidate_drops]; simp [hre]
  have := miss_fetches_afresh cfg bn bnMeta s1 k e idxs hl
  have hv : verOf s1.reorgs e = verOf s.reorgs e + 1 := by
    simp [s1, step, verOf, hre]
  have hr : effReq s1 idxs = effReq s idxs := by simp [s1, step, effReq]
  rw [hv, hr] at this
  exact this

/-- **After trimming the affected epochs are fetched afresh.** -/
theorem refetch_after_trim (s : State) (t : Nat) (k : Nat) (e : Nat) (idxs : List VIdx)
    (ht : 3 ≤ t) (hte : e < t - 3) :
    let s1 := (step cfg bn bnMeta s (.trim t)).1
    (step cfg bn bnMeta s1 (.get k e idxs)).2 =
      .ans (mkObjs (s1.nextObj + 1) (bnAnswer bn (verOf s.reorgs e) k e (effReq s idxs)))
        (bnMeta (verOf s.reorgs e) k e) s1.nextObj (some (effReq s idxs)) := by
  intro s1
  have hl : lookup s1.cache k e = none := by
    simp only [s1]; rw [trim_drops]; simp [ht, hte]
  have := miss_fetches_afresh cfg bn bnMeta s1 k e idxs hl
  have h3 : ¬ t < 3 := by omega
  have hv : s1.reorgs = s.reorgs := by simp [s1, step, h3]
  have hr : effReq s1 idxs = effReq s idxs := by simp [s1, step, effReq, h3]
  rw [hv, hr] at this
  exact this

/-- **Private copies (fixed variant).** With `cloneMeta` and `cloneSlices`, in every state reachable
by any op sequence: no object identity (metadata map, index slice) is handed to callers twice, and
nothing that was handed to a caller is held by the cache. -/
theorem answers_private_fixed (h1 : cfg.cloneMeta = true) (h2 : cfg.cloneSlices = true)
    (act : List VIdx) (ops : List Op) :
    let s := run cfg bn bnMeta { active := act } ops
    s.handed.Nodup ∧
      ∀ k e ent, lookup s.cache k e = some ent → ∀ o ∈ entObjs ent, o ∉ s.handed := by
  intro s
  have := pinv_run cfg bn bnMeta h1 h2 act ops
  exact ⟨this.handedNodup, fun k e ent h o ho => (this.sep k e ent h o ho).1⟩

/-! ### Witnesses: the code as it is (`Cfg.asIs`) violates the full statements; non-vacuity -/

/-- node of the witnesses: validators 1 and 2 have one duty each, whose content is the version. -/
def exBn (v _k : Nat) (_e : Epoch) : List Duty := [⟨1, v⟩, ⟨2, v⟩]
def exMeta (v _k : Nat) (_e : Epoch) : Nat := v

def ansOf : Out → List Duty
  | .ans ds _ _ _ => cont ds
  | _ => []

-- D-8: epoch 5 holds validator 1; the request [2,2] is a partial miss repeating index 2; the next
-- request for [2] gets validator 2's duty twice, the node answers it once.
example :
    (outs Cfg.asIs exBn exMeta {} [.get 0 5 [1], .get 0 5 [2, 2], .get 0 5 [2]]).map ansOf =
      [[⟨1, 0⟩], [⟨2, 0⟩], [⟨2, 0⟩, ⟨2, 0⟩]] ∧ bnAnswer exBn 0 0 5 [2] = [⟨2, 0⟩] := by decide

/-- negation of the full statement for the code as it is (D-8, duplicated duties). -/
theorem dup_on_amend_witness :
    ¬ ∀ (ops : List Op) (k : Nat) (e : Epoch) (idxs : List VIdx) (s' : State) (ds : List DObj)
        (md mo : Nat) (call : Option (List VIdx)),
        step Cfg.asIs exBn exMeta (run Cfg.asIs exBn exMeta {} ops) (.get k e idxs) =
          (s', .ans ds md mo call) →
        (cont ds).Perm (bnAnswer exBn (verOf (run Cfg.asIs exBn exMeta {} ops).reorgs e) k e idxs) := by
  intro h
  have := h [.get 0 5 [1], .get 0 5 [2, 2]] 0 5 [2] _ _ _ _ _ rfl
  have hl := this.length_eq
  revert hl
  decide

-- the same history with the proposed fix: one duty.
example :
    (outs { Cfg.asIs with dedupAmend := true } exBn exMeta {}
      [.get 0 5 [1], .get 0 5 [2, 2], .get 0 5 [2]]).map ansOf = [[⟨1, 0⟩], [⟨2, 0⟩], [⟨2, 0⟩]] := by
  decide

/-- negation of the full statement for the code as it is (response stored across an invalidation):
a call for epoch 5 is in flight, `InvalidateCache(3)` happens, the call completes and stores the
pre-reorg duties; the next call is served the old duties without asking the node. -/
theorem inflight_invalidate_witness :
    (outs Cfg.asIs exBn exMeta {} [.begin 1 0 5 [1], .reorg 3, .finish 1, .get 0 5 [1]]).getLast? =
        some (.ans [⟨⟨1, 0⟩, 2⟩] 0 1 none) ∧
      bnAnswer exBn (verOf [3] 5) 0 5 [1] = [⟨1, 1⟩] := by decide

-- with the proposed guard the stale response is not stored and the next call fetches afresh.
example :
    ((outs { Cfg.asIs with guardInflight := true } exBn exMeta {}
        [.begin 1 0 5 [1], .reorg 3, .finish 1, .get 0 5 [1]]).map ansOf).getLast? =
      some [⟨1, 1⟩] := by decide

/-- the code as it is hands the cache's own metadata map to every caller served from the cache:
two calls return the same map object, which is also the one the cache holds. -/
theorem shared_metadata_witness :
    let s := run Cfg.asIs exBn exMeta {} [.get 2 5 [1], .get 2 5 [1]]
    ¬ s.handed.Nodup ∧ ∃ ent, lookup s.cache 2 5 = some ent ∧ ent.mdObj ∈ s.handed := by
  refine ⟨by decide, ⟨_, rfl, by decide⟩⟩

/-- the code as it is shares the index slice of a cached sync duty with the caller that fetched it
and with every later caller. -/
theorem shared_slice_witness :
    let s := run Cfg.asIs exBn exMeta {} [.get 2 5 [1]]
    ∃ ent o, lookup s.cache 2 5 = some ent ∧ o ∈ objsOf ent.duties ∧ o ∈ s.handed := by
  exact ⟨_, 2, rfl, by decide, by decide⟩

-- non-vacuity: overlapping, disjoint and repeated requests, a reorg and a trim; every answer is the
-- node's answer and the second request only fetches what is missing.
example :
    let os := outs Cfg.asIs exBn exMeta {} [.get 0 5 [1], .get 0 5 [2, 1], .get 0 5 [1, 2],
      .reorg 4, .get 0 5 [2], .trim 9, .get 0 5 [2]]
    os.map ansOf = [[⟨1, 0⟩], [⟨1, 0⟩, ⟨2, 0⟩], [⟨1, 0⟩, ⟨2, 0⟩], [], [⟨2, 1⟩], [], [⟨2, 1⟩]] ∧
    os.map (fun o => match o with | .ans _ _ _ c => c | _ => none) =
      [some [1], some [2], none, none, some [2], none, some [2]] := by decide

-- non-vacuity of the two-phase theorems: two overlapping calls in flight, completed in the other order.
example :
    (outs Cfg.asIs exBn exMeta {} [.begin 1 0 5 [1, 2], .begin 2 0 5 [2], .finish 2, .finish 1,
      .get 0 5 [1, 2]]).map ansOf = [[], [], [⟨2, 0⟩], [⟨1, 0⟩, ⟨2, 0⟩], [⟨2, 0⟩, ⟨1, 0⟩]] := by decide

end CharonV.DutiesCache
