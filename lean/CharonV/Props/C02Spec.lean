/-
C02 (spec layer) — safety of the abstract QBFT specification `CharonV.Spec.Qbft`.

Property theorems only (helper lemmas, the inductive invariant `Inv` and the lock lemma live in
`CharonV.Proofs.QbftSpec`). Every theorem quantifies over arbitrary parameters `P` (number of
processes `n ≥ 1`, any set of Byzantine processes with at most `faulty n` members among
`0..n-1`, any leader function, any comparison verdicts, any inputs) and over every reachable
state `s` of the specification, i.e. every finite run with arbitrary message loss, delay,
duplication, reordering, timer firings and Byzantine behaviour.
-/
import CharonV.Proofs.QbftSpec

namespace CharonV.QbftSpec

/-! ### 7. arithmetic of `Definition.Quorum` / `Definition.Faulty` -/

/-- `2q ≥ n + f + 1`: two quorums intersect in at least `f + 1` processes. -/
theorem two_quorum_ge (n : Nat) (hn : 1 ≤ n) : 2 * quorum n ≥ n + faulty n + 1 :=
  two_quorum n hn

/-- `f < q`: every quorum contains an honest process. -/
theorem faulty_lt_quorum' (n : Nat) (hn : 1 ≤ n) : faulty n < quorum n :=
  faulty_lt_quorum n hn

/-- for `fa ≤ f` actual faults, the `fa` faulty processes plus everything outside a quorum do not
form a quorum. -/
theorem faults_plus_outside_lt_quorum (n fa : Nat) (hn : 1 ≤ n) (hfa : fa ≤ faulty n) :
    fa + (n - quorum n) < quorum n :=
  outside_lt_quorum n fa hn hfa

/-- Quorum intersection: two duplicate-free source lists of quorum size inside `0..n-1` share an
honest process. -/
theorem quorums_share_honest (P : Params) (hn : 1 ≤ P.n) (hb : P.byzCount ≤ faulty P.n)
    {A B : List Nat} (hA : A.Nodup) (hB : B.Nodup)
    (hAn : ∀ j ∈ A, j < P.n) (hBn : ∀ j ∈ B, j < P.n)
    (hAq : quorum P.n ≤ A.length) (hBq : quorum P.n ≤ B.length) :
    ∃ j, j ∈ A ∧ j ∈ B ∧ P.honest j := by
  obtain ⟨j, h1, h2, h3⟩ := quorum_meet P hn hb hA hB hAn hBn hAq hBq
  exact ⟨j, h1, h2, hAn j h1, h3⟩

section
variable {P : Params} (hn : 1 ≤ P.n) (hb : P.byzCount ≤ faulty P.n) {s : State} (hs : Reach P s)
include hn hb hs

/-! ### 1. agreement -/

/-- Any two COMMIT quorums (of whatever rounds) that can be assembled from the history carry the
same value. -/
theorem agreement_commitQuorums {r v r' v' : Nat}
    (h : commitQuorum P s.hist r v) (h' : commitQuorum P s.hist r' v') : v = v' :=
  commitQuorum_agree hn hb hs h h'

/-- Any two `Decide` callbacks carry the same value. -/
theorem agreement_events {i j r v r' v' : Nat}
    (h : Ev.decide i r v ∈ s.hist) (h' : Ev.decide j r' v' ∈ s.hist) : v = v' :=
  commitQuorum_agree hn hb hs ((reach_inv hs).decBacked i r v h) ((reach_inv hs).decBacked j r' v' h')

/-- **Agreement.** Two honest processes never decide different values. -/
theorem agreement {i j r v r' v' : Nat} (_hi : P.honest i) (_hj : P.honest j)
    (h : (s.nodes i).decided = some (r, v)) (h' : (s.nodes j).decided = some (r', v')) : v = v' :=
  agreement_events hn hb hs (event_of_decided (reach_inv hs) h) (event_of_decided (reach_inv hs) h')

/-- The lock behind agreement: once a COMMIT quorum for `(r,v)` can be assembled, every PREPARE
quorum of a later round carries `v` … -/
theorem locked_prepareQuorum {r v ρ x : Nat}
    (h : commitQuorum P s.hist r v) (h' : prepareQuorum P s.hist ρ x) (hρ : r < ρ) : x = v :=
  prepareQuorum_locked hn hb hs h h' hρ

/-- … and no process that sent PREPARE `(r,v)` ever accepts a PRE-PREPARE `(ρ,x)`, `ρ > r`, `x ≠ v`. -/
theorem locked_accept {r v p ρ x : Nat} {path : Path}
    (h : commitQuorum P s.hist r v) (hacc : Ev.accept p ρ x path ∈ s.hist) (hρ : r < ρ)
    (hx : x ≠ v) : Ev.prepare p r v ∉ s.hist :=
  lock_reach hn hb hs h hacc hρ hx

/-! ### 3. decisions are backed by a COMMIT quorum -/

omit hn hb in
theorem decide_backed {p r v : Nat} (h : Ev.decide p r v ∈ s.hist) : commitQuorum P s.hist r v :=
  (reach_inv hs).decBacked p r v h

omit hn hb in
/-- only honest processes of `0..n-1` ever decide (or write anything else to the history). -/
theorem decide_honest {p r v : Nat} (h : Ev.decide p r v ∈ s.hist) : P.honest p :=
  (reach_inv hs).srcHonest _ h

/-! ### 2. decide once -/

omit hn hb in
/-- `decided` records exactly the `Decide` callbacks. -/
theorem decide_event_iff {p r v : Nat} :
    Ev.decide p r v ∈ s.hist ↔ (s.nodes p).decided = some (r, v) :=
  ⟨decided_of_event (reach_inv hs), event_of_decided (reach_inv hs)⟩

omit hn hb in
/-- **Decide once.** The history contains at most one `decide` event of process `p` (counted with
multiplicity). -/
theorem decide_once (p : Nat) :
    (s.hist.filter (fun e => match e with
      | .decide q _ _ => decide (q = p)
      | _ => false)).length ≤ 1 := by
  have hfun : (fun e : Ev => match e with
      | .decide q _ _ => decide (q = p)
      | _ => false) = isDecideOf p := by
    funext e; cases e <;> rfl
  rw [hfun]
  exact decide_filter_length_le_one (reach_inv hs) p

omit hn hb in
/-- … in particular two `decide` events of the same process coincide. -/
theorem decide_event_unique {p r v r' v' : Nat}
    (h : Ev.decide p r v ∈ s.hist) (h' : Ev.decide p r' v' ∈ s.hist) : r = r' ∧ v = v' := by
  have h1 := decided_of_event (reach_inv hs) h
  have h2 := decided_of_event (reach_inv hs) h'
  rw [h1] at h2
  cases h2
  exact ⟨rfl, rfl⟩

omit hn hb hs in
/-- `decided` never changes once set (one step, any state). -/
theorem decided_stable_step {s t : State} (hst : Step P s t) {p : Nat} {d : Nat × Nat}
    (h : (s.nodes p).decided = some d) : (t.nodes p).decided = some d :=
  step_decided_stable hst h

omit hn hb hs in
/-- `decided` never changes once set (any number of steps). -/
theorem decided_stable {s t : State} (hst : Steps P s t) {p : Nat} {d : Nat × Nat}
    (h : (s.nodes p).decided = some d) : (t.nodes p).decided = some d :=
  steps_decided_stable hst h

/-! ### 4./5. decided values are non-zero and were PRE-PREPAREd by the leader of the decided round -/

theorem decide_nonzero {p r v : Nat} (h : Ev.decide p r v ∈ s.hist) : v ≠ 0 := by
  have hI := reach_inv hs
  obtain ⟨q, path, _, hacc⟩ := commitQuorum_accept hn hb hI (hI.decBacked p r v h)
  exact (hI.accOk q r v path hacc).1

theorem decided_nonzero {p r v : Nat} (h : (s.nodes p).decided = some (r, v)) : v ≠ 0 :=
  decide_nonzero hn hb hs (event_of_decided (reach_inv hs) h)

/-- The decided value was PRE-PREPAREd by the designated leader of the decided round (hence of
some round): the core is in the history, or that leader is Byzantine. -/
theorem decide_leader_value_round {p r v : Nat} (h : Ev.decide p r v ∈ s.hist) :
    P.leader r < P.n ∧ avail P s.hist (P.leader r) (.prePrepare (P.leader r) r v) := by
  have hI := reach_inv hs
  obtain ⟨q, path, _, hacc⟩ := commitQuorum_accept hn hb hI (hI.decBacked p r v h)
  exact (hI.accOk q r v path hacc).2

theorem decide_leader_value {p r v : Nat} (h : (s.nodes p).decided = some (r, v)) :
    ∃ ρ, avail P s.hist (P.leader ρ) (.prePrepare (P.leader ρ) ρ v) :=
  ⟨r, (decide_leader_value_round hn hb hs (event_of_decided (reach_inv hs) h)).2⟩

/-! ### 6. validity without Byzantine processes -/

omit hb in
/-- If no process is Byzantine, a decided value is the (non-zero) input of some process. -/
theorem decide_input_no_byz (hnb : ∀ i, P.byz i = false) {p r v : Nat}
    (h : (s.nodes p).decided = some (r, v)) : (∃ j, j < P.n ∧ v = P.input j) ∧ v ≠ 0 := by
  have hb : P.byzCount ≤ faulty P.n := by rw [byzCount_eq_zero hnb]; exact Nat.zero_le _
  have hev := event_of_decided (reach_inv hs) h
  obtain ⟨_, hav⟩ := decide_leader_value_round hn hb hs hev
  rcases hav with hav | hav
  · rw [hnb] at hav; cases hav
  · obtain ⟨j, hj, hv, hv0⟩ := prePrepare_input_no_byz hn hnb hs _ _ _ hav
    exact ⟨⟨j, hj, hv⟩, hv0⟩

end

/-! ### non-vacuity: a run with `n = 4`, process 3 Byzantine, in which honest processes 0 and 1
decide 7 in round 1 on quorums `{0,1,3}` -/

example : P4.byzCount ≤ faulty P4.n := by decide

example : ∃ s, Reach P4 s ∧ (s.nodes 0).decided = some (1, 7) ∧ (s.nodes 1).decided = some (1, 7) ∧
    commitQuorum P4 s.hist 1 7 ∧ Ev.decide 0 1 7 ∈ s.hist ∧ Ev.decide 1 1 7 ∈ s.hist :=
  ⟨Run4.s7, Run4.r7, rfl, rfl, Run4.quorum013 _ _ (by decide) (by decide), by decide, by decide⟩

/-- the hypotheses of `decide_input_no_byz` are satisfiable together with a decision (`n = 1`). -/
example : ∃ (P : Params) (s : State), 1 ≤ P.n ∧ (∀ i, P.byz i = false) ∧ Reach P s ∧
    (s.nodes 0).decided = some (1, 7) := by
  let P : Params := { n := 1, byz := fun _ => false, leader := fun _ => 0, cmp := fun _ _ => true,
                      input := fun _ => 7 }
  have h0 : P.honest 0 := ⟨by decide, rfl⟩
  have q : ∀ (H : List Ev) (mk : Nat → Ev), mk 0 ∈ H → quorumOf P H mk := fun H mk m =>
    ⟨[0], by decide, by decide, fun j hj => by
      simp at hj; subst hj; exact ⟨by decide, Or.inr m⟩⟩
  have r1 := Reach.step Reach.init (Step.propose (P := P) init 0 7 0 h0 rfl (Or.inl ⟨rfl, by decide⟩))
  have r2 := Reach.step r1 (Step.accept _ 0 1 7 .first .ok h0 rfl (by decide) (fun _ => rfl)
    (by decide) (Or.inr (by decide)) (by decide) rfl (fun _ => rfl) (fun h => by cases h))
  have r3 := Reach.step r2 (Step.commit _ 0 7 h0 rfl rfl (q _ _ (by decide)))
  have r4 := Reach.step r3 (Step.decide _ 0 1 7 h0 rfl (q _ _ (by decide)))
  exact ⟨P, _, by decide, fun _ => rfl, r4, rfl⟩

end CharonV.QbftSpec
