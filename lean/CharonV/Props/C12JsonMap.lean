/-
C12 — "decoding then re-encoding a file never changes its hashes", in every supported format version:
the per-version JSON codecs of cluster definitions and locks as transfer lists (model
`Model/JsonMap.lean`, rows regenerated from the bodies of the codec functions by translator T-jsonmap,
`Generated/ClusterJson.lean`). Property theorems only (helper lemmas: `Proofs/JsonMap.lean`).

* generic part: for EVERY row table accepted by the decidable predicate `pairOk` / `TableOk`, every
  record, every field and every recomputed-hash oracle `hs`;
* `every_version_ok` evaluates `TableOk` on the regenerated table in the kernel, `hashed_fields_transferred`
  ties the regenerated SSZ schemas (`Generated/ClusterSsz.lean`, T-ssz) to it: every leaf any hash of a
  version reads is a field that version's codec restores;
* `…_witness` theorems: the places where the code is NOT the identity.

FULL STATEMENT the code as it is does NOT satisfy (kept visible):

    ∀ version v, ∀ in-memory value d whose fields outside v's field set are at their defaults:
      Unmarshal (Marshal d) = d

It fails (a) for stored hashes that differ from the recomputed ones (`stale_hash_overwritten_witness`),
(b) for a fork version of v1.0/v1.1 that is not empty and not 4 bytes long — the encoder writes it, the
decoder rejects the file (`fixed_hex_rejects_own_output_witness`), (c) for sub-second registration
timestamps (`time_subsecond_truncated_witness`), (d) v1.6/v1.7: for a validator whose partial deposit list
does not have exactly one element (`first_single_not_identity_witness`), (e) v1.0–v1.4: for validator
address lists whose length differs from `num_validators` (`legacy_repeat_count_witness`). `decode_encode_id`
is the statement with exactly these domain hypotheses (`FieldDom`).
-/
import CharonV.Proofs.JsonMap
import CharonV.Generated.ClusterJson
import CharonV.Generated.ClusterSsz

namespace CharonV.Props.C12JsonMap
open CharonV.JsonMap
open CharonV.Generated

/-- **decode ∘ encode = id, field by field.** For every pair of row lists accepted by `pairOk`, every
in-memory record `m`, every recomputed-hash oracle `hs` and every field `p` the decoder writes: if the
value of `p` is in the domain of its conversion pair (`FieldDom`), decoding the encoder's output stores
exactly `m p` into `p`. -/
theorem decode_encode_id (enc dec : List Row) (hp : pairOk enc dec = true) (hs m : MRec) (p : Nat) (rd : Row)
    (hf : findM dec p = some rd) (h0 : p ≠ 0) (hd : FieldDom enc rd hs m) :
    decodeField dec (encode enc hs m) p = some (m p) := by
  have hmid : rd.mid = p := findM_mid hf
  have hmem : rd ∈ dec := List.mem_of_find?_eq_some hf
  have hfo := pairOk_field hp hmem (by rw [hmid]; exact h0)
  unfold decodeField
  rw [hf, ← hmid]
  exact field_rt enc hs m rd hfo hd

/-- **encode ∘ decode = id on canonical files** (a canonical file is an encoder output `encode enc hs m₀`
of an in-domain record; files with upper-case hex, a missing `0x` prefix, … decode to the same record
but are not reproduced, see `ethhex_decode_accepts_noncanonical_witness`): any record `m'` that holds
what the decoder stored re-encodes to the same file, JSON leaf by JSON leaf. -/
theorem encode_decode_id (enc dec : List Row) (hp : pairOk enc dec = true) (hs m₀ m' : MRec)
    (hdom : ∀ p rd, findM dec p = some rd → p ≠ 0 → FieldDom enc rd hs m₀)
    (hdec : ∀ p ∈ fieldSet dec, decodeField dec (encode enc hs m₀) p = some (m' p)) :
    ∀ j, encode enc hs m' j = encode enc hs m₀ j := by
  intro j
  unfold encode
  cases hj : findJ enc j with
  | none => rfl
  | some re =>
    show encRow re hs m' = encRow re hs m₀
    by_cases h0 : re.mid = 0
    · -- constant / zero rows do not read the record
      have hre : re ∈ enc := List.mem_of_find?_eq_some hj
      unfold encRow
      cases hc : re.conv <;> simp
      all_goals (
        have hall := hp
        simp only [pairOk, Bool.and_eq_true, List.all_eq_true] at hall
        have hcont := hall.1.1.2 re hre
        simp only [List.contains_eq_mem, List.mem_map, decide_eq_true_eq] at hcont
        obtain ⟨rd, hrd, hjid⟩ := hcont
        have hrow := hall.2 rd hrd
        have hfj : findJ enc rd.jid = some re := by
          rw [hjid]; exact findJ_of_mem enc hall.1.1.1.1.1.1 re hre
        by_cases hrd0 : rd.mid = 0
        · simp [hrd0, guardRowOk, hfj, hc] at hrow
        · simp [hrd0, fieldOk, hfj, hc, invConv, h0] at hrow
          first
            | exact absurd hrow.1.1.1.1.1.symm hrd0
            | (exfalso; omega)
            | skip)
    · -- the decoder stores this field: `m'` and `m₀` agree on it
      have hre : re ∈ enc := List.mem_of_find?_eq_some hj
      have hall := hp
      simp only [pairOk, Bool.and_eq_true, List.all_eq_true] at hall
      have hcont := hall.1.1.2 re hre
      simp only [List.contains_eq_mem, List.mem_map, decide_eq_true_eq] at hcont
      obtain ⟨rd, hrd, hjid⟩ := hcont
      have hfj : findJ enc rd.jid = some re := by
        rw [hjid]; exact findJ_of_mem enc hall.1.1.1.1.1.1 re hre
      have hrow := hall.2 rd hrd
      have hrd0 : rd.mid ≠ 0 := by
        intro e
        simp [e, guardRowOk, hfj, h0] at hrow
      have hfo : fieldOk enc rd = true := by simpa [hrd0] using hrow
      have hmid : re.mid = rd.mid := by
        simp only [fieldOk, hfj, Bool.and_eq_true, beq_iff_eq] at hfo
        exact hfo.1.1.1.1.1
      have hin : rd.mid ∈ fieldSet dec := by
        simp only [fieldSet, List.mem_map, List.mem_filter]
        exact ⟨rd, ⟨hrd, by simpa using hrd0⟩, rfl⟩
      obtain ⟨rd', hf'⟩ := findM_isSome_of_mem_fieldSet hin
      have h1 := decode_encode_id enc dec hp hs m₀ rd.mid rd' hf' hrd0 (hdom rd.mid rd' hf' hrd0)
      have h2 := hdec rd.mid hin
      rw [h1] at h2
      exact encRow_congr re hs m' m₀ (by rw [hmid]; exact (Option.some.inj h2).symm)

/-- **Every field a hash reads survives the round trip**, hence re-encoding a decoded file cannot change a
hash: for row lists accepted by `pairOk` and a list `hashed` of fields all of which the decoder writes
(checked on the regenerated SSZ schemas by `hashed_fields_transferred`), the decoded record agrees with
the original on every hashed field, so every function `H` of the record that reads only hashed fields
— the config hash, the definition hash, the lock hash — has the same value on both. -/
theorem roundtrip_preserves_hashed_fields {α} (enc dec : List Row) (hp : pairOk enc dec = true) (hashed : List Nat)
    (hc : hashed.all (fun p => p != 0 && (fieldSet dec).contains p) = true) (hs m m' : MRec)
    (hdom : ∀ p rd, findM dec p = some rd → p ≠ 0 → FieldDom enc rd hs m)
    (hdec : ∀ p ∈ fieldSet dec, decodeField dec (encode enc hs m) p = some (m' p))
    (H : MRec → α) (hH : ∀ a b : MRec, (∀ p ∈ hashed, a p = b p) → H a = H b) :
    (∀ p ∈ hashed, m' p = m p) ∧ H m' = H m := by
  have key : ∀ p ∈ hashed, m' p = m p := by
    intro p hpm
    have := List.all_eq_true.mp hc p hpm
    simp only [Bool.and_eq_true, bne_iff_ne, ne_eq, List.contains_eq_mem, decide_eq_true_eq] at this
    obtain ⟨rd, hf⟩ := findM_isSome_of_mem_fieldSet this.2
    have h1 := decode_encode_id enc dec hp hs m p rd hf this.1 (hdom p rd hf this.1)
    have h2 := hdec p this.2
    rw [h1] at h2
    exact (Option.some.inj h2).symm
  exact ⟨key, hH m' m key⟩

/-- **No field is dropped**: every in-memory field an accepted encoder reads is written back by the decoder,
from the same JSON leaf. -/
theorem no_field_dropped (enc dec : List Row) (hp : pairOk enc dec = true) (re : Row) (hre : re ∈ enc)
    (h0 : re.mid ≠ 0) : ∃ rd ∈ dec, rd.jid = re.jid ∧ rd.mid = re.mid := by
  have hall := hp
  simp only [pairOk, Bool.and_eq_true, List.all_eq_true] at hall
  have hcont := hall.1.1.2 re hre
  simp only [List.contains_eq_mem, List.mem_map, decide_eq_true_eq] at hcont
  obtain ⟨rd, hrd, hjid⟩ := hcont
  have hfj : findJ enc rd.jid = some re := by
    rw [hjid]; exact findJ_of_mem enc hall.1.1.1.1.1.1 re hre
  have hrow := hall.2 rd hrd
  have hrd0 : rd.mid ≠ 0 := by
    intro e
    simp [e, guardRowOk, hfj, h0] at hrow
  have hfo : fieldOk enc rd = true := by simpa [hrd0] using hrow
  simp only [fieldOk, hfj, Bool.and_eq_true, beq_iff_eq] at hfo
  exact ⟨rd, hrd, hjid, hfo.1.1.1.1.1.symm⟩

/-- **No field is written twice**: in accepted row lists no JSON leaf occurs in two rows of the encoder
(resp. decoder), no in-memory field is read by two encoder rows or stored by two decoder rows. -/
theorem no_field_written_twice (enc dec : List Row) (hp : pairOk enc dec = true) :
    (enc.map (·.jid)).Nodup ∧ (dec.map (·.jid)).Nodup ∧ (fieldSet dec).Nodup ∧ (fieldSet enc).Nodup := by
  simp only [pairOk, Bool.and_eq_true] at hp
  exact ⟨nodupNat_nodup _ hp.1.1.1.1.1.1, nodupNat_nodup _ hp.1.1.1.1.1.2, nodupNat_nodup _ hp.1.1.1.1.2,
    nodupNat_nodup _ hp.1.1.1.2⟩

/-- **Version dispatch is total and consistent**: in an accepted table every supported version has exactly
one encoder and one decoder per artifact (definition, lock), encoder and decoder use the same JSON
struct, and their row lists (the lock's with the embedded definition's rows of the same version) are
mutually inverse. -/
theorem version_dispatch_total (t : Table) (ht : TableOk t = true) (v : String) (hv : v ∈ t.versions) :
    ∃ r : VersionRows, versionRows t v = some r ∧
      lookupAll t.defEnc v = [r.defEnc] ∧ lookupAll t.defDec v = [r.defDec] ∧
      lookupAll t.lockEnc v = [r.lockEnc] ∧ lookupAll t.lockDec v = [r.lockDec] ∧
      r.defEnc.js = r.defDec.js ∧ r.lockEnc.js = r.lockDec.js ∧
      pairOk r.defEnc.rows r.defDec.rows = true ∧ pairOk (lockEncRows r) (lockDecRows r) = true := by
  simp only [TableOk, Bool.and_eq_true, List.all_eq_true] at ht
  have h := ht.1 v hv
  unfold versionOk at h
  cases hr : versionRows t v with
  | none => simp [hr] at h
  | some r =>
    simp only [hr, Bool.and_eq_true, beq_iff_eq] at h
    refine ⟨r, rfl, ?_⟩
    unfold versionRows at hr
    split at hr
    · rename_i a b c d h1 h2 h3 h4
      cases hr
      exact ⟨h1, h2, h3, h4, h.1.1.1.1, h.1.1.1.2, h.1.2, h.2⟩
    · cases hr

/-! ## the regenerated table -/

/-- **Every supported version is accepted** (kernel evaluation of `TableOk` on the table regenerated from
`cluster/*.go` on every run): a source change that drops a field from one version's encoder, decodes it
with another conversion than it was encoded with, reads it into another field, or dispatches a version
to a codec of another JSON struct falsifies this. -/
theorem every_version_ok : TableOk ClusterJson.table = true := by decide +kernel

/-- the versions of the table are the supported versions of the Go source (and of the SSZ schemas). -/
theorem versions_complete :
    ClusterJson.versions = ["v1.0.0", "v1.1.0", "v1.2.0", "v1.3.0", "v1.4.0", "v1.5.0", "v1.6.0", "v1.7.0",
      "v1.8.0", "v1.9.0", "v1.10.0", "v1.11.0"] ∧ ClusterJson.versions = ClusterSsz.versions := by decide +kernel

/-- id (in the composed lock numbering) of a tag path name. -/
def idOfName (t : Table) (lock : Bool) (s : String) : Nat :=
  let names := (List.range t.paths.length).map (fun i => (i, t.paths.getD i ""))
  match names.find? (fun p => p.2 == s) with
  | some p => p.1
  | none =>
    if lock then
      match names.find? (fun p => "cluster_definition." ++ p.2 == s) with
      | some p => p.1 + embedBase
      | none => 0
    else 0

/-- every JSON leaf the config hash / definition hash of version `v` reads is a field the definition
decoder of `v` writes; every leaf the lock hash / embedded config hash reads is a field the lock decoder writes. -/
def hashedCovered (t : Table) (v : String) : Bool :=
  match versionRows t v, ClusterSsz.schemas.find? (·.1 == v) with
  | some r, some (_, c, d, l, lc) =>
    ((c.mentions ++ d.mentions).map (fun i => idOfName t false (Ssz.pathName ClusterSsz.pathTable i))).all
      (fun p => p != 0 && (fieldSet r.defDec.rows).contains p) &&
    ((l.mentions ++ lc.mentions).map (fun i => idOfName t true (Ssz.pathName ClusterSsz.pathTable i))).all
      (fun p => p != 0 && (fieldSet (lockDecRows r)).contains p)
  | _, _ => false

/-- **Hashed fields are transferred, in every version** (regenerated SSZ schemas × regenerated codec rows):
the hypothesis `hc` of `roundtrip_preserves_hashed_fields` holds for the config, definition and lock hash
of every supported version. -/
theorem hashed_fields_transferred : ClusterJson.versions.all (hashedCovered ClusterJson.table) = true := by
  decide +kernel

/-! ## where the code is NOT the identity -/

/-- names of the in-memory leaves of an artifact that version `v`'s decoder never writes: a value there is
silently replaced by the Go zero value. -/
def droppedDef (t : Table) (v : String) : List String :=
  match versionRows t v with
  | some r => ((t.memDef.map (·.1)).filter (fun p => !(fieldSet r.defDec.rows).contains p)).map (pathName t)
  | none => ["?"]

def droppedLock (t : Table) (v : String) : List String :=
  match versionRows t v with
  | some r => (((t.memLock.filter (·.2 != .embed)).map (·.1)).filter
      (fun p => !(fieldSet (lockDecRows r)).contains p)).map (pathName t)
  | none => ["?"]

/-- **Witness: definition fields silently defaulted per version** (they do not exist in the format). -/
theorem definition_fields_defaulted_witness :
    ClusterJson.versions.map (fun v => (v, droppedDef ClusterJson.table v)) =
    [("v1.0.0", ["creator.address", "creator.config_signature", "deposit_amounts[]", "consensus_protocol", "target_gas_limit", "compounding"]),
     ("v1.1.0", ["creator.address", "creator.config_signature", "deposit_amounts[]", "consensus_protocol", "target_gas_limit", "compounding"]),
     ("v1.2.0", ["creator.address", "creator.config_signature", "deposit_amounts[]", "consensus_protocol", "target_gas_limit", "compounding"]),
     ("v1.3.0", ["creator.address", "creator.config_signature", "deposit_amounts[]", "consensus_protocol", "target_gas_limit", "compounding"]),
     ("v1.4.0", ["deposit_amounts[]", "consensus_protocol", "target_gas_limit", "compounding"]),
     ("v1.5.0", ["deposit_amounts[]", "consensus_protocol", "target_gas_limit", "compounding"]),
     ("v1.6.0", ["deposit_amounts[]", "consensus_protocol", "target_gas_limit", "compounding"]),
     ("v1.7.0", ["deposit_amounts[]", "consensus_protocol", "target_gas_limit", "compounding"]),
     ("v1.8.0", ["consensus_protocol", "target_gas_limit", "compounding"]),
     ("v1.9.0", ["target_gas_limit", "compounding"]),
     ("v1.10.0", []), ("v1.11.0", [])] := by decide +kernel

/-- **Witness: lock fields silently defaulted per version** (outside the embedded definition). -/
theorem lock_fields_defaulted_witness :
    (ClusterJson.versions.map (fun v => (v, (droppedLock ClusterJson.table v).length))) =
    [("v1.0.0", 10), ("v1.1.0", 10), ("v1.2.0", 10), ("v1.3.0", 10), ("v1.4.0", 10), ("v1.5.0", 10),
     ("v1.6.0", 6), ("v1.7.0", 0), ("v1.8.0", 0), ("v1.9.0", 0), ("v1.10.0", 0), ("v1.11.0", 0)] ∧
    droppedLock ClusterJson.table "v1.6.0" =
      ["distributed_validators[].builder_registration.message.fee_recipient",
       "distributed_validators[].builder_registration.message.gas_limit",
       "distributed_validators[].builder_registration.message.timestamp",
       "distributed_validators[].builder_registration.message.pubkey",
       "distributed_validators[].builder_registration.signature", "node_signatures[]"] := by decide +kernel

/-- rows of a composed row list that are not a plain identity transfer: (JSON leaf, conversion, list shape). -/
def shapeName (t : Table) : Shape → String
  | .plain => "plain" | .common => "common" | .first => "first" | .single => "single"
  | .repeat c => "repeat " ++ pathName t c

def nonIdRows (t : Table) (rows : List Row) : List (String × Conv × String) :=
  (rows.filter (fun r => r.conv != .id || r.shape != .plain)).map (fun r => (pathName t r.jid, r.conv, shapeName t r.shape))

/-- per version: (version, non-identity rows of the lock encoder, of the lock decoder), embedded definition included. -/
def nonIdAll (t : Table) : List (String × List (String × Conv × String) × List (String × Conv × String)) :=
  t.versions.map (fun v => match versionRows t v with
    | some r => (v, nonIdRows t (lockEncRows r), nonIdRows t (lockDecRows r))
    | none => (v, [], []))

/-- **Witness: every place where a codec is not a plain identity transfer, per version** (pinned against the
regenerated table): the constant nonce and the rejected legacy fee recipient, the single legacy address pair
(`common` / `repeat num_validators`), the 0x-hex fork version of v1.0/v1.1 with its fixed decode length 4, the
three recomputed hashes, the single deposit of v1.6/v1.7 (`first` / `single`), the Unix-seconds timestamp. -/
theorem non_identity_rows_witness : (nonIdAll ClusterJson.table ==
    [("v1.0.0",
      [("cluster_definition.operators[].nonce", (.const 0), "plain"),
       ("cluster_definition.fee_recipient_address", .id, "common"),
       ("cluster_definition.withdrawal_address", .id, "common"),
       ("cluster_definition.fork_version", .toHex, "plain"),
       ("cluster_definition.config_hash", .computed, "plain"),
       ("cluster_definition.definition_hash", .computed, "plain"),
       ("distributed_validators[].fee_recipient_address", .zero, "plain"),
       ("lock_hash", .computed, "plain")],
      [("cluster_definition.fork_version", (.fromHex 4), "plain"),
       ("cluster_definition.fee_recipient_address", .id, "repeat cluster_definition.num_validators"),
       ("cluster_definition.withdrawal_address", .id, "repeat cluster_definition.num_validators"),
       ("cluster_definition.operators[].nonce", (.mustBe 0), "plain"),
       ("distributed_validators[].fee_recipient_address", .mustBeEmpty, "plain")]),
     ("v1.1.0",
      [("cluster_definition.operators[].nonce", (.const 0), "plain"),
       ("cluster_definition.fee_recipient_address", .id, "common"),
       ("cluster_definition.withdrawal_address", .id, "common"),
       ("cluster_definition.fork_version", .toHex, "plain"),
       ("cluster_definition.config_hash", .computed, "plain"),
       ("cluster_definition.definition_hash", .computed, "plain"),
       ("distributed_validators[].fee_recipient_address", .zero, "plain"),
       ("lock_hash", .computed, "plain")],
      [("cluster_definition.fork_version", (.fromHex 4), "plain"),
       ("cluster_definition.fee_recipient_address", .id, "repeat cluster_definition.num_validators"),
       ("cluster_definition.withdrawal_address", .id, "repeat cluster_definition.num_validators"),
       ("cluster_definition.operators[].nonce", (.mustBe 0), "plain"),
       ("distributed_validators[].fee_recipient_address", .mustBeEmpty, "plain")]),
     ("v1.2.0",
      [("cluster_definition.fee_recipient_address", .id, "common"),
       ("cluster_definition.withdrawal_address", .id, "common"),
       ("cluster_definition.config_hash", .computed, "plain"),
       ("cluster_definition.definition_hash", .computed, "plain"),
       ("distributed_validators[].fee_recipient_address", .zero, "plain"),
       ("lock_hash", .computed, "plain")],
      [("cluster_definition.fee_recipient_address", .id, "repeat cluster_definition.num_validators"),
       ("cluster_definition.withdrawal_address", .id, "repeat cluster_definition.num_validators"),
       ("distributed_validators[].fee_recipient_address", .mustBeEmpty, "plain")]),
     ("v1.3.0",
      [("cluster_definition.fee_recipient_address", .id, "common"),
       ("cluster_definition.withdrawal_address", .id, "common"),
       ("cluster_definition.config_hash", .computed, "plain"),
       ("cluster_definition.definition_hash", .computed, "plain"),
       ("distributed_validators[].fee_recipient_address", .zero, "plain"),
       ("lock_hash", .computed, "plain")],
      [("cluster_definition.fee_recipient_address", .id, "repeat cluster_definition.num_validators"),
       ("cluster_definition.withdrawal_address", .id, "repeat cluster_definition.num_validators"),
       ("distributed_validators[].fee_recipient_address", .mustBeEmpty, "plain")]),
     ("v1.4.0",
      [("cluster_definition.fee_recipient_address", .id, "common"),
       ("cluster_definition.withdrawal_address", .id, "common"),
       ("cluster_definition.config_hash", .computed, "plain"),
       ("cluster_definition.definition_hash", .computed, "plain"),
       ("distributed_validators[].fee_recipient_address", .zero, "plain"),
       ("lock_hash", .computed, "plain")],
      [("cluster_definition.fee_recipient_address", .id, "repeat cluster_definition.num_validators"),
       ("cluster_definition.withdrawal_address", .id, "repeat cluster_definition.num_validators"),
       ("distributed_validators[].fee_recipient_address", .mustBeEmpty, "plain")]),
     ("v1.5.0",
      [("cluster_definition.config_hash", .computed, "plain"),
       ("cluster_definition.definition_hash", .computed, "plain"),
       ("distributed_validators[].fee_recipient_address", .zero, "plain"),
       ("lock_hash", .computed, "plain")],
      [("distributed_validators[].fee_recipient_address", .mustBeEmpty, "plain")]),
     ("v1.6.0",
      [("cluster_definition.config_hash", .computed, "plain"),
       ("cluster_definition.definition_hash", .computed, "plain"),
       ("distributed_validators[].deposit_data.pubkey", .id, "first"),
       ("distributed_validators[].deposit_data.withdrawal_credentials", .id, "first"),
       ("distributed_validators[].deposit_data.amount", .id, "first"),
       ("distributed_validators[].deposit_data.signature", .id, "first"),
       ("lock_hash", .computed, "plain")],
      [("distributed_validators[].deposit_data.pubkey", .id, "single"),
       ("distributed_validators[].deposit_data.withdrawal_credentials", .id, "single"),
       ("distributed_validators[].deposit_data.amount", .id, "single"),
       ("distributed_validators[].deposit_data.signature", .id, "single")]),
     ("v1.7.0",
      [("cluster_definition.config_hash", .computed, "plain"),
       ("cluster_definition.definition_hash", .computed, "plain"),
       ("distributed_validators[].deposit_data.pubkey", .id, "first"),
       ("distributed_validators[].deposit_data.withdrawal_credentials", .id, "first"),
       ("distributed_validators[].deposit_data.amount", .id, "first"),
       ("distributed_validators[].deposit_data.signature", .id, "first"),
       ("distributed_validators[].builder_registration.message.timestamp", .unixOf, "plain"),
       ("lock_hash", .computed, "plain")],
      [("distributed_validators[].deposit_data.pubkey", .id, "single"),
       ("distributed_validators[].deposit_data.withdrawal_credentials", .id, "single"),
       ("distributed_validators[].deposit_data.amount", .id, "single"),
       ("distributed_validators[].deposit_data.signature", .id, "single"),
       ("distributed_validators[].builder_registration.message.timestamp", .timeOf, "plain")]),
     ("v1.8.0",
      [("cluster_definition.config_hash", .computed, "plain"),
       ("cluster_definition.definition_hash", .computed, "plain"),
       ("distributed_validators[].builder_registration.message.timestamp", .unixOf, "plain"),
       ("lock_hash", .computed, "plain")],
      [("distributed_validators[].builder_registration.message.timestamp", .timeOf, "plain")]),
     ("v1.9.0",
      [("cluster_definition.config_hash", .computed, "plain"),
       ("cluster_definition.definition_hash", .computed, "plain"),
       ("distributed_validators[].builder_registration.message.timestamp", .unixOf, "plain"),
       ("lock_hash", .computed, "plain")],
      [("distributed_validators[].builder_registration.message.timestamp", .timeOf, "plain")]),
     ("v1.10.0",
      [("cluster_definition.config_hash", .computed, "plain"),
       ("cluster_definition.definition_hash", .computed, "plain"),
       ("distributed_validators[].builder_registration.message.timestamp", .unixOf, "plain"),
       ("lock_hash", .computed, "plain")],
      [("distributed_validators[].builder_registration.message.timestamp", .timeOf, "plain")]),
     ("v1.11.0",
      [("cluster_definition.config_hash", .computed, "plain"),
       ("cluster_definition.definition_hash", .computed, "plain"),
       ("distributed_validators[].builder_registration.message.timestamp", .unixOf, "plain"),
       ("lock_hash", .computed, "plain")],
      [("distributed_validators[].builder_registration.message.timestamp", .timeOf, "plain")])]) = true := by decide +kernel

/-- rows of a composed encoder whose value is not the in-memory field. -/
def computedRows (t : Table) (v : String) : List String :=
  match versionRows t v with
  | some r => ((lockEncRows r).filter (·.conv == .computed)).map (fun x => pathName t x.jid)
  | none => ["?"]

/-- **Witness: the three hash leaves are recomputed on encode, in every version** — `Definition.MarshalJSON`
encodes `d.SetDefinitionHashes()`, `Lock.MarshalJSON` writes `hashLock(l)`: the stored `ConfigHash`,
`DefinitionHash`, `LockHash` are never written to a file. -/
theorem hashes_recomputed_on_encode_witness :
    ClusterJson.versions.all (fun v => computedRows ClusterJson.table v ==
      ["cluster_definition.config_hash", "cluster_definition.definition_hash", "lock_hash"]) = true := by decide +kernel

/-- **Witness (a): a stale stored hash is overwritten.** A `computed` row encodes the oracle value `hs p`,
whatever the record holds: decode ∘ encode changes the field unless it held the recomputed hash. -/
theorem stale_hash_overwritten_witness :
    let re : Row := ⟨1, 0, .ethHex, false, 1, .computed, .plain⟩
    let rd : Row := ⟨1, 0, .ethHex, false, 1, .id, .plain⟩
    pairOk [re] [rd] = true ∧
    decodeField [rd] (encode [re] (fun _ => .bytes [1]) (fun _ => .bytes [2])) 1 = some (.bytes [1]) := ⟨rfl, rfl⟩

/-- **Witness (b): a fixed-length hex decoder rejects the encoder's own output** for every other length
(v1.0/v1.1 `fork_version`: `to0xHex` on encode, `from0xHex(s, 4)` on decode). -/
theorem fixed_hex_rejects_own_output_witness :
    decLeaf .str (.fromHex 4) (encLeaf .str .toHex false (.bytes [1, 2])) = none ∧
    decLeaf .str (.fromHex 4) (encLeaf .str .toHex false (.bytes [1, 2, 3, 4])) = some (.bytes [1, 2, 3, 4]) ∧
    decLeaf .str (.fromHex 4) (encLeaf .str .toHex false (.bytes [])) = some (.bytes []) := ⟨rfl, rfl, rfl⟩

/-- **Witness (c): registration timestamps survive at second resolution only.** -/
theorem time_subsecond_truncated_witness :
    decLeaf .int .timeOf (encLeaf .int .unixOf false (.time 5 7)) = some (.time 5 0) := rfl

/-- **Witness (d): v1.6/v1.7 keep exactly the first partial deposit** — two become one, none becomes one
zero-valued deposit. -/
theorem first_single_not_identity_witness :
    let f := encShape .first (zeroM .intStr .id) (encLeaf .intStr .id false)
    let g := decShape .single 0 (decLeaf .intStr .id)
    g (f (.list [.int 1, .int 2])) = some (.list [.int 1]) ∧ g (f (.list [])) = some (.list [.int 0]) := ⟨rfl, rfl⟩

/-- **Witness (e): v1.0–v1.4 rebuild the validator address list from `num_validators`**: two equal
addresses with `num_validators = 3` come back as three. -/
theorem legacy_repeat_count_witness :
    let f := encShape .common (.str []) (encLeaf .str .id true)
    let g := decShape (.repeat 0) 3 (decLeaf .str .id)
    g (f (.list [.str [97], .str [97]])) = some (.list [.str [97], .str [97], .str [97]]) := rfl

/-- **Witness: `ethHex` decoding is not injective** — upper case and a missing `0x` prefix are accepted,
only the lower-case prefixed form is ever written (so such files are not canonical). -/
theorem ethhex_decode_accepts_noncanonical_witness :
    decLeaf .ethHex .id (.str [48, 120, 97, 98]) = some (.bytes [0xab]) ∧
    decLeaf .ethHex .id (.str [48, 120, 65, 66]) = some (.bytes [0xab]) ∧
    decLeaf .ethHex .id (.str [97, 98]) = some (.bytes [0xab]) ∧
    encLeaf .ethHex .id false (.bytes [0xab]) = .str [48, 120, 97, 98] := ⟨rfl, rfl, rfl, rfl⟩

/-- **Witness: legacy fields are guarded, not stored** — `operators[].nonce` (v1.0/v1.1) is written as the
constant 0 and every other value is rejected; `distributed_validators[].fee_recipient_address` (up to
v1.5) is never written and every non-empty value is rejected. -/
theorem legacy_guard_rows_witness :
    (ClusterJson.unmarshalDefinitionV1x0or1.rows.filter (·.mid == 0)).map (fun r => (pathName ClusterJson.table r.jid, r.conv)) =
      [("operators[].nonce", .mustBe 0)] ∧
    (ClusterJson.unmarshalLockV1x2to5.rows.filter (·.mid == 0)).map (fun r => (pathName ClusterJson.table r.jid, r.conv)) =
      [("distributed_validators[].fee_recipient_address", .mustBeEmpty)] ∧
    guardAccepts ⟨4, 1, .int, false, 0, .mustBe 0, .plain⟩ (.all 0) = true ∧
    guardAccepts ⟨4, 1, .int, false, 0, .mustBe 0, .plain⟩ (.all 1) = false := by decide +kernel

/-- **Each condition of `pairOk` is needed**: a decoder that reads a JSON leaf into another field, or with a
conversion that is not the inverse, or an encoder that never sets the leaf, is rejected. -/
theorem rejected_tables_witness :
    pairOk [⟨1, 0, .str, false, 1, .id, .plain⟩] [⟨1, 0, .str, false, 2, .id, .plain⟩] = false ∧
    pairOk [⟨1, 0, .str, false, 1, .toHex, .plain⟩] [⟨1, 0, .str, false, 1, .id, .plain⟩] = false ∧
    pairOk [⟨1, 0, .str, false, 0, .zero, .plain⟩] [⟨1, 0, .str, false, 1, .id, .plain⟩] = false ∧
    pairOk [⟨1, 0, .str, false, 1, .id, .plain⟩, ⟨2, 0, .str, false, 1, .id, .plain⟩]
           [⟨1, 0, .str, false, 1, .id, .plain⟩, ⟨2, 0, .str, false, 1, .id, .plain⟩] = false := by decide

/-! ### non-vacuity -/

/-- `decode_encode_id` / `encode_decode_id`: an accepted pair, a field, an in-domain record. -/
example : ∃ (enc dec : List Row) (hs m : MRec) (p : Nat) (rd : Row), pairOk enc dec = true ∧
    findM dec p = some rd ∧ p ≠ 0 ∧ FieldDom enc rd hs m ∧ m p = .list [.bytes [1, 2]] :=
  ⟨[⟨1, 1, .ethHex, false, 1, .id, .plain⟩], [⟨1, 1, .ethHex, false, 1, .id, .plain⟩], fun _ => .int 0,
   fun _ => .list [.bytes [1, 2]], 1, ⟨1, 1, .ethHex, false, 1, .id, .plain⟩, by decide, by decide, by decide,
   by simp [FieldDom, findJ, ColDom, leafDom], rfl⟩

/-- the regenerated rows satisfy the hypotheses of the generic theorems for a real version. -/
example : ∃ r, versionRows ClusterJson.table "v1.7.0" = some r ∧ pairOk (lockEncRows r) (lockDecRows r) = true ∧
    (fieldSet (lockDecRows r)).length = 32 := by
  obtain ⟨r, hr, _, _, _, _, _, _, _, hp⟩ := version_dispatch_total _ every_version_ok "v1.7.0" (by decide +kernel)
  refine ⟨r, hr, hp, ?_⟩
  have : (versionRows ClusterJson.table "v1.7.0").map (fun r => (fieldSet (lockDecRows r)).length) = some 32 := by
    decide +kernel
  rw [hr] at this
  simpa using this

end CharonV.Props.C12JsonMap
