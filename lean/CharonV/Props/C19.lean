/-
C19 — A beacon API call through the multi-node client succeeds whenever at least one configured
primary node answers successfully, returns exactly one node's answer, and does not wait for slower
or hung nodes; it fails only when all primaries fail; fallback nodes are then consulted if the
failure indicates unavailability; cancelling the caller's context returns promptly.

Property theorems only (helper lemmas in `CharonV.Proofs.Provide`). All theorems hold for every
scenario `sc` — any number of primary and fallback nodes, any outcome per node (success, rejected
output, timeout / syncing / bad-gateway / other error), any behaviour towards cancellation — and
every event list — any completion order, nodes that never complete (hung: they do not occur in the
list), completions that are repeated or belong to the other group, cancellation at any point.
`provide sc evs = (r, k)`: the call returns `r` having consumed the first `k` events.
-/
import CharonV.Proofs.Provide
import CharonV.Generated.Multi

namespace CharonV.Provide

/-- **Success whenever one primary answers successfully, at the moment it does.** If primary `i`
completes successfully and up to then nobody cancelled and no other primary completed successfully,
the call returns exactly node `i`'s answer at that very event — whatever the other nodes'
outcomes are, whether they completed before, complete later (`post`) or never. -/
theorem success_if_any (sc : Scen) (pre post : List Ev) (i : Nat) (nd : Node)
    (hn : sc.prim[i]? = some nd) (hok : isOk sc nd.out = true)
    (hq : Quiet sc false [i] pre) :
    provide sc (pre ++ Ev.rel false i :: post) = (.okFrom false i, pre.length + 1) := by
  have hne : sc.prim.isEmpty = false := by
    cases h : sc.prim with
    | nil => rw [h] at hn; cases hn
    | cons _ _ => rfl
  have := go_first_success sc false pre post i nd 0 hn hok hq
  simpa [provide, hne, nodes] using this

/-- **Exactly one node's answer.** A successful result is the output of one node of the group it
names, and that node's request did end successfully. -/
theorem answer_is_one_successful_node (sc : Scen) (evs : List Ev) (fb : Bool) (i k : Nat)
    (h : provide sc evs = (.okFrom fb i, k)) :
    ∃ nd, (nodes sc fb)[i]? = some nd ∧ isOk sc nd.out = true := by
  unfold provide at h
  split at h
  · cases h
  · exact go_okFrom h

/-- **Does not wait for slower or hung nodes.** The result is determined by the events consumed:
whatever happens afterwards — other nodes completing in any order, or never — the call has
returned the same result at the same point. -/
theorem result_depends_only_on_consumed (sc : Scen) (evs : List Ev) (r : Res) (k : Nat)
    (h : provide sc evs = (r, k)) (hr : r ≠ .stuck) (evs' : List Ev) :
    provide sc (evs.take k ++ evs') = (r, k) := by
  unfold provide at h ⊢
  split
  · rename_i he; simp only [he, if_true] at h; exact h
  · rename_i he
    simp only [he] at h
    have := (go_prefix h hr evs').2
    simpa using this

/-- **Fails only when all primaries fail.** If the call returns a node's error (or, with an
`isSuccessFunc`, a rejected output), then every primary node has completed — within the events
consumed — without success; if the result comes from a fallback node, every fallback node has as
well. -/
theorem fail_only_if_all_fail (sc : Scen) (evs : List Ev) (r : Res) (k : Nat) (fb : Bool)
    (h : provide sc evs = (r, k)) (hf : failStage r = some fb) :
    AllFailed sc (evs.take k) fb := by
  have hr : r ≠ .stuck := by intro h'; rw [h'] at hf; cases hf
  have h2 := result_depends_only_on_consumed sc evs r k h hr []
  simp only [List.append_nil] at h2
  unfold provide at h2
  split at h2
  · simp only [Prod.mk.injEq] at h2; rw [← h2.1] at hf; cases hf
  · have := go_fail (finv_init sc) h2 hf
    simpa using this

/-- **Fallback decision (exactly as the code decides).** When the last primary `l` completes
unsuccessfully after all others did (no success, no cancellation): if there are fallback nodes and
`l`'s error — the error of the primary that completed *last* — is a timeout, syncing or bad-gateway
error, the fallback nodes are queried and the call continues as a call on them; otherwise the call
returns `l`'s result (the last error, or the last rejected output). -/
theorem fallback_decision (sc : Scen) (pre post : List Ev) (l : Nat) (nl : Node)
    (hl : sc.prim[l]? = some nl) (hfail : isOk sc nl.out = false)
    (hq : Quiet sc false [l] pre)
    (hall : ∀ j, j < sc.prim.length → j ≠ l → Ev.rel false j ∈ pre) :
    provide sc (pre ++ Ev.rel false l :: post) =
      (if sc.fb ≠ [] ∧ unavailable nl.out = true
       then go sc (initSt sc.fb.length true) post (pre.length + 1)
       else (groupEnd false (some (l, nl.out)), pre.length + 1)) ∧
    usedFallback sc (pre ++ Ev.rel false l :: post) =
      (decide (sc.fb ≠ []) && unavailable nl.out) := by
  have hne : sc.prim.isEmpty = false := by
    cases h : sc.prim with
    | nil => rw [h] at hl; cases hl
    | cons _ _ => rfl
  obtain ⟨st, hst, hstage, hnc, hlp, hemp⟩ :=
    after_all_but_last sc false pre l nl (by simpa [nodes] using hl) hq (by simpa [nodes] using hall)
  have hnodes : nodes sc false = sc.prim := by simp [nodes]
  rw [hnodes] at hst
  have hstep : stepEv sc st (Ev.rel false l) =
      groupReturn sc false (groupEnd false (some (l, nl.out))) := by
    simp [stepEv, hstage, hlp, hnodes, hl, hnc, hfail, hemp]
  have hout : nl.out ≠ .ok := by intro h; rw [h] at hfail; simp [isOk] at hfail
  constructor
  · simp only [provide, hne, Bool.false_eq_true, if_false]
    rw [go_append hst]
    simp only [go, hstep, groupReturn, Bool.false_eq_true, if_false]
    cases ho : nl.out with
    | ok => exact absurd ho hout
    | nok => simp [groupEnd, afterPrimaries, unavailable]
    | timeout =>
      by_cases hf : sc.fb = [] <;> simp [groupEnd, afterPrimaries, unavailable, hf, Nat.add_comm]
    | syncing =>
      by_cases hf : sc.fb = [] <;> simp [groupEnd, afterPrimaries, unavailable, hf, Nat.add_comm]
    | badgw =>
      by_cases hf : sc.fb = [] <;> simp [groupEnd, afterPrimaries, unavailable, hf, Nat.add_comm]
    | other => simp [groupEnd, afterPrimaries, unavailable]
  · simp only [usedFallback, hne, Bool.false_eq_true, if_false]
    rw [goFb_append hst]
    simp only [goFb, hstep, groupReturn, Bool.false_eq_true, if_false]
    cases ho : nl.out with
    | ok => exact absurd ho hout
    | nok => simp [groupEnd, afterPrimaries, unavailable, hstage]
    | timeout =>
      by_cases hf : sc.fb = []
      · simp [groupEnd, afterPrimaries, unavailable, hf, hstage]
      · simp [groupEnd, afterPrimaries, unavailable, hf, goFb_true (show (initSt sc.fb.length true).fbStage = true from rfl)]
    | syncing =>
      by_cases hf : sc.fb = []
      · simp [groupEnd, afterPrimaries, unavailable, hf, hstage]
      · simp [groupEnd, afterPrimaries, unavailable, hf, goFb_true (show (initSt sc.fb.length true).fbStage = true from rfl)]
    | badgw =>
      by_cases hf : sc.fb = []
      · simp [groupEnd, afterPrimaries, unavailable, hf, hstage]
      · simp [groupEnd, afterPrimaries, unavailable, hf, goFb_true (show (initSt sc.fb.length true).fbStage = true from rfl)]
    | other => simp [groupEnd, afterPrimaries, unavailable, hstage]

/-- **The fallback nodes behave like the primaries**: once they are queried, the first of them that
completes successfully decides the call, at that very event, whatever the others do. -/
theorem fallback_success_if_any (sc : Scen) (pre post : List Ev) (i : Nat) (nd : Node) (n : Nat)
    (hn : sc.fb[i]? = some nd) (hok : isOk sc nd.out = true)
    (hq : Quiet sc true [i] pre) :
    go sc (initSt sc.fb.length true) (pre ++ Ev.rel true i :: post) n =
      (.okFrom true i, n + pre.length + 1) := by
  have := go_first_success sc true pre post i nd n (by simpa [nodes] using hn) hok hq
  simpa [nodes] using this

/-- **Cancellation returns promptly.** If the caller's context is cancelled while the call is
waiting and some node it waits for honours its context, the call returns the context's error at
that very event, however many nodes are hung. -/
theorem cancel_prompt (sc : Scen) (pre post : List Ev) (st : St)
    (hne : sc.prim ≠ [])
    (hst : after sc (initSt sc.prim.length false) pre = some st) (hnc : st.cancelled = false)
    (i : Nat) (nd : Node) (hi : i ∈ st.pending) (hn : (nodes sc st.fbStage)[i]? = some nd)
    (hhon : nd.hon = true) :
    provide sc (pre ++ Ev.cancel :: post) = (.ctxErr, pre.length + 1) := by
  have hne' : sc.prim.isEmpty = false := by
    cases h : sc.prim with
    | nil => exact absurd h hne
    | cons _ _ => rfl
  simp only [provide, hne', Bool.false_eq_true, if_false]
  rw [go_append hst]
  have hstep : stepEv sc st .cancel = .inr .ctxErr := by
    simp only [stepEv, hnc, Bool.false_eq_true, if_false]
    rw [if_pos]
    rw [List.any_eq_true]
    exact ⟨i, hi, by simp [hn, hhon]⟩
  simp [go, hstep]

/-- … and if none of the nodes it waits for honours its context, it returns the context's error at
the next completion of any of them (never a node's result obtained after the cancellation). -/
theorem cancel_returns_at_next_completion (sc : Scen) (pre post : List Ev) (st : St)
    (hne : sc.prim ≠ [])
    (hst : after sc (initSt sc.prim.length false) pre = some st) (hc : st.cancelled = true)
    (i : Nat) (nd : Node) (hi : i ∈ st.pending) (hn : (nodes sc st.fbStage)[i]? = some nd) :
    provide sc (pre ++ Ev.rel st.fbStage i :: post) = (.ctxErr, pre.length + 1) := by
  have hne' : sc.prim.isEmpty = false := by
    cases h : sc.prim with
    | nil => exact absurd h hne
    | cons _ _ => rfl
  simp only [provide, hne', Bool.false_eq_true, if_false]
  rw [go_append hst]
  simp [go, stepEv, hi, hn, hc]

/-- **`submit` is `provide` with the empty result.** For work functions without a result to reject,
a submit-style call returns, at the same event, what the provide-style call over the same nodes
returns, with the output erased. -/
theorem submit_is_provide (sc : Scen) (evs : List Ev)
    (hno : ∀ n, n ∈ sc.prim ++ sc.fb → n.out ≠ .nok) :
    submit sc evs = (eraseOutput (provide sc evs).1, (provide sc evs).2) := by
  simp only [submit, provide]
  split
  · rfl
  · rw [go_sf_irrelevant sc false hno]

/-! ### T-multi: every endpoint of the multi client is such a call -/

open CharonV.Generated.Multi in
/-- methods of `multi` that are not beacon API calls (configuration, identity, status flags). -/
def nonEndpoint : List String :=
  ["Address", "ClientForAddress", "Headers", "IsActive", "IsSynced", "Name", "SetDutiesCache",
   "SetForkVersion", "SetValidatorCache"]

open CharonV.Generated.Multi in
/-- **Every endpoint is routed through `provide`/`submit` with the configured primary and fallback
nodes** (table regenerated from `eth2wrap_gen.go` and `multi.go` on every run). -/
theorem every_endpoint_routed : ∀ m ∈ multiMethods, m.2 = true ∨ m.1 ∈ nonEndpoint := by decide

/-! ### Non-vacuity and witnesses (concrete runs) -/

private def h (o : Outcome) : Node := ⟨o, true⟩
private def ig (o : Outcome) : Node := ⟨o, false⟩

-- three primaries: a timeout first, then a success; the third node is hung: success at event 2.
example : provide ⟨[h .timeout, h .ok, ig .other], [], true⟩ [.rel false 0, .rel false 1] =
    (.okFrom false 1, 2) := by decide

-- the success is the first completion: the other two nodes are never waited for.
example : provide ⟨[h .timeout, h .ok, ig .other], [h .ok], true⟩ [.rel false 1, .rel false 0, .rel false 2] =
    (.okFrom false 1, 1) := by decide

-- all primaries fail, the one completing last with a syncing error: fallbacks consulted and the
-- first fallback success is returned.
example :
    provide ⟨[h .other, h .syncing], [h .other, h .ok], true⟩
      [.rel false 0, .rel false 1, .rel true 1] = (.okFrom true 1, 3) ∧
    usedFallback ⟨[h .other, h .syncing], [h .other, h .ok], true⟩
      [.rel false 0, .rel false 1, .rel true 1] = true := by decide

-- the same nodes, the other completion order: the last error is not an unavailability error, the
-- fallbacks are not consulted although one primary was syncing ("decided by the last error").
example :
    provide ⟨[h .other, h .syncing], [h .other, h .ok], true⟩
      [.rel false 1, .rel false 0, .rel true 1] = (.errFrom false 0 .other, 2) ∧
    usedFallback ⟨[h .other, h .syncing], [h .other, h .ok], true⟩
      [.rel false 1, .rel false 0, .rel true 1] = false := by decide

-- cancellation with a hung node that honours its context: prompt; with nodes that ignore it: at
-- the next completion.
example : provide ⟨[h .ok, ig .ok], [], true⟩ [.cancel] = (.ctxErr, 1) := by decide
example : provide ⟨[ig .ok, ig .ok], [], true⟩ [.cancel, .rel false 1] = (.ctxErr, 2) := by decide
example : provide ⟨[ig .ok, ig .ok], [], true⟩ [.cancel] = (.stuck, 1) := by decide

-- with an isSuccessFunc, outputs rejected by all nodes: the last one is returned without error.
example : provide ⟨[h .nok, h .nok], [h .ok], true⟩ [.rel false 1, .rel false 0] =
    (.nokFrom false 0, 2) := by decide

-- submit: same events, result without output.
example : submit ⟨[h .timeout, h .ok], [], false⟩ [.rel false 0, .rel false 1] =
    (.okFrom false 0, 2) := by decide

example : ("AttesterDuties", true) ∈ CharonV.Generated.Multi.multiMethods ∧
    ("SubmitAttestations", true) ∈ CharonV.Generated.Multi.multiMethods := by decide

end CharonV.Provide
