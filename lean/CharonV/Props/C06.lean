/-
C06 — duty store (`core/dutydb/memory.go`).

"For every duty key (attestation slot+committee, proposal slot, aggregate root, sync contribution
key) all answers the duty store ever gives have identical signed content, data that conflicts with
what is already stored is rejected and never replaces or coexists with it, and data for expired
duties is refused. A blocking query returns only stored data and returns promptly once a successful
store has provided its key, however queries, stores, cancellations and expiries interleave."

Property theorems only (helper lemmas: `CharonV.Proofs.DutyDB`). Every theorem quantifies over all
configurations `cfg` (code as it is / with the proposed fixes), all states or all operation
sequences from the empty store, and all iteration orders of the data set (the order of `set`).

The code AS IT IS (`Cfg.asIs`) violates the property in two places; the full statements are kept
here and proved for the fixed configuration, the as-is code gets `_partial` theorems and concrete
negation witnesses:

  FULL (answers_unique):  ∀ ops k v v', (k,v) ∈ answers → (k,v') ∈ answers → v = v'
    [D-4] fails for aggregate keys: an aggregate with the same data root REPLACES the stored one
          (witness `d4_*`); holds for all other kinds, and for aggregates with `keepFirstAgg`.
    [D-5] fails across an expiry when a datum's slot differs from the slot of the duty it is stored
          under (keys come from the datum, expiry and the expired-check from the duty; witness
          `d5_*`); holds when every datum has the duty's slot, or with `checkSlot`.
  FULL (expired_data_refused): no key whose own duty has expired is ever (re)populated — same [D-5].
-/
import CharonV.Proofs.DutyDB

namespace CharonV.DutyDB

/-! ### a blocking query returns only stored data -/

/-- **Only stored data.** Every answer ever given (blocking query or `PubKeyByAttestation`) is a
value that some `Store` call supplied for exactly that key. -/
theorem await_sound (cfg : Cfg) (ops : List Op) :
    ∀ a ∈ (run cfg {} ops).answers,
      ∃ duty ex set, Op.store duty ex set ∈ ops ∧
        ∃ dat ∈ set, ∃ w ∈ (plan cfg duty dat).1, a = (w.key, w.val) := by
  intro a ha
  obtain ⟨h1, h2⟩ := run_sound cfg ops {} sound_init
  rcases h2 a (h1.ansHist a ha) with h3 | ⟨op, hop, h3⟩
  · cases h3
  · cases op with
    | store duty ex set =>
      simp only [suppliedBy, List.mem_map] at h3
      obtain ⟨w, hw, rfl⟩ := h3
      obtain ⟨dat, hd, hw'⟩ := planSet_mem cfg duty set w hw
      exact ⟨duty, ex, set, hop, dat, hd, w, hw', rfl⟩
    | await k => cases h3
    | cancel q => cases h3
    | expire d n => cases h3
    | pubkey a b c => cases h3

/-- **The answer is the value held at that moment**: what an operation answers to a query is the
value stored under the query's key when the queries are resolved (for `Store`: after the writes
of this call, before its expiry loop). -/
theorem answer_is_stored_value (cfg : Cfg) (s : State) (op : Op) :
    ∀ a ∈ (step cfg s op).2.resolved,
      match op with
      | .store duty _ set => lookup a.2.1 (storeSet cfg s duty set).1.kv = some a.2.2
      | _ => lookup a.2.1 s.kv = some a.2.2 := by
  intro a ha
  cases op with
  | store duty ex set =>
    simp only [step] at ha ⊢
    rcases storeOp_cases cfg s duty ex set with ⟨_, h1⟩ | ⟨_, e, h1⟩ | ⟨_, kd, e, _, _, h1⟩ | ⟨_, kd, _, _, _, h1, _⟩
    · rw [h1] at ha; cases ha
    · rw [h1] at ha; cases ha
    · rw [h1] at ha; cases ha
    · rw [h1] at ha
      obtain ⟨_, _, _, _, _, _, hl⟩ := resolve_answer_mem ha
      exact hl
  | await k =>
    simp only [step, awaitOp] at ha ⊢
    split at ha
    · cases ha
    · obtain ⟨_, _, _, _, _, _, hl⟩ := resolve_answer_mem ha
      exact hl
  | cancel q => cases ha
  | expire d n => cases ha
  | pubkey a b c =>
    simp only [step] at ha
    split at ha <;> cases ha

/-! ### all answers for a key are identical -/

/-- **Answers are unique per key** (partial: see the header for the full statement).
Hypotheses: the key is not an aggregate key unless the keep-first fix is on [D-4]; every stored
datum carries the slot of the duty it is stored under unless the slot check is on [D-5]. Then any
two answers ever given for one key — before or after cancellations, failed stores, expiries,
re-stores — are equal. -/
theorem answers_unique_partial (cfg : Cfg) (ops : List Op)
    (hslot : cfg.checkSlot = true ∨ ∀ op ∈ ops, op.slotOK = true) (k : Key) (v v' : Val)
    (hkind : k.kind ≠ .agg ∨ cfg.keepFirstAgg = true)
    (h1 : (k, v) ∈ (run cfg {} ops).answers) (h2 : (k, v') ∈ (run cfg {} ops).answers) : v = v' := by
  have hi := run_inv cfg ops hslot {} (inv_init cfg)
  exact hi.histUniq k v v' (hi.ansHist _ h1) (hi.ansHist _ h2) hkind

/-- **Full statement, with both proposed fixes**: no hypothesis on the inputs at all. -/
theorem answers_unique_fixed (ops : List Op) (k : Key) (v v' : Val)
    (h1 : (k, v) ∈ (run Cfg.fixed {} ops).answers) (h2 : (k, v') ∈ (run Cfg.fixed {} ops).answers) :
    v = v' :=
  answers_unique_partial Cfg.fixed ops (Or.inl rfl) k v v' (Or.inr rfl) h1 h2

/-! ### conflicting data is rejected, never replaces, never coexists -/

/-- **A conflicting datum makes the whole call fail.** If the data set contains a datum one of whose
writes clashes with the value stored under its key (attestation data / pubkey / contribution:
different content; proposal: different block root; committee-0 alias: different source or target),
then — in every iteration order — `Store` returns an error, answers no query, and that key keeps
its value. (Writes of entries visited before the failing one stay: `failing_store_effect`.) -/
theorem conflicting_store_rejected (cfg : Cfg) (s : State) (duty : Duty) (set : List Datum)
    (dat : Datum) (hd : dat ∈ set) (w : Write) (hw : w ∈ (plan cfg duty dat).1) (old : Val) (e : Err)
    (hl : lookup w.key s.kv = some old) (hc : clash w.chk old w.val = some e) (ex : Bool) :
    (∃ e', (step cfg s (.store duty ex set)).2.res = .err e') ∧
    (step cfg s (.store duty ex set)).2.resolved = [] ∧
    (step cfg s (.store duty ex set)).1.answers = s.answers ∧
    lookup w.key (step cfg s (.store duty ex set)).1.kv = some old := by
  have hwf := planSet_wf cfg duty set
  have hgood : good cfg w.key := by
    left
    intro hk
    have := (plan_wf cfg duty dat w hw).mpr hk
    rw [this, clash_agg_none] at hc; cases hc
  -- the write phase fails
  have hfail : ∃ e', (storeSet cfg s duty set).2 = some e' := by
    have hreach : w ∈ (planSet cfg duty set).1 ∨ ∃ e', (planSet cfg duty set).2 = some e' := by
      clear hl hc hgood hwf
      induction set with
      | nil => cases hd
      | cons d ds ih =>
        unfold planSet
        cases hp : (plan cfg duty d).2 with
        | some e' => right; exact ⟨e', rfl⟩
        | none =>
          simp only
          rcases List.mem_cons.mp hd with rfl | hd'
          · left; exact List.mem_append_left _ hw
          · rcases ih hd' with h | ⟨e', h⟩
            · left; exact List.mem_append_right _ h
            · right; exact ⟨e', h⟩
    unfold storeSet
    rcases hreach with h | ⟨e', h⟩
    · obtain ⟨e', he', _⟩ := applyWrites_conflict cfg _ hwf s h hl hc
      rw [he']; exact ⟨e', rfl⟩
    · cases ha : (applyWrites cfg s (planSet cfg duty set).1).2 with
      | some e'' => exact ⟨e'', rfl⟩
      | none => exact ⟨e', h⟩
  have hkeep : lookup w.key (storeSet cfg s duty set).1.kv = some old := by
    rw [storeSet_fst]; exact applyWrites_lookup_pres cfg _ hwf s hl hgood
  simp only [step]
  rcases storeOp_cases cfg s duty ex set with ⟨_, h1⟩ | ⟨_, e1, h1⟩ | ⟨_, kd, e1, _, _, h1⟩ | ⟨_, kd, _, hn, _⟩
  · rw [h1]; exact ⟨⟨_, rfl⟩, rfl, rfl, hl⟩
  · rw [h1]; exact ⟨⟨_, rfl⟩, rfl, rfl, hl⟩
  · rw [h1]; exact ⟨⟨_, rfl⟩, rfl, (storeSet_frame cfg s duty set).2.2.2.2, hkeep⟩
  · obtain ⟨e', he'⟩ := hfail
    rw [he'] at hn; cases hn

/-- **A stored value is never replaced** (partial: not for aggregate keys as the code is [D-4]).
Whatever the operation, a key keeps its value or is deleted (by the expiry loop). -/
theorem stored_never_replaced_partial (cfg : Cfg) (s : State) (op : Op) (k : Key) (v : Val)
    (hl : lookup k s.kv = some v) (hkind : k.kind ≠ .agg ∨ cfg.keepFirstAgg = true) :
    lookup k (step cfg s op).1.kv = some v ∨ lookup k (step cfg s op).1.kv = none := by
  cases op with
  | store duty ex set =>
    simp only [step]
    have hkeep : lookup k (storeSet cfg s duty set).1.kv = some v := by
      rw [storeSet_fst]; exact applyWrites_lookup_pres cfg _ (planSet_wf cfg duty set) s hl hkind
    rcases storeOp_cases cfg s duty ex set with ⟨_, h1⟩ | ⟨_, e1, h1⟩ | ⟨_, kd, e1, _, _, h1⟩ | ⟨_, kd, _, _, h1, _⟩
    · rw [h1]; exact Or.inl hl
    · rw [h1]; exact Or.inl hl
    · rw [h1]; exact Or.inl hkeep
    · rw [h1]
      rcases (drain_rel (resolve kd (storeSet cfg s duty set).1).1 _).2.2.2.2.2.1 k with h | h
      · left; rw [h, resolve_kv]; exact hkeep
      · exact Or.inr h
  | await k' =>
    simp only [step, awaitOp]
    split <;> exact Or.inl hl
  | cancel q => exact Or.inl hl
  | expire d n => exact Or.inl hl
  | pubkey a b c =>
    simp only [step]
    split <;> exact Or.inl hl

/-- **Never coexists**: in every reachable state no key occurs twice in the maps. -/
theorem one_value_per_key (cfg : Cfg) (ops : List Op) :
    (run cfg {} ops).kv.Pairwise (fun a b => a.1 ≠ b.1) := by
  have : ∀ (s : State), KeysNodup s.kv → KeysNodup (run cfg s ops).kv := by
    induction ops with
    | nil => intro s h; exact h
    | cons op ops ih => intro s h; exact ih _ (step_keysNodup cfg s op h)
  exact this {} List.Pairwise.nil

/-- **Partial effects of a failing call, exactly**: when the planned writes of the call are
`ws1 ++ w :: ws2` (iteration order), `ws1` succeed and `w` clashes, the call returns that clash with
precisely the writes `ws1` applied. -/
theorem failing_store_effect (cfg : Cfg) (s : State) (duty : Duty) (set : List Datum)
    (ws1 : List Write) (w : Write) (ws2 : List Write) (e : Err)
    (hsplit : (planSet cfg duty set).1 = ws1 ++ w :: ws2)
    (h1 : (applyWrites cfg s ws1).2 = none)
    (h2 : (applyWrite cfg (applyWrites cfg s ws1).1 w).2 = some e) :
    storeSet cfg s duty set = ((applyWrites cfg s ws1).1, some e) := by
  have := applyWrites_prefix cfg ws1 w ws2 s h1 h2
  unfold storeSet
  rw [hsplit, this]

/-! ### data for expired duties is refused -/

/-- **A `Store` for an expired (or exempt) duty is refused without any effect**: not even the
expiry channel is read. -/
theorem expired_refused (cfg : Cfg) (s : State) (duty : Duty) (ex : Bool) (set : List Datum)
    (h : ex = true ∨ duty ∈ s.expired) :
    step cfg s (.store duty ex set) = (s, ⟨.err .expired, []⟩) := by
  simp only [step, storeOp, if_pos h]

/-- **No data of an expired duty gets in** (partial: see the header). When the stored data carry
the slot of the duty they are stored under (or the slot check is on), an operation never populates
a key whose own duty (the key's slot and kind) has expired. As the code is this fails [D-5]. -/
theorem expired_data_refused_partial (cfg : Cfg) (s : State) (op : Op)
    (hslot : cfg.checkSlot = true ∨ op.slotOK = true) (k : Key) (v : Val)
    (h0 : lookup k s.kv = none) (h1 : lookup k (step cfg s op).1.kv = some v) :
    k.duty ∉ s.expired := by
  cases op with
  | store duty ex set =>
    simp only [step] at h1
    have hS : ¬ (ex = true ∨ duty ∈ s.expired) → lookup k (storeSet cfg s duty set).1.kv = some v →
        k.duty ∉ s.expired := by
      intro hc hl
      rw [storeSet_fst] at hl
      obtain ⟨w, hw, hk⟩ := applyWrites_new_key cfg _ s h0 hl
      have := planSet_okFor cfg duty set (by simpa [Op.slotOK] using hslot) w hw
      rw [← hk, this.1]
      exact fun hm => hc (Or.inr hm)
    rcases storeOp_cases cfg s duty ex set with ⟨_, h2⟩ | ⟨_, e1, h2⟩ | ⟨hc, kd, e1, _, _, h2⟩ | ⟨hc, kd, _, _, h2, _⟩
    · rw [h2, h0] at h1; cases h1
    · rw [h2, h0] at h1; cases h1
    · rw [h2] at h1; exact hS hc h1
    · rw [h2] at h1
      rcases (drain_rel (resolve kd (storeSet cfg s duty set).1).1 _).2.2.2.2.2.1 k with h | h
      · rw [h, resolve_kv] at h1; exact hS hc h1
      · rw [h] at h1; cases h1
  | await k' =>
    simp only [step, awaitOp] at h1
    split at h1
    · rw [h0] at h1; cases h1
    · rw [resolve_kv] at h1; simp only at h1; rw [h0] at h1; cases h1
  | cancel q => simp only [step] at h1; rw [h0] at h1; cases h1
  | expire d n => simp only [step] at h1; rw [h0] at h1; cases h1
  | pubkey a b c =>
    simp only [step] at h1
    split at h1 <;> (simp only at h1; rw [h0] at h1; cases h1)

/-! ### a blocking query returns promptly -/

/-- **Prompt after a successful `Store`.** When `Store` for a duty of query kind `kd` returns
success, no uncancelled query of that kind is left pending whose key is present. -/
theorem await_prompt (cfg : Cfg) (s : State) (duty : Duty) (ex : Bool) (set : List Datum) (kd : Kind)
    (hk : duty.type.kind? = some kd) (hok : (step cfg s (.store duty ex set)).2.res = .ok) :
    ∀ q ∈ (step cfg s (.store duty ex set)).1.pend, q.key.kind = kd → q.cancelled = false →
      lookup q.key (step cfg s (.store duty ex set)).1.kv = none := by
  simp only [step] at hok ⊢
  rcases storeOp_cases cfg s duty ex set with ⟨_, h1⟩ | ⟨_, e1, h1⟩ | ⟨_, kd', e1, _, _, h1⟩ | ⟨_, kd', hk', _, h1, _⟩
  · rw [h1] at hok; cases hok
  · rw [h1] at hok; cases hok
  · rw [h1] at hok; cases hok
  · rw [hk] at hk'; cases hk'
    rw [h1]
    have hr := drain_rel (resolve kd (storeSet cfg s duty set).1).1 (resolve kd (storeSet cfg s duty set).1).1.chan
    intro q hq hkind hc
    rw [hr.1] at hq
    have := resolve_pend_prompt hq hkind hc
    rcases hr.2.2.2.2.2.1 q.key with h | h
    · rw [h, resolve_kv]; exact this
    · exact h

/-- **Prompt at registration.** After the locked part of an `Await*` call, no uncancelled query of
that kind (the new one included) is pending with its key present. -/
theorem await_prompt_registration (cfg : Cfg) (s : State) (k : Key) (hk : k.kind ≠ .pk) :
    ∀ q ∈ (step cfg s (.await k)).1.pend, q.key.kind = k.kind → q.cancelled = false →
      lookup q.key (step cfg s (.await k)).1.kv = none := by
  simp only [step, awaitOp, if_neg hk]
  intro q hq hkind hc
  have := resolve_pend_prompt hq hkind hc
  rw [resolve_kv]; exact this

/-- **No query is lost.** A pending, uncancelled query stays pending through any operation unless
that operation answers it or is its cancellation (then it stays listed, flagged, until the next
resolve of its kind drops it). -/
theorem query_not_lost (cfg : Cfg) (s : State) (op : Op) (q : Query) (hq : q ∈ s.pend)
    (hc : q.cancelled = false) :
    q ∈ (step cfg s op).1.pend ∨ (∃ v, (q.qid, q.key, v) ∈ (step cfg s op).2.resolved) ∨
    (∃ n, op = .cancel n ∧ n = q.qid ∧ { q with cancelled := true } ∈ (step cfg s op).1.pend) := by
  cases op with
  | store duty ex set =>
    simp only [step]
    rcases storeOp_cases cfg s duty ex set with ⟨_, h1⟩ | ⟨_, e1, h1⟩ | ⟨_, kd, e1, _, _, h1⟩ | ⟨_, kd, _, _, h1, h2, _⟩
    · rw [h1]; exact Or.inl hq
    · rw [h1]; exact Or.inl hq
    · rw [h1]; left; simp only; rw [(storeSet_frame cfg s duty set).1]; exact hq
    · rw [h1, h2]
      have hr := drain_rel (resolve kd (storeSet cfg s duty set).1).1 (resolve kd (storeSet cfg s duty set).1).1.chan
      rw [hr.1]
      have hq' : q ∈ (storeSet cfg s duty set).1.pend := by
        rw [(storeSet_frame cfg s duty set).1]; exact hq
      rcases resolve_not_lost (kd := kd) hq' hc with h | h
      · exact Or.inl h
      · exact Or.inr (Or.inl h)
  | await k =>
    simp only [step, awaitOp]
    split
    · exact Or.inl hq
    · have hq' : q ∈ ({ s with pend := s.pend ++ [⟨s.nextQ, k, false⟩], nextQ := s.nextQ + 1 } : State).pend :=
        List.mem_append_left _ hq
      rcases resolve_not_lost (kd := k.kind) hq' hc with h | h
      · exact Or.inl h
      · exact Or.inr (Or.inl h)
  | cancel n =>
    simp only [step]
    by_cases hn : q.qid = n
    · right; right
      refine ⟨n, rfl, hn.symm, ?_⟩
      simp only [List.mem_map]
      exact ⟨q, hq, by rw [if_pos hn]⟩
    · left
      simp only [List.mem_map]
      exact ⟨q, hq, by rw [if_neg hn]⟩
  | expire d n => exact Or.inl hq
  | pubkey a b c =>
    simp only [step]
    split <;> exact Or.inl hq

/-! ### concurrent calls: the linearisability reading -/

/-- **Every linearisation of concurrently issued calls is safe.** `MemDB` serialises its public
methods by `db.mu`, held from the first to the last access of the state, so what the store does
with a batch of calls issued at the same time by different goroutines is what it does with SOME
sequential order `lin` of them — whichever goroutine wins the lock first. All theorems of this
file are invariants over every operation sequence (or hold for every state and step), hence for
every such order; this corollary spells that out for the history-level statements: after any
history `pre`, any order `lin` of the concurrent `batch`, and any continuation `post`, answers are
unique per key (under the hypotheses of `answers_unique_partial`, which only concern the DATA of
the calls, not their order), every answer was supplied by a `Store` of the history for that key,
and no key holds two values. The step-level theorems (`conflicting_store_rejected`,
`stored_never_replaced_partial`, `expired_refused`, `expired_data_refused_partial`, `await_prompt`,
`await_prompt_registration`, `query_not_lost`, `answer_is_stored_value`) quantify over all states
and therefore apply to each step of each linearisation as they are.
That the real methods ARE atomic (the lock is held throughout) is not proved here: it is tied by the
racing operations of the `dutydb` correspondence stream, which accept a concurrent execution on the
real `MemDB` only if some order of the atomic model operations reproduces every call's result, every
answer and the final state. -/
theorem concurrent_batch_safe (cfg : Cfg) (pre batch lin post : List Op) (hlin : lin.Perm batch)
    (hslot : cfg.checkSlot = true ∨ ∀ op ∈ pre ++ batch ++ post, op.slotOK = true) :
    (∀ k v v', (k.kind ≠ .agg ∨ cfg.keepFirstAgg = true) →
      (k, v) ∈ (run cfg {} (pre ++ lin ++ post)).answers →
      (k, v') ∈ (run cfg {} (pre ++ lin ++ post)).answers → v = v') ∧
    (∀ a ∈ (run cfg {} (pre ++ lin ++ post)).answers,
      ∃ duty ex set, Op.store duty ex set ∈ pre ++ batch ++ post ∧
        ∃ dat ∈ set, ∃ w ∈ (plan cfg duty dat).1, a = (w.key, w.val)) ∧
    (run cfg {} (pre ++ lin ++ post)).kv.Pairwise (fun a b => a.1 ≠ b.1) := by
  have hmem : ∀ op, op ∈ pre ++ lin ++ post ↔ op ∈ pre ++ batch ++ post := by
    intro op
    simp only [List.mem_append]
    rw [hlin.mem_iff]
  refine ⟨?_, ?_, one_value_per_key cfg _⟩
  · intro k v v' hk h1 h2
    refine answers_unique_partial cfg (pre ++ lin ++ post) ?_ k v v' hk h1 h2
    rcases hslot with h | h
    · exact Or.inl h
    · exact Or.inr (fun op hop => h op ((hmem op).mp hop))
  · intro a ha
    obtain ⟨duty, ex, set, hop, rest⟩ := await_sound cfg (pre ++ lin ++ post) a ha
    exact ⟨duty, ex, set, (hmem _).mp hop, rest⟩

/-! ### witnesses and non-vacuity (concrete runs; tests of the statements, not proofs) -/

/-- [D-4] an aggregate with the same data root (same key) but other aggregation bits / signature. -/
def d4ops : List Op :=
  [ .store ⟨7, .aggregator⟩ false [.agg ⟨7, 701, 1, 1⟩],
    .await (.agg 7 701 1),
    .store ⟨7, .aggregator⟩ false [.agg ⟨7, 701, 1, 2⟩],
    .await (.agg 7 701 1) ]

-- as the code is: the second store succeeds and the same key is answered differently
example : (run Cfg.asIs {} d4ops).answers = [(.agg 7 701 1, .agg 2), (.agg 7 701 1, .agg 1)] := by decide
-- so `answers_unique` and `stored_never_replaced` are false for aggregate keys as the code is
example : ¬ ∀ k v v', (k, v) ∈ (run Cfg.asIs {} d4ops).answers →
    (k, v') ∈ (run Cfg.asIs {} d4ops).answers → v = v' := by
  intro h
  have := h (.agg 7 701 1) (.agg 2) (.agg 1) (by decide) (by decide)
  cases this
-- with the keep-first fix the first aggregate stays
example : (run Cfg.fixed {} d4ops).answers = [(.agg 7 701 1, .agg 1), (.agg 7 701 1, .agg 1)] := by decide

/-- [D-5] duty (7, attester) expires; the same key is then populated again through duty (8, attester). -/
def d5ops : List Op :=
  [ .store ⟨7, .attester⟩ false [.att ⟨1, ⟨7, 0, 1, 1, 1⟩, 7, 1, 1⟩],
    .await (.att 7 1),
    .expire ⟨7, .attester⟩ true,
    .store ⟨8, .proposer⟩ false [],                                      -- any later Store runs the expiry loop
    .store ⟨7, .attester⟩ false [.att ⟨1, ⟨7, 0, 2, 2, 2⟩, 7, 1, 1⟩],   -- refused: duty expired
    .store ⟨8, .attester⟩ false [.att ⟨1, ⟨7, 0, 2, 2, 2⟩, 7, 1, 1⟩],   -- accepted: other duty, same keys
    .await (.att 7 1) ]

example : (run Cfg.asIs {} d5ops).answers =
    [(.att 7 1, .att ⟨7, 0, 2, 2, 2⟩), (.att 7 1, .att ⟨7, 0, 1, 1, 1⟩)] := by decide
example : ¬ ∀ k v v', (k, v) ∈ (run Cfg.asIs {} d5ops).answers →
    (k, v') ∈ (run Cfg.asIs {} d5ops).answers → v = v' := by
  intro h
  have := h (.att 7 1) (.att ⟨7, 0, 2, 2, 2⟩) (.att ⟨7, 0, 1, 1, 1⟩) (by decide) (by decide)
  cases this
-- the key (7,1) belongs to the expired duty (7, attester) and is populated nevertheless
example : let s := run Cfg.asIs {} (d5ops.take 5)
    lookup (.att 7 1) s.kv = none ∧ (Key.att 7 1).duty ∈ s.expired ∧
    lookup (.att 7 1) (step Cfg.asIs s (d5ops.getD 5 (.cancel 0))).1.kv = some (.att ⟨7, 0, 2, 2, 2⟩) := by decide
-- with the slot check the cross-slot store is refused and the query stays pending
example : (step Cfg.fixed (run Cfg.fixed {} (d5ops.take 5)) (d5ops.getD 5 (.cancel 0))).2 = ⟨.err .slot, []⟩ ∧
    (run Cfg.fixed {} d5ops).answers = [(.att 7 1, .att ⟨7, 0, 1, 1, 1⟩)] ∧
    (run Cfg.fixed {} d5ops).pend = [⟨1, .att 7 1, false⟩] := by decide

/-- non-vacuity: blocked queries (one of them cancelled) are answered by the store that provides the
key; a conflicting store is refused; a partially conflicting set leaves its first entry stored and
the query on it blocked until the next resolve of that kind (here: the next registration). -/
def nvops : List Op :=
  [ .await (.att 7 2), .await (.att 7 0), .await (.att 7 2), .cancel 0,
    .store ⟨7, .attester⟩ false [.att ⟨1, ⟨7, 0, 1, 1, 1⟩, 7, 2, 5⟩],
    .store ⟨7, .attester⟩ false [.att ⟨1, ⟨7, 0, 2, 1, 1⟩, 7, 2, 5⟩],     -- other head: clash
    .await (.con 7 0 1),
    .store ⟨7, .sync⟩ false [.con [⟨7, 0, 1, 1⟩], .con [⟨7, 1, 1, 1⟩, ⟨7, 0, 1, 2⟩]],  -- 2nd entry clashes with the 1st
    .await (.con 7 1 1) ]

example :
    (step Cfg.asIs (run Cfg.asIs {} (nvops.take 4)) (nvops.getD 4 (.cancel 0))).2 =
      ⟨.ok, [(1, .att 7 0, .att ⟨7, 0, 1, 1, 1⟩), (2, .att 7 2, .att ⟨7, 0, 1, 1, 1⟩)]⟩ ∧
    (step Cfg.asIs (run Cfg.asIs {} (nvops.take 5)) (nvops.getD 5 (.cancel 0))).2 = ⟨.err .clashAtt, []⟩ ∧
    (step Cfg.asIs (run Cfg.asIs {} (nvops.take 7)) (nvops.getD 7 (.cancel 0))).2 = ⟨.err .clashCon, []⟩ ∧
    (run Cfg.asIs {} (nvops.take 8)).pend = [⟨3, .con 7 0 1, false⟩] ∧
    lookup (.con 7 0 1) (run Cfg.asIs {} (nvops.take 8)).kv = some (.con 1) ∧
    (step Cfg.asIs (run Cfg.asIs {} (nvops.take 8)) (nvops.getD 8 (.cancel 0))).2 =
      ⟨.qid 4, [(3, .con 7 0 1, .con 1), (4, .con 7 1 1, .con 1)]⟩ := by decide

-- `concurrent_batch_safe` is not vacuous: the two orders of a racing conflicting pair of Stores (with a
-- blocked query) are different executions — each answers the query with the winner's data — and both are safe
example :
    let a : Op := .store ⟨7, .sync⟩ false [.con [⟨7, 0, 1, 1⟩]]
    let b : Op := .store ⟨7, .sync⟩ false [.con [⟨7, 0, 1, 2⟩]]
    (run Cfg.asIs {} ([.await (.con 7 0 1)] ++ [a, b] ++ [])).answers = [(.con 7 0 1, .con 1)] ∧
    (run Cfg.asIs {} ([.await (.con 7 0 1)] ++ [b, a] ++ [])).answers = [(.con 7 0 1, .con 2)] ∧
    [b, a].Perm [a, b] := by
  refine ⟨by decide, by decide, ?_⟩
  exact List.Perm.swap _ _ _

-- the hypotheses of the `_partial` theorems are satisfiable by runs that do answer queries
example : (∀ op ∈ nvops, op.slotOK = true) ∧ (run Cfg.asIs {} nvops).answers.length = 4 := by decide

end CharonV.DutyDB
