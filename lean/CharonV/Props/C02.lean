/-
C02 — Consensus agreement: honest nodes never decide different values for a duty.

The theorems are about the cluster built from the *implementation model* of `qbft.Run`
(`CharonV.QbftSys`, every honest member runs `CharonV.Qbft.step`, the line-by-line mirror of the Go
code that the correspondence driver `drive-qbft` checks against the real `Run`). They hold
for every cluster size `n ≥ 1`, every Byzantine set with at most `⌊(n-1)/3⌋` members, every
leader function, every comparison function, every FIFO limit, every map-iteration oracle, and
every finite execution: arbitrary delivery order, loss, duplication, replay with recombined
attachments, arbitrary Byzantine messages (each core signed by its source — property C05), timers
firing at any point, late or missing starts and inputs.

Proof architecture: `QbftSys.reach_sim` (refinement of the abstract spec `CharonV.QbftSpec`,
files `Proofs/QbftRefine*.lean`) + `QbftSpec.agreement_events` (the QBFT safety argument with
the compare-failure path, `Proofs/QbftSpec.lean`, property file `Props/C02Spec.lean`).
-/
import CharonV.Proofs.QbftRefine9
import CharonV.Proofs.QbftArith
import CharonV.Props.C02Spec

namespace CharonV.QbftSys

open CharonV.Qbft CharonV.QbftSpec

variable {P : Params} {fifo : Nat}

/-- **Refinement**: each reachable cluster state of implementation nodes corresponds to a
reachable state of the abstract QBFT spec with the same history of sent messages, accepted
proposals, comparison failures and decisions. -/
theorem impl_refines_spec (hn : 1 ≤ P.n) (hb : P.byzCount ≤ faulty P.n) {s : Sys}
    (h : Reach P fifo s) :
    ∃ t, QbftSpec.Reach P t ∧ t.hist = s.hist ∧
      ∀ p, P.honest p → (t.nodes p).decided = (absNode (s.nodes p)).decided := by
  obtain ⟨t, hr, ⟨hh, hnodes⟩, _⟩ := reach_sim hn hb h
  exact ⟨t, hr, hh, fun p hp => (hnodes p hp).1⟩

/-- **Agreement (C02).** Any two decisions ever taken by honest members — `Decide` callbacks of
the implementation, recorded as `Ev.decide` — carry the same value. -/
theorem agreement (hn : 1 ≤ P.n) (hb : P.byzCount ≤ faulty P.n) {s : Sys} (h : Reach P fifo s)
    {i j r v r' v' : Nat} (hi : Ev.decide i r v ∈ s.hist) (hj : Ev.decide j r' v' ∈ s.hist) :
    v = v' := by
  obtain ⟨t, hr, hh, _⟩ := impl_refines_spec hn hb h
  rw [← hh] at hi hj
  exact QbftSpec.agreement_events hn hb hr hi hj

/-- The same, stated on the implementation's own state: two honest members whose `qCommit` is set
hold the same decided value. -/
theorem agreement_state (hn : 1 ≤ P.n) (hb : P.byzCount ≤ faulty P.n) {s : Sys} (h : Reach P fifo s)
    {i j : Nat} (hi : P.honest i) (hj : P.honest j)
    (hdi : (s.nodes i).qCommit.isEmpty = false) (hdj : (s.nodes j).qCommit.isEmpty = false) :
    (s.nodes i).qCommitValue = (s.nodes j).qCommitValue := by
  obtain ⟨t, hr, _, hdec⟩ := impl_refines_spec hn hb h
  have h1 := hdec i hi
  have h2 := hdec j hj
  rw [absNode_decided_some hdi] at h1
  rw [absNode_decided_some hdj] at h2
  exact QbftSpec.agreement hn hb hr hi hj h1 h2

/-- Every `Decide` callback produced by a step of the implementation is in the history that
`agreement` talks about (so the theorem covers every callback ever made). -/
theorem decide_callback_recorded (s : Sys) (p : Nat) (o : Oracle) (e : Event) (v r : Nat)
    (qc : List Core) (h : Out.decide v r qc ∈ (step (mkDef P fifo) o (s.nodes p) e).2) :
    Ev.decide p r v ∈ (next P fifo s p o e).hist :=
  decide_recorded s p o e v r qc h

/-- Quorum arithmetic used throughout, for every cluster size: two quorums share more than `f`
members, and a quorum is reachable without the faulty members. -/
theorem quorum_facts (d : Def) (h : 1 ≤ d.nodes) :
    d.nodes + d.faulty + 1 ≤ 2 * d.quorum ∧ d.faulty < d.quorum ∧ d.quorum ≤ d.nodes - d.faulty :=
  ⟨quorum_intersect d h, faulty_lt_quorum d h, quorum_le_honest d h⟩

end CharonV.QbftSys
