import CharonV.Proofs.SignedData
import CharonV.Generated.SignedData

/-
C14 (extension `signeddata`) — the signed duty data types of core/signeddata.go: `Signature()`, `SetSignature()`,
`MessageRoot()`, `Clone()` and the versioned JSON of EVERY implementation of `core.SignedData`, per fork version
(and per blinded / full form), and `Clone()` of every implementation of `core.UnsignedData`.

The tie to the source is the translator T-signeddata (harness/cmd/trans-signeddata, go/ast + go/types, fails
closed): it regenerates `CharonV.Generated.SignedData.rows` from the method bodies on every run. The laws are
proved once, for EVERY row accepted by the decidable predicate `RowOk`, every object, every signature value and
every hash function; `every_signed_type_ok` then checks `RowOk` on every regenerated row by kernel evaluation.
A source change that makes SetSignature of one version write another field than Signature reads, write into the
receiver, lets MessageRoot hash something that overlaps the signature, or turns a Clone into a struct copy
makes `every_signed_type_ok` false on the next run.

The consequences for C09/C10: the aggregator replaces the signature of one partial by the combined signature
(`SetSignature`) and verifies / publishes the result under `MessageRoot` — `root_setSig` says that is the root of
the object the partials were checked against; `root_ignores_signature` says partials that differ only in their
signature have one root.
-/
namespace CharonV.Props.C14SignedData

open CharonV.SignedData

/-- the regenerated table, decoded -/
def rows : List Row := CharonV.Generated.SignedData.rows.map Row.ofTuple

variable (H : List (Path → Val) → Val)

/-! ### the laws, for every accepted row shape -/

/-- **Signature round trip.** What `SetSignature(s)` returns has signature `s`, for every BLS-length `s`. -/
theorem getSig_setSig {r : Row} (h : RowOk r = true) (x : Obj) {s : Val} (hs : WellFormed s) :
    getSig r (setSig r x s).result = s := by
  have c := rowOk_components h
  unfold getSig setSig
  rcases c.target with t | ⟨t, _, _⟩ <;> rw [t] <;> simp only [c.sameField, write_cells_same, norm_of_wellFormed hs]

/-- Without the length assumption: every type but the bare signature stores `s` cut or zero-padded to 96 bytes
(`ToETH2`), and what it returns is always a BLS-length signature. -/
theorem getSig_setSig_norm {r : Row} (h : RowOk r = true) (hc : r.setOn = .clone) (x : Obj) (s : Val) :
    getSig r (setSig r x s).result = norm s ∧ WellFormed (getSig r (setSig r x s).result) := by
  have c := rowOk_components h
  unfold getSig setSig
  rw [hc]
  simp only [c.sameField, write_cells_same]
  exact ⟨trivial, wellFormed_norm s⟩

/-- **`SetSignature` does not change the signing root.** -/
theorem root_setSig {r : Row} (h : RowOk r = true) (x : Obj) (s : Val) :
    root H r (setSig r x s).result = root H r x := by
  have c := rowOk_components h
  have key : ∀ v, root H r (x.write r.setSig v) = root H r x := by
    intro v
    unfold root
    have : r.rootPaths.map (x.write r.setSig v).sub = r.rootPaths.map x.sub := by
      apply List.map_congr_left
      intro p hp
      exact write_sub_of_incomparable x v (c.sameField ▸ c.disjoint p hp)
    rw [this]
  unfold setSig
  rcases c.target with t | ⟨t, _, _⟩ <;> rw [t] <;> exact key _

/-- **`SetSignature` leaves the receiver as it was.** -/
theorem setSig_receiver_unchanged {r : Row} (h : RowOk r = true) (x : Obj) (s : Val) :
    (setSig r x s).receiver = x := by
  have c := rowOk_components h
  unfold setSig
  rcases c.target with t | ⟨t, _, _⟩ <;> rw [t]

/-- **`SetSignature` changes nothing but the signature field**: every field outside it is carried over. -/
theorem setSig_frame {r : Row} (x : Obj) (s : Val) {q : Path} (hq : r.setSig.isPrefixOf q = false) :
    (setSig r x s).result.cells q = x.cells q := by
  unfold setSig
  cases r.setOn <;> exact write_cells_off x _ hq

/-- **The last `SetSignature` wins** (the aggregator overwrites a partial signature by the combined one). -/
theorem setSig_setSig {r : Row} (x : Obj) (s t : Val) :
    (setSig r (setSig r x s).result t).result = (setSig r x t).result := by
  unfold setSig
  cases r.setOn <;> simp only [write_write]

/-- **A clone equals its original and shares no memory with it.** -/
theorem clone_equal_unshared {r : Row} (h : RowOk r = true) (x : Obj) :
    (clone r x).copy = x ∧ (clone r x).shares = false := by
  have c := rowOk_components h
  simp [clone, c.cloneDeep]

/-- **Objects with equal content have equal roots, whatever their signatures**: if two objects agree on every
field outside the signature field they have one signing root. -/
theorem root_ignores_signature {r : Row} (h : RowOk r = true) (x y : Obj)
    (hxy : ∀ q, r.getSig.isPrefixOf q = false → x.cells q = y.cells q) :
    root H r x = root H r y := by
  have c := rowOk_components h
  unfold root
  have : r.rootPaths.map x.sub = r.rootPaths.map y.sub := by
    apply List.map_congr_left
    intro p hp
    funext q
    unfold Obj.sub
    apply hxy
    cases hpq : r.getSig.isPrefixOf (p ++ q) with
    | false => rfl
    | true => have := c.disjoint p hp; rw [comparable_of_prefix_append hpq] at this; cases this
  rw [this]

/-- **The JSON round trip keeps signature and signing root**: the one field the encoder serialises contains
both, and the decoder fills the same field. -/
theorem json_roundtrip_preserves {r : Row} (h : RowOk r = true) (x : Obj) :
    getSig r (jsonRoundTrip r x) = getSig r x ∧ root H r (jsonRoundTrip r x) = root H r x := by
  have c := rowOk_components h
  have cell : ∀ q, r.jsonDec.isPrefixOf q = true → (jsonRoundTrip r x).cells q = x.cells q := by
    intro q hq
    simp only [jsonRoundTrip, hq, if_true]
    rw [c.jsonSame, append_drop_of_prefix hq]
  constructor
  · exact cell _ (c.jsonSame ▸ c.jsonSig)
  · unfold root
    have : r.rootPaths.map (jsonRoundTrip r x).sub = r.rootPaths.map x.sub := by
      apply List.map_congr_left
      intro p hp
      funext q
      unfold Obj.sub
      apply cell
      have hp' := c.jsonRoot p hp
      rw [c.jsonSame, List.isPrefixOf_iff_prefix] at hp'
      rw [List.isPrefixOf_iff_prefix]
      exact List.IsPrefix.trans hp' (List.prefix_append p q)
    rw [this]

/-! ### the table regenerated from the Go source -/

/-- **Every implementation of `core.SignedData`, in every fork version, has an accepted row.** -/
theorem every_signed_type_ok : ∀ r ∈ rows, RowOk r = true := by
  decide

/-- **The table is complete**: exactly the thirteen implementations of `core.SignedData` that go/types finds in
package core, the versioned ones once per fork version the three accessors distinguish (all of them the same set,
or the translator fails), proposals additionally per blinded form. A new signed type or fork version changes this
list and must be looked at. -/
theorem table_complete :
    rows.map (fun r => (r.typ, r.variant)) =
      [("BeaconCommitteeSelection", ""), ("Signature", ""), ("SignedAggregateAndProof", ""), ("SignedRandao", ""),
       ("SignedSyncContributionAndProof", ""), ("SignedSyncMessage", ""), ("SignedVoluntaryExit", ""),
       ("SyncCommitteeSelection", ""), ("SyncContributionAndProof", "")]
      ++ ["phase0", "altair", "bellatrix", "capella", "deneb", "electra", "fulu"].map (fun v => ("VersionedAttestation", v))
      ++ ["phase0", "altair", "bellatrix", "capella", "deneb", "electra", "fulu"].map (fun v => ("VersionedSignedAggregateAndProof", v))
      ++ ["phase0", "altair", "bellatrix", "bellatrix+blinded", "capella", "capella+blinded", "deneb", "deneb+blinded",
          "electra", "electra+blinded", "fulu", "fulu+blinded"].map (fun v => ("VersionedSignedProposal", v))
      ++ [("VersionedSignedValidatorRegistration", "v1")] := by
  decide

/-- **Only the bare `Signature` has no signing root**; every other type hashes the message sibling of its signature
(or named fields of it), never the whole object. -/
theorem only_bare_signature_without_root :
    ∀ r ∈ rows, (r.rootKind = .unsupported ↔ r.typ = "Signature") ∧ (r.setOn = .param ↔ r.typ = "Signature") := by
  decide

/-- **Every `Clone()` of an unsigned duty data type is a deep copy** (ssz round trip; `SyncContributions`
element-wise through `SyncContribution.Clone`). -/
theorem unsigned_clone_deep :
    CharonV.Generated.SignedData.unsignedRows =
      [("AggregatedAttestation", "ssz"), ("AttestationData", "ssz"), ("SyncContribution", "ssz"),
       ("SyncContributions", "elementwise"), ("VersionedAggregatedAttestation", "ssz"), ("VersionedProposal", "ssz")] ∧
    ∀ u ∈ CharonV.Generated.SignedData.unsignedRows, (CloneKind.ofString u.2).deep = true := by
  decide

set_option maxRecDepth 100000 in
/-- **The helpers every row relies on are the ones the model mirrors**: the two clone helpers serialise the
receiver and decode into the fresh value; `SigFromETH2` / `ToETH2` copy 96 bytes; the charon-side hashers reached
by `MessageRoot` (`SignedEpoch.HashTreeRootWith`, `SlotHashRoot`) hash exactly one integer. -/
theorem helper_text_pinned :
    CharonV.Generated.SignedData.helperText =
      [("core.SigFromETH2", "{ s := make(Signature, sigLen) copy(s, sig[:]) return s }"),
       ("core.Signature.ToETH2", "{ var sig eth2p0.BLSSignature copy(sig[:], s) return sig }"),
       ("core.cloneJSONMarshaler", "{ bytes, err := data.MarshalJSON() if err != nil { return errors.Wrap(err, \"marshal data\") } if err := json.Unmarshal(bytes, v); err != nil { return errors.Wrap(err, \"unmarshal data\") } return nil }"),
       ("core.cloneSSZMarshaler", "{ bytes, err := data.MarshalSSZ() if err != nil { return errors.Wrap(err, \"marshal data\") } if err := v.UnmarshalSSZ(bytes); err != nil { return errors.Wrap(err, \"unmarshal data\") } return nil }"),
       ("eth2util.SignedEpoch.HashTreeRootWith", "{ indx := hh.Index() hh.PutUint64(uint64(s.Epoch)) hh.Merkleize(indx) return nil }"),
       ("eth2util.SlotHashRoot", "{ hasher := ssz.DefaultHasherPool.Get() defer ssz.DefaultHasherPool.Put(hasher) indx := hasher.Index() hasher.PutUint64(uint64(slot)) hasher.Merkleize(indx) hash, err := hasher.HashRoot() if err != nil { return [32]byte{}, errors.Wrap(err, \"hash epoch\") } return hash, nil }")] := by
  decide

/-! ### `RowOk` is not decoration: rows it rejects break the laws -/

/-- a row whose SetSignature writes another field than Signature reads -/
def badOtherField : Row :=
  { typ := "X", variant := "", getSig := ["A", "Signature"], setSig := ["B", "Signature"], setOn := .clone, rootKind := .htr,
    rootPaths := [["A", "Message"]], cloneKind := .ssz, jsonEnc := ["A"], jsonDec := ["A"] }

/-- a row whose MessageRoot hashes the object that contains the signature -/
def badRootOverSig : Row :=
  { badOtherField with setSig := ["A", "Signature"], rootPaths := [["A"]] }

/-- a row whose SetSignature writes into the receiver -/
def badReceiver : Row :=
  { badOtherField with setSig := ["A", "Signature"], setOn := .receiver }

def obj0 : Obj := ⟨fun _ => .sym 7⟩

/-- the three rejected shapes each violate the law `RowOk` stands for -/
theorem rejected_rows_break_laws :
    RowOk badOtherField = false ∧ getSig badOtherField (setSig badOtherField obj0 (.sym 1)).result ≠ .sym 1 ∧
    RowOk badRootOverSig = false ∧
      root (fun subs => (subs.map (· ["Signature"])).headD (.sym 0)) badRootOverSig (setSig badRootOverSig obj0 (.sym 1)).result
        ≠ root (fun subs => (subs.map (· ["Signature"])).headD (.sym 0)) badRootOverSig obj0 ∧
    RowOk badReceiver = false ∧ (setSig badReceiver obj0 (.sym 1)).receiver.cells ["A", "Signature"] ≠ obj0.cells ["A", "Signature"] := by
  decide

/-! ### non-vacuity: the laws on a regenerated row -/

/-- the deneb full proposal row (signature under `Deneb.SignedBlock`, JSON carries `Deneb`) -/
def denebRow : Row := (rows.find? (fun r => r.typ == "VersionedSignedProposal" && r.variant == "deneb")).getD badOtherField

example : denebRow.getSig = ["VersionedSignedProposal", "Deneb", "SignedBlock", "Signature"] ∧ RowOk denebRow = true := by decide
example : getSig denebRow (setSig denebRow obj0 (.sym 1)).result = .sym 1 :=
  getSig_setSig (by decide) obj0 trivial
example : getSig denebRow (setSig denebRow obj0 (.bytes [1, 2])).result = norm (.bytes [1, 2]) :=
  (getSig_setSig_norm (by decide) (by decide) obj0 _).1
example : root (fun _ => .sym 3) denebRow (setSig denebRow obj0 (.sym 1)).result = some (.sym 3) := by
  rw [root_setSig _ (by decide)]; rfl
example : (setSig denebRow obj0 (.sym 1)).receiver = obj0 := setSig_receiver_unchanged (by decide) obj0 _
example : (setSig denebRow obj0 (.sym 1)).result.cells ["VersionedSignedProposal", "Deneb", "SignedBlock", "Message"] = .sym 7 :=
  setSig_frame obj0 _ (by decide)
example : (setSig denebRow (setSig denebRow obj0 (.sym 1)).result (.sym 2)).result = (setSig denebRow obj0 (.sym 2)).result :=
  setSig_setSig obj0 _ _
example : (clone denebRow obj0).shares = false := (clone_equal_unshared (by decide) obj0).2
example : root (fun _ => .sym 3) denebRow obj0 = root (fun _ => .sym 3) denebRow (obj0.write denebRow.getSig (.sym 9)) :=
  root_ignores_signature _ (by decide) _ _ (fun q hq => (write_cells_off obj0 _ hq).symm)
example : getSig denebRow (jsonRoundTrip denebRow obj0) = .sym 7 := by
  rw [(json_roundtrip_preserves (fun _ => .sym 3) (by decide) obj0).1]; rfl
example : rows.length = 36 := by decide

end CharonV.Props.C14SignedData
