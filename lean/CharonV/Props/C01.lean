/-
C01 — The cluster never emits two different signed objects for one duty and validator.

Model: `CharonV.Cluster` — the whole pipeline for one duty and one validator across all members,
with symbolic partial signatures (a partial for share k over root r exists only if member k is
Byzantine or k's validator client signed r; this is what signature unforgeability + the admission
check C10 give), the partial-signature store's threshold rule (C07), aggregation of `threshold`
matching partials into a group-valid signature (C08/C09) and the hand-off to `Broadcast`.
Theorems hold for every cluster size `n ≥ 1` with threshold ⌈2n/3⌉, every Byzantine set of at most
⌊(n-1)/3⌋ members, and EVERY operation sequence: members decide (or never decide) any values at
any time, sign late or never, every partial may be delivered to anybody any number of times in
any order or never (loss, duplication, reordering, crashes = no further ops of a member),
Byzantine members send partials for arbitrary roots to arbitrary subsets (equivocation).
-/
import CharonV.Proofs.Cluster

namespace CharonV.Cluster

open CharonV.QbftSpec (quorum faulty Params quorums_share_honest)

/-- the Byzantine/honest split of a configuration, as `QbftSpec.Params` (only `n`, `byz` matter). -/
def toParams (c : Cfg) : Params :=
  { n := c.n, byz := c.byz, leader := fun _ => 0, cmp := fun _ _ => true, input := fun _ => 0 }

/-- shares that have a partial with root `r` in a store. -/
def signers (ps : List (Nat × Nat)) (r : Nat) : List Nat := (ps.filter (fun e => e.2 == r)).map (·.1)

theorem signers_length (ps : List (Nat × Nat)) (r : Nat) : (signers ps r).length = countRoot ps r := by
  simp [signers, countRoot]

theorem signers_nodup {ps : List (Nat × Nat)} (h : (ps.map (·.1)).Nodup) (r : Nat) :
    (signers ps r).Nodup := by
  unfold signers
  exact List.Nodup.sublist (List.Sublist.map _ (List.filter_sublist)) h

/-- **Every emitted aggregate is backed by a threshold of shares that signed exactly its root**, at
least one of them honest. -/
theorem emitted_backed (c : Cfg) (hn : 1 ≤ c.n) (hb : (toParams c).byzCount ≤ faulty c.n)
    (os : List Op) (j r : Nat) (hr : r ∈ ((run c init os) j).emitted) :
    ∃ k, k < c.n ∧ c.byz k = false ∧ ((run c init os) k).signed = some r := by
  have hI := inv_run (inv_init c) os
  generalize run c init os = s at hI hr
  have hA := signers_nodup (hI.oneper j) r
  have hlen : quorum c.n ≤ (signers (s j).parsigs r).length := by
    rw [signers_length]; exact hI.backed j r hr
  have hmem : ∀ k ∈ signers (s j).parsigs r, k < c.n ∧ (c.byz k = true ∨ (s k).signed = some r) := by
    intro k hk
    obtain ⟨e, he, hek⟩ := List.mem_map.mp hk
    have hf := List.mem_filter.mp he
    have : e.2 = r := by simpa using hf.2
    have := hI.adm j e.1 e.2 hf.1
    rw [‹e.2 = r›, hek] at this
    exact this
  obtain ⟨k, hk1, _, hk3⟩ := quorums_share_honest (toParams c) hn hb hA hA
    (fun k hk => (hmem k hk).1) (fun k hk => (hmem k hk).1) hlen hlen
  have hkb : c.byz k = false := hk3.2
  rcases (hmem k hk1).2 with h1 | h1
  · rw [hkb] at h1; cases h1
  · exact ⟨k, (hmem k hk1).1, hkb, h1⟩

/-- **C01: one signing root.** All aggregates ever handed to `Broadcast` for the duty and
validator, by any members at any time, carry the same signing root. -/
theorem no_two_roots (c : Cfg) (hn : 1 ≤ c.n) (hb : (toParams c).byzCount ≤ faulty c.n)
    (os : List Op) (j j' r r' : Nat)
    (hr : r ∈ ((run c init os) j).emitted) (hr' : r' ∈ ((run c init os) j').emitted) : r = r' := by
  have hI := inv_run (inv_init c) os
  generalize run c init os = s at hI hr hr'
  have hA := signers_nodup (hI.oneper j) r
  have hB := signers_nodup (hI.oneper j') r'
  have hlenA : quorum c.n ≤ (signers (s j).parsigs r).length := by
    rw [signers_length]; exact hI.backed j r hr
  have hlenB : quorum c.n ≤ (signers (s j').parsigs r').length := by
    rw [signers_length]; exact hI.backed j' r' hr'
  have hmem : ∀ (jj rr : Nat), ∀ k ∈ signers (s jj).parsigs rr,
      k < c.n ∧ (c.byz k = true ∨ (s k).signed = some rr) := by
    intro jj rr k hk
    obtain ⟨e, he, hek⟩ := List.mem_map.mp hk
    have hf := List.mem_filter.mp he
    have hrr : e.2 = rr := by simpa using hf.2
    have := hI.adm jj e.1 e.2 hf.1
    rw [hrr, hek] at this
    exact this
  obtain ⟨k, hk1, hk2, hk3⟩ := quorums_share_honest (toParams c) hn hb hA hB
    (fun k hk => (hmem j r k hk).1) (fun k hk => (hmem j' r' k hk).1) hlenA hlenB
  have hkb : c.byz k = false := hk3.2
  rcases (hmem j r k hk1).2 with h1 | h1
  · rw [hkb] at h1; cases h1
  · rcases (hmem j' r' k hk2).2 with h2 | h2
    · rw [hkb] at h2; cases h2
    · rw [h1] at h2; exact Option.some.inj h2

/-- With consensus agreement (C02: every value that enters a duty store is the decided value `v`),
every emitted aggregate is over the signing root of `v`. -/
theorem emitted_is_decided_root (c : Cfg) (hn : 1 ≤ c.n) (hb : (toParams c).byzCount ≤ faulty c.n)
    (os : List Op) (v : Nat)
    (hagree : ∀ i w, ((run c init os) i).decided = some w → w = v)
    (j r : Nat) (hr : r ∈ ((run c init os) j).emitted) : r = c.root v := by
  obtain ⟨k, _, hkb, hks⟩ := emitted_backed c hn hb os j r hr
  have hI := inv_run (inv_init c) os
  obtain ⟨w, hw, hrw⟩ := hI.signedOf k hkb r hks
  rw [hrw, hagree k w hw]

/-- An honest member's share signs at most one root per duty and validator, and only the root of
what its own duty store holds (C06). -/
theorem honest_signs_stored (c : Cfg) (os : List Op) (i r : Nat) (hb : c.byz i = false)
    (h : ((run c init os) i).signed = some r) :
    ∃ v, ((run c init os) i).decided = some v ∧ r = c.root v :=
  (inv_run (inv_init c) os).signedOf i hb r h

/-- The abstract form with the cryptographic hypothesis spelled out (threshold unforgeability:
a group-valid signature over `r` implies that at least `threshold` distinct shares signed `r`):
any two group-valid roots coincide as soon as every honest share signs at most one root. -/
theorem unique_group_valid_root (P : Params) (hn : 1 ≤ P.n) (hb : P.byzCount ≤ faulty P.n)
    (signed : Nat → Nat → Prop)
    (honest_once : ∀ i r r', P.honest i → signed i r → signed i r' → r = r')
    (groupValid : Nat → Prop)
    (unforgeable : ∀ r, groupValid r → ∃ S : List Nat, S.Nodup ∧ quorum P.n ≤ S.length ∧
      ∀ i ∈ S, i < P.n ∧ signed i r)
    (r r' : Nat) (h : groupValid r) (h' : groupValid r') : r = r' := by
  obtain ⟨A, hA, hAl, hAm⟩ := unforgeable r h
  obtain ⟨B, hB, hBl, hBm⟩ := unforgeable r' h'
  obtain ⟨k, hk1, hk2, hk3⟩ := quorums_share_honest P hn hb hA hB
    (fun k hk => (hAm k hk).1) (fun k hk => (hBm k hk).1) hAl hBl
  exact honest_once k r r' hk3 (hAm k hk1).2 (hBm k hk2).2

/-! ### Non-vacuity (concrete runs; tests of the statements) -/

/-- n = 4, member 3 Byzantine, threshold 3, root v = v + 100. -/
def ex4 : Cfg := { n := 4, byz := fun i => i == 3, root := fun v => v + 100 }

-- members 0,1,2 decide 7 and sign; member 3 equivocates with roots 107 and 555; member 0 emits 107 only
example :
    let s := run ex4 init [.decide 0 7, .decide 1 7, .decide 2 7, .sign 0, .sign 1, .sign 2,
      .deliver 0 3 555, .deliver 0 1 107, .deliver 0 2 107, .deliver 1 3 107, .deliver 1 0 107]
    (s 0).emitted = [107] ∧ (s 1).emitted = [107] ∧ (s 2).emitted = [] := by decide

-- a forged partial of an honest share is refused at admission (symbolic unforgeability)
example : (step ex4 init (.deliver 0 1 555)).2.1 = .refused := by decide

end CharonV.Cluster
