/-
C10 — Only valid partial signatures enter a node.

"A partial signature is admitted into a node, whether submitted by its validator client or
received from a peer, only if it verifies for the submitted object's own signing root, domain and
epoch under the public key share recorded in the cluster lock for that validator and share index.
Anything else (wrong share or validator, wrong domain or fork, any change to the signed content,
unknown validator, out-of-range share index, zero signature or, from a peer, a duty outside the
allowed window) is rejected before it reaches storage, other peers or aggregation; this holds for
every duty type."

Property theorems only (helper lemmas: `CharonV.Proofs.Admit`). All theorems quantify over an
arbitrary symbolic `verify`, an arbitrary lock, every endpoint, every request (any number of
elements, any repetition of validators and slots), every share index of the node, any number of
subscribers, every Go map iteration order (`ord`, an arbitrary function — not even required to be a
permutation for the soundness statements) and every subscriber-failure position.
-/
import CharonV.Proofs.Admit
import CharonV.Generated.Vapi

namespace CharonV.Admit

variable (verify : VerifyFn) (L : Lock)

/-- **Soundness of admission (both doors).** Every partial signature in every set handed to a
subscriber (storage, and from there exchange with peers and aggregation) is `Valid`: the lock has a
key share for exactly that validator and that share index, the object has a domain, an epoch and a
signing root of its own, the signature is not the zero signature and verifies under that key for
that domain, epoch and root. Moreover the payload is a submitted object, filed under the
validator the endpoint resolved it to and — for the validator client door — under this node's own
share index; for the peer door the whole received set is passed on unchanged and the duty was let
through by the gater. -/
theorem admitted_valid :
    (∀ (idx : ShareIdx) (nsub : Nat) (ord : List GKey → List GKey) (failAt : Option Nat)
        (ep : Endpoint) (items : List Item) (c : Call),
        c ∈ (admitVC verify L idx nsub ord failAt ep items).2 →
        c.dutyTy = ep.dutyTy ∧
        ∀ e ∈ c.set, Valid verify L e.1 e.2 ∧ e.2.idx = idx ∧
          ∃ it ∈ items, it.obj = e.2.obj ∧ it.val = some e.1 ∧ it.slot = c.slot ∧
            (ep.hasGate = true → it.gate = true)) ∧
    (∀ (g : Gater) (nsub : Nat) (ord : List (Validator × Par) → List (Validator × Par))
        (m : PeerMsg) (c : Call),
        c ∈ (admitPeer verify L g nsub ord m).2 →
        g.allows m.dutyTy m.slot = true ∧ c.dutyTy = m.dutyTy ∧ c.slot = m.slot ∧
        c.set = m.entries ∧ ∀ e ∈ c.set, Valid verify L e.1 e.2) := by
  constructor
  · intro idx nsub ord failAt ep items c hc
    obtain ⟨hall, hcf⟩ := admitVC_calls hc
    obtain ⟨g, _, s, _, rfl⟩ := mem_callsFor.mp hcf
    refine ⟨rfl, ?_⟩
    intro e he
    obtain ⟨it, hit, hg, hv, hp⟩ := mem_setOf he
    obtain ⟨_, hgate, v, hv', hval⟩ := checkItem_ok (hall it hit)
    have hvv : v = e.1 := by rw [hv] at hv'; exact (Option.some.inj hv').symm
    subst hvv
    refine ⟨?_, by rw [hp], it, hit, by rw [hp], hv, ?_, hgate⟩
    · rw [hp]; exact hval
    · have : (gkey ep it).1 = g.1 := by rw [hg]
      simpa [gkey] using this
  · intro g nsub ord m c hc
    obtain ⟨_, hg, _, hall, s, _, rfl⟩ := admitPeer_calls hc
    exact ⟨hg, rfl, rfl, rfl, fun e he => peerVerify_ok (hall e he)⟩

/-- **Unknown validator, missing / out-of-range share index, zero signature, gated duty ⇒ nothing
is admitted** — no subscriber is called at all, for the whole request or message, and the caller
gets an error. Validator client door: the element's validator is not in the lock, or the lock has
no key share for this node's index, or the signature is zero. Peer door: the duty is outside the
gater's window (or of an invalid type), or an entry names a validator not in the lock, or a share
index for which the lock has no key, or carries the zero signature. -/
theorem unknown_rejected :
    (∀ (idx : ShareIdx) (nsub : Nat) (ord : List GKey → List GKey) (failAt : Option Nat)
        (ep : Endpoint) (items : List Item) (it : Item), it ∈ items →
        ((∀ v, it.val = some v → pubshare L v idx = none) ∨ it.obj.sig = 0) →
        (admitVC verify L idx nsub ord failAt ep items).2 = [] ∧
        (admitVC verify L idx nsub ord failAt ep items).1 ≠ .ok) ∧
    (∀ (g : Gater) (nsub : Nat) (ord : List (Validator × Par) → List (Validator × Par))
        (m : PeerMsg),
        (g.allows m.dutyTy m.slot = false ∨
          ∃ e ∈ m.entries, pubshare L e.1 e.2.idx = none ∨ e.2.obj.sig = 0) →
        (admitPeer verify L g nsub ord m).2 = [] ∧ (admitPeer verify L g nsub ord m).1 ≠ .ok) := by
  constructor
  · intro idx nsub ord failAt ep items it hit hbad
    have hne : checkItem verify L idx ep it ≠ .ok := by
      intro hok
      obtain ⟨_, _, v, hv, k, d, e, r, hk, _, _, _, hz, _⟩ := checkItem_ok hok
      rcases hbad with h | h
      · have := h v hv; simp [this] at hk
      · exact hz h
    obtain ⟨h1, h2, _⟩ := admitVC_reject (nsub := nsub) (ord := ord) (failAt := failAt) hit hne
    exact ⟨h1, h2⟩
  · intro g nsub ord m hbad
    rcases hbad with hg | ⟨e, he, hbad⟩
    · unfold admitPeer
      split
      · simp
      · simp [hg]
    · apply admitPeer_reject_entry he
      intro hok
      obtain ⟨k, d, ep, r, hk, _, _, _, hz, _⟩ := peerVerify_ok hok
      rcases hbad with h | h
      · simp [h] at hk
      · exact hz h

/-- **Batch atomicity, as the code implements it.** All elements of a request (all entries of a
peer message) are checked before the first subscriber call; a single element that fails any of its
checks — accessor error, validator lookup, `propDataMatchesDuty` / inner selection proof,
`verifyPartialSig` — makes the whole request fail with no subscriber call, whatever the other
elements are and wherever in the request it stands. -/
theorem batch_atomic :
    (∀ (idx : ShareIdx) (nsub : Nat) (ord : List GKey → List GKey) (failAt : Option Nat)
        (ep : Endpoint) (items : List Item) (it : Item), it ∈ items →
        checkItem verify L idx ep it ≠ .ok →
        (admitVC verify L idx nsub ord failAt ep items).2 = [] ∧
        (admitVC verify L idx nsub ord failAt ep items).1 ≠ .ok ∧
        (admitVC verify L idx nsub ord failAt ep items).1 ≠ .subErr) ∧
    (∀ (g : Gater) (nsub : Nat) (ord : List (Validator × Par) → List (Validator × Par))
        (m : PeerMsg) (e : Validator × Par), e ∈ m.entries → ¬ Valid verify L e.1 e.2 →
        (admitPeer verify L g nsub ord m).2 = [] ∧ (admitPeer verify L g nsub ord m).1 ≠ .ok) := by
  constructor
  · intro idx nsub ord failAt ep items it hit hne
    exact admitVC_reject hit hne
  · intro g nsub ord m e he hnv
    exact admitPeer_reject_entry he (fun hok => hnv (peerVerify_ok hok))

/-- **Invalid ⇒ rejected, stated on the property's own terms**: a request element whose partial
signature is not `Valid` for the validator the endpoint resolves it to and this node's share index
is never admitted — nor is anything else of that request. -/
theorem invalid_rejected (idx : ShareIdx) (nsub : Nat) (ord : List GKey → List GKey)
    (failAt : Option Nat) (ep : Endpoint) (items : List Item) (it : Item) (hit : it ∈ items)
    (hinv : ∀ v, it.val = some v → ¬ Valid verify L v { obj := it.obj, idx := idx }) :
    (admitVC verify L idx nsub ord failAt ep items).2 = [] := by
  refine (admitVC_reject hit ?_).1
  intro hok
  obtain ⟨_, _, v, hv, hval⟩ := checkItem_ok hok
  exact hinv v hv hval

/-- **The second gate is enforced**: a proposal whose content differs from the consensus proposal
(`propDataMatchesDuty`), an aggregate-and-proof or contribution-and-proof whose inner selection
proof does not verify under the validator's group key, is not admitted even if the partial
signature over it is perfectly valid. -/
theorem gate_enforced (idx : ShareIdx) (nsub : Nat) (ord : List GKey → List GKey)
    (failAt : Option Nat) (ep : Endpoint) (items : List Item) (it : Item) (hit : it ∈ items)
    (hep : ep.hasGate = true) (hg : it.gate = false) :
    (admitVC verify L idx nsub ord failAt ep items).2 = [] := by
  refine (admitVC_reject hit ?_).1
  intro hok
  have := (checkItem_ok hok).2.1 hep
  rw [hg] at this; cases this

/-- **Any alteration of what was signed is rejected** (symbolic unforgeability as hypothesis): if
the signature `s` was produced by share key `k` over exactly (`d0`,`e0`,`r0`) — i.e. it verifies
under no other key and for no other domain / epoch (fork) / signing root — then an object carrying
`s` whose own domain, epoch or root differs, or that is checked against another validator's or
another share's key, is `not Valid`, hence (by `invalid_rejected` / `batch_atomic`) rejected
together with its whole request or message. -/
theorem tamper_not_valid (k : Key) (d0 : Domain) (e0 : Epoch) (r0 : Root) (s : Sig)
    (hunf : ∀ k' d e r, verify k' d e r s = true → k' = k ∧ d = d0 ∧ e = e0 ∧ r = r0)
    (v : Validator) (p : Par) (hs : p.obj.sig = s)
    (halt : pubshare L v p.idx ≠ some k ∨ domainOf p.obj.ty ≠ some d0 ∨ p.obj.epoch ≠ some e0 ∨
      p.obj.root ≠ some r0) :
    ¬ Valid verify L v p := by
  rintro ⟨k', d, e, r, hk, hd, he, hr, _, hv⟩
  rw [hs] at hv
  obtain ⟨rfl, rfl, rfl, rfl⟩ := hunf k' d e r hv
  rcases halt with h | h | h | h
  · exact h hk
  · exact h hd
  · exact h he
  · exact h hr

/-- **Nothing valid is turned away** (completeness, so the soundness theorems are not vacuous):
if every element of a request is resolved, passes its gate and is `Valid`, `ord` keeps every group
and no subscriber fails, the call succeeds and every element's validator is in the set delivered
for the element's slot group to every subscriber. Likewise a well-formed, ungated, parseable peer
message whose entries are all `Valid` is delivered unchanged to every subscriber. -/
theorem valid_admitted :
    (∀ (idx : ShareIdx) (nsub : Nat) (ord : List GKey → List GKey) (ep : Endpoint)
        (items : List Item),
        (∀ it ∈ items, it.pre = true ∧ (ep.hasGate = true → it.gate = true) ∧
          ∃ v, it.val = some v ∧ Valid verify L v { obj := it.obj, idx := idx }) →
        (∀ gs g, g ∈ gs → g ∈ ord gs) →
        (admitVC verify L idx nsub ord none ep items).1 = .ok ∧
        ∀ it ∈ items, ∀ v, it.val = some v → ∀ s, s < nsub →
          ∃ c ∈ (admitVC verify L idx nsub ord none ep items).2,
            c.sub = s ∧ c.slot = it.slot ∧ ∃ p, (v, p) ∈ c.set) ∧
    (∀ (g : Gater) (nsub : Nat) (ord : List (Validator × Par) → List (Validator × Par))
        (m : PeerMsg), m.wellFormed = true → g.allows m.dutyTy m.slot = true → m.parseOk = true →
        (∀ e ∈ m.entries, Valid verify L e.1 e.2) → (∀ e ∈ ord m.entries, e ∈ m.entries) →
        admitPeer verify L g nsub ord m =
          (.ok, (List.range nsub).map fun s =>
            { sub := s, dutyTy := m.dutyTy, slot := m.slot, set := m.entries })) := by
  constructor
  · intro idx nsub ord ep items hall hord
    have hff : firstFail (items.map (checkItem verify L idx ep)) = none := by
      apply firstFail_none.mpr
      intro r hr
      obtain ⟨it, hit, rfl⟩ := List.mem_map.mp hr
      obtain ⟨hp, hg, v, hv, hval⟩ := hall it hit
      exact checkItem_of_valid hp hg hv hval
    have hres : admitVC verify L idx nsub ord none ep items =
        (.ok, callsFor idx nsub ep items (ord (groupKeys ep items))) := by
      unfold admitVC; rw [hff]
    rw [hres]
    refine ⟨rfl, ?_⟩
    intro it hit v hv s hs
    have hg : gkey ep it ∈ ord (groupKeys ep items) :=
      hord _ _ (mem_dedup.mpr (List.mem_map_of_mem hit))
    refine ⟨_, mem_callsFor.mpr ⟨gkey ep it, hg, s, hs, rfl⟩, rfl, rfl, ?_⟩
    apply lastWins_covers
    refine ⟨{ obj := it.obj, idx := idx }, List.mem_filterMap.mpr ⟨it, ?_, by simp [entryOf, hv]⟩⟩
    exact List.mem_filter.mpr ⟨hit, by simp⟩
  · intro g nsub ord m hw hg hp hall hord
    have h2 : firstFail (m.entries.map (peerVerify verify L)) = none := by
      apply firstFail_none.mpr
      intro r hr
      obtain ⟨e, he, rfl⟩ := List.mem_map.mp hr
      exact peerVerify_of_valid (hall e he)
    have h1 : firstFail ((ord m.entries).map (peerVerify verify L)) = none := by
      apply firstFail_none.mpr
      intro r hr
      obtain ⟨e, he, rfl⟩ := List.mem_map.mp hr
      exact peerVerify_of_valid (hall e (hord e he))
    unfold admitPeer
    simp [hw, hg, hp, h1, h2]

/-- **Every endpoint verifies what it admits** (translator T-vapi, regenerated from the Go source on
every run): the methods of `validatorapi.Component` from which a `c.subs` call is reachable are
exactly the ten endpoints of the model, in every one of them a checked `verifyPartialSig` call
dominates the subscriber fan-out, the value put into the set is the verified value and it is filed
under the public key it was verified for; the methods with a second gate are exactly those the
model gives one; and in `parsigex.handle` the verification loop over the received set dominates the
subscriber loop, which is handed that same set, and the gater is consulted before both;
`verifyPartialSig` verifies its argument under the share looked up for its public-key argument and
the secure constructor leaves `insecureTest` unset. A new endpoint, or an existing one that stops
verifying, makes this statement false. -/
theorem every_endpoint_verifies :
    Generated.Vapi.vapiRows.map (·.method) = Endpoint.all.map Endpoint.goName ∧
    Generated.Vapi.vapiRows.all HandlerRow.good = true ∧
    Generated.Vapi.gateRows.map (·.1) = (Endpoint.all.filter Endpoint.hasGate).map Endpoint.goName ∧
    Generated.Vapi.parsigexRows = [⟨"handle", true, true, true⟩] ∧
    Generated.Vapi.shapeRows =
      [("verifyPartialSig.verifies_cast_of_arg_under_share_of_pubkey_arg", true),
       ("NewComponent.leaves_insecureTest_false", true),
       ("handle.gater_checked_before_verification_and_subscribers", true)] := by
  decide

/-! ### Non-vacuity (concrete runs of the model) -/

/-- toy lock: validators 1 and 2, shares 1..3, key of (v, i) is `10*v + i`. -/
def exLock : Lock := fun v =>
  if v = 1 ∨ v = 2 then some (fun i => if 1 ≤ i ∧ i ≤ 3 then some (10 * v + i.toNat) else none) else none

/-- toy crypto: signature `s` verifies under key `k` iff `s = 1000*k + 100*epoch + root`
(the domain is folded into the root by the examples). -/
def exVerify : VerifyFn := fun k _ e r s => s == 1000 * k + 100 * e + r

def exObj (id : Nat) (ty : SigType) (e r s : Nat) : Obj := ⟨id, ty, some e, some r, s⟩

-- a valid two-element attestation batch for node 2 is admitted, one call per slot group
example :
    admitVC exVerify exLock 2 1 id none .submitAttestations
      [⟨true, some 1, true, 5, 0, exObj 1 .attestation 3 7 12307⟩,
       ⟨true, some 2, true, 6, 0, exObj 2 .attestation 3 8 22308⟩] =
    (.ok, [⟨0, 2, 5, [(1, ⟨exObj 1 .attestation 3 7 12307, 2⟩)]⟩,
           ⟨0, 2, 6, [(2, ⟨exObj 2 .attestation 3 8 22308, 2⟩)]⟩]) := by decide

-- the same batch with the second element signed by share 3 instead of share 2: nothing is admitted
example :
    admitVC exVerify exLock 2 1 id none .submitAttestations
      [⟨true, some 1, true, 5, 0, exObj 1 .attestation 3 7 12307⟩,
       ⟨true, some 2, true, 6, 0, exObj 2 .attestation 3 8 23308⟩] = (.badSig, []) := by decide

-- zero signature, unknown validator, node index without key share
example :
    (admitVC exVerify exLock 2 1 id none .submitVoluntaryExit
      [⟨true, some 1, true, 5, 0, exObj 1 .exit 3 7 0⟩]).1 = .zeroSig ∧
    (admitVC exVerify exLock 2 1 id none .submitVoluntaryExit
      [⟨true, some 9, true, 5, 0, exObj 1 .exit 3 7 12307⟩]).1 = .unknownValidator ∧
    (admitVC exVerify exLock 4 1 id none .submitVoluntaryExit
      [⟨true, some 1, true, 5, 0, exObj 1 .exit 3 7 12307⟩]) = (.badSig, []) := by decide

-- a proposal with a valid signature over content that is not the consensus proposal
example :
    admitVC exVerify exLock 2 1 id none .submitProposal
      [⟨true, some 1, false, 5, 0, exObj 1 .proposal 3 7 12307⟩] = (.gate, []) := by decide

-- peer door: valid message is passed on; out-of-range share, gated duty and wrong epoch are not
example :
    let g : Gater := ⟨32, 10, 2, 14⟩
    let p : Par := ⟨exObj 1 .randao 3 7 13307, 3⟩
    admitPeer exVerify exLock g 2 id ⟨true, 7, 100, true, [(1, p)]⟩ =
      (.ok, [⟨0, 7, 100, [(1, p)]⟩, ⟨1, 7, 100, [(1, p)]⟩]) ∧
    admitPeer exVerify exLock g 2 id ⟨true, 7, 100, true, [(1, { p with idx := 4 })]⟩ = (.badShare, []) ∧
    admitPeer exVerify exLock g 2 id ⟨true, 7, 13 * 32, true, [(1, p)]⟩ = (.gated, []) ∧
    admitPeer exVerify exLock g 2 id ⟨true, 14, 100, true, [(1, p)]⟩ = (.gated, []) ∧
    admitPeer exVerify exLock g 2 id ⟨true, 7, 100, true, [(1, ⟨exObj 1 .randao 4 7 13307, 3⟩)]⟩ =
      (.badSig, []) := by decide

end CharonV.Admit
