/-
C11 — the node-side glue of `dkg/pedersen` around kyber's Pedersen DKG (dkg.go, reshare.go, utils.go,
dkg/share/share.go): the COMBINATORIAL properties — what is collected from the board, in which order things are
indexed, what is validated. The ALGEBRA — `RecoverPubPoly`, `restoreCommitsFromPubShares`, `restoreDistKeyShare` — is section F at
the end of this file (helper lemmas: `Proofs/PedersenGlueAlg.lean`).

C11: "every node ends the ceremony with a share of the same group key … the lock lists for every validator the public
shares of all nodes". Between kyber (which produces a `DistKeyShare` per node) and the lock stands glue code that
(1) collects one broadcast per peer from the board (`readBoardChannel`), (2) turns the collected long-term keys into
kyber's node list (`makeNodes`, the sort by index, the threshold), (3) files the collected public key shares under
share indices (`processKey`, `MsgFromShare`), and for a reshare (4) classifies old / new nodes, re-indexes and
validates counts. Messages arrive in an arbitrary order, possibly duplicated, possibly from strangers, and Go maps
iterate in an arbitrary order: the clause rests on all of this being independent of those orders.

Model: `CharonV.Model.PedersenGlue` (the code as it is; Go maps are association lists whose list order is the
iteration order; the `select` of the collection loop is a list of events message / time-out / context). Helper lemmas
and the two specification notions `firstOf pid evs p` (the first message of peer `p` before any time-out / context
event) and `msgOnly`: `CharonV.Proofs.PedersenGlue`. Every theorem holds for every event sequence, every list, every
peer map, every order — nothing is bounded.

A. `readBoardChannel`. A successful collection returns exactly one message per expected peer, each one RECEIVED and each
   one the FIRST message of its sender; up to order the result is `expected.filterMap (firstOf pid evs)`
   (`readBoard_ok_exactly_one_per_peer`, `readBoard_takes_first_message`, `readBoard_never_ok_short`). `expected.Nodup`
   is a consequence, not a hypothesis: with a repeated expected peer the loop never completes (Go: the expected list
   is the key set of a map). A message of an unexpected peer, or of a peer with an earlier message, can be inserted
   anywhere without changing the result, for every state of the accumulator
   (`readBoard_ignores_duplicates_and_unexpected`). Two sequences with the same first message per expected peer give
   the same set of messages (`readBoard_order_independent_as_set`, `_msgOnly`). The time-out error names exactly the
   expected peers without a message before the timer; `received < expected`; `received + missing = expected` and
   `missing ≠ []` need `expected.Nodup` (witness without: `expected = [1, 1]`)
   (`readBoard_timeout_names_exactly_missing`).
B. Nodes. `makeNodes` returns, in arrival order, (peer index of the sender, its key) per collected message; the indices
   are up to order the peer indices of the peer map (`makeNodes_nodes_are_peerIdx_of_collected`). The sort is a
   permutation, ascending (`sortNodes_perm_sorted`); with distinct indices its result does not depend on the input order
   (`sortNodes_order_independent`); with the indices `0 … n-1` the node at position `i` has index `i`
   (`sorted_nodes_index_is_position`, at the level of `RunDKG`: `dkgSetup_index_is_position`). `RunDKG`'s node list,
   threshold and error are the same for any two arrival orders with the same first messages
   (`dkgSetup_arrival_order_independent`; needs one peer-map entry per peer and distinct peer indices).
C. Validation as iff-characterisations: `validateThreshold_ok_iff`, `defaultThreshold_valid`, `dkgThreshold_default`,
   `dkgThreshold_configured`, `validateReshareNodeCounts_ok_iff`, `validatePubKeyShares_ok_iff`; ACCEPTANCE by
   `validatePubKeyShares` does not depend on the map order (`validatePubKeyShares_accept_order_independent`), the error
   class does (witness `example`).
D. Reshare. Old / new nodes are order-preserving sublists (`classify_sublists`, `classify_pure`). Remove-only: the new
   nodes keep order and keys and get the indices `0 … k-1`, monotonically (`compact_indices_are_range`,
   `compact_reindex_monotone`); otherwise nothing is re-indexed (`compact_identity`).
   `oldNodesRemaining_compares_indices_witness`: the "at least one old node remains" check runs AFTER the re-indexing
   and compares index values, so it counts the removed node 0 as remaining and not the staying node 2. A documentation
   witness, not a violation: with peer indices `0 … n-1` the count still equals the number of new nodes.
E. Shares. `keyShareToBLS` returns the canonical non-zero secret with its public key and fails exactly on zero
   (`keyShareToBLS_matches_pub`, `keyShareToBLS_error_iff`); the fields of `processKey`'s share
   (`processKey_share_fields`); the keys of `PublicShares` are strictly ascending and are the share indices of the senders
   of a non-empty key (`publicSharesOf_keys_ascending`); with distinct share indices every sender's key sits under its
   share index (`publicSharesOf_lookup`; witness without: the later message wins), in particular the node's own entry
   is the public key of its secret share (`processKey_own_share_matches_published`); `PublicShares`, and the whole
   share, do not depend on the arrival order (`publicSharesOf_order_independent`,
   `processKey_arrival_order_independent`); `MsgFromShare` lists the values in ascending key order whatever the map
   order (`msgPubShares_ascending`, `msgPubShares_of_sorted`, `msgPubShares_order_independent`).

F. Algebra of the restoration of commitments (unbounded: every polynomial, every threshold, every index set, every map
   order), in the discrete-logarithm representation `commits[k] = cs[k] • G`:
   * `recoverPubPoly_of_evaluations` (T1) — kyber's `share.RecoverPubPoly` (Lagrange basis polynomials
     `∏ (X − x_m) · ∏ (x_i − x_m)⁻¹`, sum of `basis_j · Y_j`) applied to ANY `t` distinct shares
     `(i, f(i+1))` of THE polynomial `f` with `t` canonical coefficients `cs` returns exactly `cs`.
     (Route: the list operations compute in `(ZMod r)[X]`, the loop is Mathlib's `Lagrange.interpolate`,
     uniqueness of the interpolant, injectivity of the coefficient-list representation.)
   * `restoreCommitsFromPubShares_any_t_shares` (T2) — `restoreCommitsFromPubShares` on a map of at
     least `t` well-formed public shares of `f` (whatever the map order, whichever indices) restores
     `cs`; with an expected validator key it succeeds iff that key is `cs[0] • G`, and otherwise fails
     with `groupKeyMismatch`.
   * `restoreDistKeyShare_roundtrip` (T3) — `restoreDistKeyShare` on a `share.Share` whose
     `PublicShares` are the shares of `f` (map keys `i + 1`) restores `DistKeyShare{I, V, Commits = cs}`
     iff `Share.PubKey = cs[0] • G` (otherwise `restoredKeyMismatch`);
     `restored_share_reproduces_bls_key`: `keyShareToBLS` / `distKeyShareToValidatorPubKey` of the
     restored share give back the secret share, its public key and `Share.PubKey`.
   * `restoreCommitsFromPubShares_rejects` (T5) — one value that does not unmarshal to a point fails
     the restoration with `unmarshalPubShare`, whatever else the map holds.
   * `restoreCommitsFromPubShares_map_order_independent` (T4) — for a map with distinct keys the result
     is the same for every iteration order, for ALL values (junk included), thresholds and expected keys.

   `Fr.r` prime is proved (`Proofs/FrPrime.lean`), so the statements carry no arithmetic hypothesis.

Not proved here because it is not what the code does: `processKey` files the public share a PEER broadcast as it
arrives — it is not checked against the commitments (only the node's own entry is tied to its secret, above).
-/
import CharonV.Proofs.PedersenGlue
import CharonV.Proofs.PedersenGlueAlg

namespace CharonV.PedersenGlue

open CharonV.Fr
-- PROPS-BEGIN

-- the concrete `example`s below evaluate the model with one common `simp` set
set_option linter.unusedSimpArgs false

/-! ## A. `readBoardChannel` -/

/-- **Exactly one message per expected peer.** A successful collection returns, up to order, exactly one message per
expected peer, and every returned message was received. (`expected.Nodup` is not needed as a hypothesis: it
follows — with a repeated expected peer the loop can never complete.) -/
theorem readBoard_ok_exactly_one_per_peer {M : Type} (pid : M → Nat) (expected : List Nat) (evs : List (Ev M))
    (msgs : List M) (h : readBoard pid expected evs [] = .ok msgs) :
    (msgs.map pid).Perm expected ∧ (msgs.map pid).Nodup ∧ expected.Nodup ∧ msgs.length = expected.length ∧
      (∀ m ∈ msgs, pid m ∈ expected) ∧ ∀ m ∈ msgs, Ev.msg m ∈ evs := by
  obtain ⟨new, hnew, h1, h2, _, h4⟩ := readBoard_ok_gen pid expected h
  simp only [List.nil_append] at hnew
  subst hnew
  have hnd : (msgs.map pid).Nodup := h2 (by simp)
  have hlen := h4 (by simp)
  have hsub : msgs.map pid ⊆ expected := by
    intro p hp
    obtain ⟨m, hm, rfl⟩ := List.mem_map.1 hp
    exact (h1 m hm).2.1
  have hperm : (msgs.map pid).Perm expected :=
    (List.subperm_of_subset hnd hsub).perm_of_length_le (by simp; omega)
  refine ⟨hperm, hnd, hperm.nodup_iff.1 hnd, hlen, ?_, ?_⟩
  · intro m hm; exact (h1 m hm).2.1
  · intro m hm; exact (h1 m hm).1

example : readBoard (fun (m : Nat × Nat) => m.1) [1, 2] [.msg (2, 7), .msg (2, 8), .msg (3, 0), .msg (1, 9)] []
    = .ok [(2, 7), (1, 9)] := by rfl

/-- **Never returns short.** -/
theorem readBoard_never_ok_short {M : Type} (pid : M → Nat) (expected : List Nat) (evs : List (Ev M))
    (msgs : List M) (h : readBoard pid expected evs [] = .ok msgs) : expected.length ≤ msgs.length :=
  (readBoard_ok_exactly_one_per_peer pid expected evs msgs h).2.2.2.1 ▸ Nat.le_refl _

/-- **The first message counts.** Every collected message is the FIRST message of its sender in the event sequence
(`firstOf` looks no further than the first time-out / context event); up to order the result is the list of the first
messages of the expected peers. -/
theorem readBoard_takes_first_message {M : Type} (pid : M → Nat) (expected : List Nat) (evs : List (Ev M))
    (msgs : List M) (h : readBoard pid expected evs [] = .ok msgs) :
    (∀ m ∈ msgs, firstOf pid evs (pid m) = some m) ∧ msgs.Perm (expected.filterMap (firstOf pid evs)) := by
  refine ⟨?_, (readBoard_ok_perm_firsts pid expected h).1⟩
  obtain ⟨new, hnew, h1, _⟩ := readBoard_ok_gen pid expected h
  simp only [List.nil_append] at hnew
  subst hnew
  intro m hm; exact (h1 m hm).2.2.2

example : firstOf (fun (m : Nat × Nat) => m.1) [.msg (2, 7), .msg (2, 8), .msg (3, 0), .msg (1, 9)] 2 = some (2, 7) := by
  rfl

/-- **Duplicates and unexpected peers are ignored**, wherever they arrive: a message of a peer that is not expected, or
of a peer with an earlier message in the sequence, does not change the result (whatever was collected before). -/
theorem readBoard_ignores_duplicates_and_unexpected {M : Type} (pid : M → Nat) (expected : List Nat)
    (pre post : List (Ev M)) (m : M) (acc : List M)
    (h : pid m ∉ expected ∨ ∃ m0, Ev.msg m0 ∈ pre ∧ pid m0 = pid m) :
    readBoard pid expected (pre ++ .msg m :: post) acc = readBoard pid expected (pre ++ post) acc := by
  rcases h with h | h
  · exact readBoard_skip_unexpected pid expected pre post acc m h
  · exact readBoard_skip_duplicate pid expected pre post acc m (Or.inr h)

example : readBoard (fun (m : Nat × Nat) => m.1) [1, 2] ([.msg (2, 7)] ++ .msg (2, 8) :: [.msg (1, 9)]) []
    = readBoard (fun (m : Nat × Nat) => m.1) [1, 2] ([.msg (2, 7)] ++ [.msg (1, 9)]) [] := by rfl

/-- **Arrival order does not matter.** Two event sequences in which every expected peer has a first message (before
any time-out / context event; e.g. message-only sequences in which every expected peer occurs,
`firstOf_isSome_of_msgOnly`) and whose first messages per expected peer agree: both collections succeed and return
the same messages up to order. -/
theorem readBoard_order_independent_as_set {M : Type} (pid : M → Nat) (expected : List Nat) (hnd : expected.Nodup)
    (evs1 evs2 : List (Ev M)) (hall : ∀ p ∈ expected, (firstOf pid evs1 p).isSome)
    (hagree : ∀ p ∈ expected, firstOf pid evs1 p = firstOf pid evs2 p) :
    ∃ m1 m2, readBoard pid expected evs1 [] = .ok m1 ∧ readBoard pid expected evs2 [] = .ok m2 ∧ m1.Perm m2 := by
  obtain ⟨m1, h1⟩ := readBoard_complete pid expected hnd (evs := evs1) (acc := []) (fun p hp _ => hall p hp)
  obtain ⟨m2, h2⟩ := readBoard_complete pid expected hnd (evs := evs2) (acc := [])
    (fun p hp _ => hagree p hp ▸ hall p hp)
  refine ⟨m1, m2, h1, h2, ?_⟩
  have e : expected.filterMap (firstOf pid evs1) = expected.filterMap (firstOf pid evs2) := by
    clear hnd hall h1 h2
    induction expected with
    | nil => rfl
    | cons a l ih =>
      rw [List.filterMap_cons, List.filterMap_cons, hagree a List.mem_cons_self,
        ih (fun p hp => hagree p (List.mem_cons_of_mem _ hp))]
  exact (readBoard_ok_perm_firsts pid expected h1).1.trans (e ▸ (readBoard_ok_perm_firsts pid expected h2).1.symm)

example : readBoard (fun (m : Nat × Nat) => m.1) [1, 2] [.msg (2, 7), .msg (1, 9)] [] = .ok [(2, 7), (1, 9)] ∧
    readBoard (fun (m : Nat × Nat) => m.1) [1, 2] [.msg (1, 9), .msg (2, 7), .msg (1, 3)] [] = .ok [(1, 9), (2, 7)] :=
  ⟨rfl, rfl⟩

/-- the same for message-only sequences in which every expected peer occurs. -/
theorem readBoard_order_independent_msgOnly {M : Type} (pid : M → Nat) (expected : List Nat) (hnd : expected.Nodup)
    (evs1 evs2 : List (Ev M)) (h1 : msgOnly evs1) (hocc : ∀ p ∈ expected, ∃ m, Ev.msg m ∈ evs1 ∧ pid m = p)
    (hagree : ∀ p ∈ expected, firstOf pid evs1 p = firstOf pid evs2 p) :
    ∃ m1 m2, readBoard pid expected evs1 [] = .ok m1 ∧ readBoard pid expected evs2 [] = .ok m2 ∧ m1.Perm m2 :=
  readBoard_order_independent_as_set pid expected hnd evs1 evs2
    (fun p hp => firstOf_isSome_of_msgOnly pid h1 (hocc p hp)) hagree

example : msgOnly [Ev.msg (2, 7), .msg (1, 9)] ∧ ¬ msgOnly [Ev.msg (2, 7), .timeout, .msg (1, 9)] := by
  simp [msgOnly]

/-- **The time-out error names exactly the missing peers**: the expected peers without a message before the timer
fired; fewer than `expected.length` messages were received. -/
theorem readBoard_timeout_names_exactly_missing {M : Type} (pid : M → Nat) (expected : List Nat) (evs : List (Ev M))
    (missing : List Nat) (n : Nat) (h : readBoard pid expected evs [] = .timedOut missing n) :
    missing = expected.filter (fun p => (firstOf pid evs p).isNone) ∧ n < expected.length ∧
      (expected.Nodup → n + missing.length = expected.length ∧ missing ≠ []) := by
  obtain ⟨new, h0, hm, hn, h1, h2, h3⟩ := readBoard_timedOut_gen pid expected h
  simp only [List.nil_append] at h0 hm h3
  have hnd : (new.map pid).Nodup := by simpa using h2 (by simp)
  have hmiss : missing = expected.filter (fun p => (firstOf pid evs p).isNone) := by
    rw [hm]
    apply List.filter_congr
    intro p hp
    by_cases hin : p ∈ new.map pid
    · obtain ⟨m, hm', rfl⟩ := List.mem_map.1 hin
      have hc : (new.map pid).contains (pid m) = true := by simpa using hin
      rw [(h1 m hm').2.2, hc]; rfl
    · have hc : (new.map pid).contains p = false := by simpa using hin
      rw [h3 p hp hin, hc]; rfl
  refine ⟨hmiss, hn, ?_⟩
  intro hexp
  have hlen := List.length_eq_length_filter_add (l := expected) (fun p => (new.map pid).contains p)
  rw [← hm] at hlen
  have hseen : (expected.filter (fun p => (new.map pid).contains p)).Perm (new.map pid) := by
    rw [List.perm_ext_iff_of_nodup (hexp.filter _) hnd]
    intro a
    simp only [List.mem_filter, List.contains_iff_mem, List.mem_map]
    constructor
    · exact fun h => h.2
    · rintro ⟨m, hm', rfl⟩; exact ⟨(h1 m hm').1, m, hm', rfl⟩
  have h5 := hseen.length_eq
  simp only [List.length_map] at h5
  have : n + missing.length = expected.length := by omega
  refine ⟨this, ?_⟩
  intro he; rw [he] at this; simp at this; omega

example : readBoard (fun (m : Nat × Nat) => m.1) [1, 2, 3] [.msg (2, 7), .timeout, .msg (1, 9)] []
    = .timedOut [1, 3] 1 := by rfl

/-- without `expected.Nodup` the list of missing peers can be empty (peer 1 expected twice). -/
example : readBoard (fun (m : Nat × Nat) => m.1) [1, 1] [.msg (1, 7), .timeout] [] = .timedOut [] 1 := by rfl

/-! ## B. nodes -/

/-- **The node sort** returns a permutation of its input, ascending by index. -/
theorem sortNodes_perm_sorted (ns : List Node) :
    (sortNodes ns).Perm ns ∧ (sortNodes ns).Pairwise (fun a b => a.index ≤ b.index) :=
  ⟨sortNodes_perm ns, sortNodes_pairwise ns⟩

example : sortNodes [⟨2, 5⟩, ⟨0, 6⟩, ⟨1, 7⟩] = [⟨0, 6⟩, ⟨1, 7⟩, ⟨2, 5⟩] := by
  simp [sortNodes, List.mergeSort, List.MergeSort.Internal.splitInTwo]

/-- **The sorted node list does not depend on the arrival order** (nor on the iteration order of a Go map): with
pairwise distinct indices, every permutation of the nodes sorts to the same list. -/
theorem sortNodes_order_independent (ns ns' : List Node) (hnd : (ns.map (·.index)).Nodup) (h : ns.Perm ns') :
    sortNodes ns = sortNodes ns' := sortNodes_eq_of_perm hnd h

example : (([⟨2, 5⟩, ⟨0, 6⟩] : List Node).map (·.index)).Nodup ∧
    ([⟨2, 5⟩, ⟨0, 6⟩] : List Node).Perm [⟨0, 6⟩, ⟨2, 5⟩] := by decide

/-- **Index = position.** If the peer indices of the nodes are `0 … n-1` in some order, the node at position `i` of the
sorted list has index `i`, whatever the input order. -/
theorem sorted_nodes_index_is_position (ns : List Node) (h : (ns.map (·.index)).Perm (List.range ns.length)) :
    (sortNodes ns).map (·.index) = List.range ns.length := sortNodes_index_range h

example : (([⟨2, 5⟩, ⟨0, 6⟩, ⟨1, 7⟩] : List Node).map (·.index)).Perm (List.range 3) := by decide

/-- **`makeNodes`.** On success one message per peer of the peer map was collected (so the map has one entry per
peer), every long-term key decoded, and the node list is — in arrival order — the peer index of the sender with its
key; the node indices are, up to order, the peer indices of the peer map. -/
theorem makeNodes_nodes_are_peerIdx_of_collected (c : Cfg) (evs : List (Ev NodePubKeys)) (nodes : List Node)
    (pks : List (Nat × List PB)) (h : makeNodes c evs = .ok (nodes, pks)) :
    ∃ msgs, readBoard (·.peer) c.peerIDs evs [] = .ok msgs ∧ (msgs.map (·.peer)).Perm c.peerIDs ∧
      c.peerIDs.Nodup ∧
      (∀ m ∈ msgs, ∃ s, m.pub = .pt s ∧ (⟨(c.nodeIdx m.peer).peerIdx, s⟩ : Node) ∈ nodes) ∧
      nodes = msgs.map (nodeOf c) ∧ nodes.length = c.peerMap.length ∧
      (nodes.map (·.index)).Perm (c.peerMap.map (·.2.peerIdx)) := by
  unfold makeNodes at h
  cases hr : readBoard (·.peer) c.peerIDs evs [] with
  | ok msgs =>
    rw [hr] at h
    simp only [Rbc.toExcept] at h
    obtain ⟨hn, hp⟩ := makeNodesLoop_ok h
    simp only [List.nil_append] at hn
    obtain ⟨hperm, _, hnd, hlen, _, _⟩ := readBoard_ok_exactly_one_per_peer _ _ _ _ hr
    refine ⟨msgs, rfl, hperm, hnd, ?_, hn, ?_, ?_⟩
    · intro m hm
      obtain ⟨s, hs⟩ := hp m hm
      refine ⟨s, hs, ?_⟩
      rw [hn]; exact List.mem_map.2 ⟨m, hm, by simp [nodeOf, hs, PB.point?]⟩
    · rw [hn, List.length_map, hlen]; simp [Cfg.peerIDs]
    · have e1 : nodes.map (·.index) = (msgs.map (·.peer)).map (fun p => (c.nodeIdx p).peerIdx) := by
        rw [hn, List.map_map, List.map_map]; rfl
      have e2 : c.peerIDs.map (fun p => (c.nodeIdx p).peerIdx) = c.peerMap.map (·.2.peerIdx) := by
        unfold Cfg.peerIDs
        rw [List.map_map]
        apply List.map_congr_left
        intro e he
        simp only [Function.comp]
        rw [nodeIdx_of_mem hnd he]
      rw [e1, ← e2]
      exact hperm.map _
  | timedOut a b => rw [hr] at h; cases h
  | ctxDone => rw [hr] at h; cases h
  | blocked a => rw [hr] at h; cases h

example : makeNodes ⟨0, [(7, ⟨1, 2⟩), (8, ⟨0, 1⟩)], 0, none⟩ [.msg ⟨7, .pt 5, []⟩, .msg ⟨8, .pt 6, []⟩]
    = .ok ([⟨1, 5⟩, ⟨0, 6⟩], []) := by rfl

/-- **`RunDKG`'s node list and threshold do not depend on the arrival order.** With a peer map that has one entry per
peer and pairwise distinct peer indices, two event sequences in which every peer has a first message and whose first
messages per peer agree give the same result (the same error included). -/
theorem dkgSetup_arrival_order_independent (c : Cfg) (hnd : c.peerIDs.Nodup)
    (hinj : ∀ p ∈ c.peerIDs, ∀ q ∈ c.peerIDs, (c.nodeIdx p).peerIdx = (c.nodeIdx q).peerIdx → p = q)
    (evs1 evs2 : List (Ev NodePubKeys)) (hall : ∀ p ∈ c.peerIDs, (firstOf (·.peer) evs1 p).isSome)
    (hagree : ∀ p ∈ c.peerIDs, firstOf (·.peer) evs1 p = firstOf (·.peer) evs2 p) :
    dkgSetup c evs1 = dkgSetup c evs2 := by
  obtain ⟨m1, m2, h1, h2, hperm⟩ := readBoard_order_independent_as_set (·.peer) c.peerIDs hnd evs1 evs2 hall hagree
  have hp1 := (readBoard_ok_exactly_one_per_peer _ _ _ _ h1)
  unfold dkgSetup makeNodes
  rw [h1, h2]
  simp only [Rbc.toExcept]
  cases hl1 : makeNodesLoop c m1 [] [] with
  | error e1 =>
    obtain ⟨rfl, m, hm, hpt⟩ := makeNodesLoop_error hl1
    cases hl2 : makeNodesLoop c m2 [] [] with
    | error e2 => obtain ⟨rfl, _⟩ := makeNodesLoop_error hl2; rfl
    | ok r2 =>
      obtain ⟨_, hp⟩ := makeNodesLoop_ok (ns := r2.1) (pks' := r2.2) hl2
      obtain ⟨s, hs⟩ := hp m (hperm.mem_iff.1 hm)
      simp [hs, PB.point?] at hpt
  | ok r1 =>
    obtain ⟨hn1, hq⟩ := makeNodesLoop_ok (ns := r1.1) (pks' := r1.2) hl1
    cases hl2 : makeNodesLoop c m2 [] [] with
    | error e2 =>
      obtain ⟨_, m, hm, hpt⟩ := makeNodesLoop_error hl2
      obtain ⟨s, hs⟩ := hq m (hperm.mem_iff.2 hm)
      simp [hs, PB.point?] at hpt
    | ok r2 =>
      obtain ⟨hn2, _⟩ := makeNodesLoop_ok (ns := r2.1) (pks' := r2.2) hl2
      simp only [List.nil_append] at hn1 hn2
      have hidx : (r1.1.map (·.index)).Nodup := by
        have e1 : r1.1.map (·.index) = (m1.map (·.peer)).map (fun p => (c.nodeIdx p).peerIdx) := by
          rw [hn1, List.map_map, List.map_map]; rfl
        rw [e1]
        apply List.Nodup.map_on _ hp1.2.1
        intro p hp q hq'
        exact hinj p (hp1.1.mem_iff.1 hp) q (hp1.1.mem_iff.1 hq')
      have hs : sortNodes r1.1 = sortNodes r2.1 :=
        sortNodes_eq_of_perm hidx (by rw [hn1, hn2]; exact hperm.map _)
      obtain ⟨a1, b1⟩ := r1
      obtain ⟨a2, b2⟩ := r2
      simp only at hs ⊢
      rw [hs]

example : dkgSetup ⟨0, [(7, ⟨1, 2⟩), (8, ⟨0, 1⟩)], 0, none⟩ [.msg ⟨7, .pt 5, []⟩, .msg ⟨8, .pt 6, []⟩] =
    dkgSetup ⟨0, [(7, ⟨1, 2⟩), (8, ⟨0, 1⟩)], 0, none⟩ [.msg ⟨8, .pt 6, []⟩, .msg ⟨7, .pt 5, []⟩, .msg ⟨8, .pt 9, []⟩] :=
  dkgSetup_arrival_order_independent _ (by decide) (by decide) _ _ (by decide) (by decide)

/-! ## C. thresholds, validation -/

/-- `validateThreshold` accepts exactly `1 ≤ t ≤ n`. -/
theorem validateThreshold_ok_iff (n : Nat) (t : Int) : validateThreshold n t = .ok () ↔ 1 ≤ t ∧ t ≤ n := by
  unfold validateThreshold
  split
  · simp; omega
  · split
    · simp; omega
    · simp; omega

example : validateThreshold 4 3 = .ok () := by decide

/-- the default threshold ⌈2n/3⌉ is valid for every non-empty node set. -/
theorem defaultThreshold_valid (n : Nat) (h : 1 ≤ n) : validateThreshold n (defaultThreshold n) = .ok () := by
  rw [validateThreshold_ok_iff]; unfold defaultThreshold; omega

example : validateThreshold 4 (defaultThreshold 4) = .ok () := by decide

/-- `config.Threshold ≤ 0` selects the default threshold. -/
theorem dkgThreshold_default (c : Cfg) (nodes : List Node) (h : c.threshold ≤ 0) (hn : nodes ≠ []) :
    dkgThreshold c nodes = .ok (defaultThreshold nodes.length) := by
  have hl : 1 ≤ nodes.length := by cases nodes <;> simp at hn ⊢
  simp [dkgThreshold, h, defaultThreshold_valid _ hl]

example : dkgThreshold ⟨0, [], 0, none⟩ [⟨0, 1⟩, ⟨1, 2⟩, ⟨2, 3⟩, ⟨3, 4⟩] = .ok 3 := by decide

/-- a configured threshold `1 ≤ t ≤ n` is used as it is. -/
theorem dkgThreshold_configured (c : Cfg) (nodes : List Node) (h1 : 1 ≤ c.threshold)
    (h2 : c.threshold ≤ nodes.length) : dkgThreshold c nodes = .ok c.threshold.toNat := by
  have h0 : ¬ c.threshold ≤ 0 := by omega
  simp [dkgThreshold, h0, (validateThreshold_ok_iff _ _).2 ⟨h1, h2⟩]

example : dkgThreshold ⟨0, [], 2, none⟩ [⟨0, 1⟩, ⟨1, 2⟩, ⟨2, 3⟩] = .ok 2 := by decide

/-- `validateReshareNodeCounts`: removing needs `oldThreshold ≤ oldCount`, adding needs more new nodes than old. -/
theorem validateReshareNodeCounts_ok_iff (oldCount newCount : Nat) (oldThreshold : Int) (rs : Reshare) :
    validateReshareNodeCounts oldCount newCount oldThreshold rs = .ok () ↔
      (rs.removed ≠ [] → oldThreshold ≤ oldCount) ∧ (rs.added ≠ [] → oldCount < newCount) := by
  have hr : rs.removed.length > 0 ↔ rs.removed ≠ [] := by cases rs.removed <;> simp
  have ha : rs.added.length > 0 ↔ rs.added ≠ [] := by cases rs.added <;> simp
  unfold validateReshareNodeCounts
  split
  · rename_i h; simp; rw [hr] at h; intro h'; have := h' h.1; omega
  · split
    · rename_i h1 h; simp only [reduceCtorEq, false_iff, not_and]; rw [ha] at h; intro _ h'; have := h' h.1; omega
    · rename_i h1 h2
      rw [hr] at h1; rw [ha] at h2
      simp only [true_iff]
      constructor
      · intro h; by_contra hc; exact h1 ⟨h, by omega⟩
      · intro h; by_contra hc; exact h2 ⟨h, by omega⟩

example : validateReshareNodeCounts 4 3 3 ⟨1, 0, [], [7]⟩ = .ok () := by decide

/-- `validatePubKeyShares` accepts iff every node sent exactly `total` shares of 48 bytes each. -/
theorem validatePubKeyShares_ok_iff (m : List (Nat × List PB)) (total : Nat) :
    validatePubKeyShares m total = .ok () ↔ ∀ e ∈ m, e.2.length = total ∧ ∀ pk ∈ e.2, pk.len = 48 := by
  induction m with
  | nil => simp [validatePubKeyShares]
  | cons e rest ih =>
    obtain ⟨k, pks⟩ := e
    simp only [validatePubKeyShares, List.mem_cons, forall_eq_or_imp]
    split
    · rename_i h; simp; intro h'; exact absurd h' h
    · split
      · rename_i h1 h2
        simp only [List.any_eq_true, decide_eq_true_eq] at h2
        obtain ⟨pk, hpk, hne⟩ := h2
        simp; intro _ h'; exact absurd (h' pk hpk) hne
      · rename_i h1 h2
        rw [ih]
        simp only [List.any_eq_true, decide_eq_true_eq, not_exists, not_and, Decidable.not_not] at h1 h2
        constructor
        · intro h; exact ⟨⟨h1, h2⟩, h⟩
        · intro h; exact h.2

example : validatePubKeyShares [(0, [.pt 1, .pt 2]), (1, [.pt 3, .junk 0 48])] 2 = .ok () := by decide

/-- acceptance does not depend on the iteration order of the Go map … -/
theorem validatePubKeyShares_accept_order_independent (m m' : List (Nat × List PB)) (total : Nat)
    (h : m.Perm m') : validatePubKeyShares m total = .ok () ↔ validatePubKeyShares m' total = .ok () := by
  simp only [validatePubKeyShares_ok_iff]
  constructor
  · intro hh e he; exact hh e (h.mem_iff.2 he)
  · intro hh e he; exact hh e (h.mem_iff.1 he)

example : ([(0, [PB.pt 1]), (1, [.pt 2])] : List (Nat × List PB)).Perm [(1, [.pt 2]), (0, [.pt 1])] := by decide

/-- … the error class does: one entry with the wrong count, one with a wrong length. -/
example : validatePubKeyShares [(0, [.pt 1]), (1, [.junk 0 3, .pt 1])] 2 = .error .shareCount ∧
    validatePubKeyShares [(1, [.junk 0 3, .pt 1]), (0, [.pt 1])] 2 = .error .shareLength := by decide

/-! ## B′. `RunDKG` up to the per-validator loop -/

/-- **`RunDKG`'s index assignment.** If the peer map assigns the peer indices `0 … n-1` bijectively, then on success
the node at position `i` of the list handed to kyber has index `i`, there is one node per peer, and the threshold is
within `1 … n` — whatever the arrival order was. -/
theorem dkgSetup_index_is_position (c : Cfg) (evs : List (Ev NodePubKeys)) (nodes : List Node) (t : Nat)
    (hb : (c.peerMap.map (·.2.peerIdx)).Perm (List.range c.peerMap.length))
    (h : dkgSetup c evs = .ok (nodes, t)) :
    nodes.map (·.index) = List.range c.peerMap.length ∧ nodes.length = c.peerMap.length ∧ 1 ≤ t ∧
      t ≤ nodes.length := by
  unfold dkgSetup at h
  cases hm : makeNodes c evs with
  | error e => rw [hm] at h; cases h
  | ok r0 =>
    obtain ⟨nodes0, pks⟩ := r0
    rw [hm] at h
    simp only at h
    obtain ⟨msgs, _, _, _, _, _, hlen, hidx⟩ := makeNodes_nodes_are_peerIdx_of_collected c evs nodes0 pks hm
    cases hd : dkgThreshold c (sortNodes nodes0) with
    | error e => rw [hd] at h; cases h
    | ok t' =>
      rw [hd] at h
      simp only [Except.ok.injEq, Prod.mk.injEq] at h
      obtain ⟨rfl, rfl⟩ := h
      have hl : (sortNodes nodes0).length = c.peerMap.length := by rw [(sortNodes_perm nodes0).length_eq, hlen]
      refine ⟨?_, hl, ?_⟩
      · rw [← hlen]; exact sortNodes_index_range (by rw [hlen]; exact hidx.trans hb)
      · unfold dkgThreshold at hd
        simp only at hd
        split at hd
        · cases hd
        · rename_i hv
          rw [validateThreshold_ok_iff] at hv
          simp only [Except.ok.injEq] at hd
          omega

example : dkgSetup ⟨0, [(7, ⟨1, 2⟩), (8, ⟨0, 1⟩)], 0, none⟩ [.msg ⟨7, .pt 5, []⟩, .msg ⟨8, .pt 6, []⟩]
    = .ok ([⟨0, 6⟩, ⟨1, 5⟩], 2) := by
  simp [dkgSetup, makeNodes, makeNodesLoop, readBoard, Rbc.toExcept, Cfg.peerIDs, Cfg.nodeIdx, lookup, PB.point?,
    sortNodes, List.mergeSort, List.MergeSort.Internal.splitInTwo, dkgThreshold, defaultThreshold, validateThreshold]

/-! ## D. reshare -/

/-- **Compact re-indexing.** In a remove-only operation the new nodes keep their order and public keys and get the
indices `0 … k-1`; every other operation leaves them as they are. -/
theorem compact_indices_are_range (rs : Reshare) (ns : List Node) (hr : rs.removed ≠ []) (ha : rs.added = []) :
    (compactIfRemoveOnly rs ns).map (·.index) = List.range ns.length ∧
      (compactIfRemoveOnly rs ns).map (·.pub) = ns.map (·.pub) := by
  have h : rs.removed.length > 0 ∧ rs.added.length = 0 := by
    constructor
    · cases hx : rs.removed with
      | nil => exact absurd hx hr
      | cons _ _ => simp
    · simp [ha]
  unfold compactIfRemoveOnly
  rw [if_pos h]
  exact ⟨by rw [reindex_index, List.range_eq_range'], reindex_pub ns 0⟩

example : compactIfRemoveOnly ⟨1, 0, [], [9]⟩ [⟨1, 5⟩, ⟨3, 6⟩] = [⟨0, 5⟩, ⟨1, 6⟩] := by decide

/-- not remove-only: no re-indexing. -/
theorem compact_identity (rs : Reshare) (ns : List Node) (h : rs.removed = [] ∨ rs.added ≠ []) :
    compactIfRemoveOnly rs ns = ns := by
  unfold compactIfRemoveOnly
  rw [if_neg]
  rintro ⟨h1, h2⟩
  rcases h with h | h
  · simp [h] at h1
  · exact h (List.length_eq_zero_iff.1 h2)

example : compactIfRemoveOnly ⟨1, 0, [4], [9]⟩ [⟨1, 5⟩, ⟨3, 6⟩] = [⟨1, 5⟩, ⟨3, 6⟩] := by decide

/-- the re-indexing is monotone: walking through old and new nodes side by side, old and new indices ascend together
(for a node list that is strictly sorted by index, as `RunReshareDKG`'s is). -/
theorem compact_reindex_monotone (rs : Reshare) (ns : List Node) (hr : rs.removed ≠ []) (ha : rs.added = [])
    (hs : ns.Pairwise (fun a b => a.index < b.index)) :
    (ns.zip (compactIfRemoveOnly rs ns)).Pairwise (fun p q => p.1.index < q.1.index ∧ p.2.index < q.2.index) := by
  have h : rs.removed.length > 0 ∧ rs.added.length = 0 := by
    constructor
    · cases hx : rs.removed with
      | nil => exact absurd hx hr
      | cons _ _ => simp
    · simp [ha]
  unfold compactIfRemoveOnly
  rw [if_pos h]
  exact reindex_zip_monotone ns 0 hs

example : ([⟨1, 5⟩, ⟨3, 6⟩] : List Node).zip (compactIfRemoveOnly ⟨1, 0, [], [9]⟩ [⟨1, 5⟩, ⟨3, 6⟩]) =
    [(⟨1, 5⟩, ⟨0, 5⟩), (⟨3, 6⟩, ⟨1, 6⟩)] := by decide

/-- **Old / new classification**: both lists are order-preserving sublists of the node list; old = not listed as added,
new = not listed as removed. -/
theorem classify_sublists (c : Cfg) (rs : Reshare) (nodes : List Node) :
    (classify c rs nodes).1.Sublist nodes ∧ (classify c rs nodes).2.Sublist nodes ∧
      (∀ n, n ∈ (classify c rs nodes).1 ↔ n ∈ nodes ∧ listedAt c rs.added n.index = false) ∧
      (∀ n, n ∈ (classify c rs nodes).2 ↔ n ∈ nodes ∧ listedAt c rs.removed n.index = false) := by
  refine ⟨List.filter_sublist, List.filter_sublist, ?_, ?_⟩ <;> intro n <;> simp [classify, List.mem_filter]

/-- a pure reshare (nobody added, nobody removed): everybody is old and new. -/
theorem classify_pure (c : Cfg) (rs : Reshare) (nodes : List Node) (ha : rs.added = []) (hr : rs.removed = []) :
    classify c rs nodes = (nodes, nodes) := by
  simp [classify, ha, hr, listedAt]

example : classify ⟨0, [(7, ⟨0, 1⟩)], 1, none⟩ ⟨1, 0, [], []⟩ [⟨0, 5⟩, ⟨1, 6⟩] = ([⟨0, 5⟩, ⟨1, 6⟩], [⟨0, 5⟩, ⟨1, 6⟩]) := by
  decide

example : classify ⟨0, [(7, ⟨0, 1⟩), (8, ⟨1, 2⟩), (9, ⟨2, 3⟩)], 2, none⟩ ⟨1, 0, [9], [7]⟩ [⟨0, 5⟩, ⟨1, 6⟩, ⟨2, 7⟩]
    = ([⟨0, 5⟩, ⟨1, 6⟩], [⟨1, 6⟩, ⟨2, 7⟩]) := by decide

/-- **Documentation witness** (not a property failure): the "at least one old node remains" check compares INDEX
values after the compact re-indexing, not node identities. Nodes with indices 0, 1, 2 (keys 5, 6, 7), the node with
index 0 is removed: the new nodes (keys 6, 7) get the indices 0, 1, and the old nodes counted as "remaining" are the
ones with the keys 5 and 6 — the removed node is counted, the staying node with key 7 is not. With peer indices
`0 … n-1` the COUNT is nevertheless the number of new nodes (every compact index `< k` is the index of some old node),
so the check `= 0` is not affected; with other peer indices (5, 6, 7: second part) it reports 0 although two old
nodes stay. -/
theorem oldNodesRemaining_compares_indices_witness :
    let c : Cfg := ⟨7, [(7, ⟨0, 1⟩), (8, ⟨1, 2⟩), (9, ⟨2, 3⟩)], 2, none⟩
    let rs : Reshare := ⟨1, 0, [], [7]⟩
    let nodes : List Node := [⟨0, 5⟩, ⟨1, 6⟩, ⟨2, 7⟩]
    let newNodes := compactIfRemoveOnly rs (classify c rs nodes).2
    (classify c rs nodes).1 = nodes ∧ newNodes = [⟨0, 6⟩, ⟨1, 7⟩] ∧
      (nodes.filter fun o => newNodes.any fun n => o.index == n.index) = [⟨0, 5⟩, ⟨1, 6⟩] ∧
      oldNodesRemaining (classify c rs nodes).1 newNodes = 2 ∧
      (let c' : Cfg := ⟨7, [(7, ⟨5, 1⟩), (8, ⟨6, 2⟩), (9, ⟨7, 3⟩)], 2, none⟩
       let nodes' : List Node := [⟨5, 5⟩, ⟨6, 6⟩, ⟨7, 7⟩]
       oldNodesRemaining (classify c' rs nodes').1 (compactIfRemoveOnly rs (classify c' rs nodes').2) = 0) := by
  decide

/-! ## E. shares -/

/-- `keyShareToBLS`: the public key is the key of the (canonical, non-zero) secret. -/
theorem keyShareToBLS_matches_pub (k : DistKeyShare) (sk : Nat) (pk : PB) (h : keyShareToBLS k = .ok (sk, pk)) :
    pk = .pt sk ∧ sk = norm k.v ∧ sk ≠ 0 := by
  unfold keyShareToBLS at h
  split at h
  · cases h
  · rename_i h0
    simp only [Except.ok.injEq, Prod.mk.injEq] at h
    obtain ⟨rfl, rfl⟩ := h
    exact ⟨rfl, rfl, h0⟩

/-- it fails exactly on the zero secret (herumi refuses it), with the one error class. -/
theorem keyShareToBLS_error_iff (k : DistKeyShare) (e : Err) :
    keyShareToBLS k = .error e ↔ e = .privToPub ∧ norm k.v = 0 := by
  unfold keyShareToBLS
  split
  · rename_i h; simp only [Except.error.injEq, h, and_true]; exact eq_comm
  · rename_i h; simp [h]

example : keyShareToBLS ⟨0, 5, [9]⟩ = .ok (5, .pt 5) := by decide
example : keyShareToBLS ⟨0, 0, [9]⟩ = .error .privToPub := by decide

/-- **`processKey`**: the share carries the canonical non-zero secret, the first commitment as validator key, and the
public shares built from the collected messages. -/
theorem processKey_share_fields (c : Cfg) (k : DistKeyShare) (evs : List (Ev ValPubKeyShare)) (sh : Share)
    (h : processKey c k evs = .ok sh) :
    sh.secret = norm k.v ∧ norm k.v ≠ 0 ∧ (∃ c0 cs, k.commits = c0 :: cs ∧ sh.pubKey = .pt c0) ∧
      ∃ msgs, readBoard (·.peer) c.peerIDs evs [] = .ok msgs ∧ sh.publicShares = publicSharesOf c msgs := by
  unfold processKey at h
  cases hk : keyShareToBLS k with
  | error e => rw [hk] at h; cases h
  | ok r =>
    obtain ⟨sk, pk⟩ := r
    obtain ⟨_, hsk, h0⟩ := keyShareToBLS_matches_pub k sk pk hk
    rw [hk] at h
    simp only at h
    cases hc : k.commits with
    | nil => simp [distKeyShareToValidatorPubKey, hc] at h
    | cons c0 cs =>
      simp only [distKeyShareToValidatorPubKey, hc] at h
      cases hr : readBoard (·.peer) c.peerIDs evs [] with
      | ok msgs =>
        rw [hr] at h
        simp only [Rbc.toExcept, Except.ok.injEq] at h
        subst h
        exact ⟨hsk, hsk ▸ h0, ⟨c0, cs, rfl, rfl⟩, msgs, rfl, rfl⟩
      | timedOut a b => rw [hr] at h; cases h
      | ctxDone => rw [hr] at h; cases h
      | blocked a => rw [hr] at h; cases h

example : processKey ⟨7, [(7, ⟨0, 1⟩), (8, ⟨1, 2⟩)], 2, none⟩ ⟨0, 5, [9, 4]⟩ [.msg ⟨8, .pt 6⟩, .msg ⟨7, .pt 5⟩]
    = .ok ⟨.pt 9, 5, [(1, .pt 5), (2, .pt 6)]⟩ := by
  simp [processKey, keyShareToBLS, distKeyShareToValidatorPubKey, readBoard, Rbc.toExcept, Cfg.peerIDs, norm, r,
    publicSharesOf, sortedKeys, List.mergeSort, List.MergeSort.Internal.splitInTwo, List.eraseDups_cons,
    mapSet, lookup, Cfg.nodeIdx, PB.len, PB.copy48]

/-- **The keys of `PublicShares`** are strictly ascending and are exactly the share indices of the senders of a
non-empty key: a leaving node (empty key) contributes nothing. -/
theorem publicSharesOf_keys_ascending (c : Cfg) (msgs : List ValPubKeyShare) :
    ((publicSharesOf c msgs).map (·.1)).Pairwise (· < ·) ∧
      ∀ k, k ∈ (publicSharesOf c msgs).map (·.1) ↔
        ∃ m ∈ msgs, m.key.len ≠ 0 ∧ (c.nodeIdx m.peer).shareIdx = k := by
  rw [publicSharesOf_keys]
  refine ⟨sortedKeys_pairwise _, ?_⟩
  intro k
  rw [mem_sortedKeys]
  simp only [List.mem_map, List.mem_filter, decide_eq_true_eq]
  constructor
  · rintro ⟨m, ⟨h1, h2⟩, h3⟩; exact ⟨m, h1, h2, h3⟩
  · rintro ⟨m, h1, h2, h3⟩; exact ⟨m, ⟨h1, h2⟩, h3⟩

example : publicSharesOf ⟨7, [(7, ⟨0, 3⟩), (8, ⟨1, 1⟩), (9, ⟨2, 2⟩)], 2, none⟩
    [⟨7, .pt 5⟩, ⟨9, .junk 0 0⟩, ⟨8, .pt 6⟩] = [(1, .pt 6), (3, .pt 5)] := by
  simp [publicSharesOf, msgPubShares, sortedKeys, List.mergeSort, List.MergeSort.Internal.splitInTwo, List.eraseDups_cons,
    mapSet, lookup, Cfg.nodeIdx, PB.len, PB.copy48]

/-- **Every sender's key is filed under its share index**, when the share indices of the senders are pairwise
distinct. -/
theorem publicSharesOf_lookup (c : Cfg) (msgs : List ValPubKeyShare) (hnd : (msgs.map (·.peer)).Nodup)
    (hinj : ∀ p ∈ msgs.map (·.peer), ∀ q ∈ msgs.map (·.peer),
      (c.nodeIdx p).shareIdx = (c.nodeIdx q).shareIdx → p = q)
    (m : ValPubKeyShare) (hm : m ∈ msgs) (hlen : m.key.len ≠ 0) :
    lookup (publicSharesOf c msgs) (c.nodeIdx m.peer).shareIdx = some m.key.copy48 :=
  publicSharesOf_lookup_core c msgs (shareIdx_nodup c msgs hnd hinj) hm hlen

example : lookup (publicSharesOf ⟨7, [(7, ⟨0, 3⟩), (8, ⟨1, 1⟩)], 2, none⟩ [⟨7, .pt 5⟩, ⟨8, .pt 6⟩]) 3 = some (.pt 5) := by
  simp [publicSharesOf, msgPubShares, sortedKeys, List.mergeSort, List.MergeSort.Internal.splitInTwo, List.eraseDups_cons,
    mapSet, lookup, Cfg.nodeIdx, PB.len, PB.copy48]

/-- without distinct share indices the later message wins (peers 7 and 8 both have share index 1). -/
example : lookup (publicSharesOf ⟨7, [(7, ⟨0, 1⟩), (8, ⟨1, 1⟩)], 2, none⟩ [⟨7, .pt 5⟩, ⟨8, .pt 6⟩]) 1 = some (.pt 6) := by
  simp [publicSharesOf, msgPubShares, sortedKeys, List.mergeSort, List.MergeSort.Internal.splitInTwo, List.eraseDups_cons,
    mapSet, lookup, Cfg.nodeIdx, PB.len, PB.copy48]

/-- **The share's secret matches the published public share.** If the node's own broadcast is the first message of
this node the collection sees, the entry of `PublicShares` under this node's share index is the public key of the
secret of the share (peer map with this node in it and pairwise distinct share indices). -/
theorem processKey_own_share_matches_published (c : Cfg) (k : DistKeyShare) (evs : List (Ev ValPubKeyShare))
    (sh : Share) (pk : PB) (hself : c.thisPeer ∈ c.peerIDs)
    (hinj : ∀ p ∈ c.peerIDs, ∀ q ∈ c.peerIDs, (c.nodeIdx p).shareIdx = (c.nodeIdx q).shareIdx → p = q)
    (hown : ownBroadcast k = some pk) (hfirst : firstOf (·.peer) evs c.thisPeer = some ⟨c.thisPeer, pk⟩)
    (h : processKey c k evs = .ok sh) :
    lookup sh.publicShares (c.nodeIdx c.thisPeer).shareIdx = some (.pt sh.secret) := by
  obtain ⟨hsec, h0, _, msgs, hr, hps⟩ := processKey_share_fields c k evs sh h
  obtain ⟨hperm, hnd, _, _, _, _⟩ := readBoard_ok_exactly_one_per_peer _ _ _ _ hr
  obtain ⟨hf, _⟩ := readBoard_takes_first_message _ _ _ _ hr
  obtain ⟨m, hm, hmp⟩ := List.mem_map.1 (hperm.mem_iff.2 hself)
  have hme : m = ⟨c.thisPeer, pk⟩ := by
    have := hf m hm
    rw [hmp, hfirst] at this
    exact (Option.some.inj this).symm
  have hpk : pk = .pt (norm k.v) := by
    unfold ownBroadcast keyShareToBLS at hown
    simp only [h0, if_false] at hown
    exact (Option.some.inj hown).symm
  have := publicSharesOf_lookup c msgs hnd
    (fun p hp q hq => hinj p (hperm.mem_iff.1 hp) q (hperm.mem_iff.1 hq)) m hm
    (by rw [hme, hpk]; simp [PB.len])
  rw [hps, hsec]
  rw [hme, hpk] at this
  exact this

example : ownBroadcast ⟨0, 5, [9, 4]⟩ = some (.pt 5) ∧
    firstOf (·.peer) [Ev.msg (⟨8, .pt 6⟩ : ValPubKeyShare), .msg ⟨7, .pt 5⟩] 7 = some ⟨7, .pt 5⟩ := by decide

/-- **`PublicShares` does not depend on the arrival order** (pairwise distinct share indices of the senders). -/
theorem publicSharesOf_order_independent (c : Cfg) (msgs msgs' : List ValPubKeyShare)
    (hnd : (msgs.map (·.peer)).Nodup)
    (hinj : ∀ p ∈ msgs.map (·.peer), ∀ q ∈ msgs.map (·.peer),
      (c.nodeIdx p).shareIdx = (c.nodeIdx q).shareIdx → p = q)
    (h : msgs.Perm msgs') : publicSharesOf c msgs = publicSharesOf c msgs' :=
  publicSharesOf_perm c (shareIdx_nodup c msgs hnd hinj) h

example : publicSharesOf ⟨7, [(7, ⟨0, 3⟩), (8, ⟨1, 1⟩)], 2, none⟩ [⟨7, .pt 5⟩, ⟨8, .pt 6⟩] =
    publicSharesOf ⟨7, [(7, ⟨0, 3⟩), (8, ⟨1, 1⟩)], 2, none⟩ [⟨8, .pt 6⟩, ⟨7, .pt 5⟩] := by
  simp [publicSharesOf, msgPubShares, sortedKeys, List.mergeSort, List.MergeSort.Internal.splitInTwo, List.eraseDups_cons,
    mapSet, lookup, Cfg.nodeIdx, PB.len, PB.copy48]

/-- **`MsgFromShare` lists the public shares in ascending key order**: strictly ascending keys, exactly the keys of
the map, each with its value. -/
theorem msgPubShares_ascending (s : Share) :
    ∃ ks : List Nat, ks.Pairwise (· < ·) ∧ (∀ k, k ∈ ks ↔ k ∈ s.publicShares.map (·.1)) ∧
      msgPubShares s = ks.map fun k => (lookup s.publicShares k).getD (.junk 0 0) :=
  ⟨sortedKeys (s.publicShares.map (·.1)), sortedKeys_pairwise _, fun _ => mem_sortedKeys, rfl⟩

/-- for a map whose entries are already in ascending key order (as `processKey` builds it) these are its values. -/
theorem msgPubShares_of_sorted (s : Share) (h : (s.publicShares.map (·.1)).Pairwise (· < ·)) :
    msgPubShares s = s.publicShares.map (·.2) := by
  unfold msgPubShares
  rw [sortedKeys_of_sorted h]
  exact lookup_keys_values _ (h.imp (fun h => Nat.ne_of_lt h)) _

example : msgPubShares ⟨.pt 9, 5, [(3, .pt 5), (1, .pt 6)]⟩ = [.pt 6, .pt 5] := by
  simp [publicSharesOf, msgPubShares, sortedKeys, List.mergeSort, List.MergeSort.Internal.splitInTwo, List.eraseDups_cons,
    mapSet, lookup, Cfg.nodeIdx, PB.len, PB.copy48]

/-- **… whatever the iteration order of the Go map.** -/
theorem msgPubShares_order_independent (s s' : Share) (hnd : (s.publicShares.map (·.1)).Nodup)
    (h : s.publicShares.Perm s'.publicShares) : msgPubShares s = msgPubShares s' := by
  unfold msgPubShares
  rw [sortedKeys_congr (ks' := s'.publicShares.map (·.1)) (fun x => (h.map _).mem_iff)]
  apply List.map_congr_left
  intro k _
  rw [lookup_perm hnd h]

example : msgPubShares ⟨.pt 9, 5, [(3, .pt 5), (1, .pt 6)]⟩ = msgPubShares ⟨.pt 9, 5, [(1, .pt 6), (3, .pt 5)]⟩ := by
  simp [publicSharesOf, msgPubShares, sortedKeys, List.mergeSort, List.MergeSort.Internal.splitInTwo, List.eraseDups_cons,
    mapSet, lookup, Cfg.nodeIdx, PB.len, PB.copy48]

/-- **The share `processKey` returns does not depend on the arrival order** of the public key shares (peer map with one
entry per peer and pairwise distinct share indices; every peer has a first message; first messages agree). -/
theorem processKey_arrival_order_independent (c : Cfg) (k : DistKeyShare) (hnd : c.peerIDs.Nodup)
    (hinj : ∀ p ∈ c.peerIDs, ∀ q ∈ c.peerIDs, (c.nodeIdx p).shareIdx = (c.nodeIdx q).shareIdx → p = q)
    (evs1 evs2 : List (Ev ValPubKeyShare)) (hall : ∀ p ∈ c.peerIDs, (firstOf (·.peer) evs1 p).isSome)
    (hagree : ∀ p ∈ c.peerIDs, firstOf (·.peer) evs1 p = firstOf (·.peer) evs2 p) :
    processKey c k evs1 = processKey c k evs2 := by
  obtain ⟨m1, m2, h1, h2, hperm⟩ := readBoard_order_independent_as_set (·.peer) c.peerIDs hnd evs1 evs2 hall hagree
  obtain ⟨hp, hn, _⟩ := readBoard_ok_exactly_one_per_peer _ _ _ _ h1
  have e : publicSharesOf c m1 = publicSharesOf c m2 :=
    publicSharesOf_order_independent c m1 m2 hn
      (fun p hp' q hq => hinj p (hp.mem_iff.1 hp') q (hp.mem_iff.1 hq)) hperm
  unfold processKey
  rw [h1, h2]
  simp only [Rbc.toExcept, e]

example : processKey ⟨7, [(7, ⟨0, 1⟩), (8, ⟨1, 2⟩)], 2, none⟩ ⟨0, 5, [9, 4]⟩ [.msg ⟨8, .pt 6⟩, .msg ⟨7, .pt 5⟩] =
    processKey ⟨7, [(7, ⟨0, 1⟩), (8, ⟨1, 2⟩)], 2, none⟩ ⟨0, 5, [9, 4]⟩ [.msg ⟨7, .pt 5⟩, .msg ⟨8, .pt 6⟩, .msg ⟨7, .pt 1⟩] :=
  processKey_arrival_order_independent _ _ (by decide) (by decide) _ _ (by decide) (by decide)

/-! ## F. the algebra of the restoration of commitments -/

/-- **T1.** any `t = cs.length` distinct shares of the polynomial with canonical coefficients `cs`
give back exactly `cs`. -/
theorem recoverPubPoly_of_evaluations (cs idxs : List ℕ) (hcs : ∀ c ∈ cs, c < Fr.r) (hne : cs ≠ [])
    (hnd : idxs.Nodup) (hidx : ∀ i ∈ idxs, i + 1 < Fr.r) (hlen : idxs.length = cs.length) :
    recoverPubPoly (idxs.map fun i => (i, Fr.evalPoly cs (xOf i))) = some cs := by
  have : Fact (Nat.Prime Fr.r) := ⟨Fr.r_prime⟩
  exact recoverPubPoly_of_evaluations_fact cs idxs hcs hne hnd hidx hlen

/-- non-vacuity: shares 2 and 0 of `5 + 7 X`. -/
example : recoverPubPoly ([2, 0].map fun i => (i, Fr.evalPoly [5, 7] (xOf i))) = some [5, 7] :=
  recoverPubPoly_of_evaluations [5, 7] [2, 0] (by decide) (by decide) (by decide) (by decide) rfl

/-- **T2.** a map of at least `t` well-formed public shares of the polynomial `cs = c0 :: rest`
restores `cs`; an expected key is accepted iff it is `c0 • G`. -/
theorem restoreCommitsFromPubShares_any_t_shares (m : List (Int × PB)) (cs : List ℕ) (c0 : ℕ)
    (rest : List ℕ) (threshold : Int) (hcs0 : cs = c0 :: rest) (hcs : ∀ c ∈ cs, c < Fr.r)
    (hnd : (m.map (·.1)).Nodup)
    (hv : ∀ e ∈ m, 0 ≤ e.1 ∧ e.1.toNat + 1 < Fr.r ∧ e.2 = PB.pt (Fr.evalPoly cs (xOf e.1.toNat)))
    (ht : threshold = (cs.length : ℕ)) (hlen : cs.length ≤ m.length) :
    restoreCommitsFromPubShares m threshold none = .ok cs ∧
    restoreCommitsFromPubShares m threshold (some (.pt c0)) = .ok cs ∧
    ∀ e, e ≠ PB.pt c0 → restoreCommitsFromPubShares m threshold (some e) = .error .groupKeyMismatch := by
  have : Fact (Nat.Prime Fr.r) := ⟨Fr.r_prime⟩
  subst hcs0 ht
  have h := restoreCommits_wellformed_fact m c0 rest hcs hnd hv hlen
  refine ⟨h none, ?_, fun e he => ?_⟩
  · rw [h]; simp
  · rw [h]; simp [Ne.symm he]

/-- non-vacuity: three shares (indices 2, 0, 1, in that map order) of `5 + 7 X`, threshold 2. -/
example : restoreCommitsFromPubShares
    [(2, .pt (Fr.evalPoly [5, 7] (xOf 2))), (0, .pt (Fr.evalPoly [5, 7] (xOf 0))),
      (1, .pt (Fr.evalPoly [5, 7] (xOf 1)))] 2 none = .ok [5, 7] :=
  (restoreCommitsFromPubShares_any_t_shares _ [5, 7] 5 [7] 2 rfl (by decide) (by decide) (by decide)
    rfl (by decide)).1

/-- **T3.** `restoreDistKeyShare` on a share whose `PublicShares` are the public shares of `cs`. -/
theorem restoreDistKeyShare_roundtrip (s : Share) (idxs cs : List ℕ) (c0 : ℕ) (rest : List ℕ)
    (threshold : Int) (nodeIdx : ℕ) (hcs0 : cs = c0 :: rest) (hcs : ∀ c ∈ cs, c < Fr.r)
    (hnd : idxs.Nodup) (hidx : ∀ i ∈ idxs, i + 1 < Fr.r)
    (hps : s.publicShares = idxs.map fun i => (i + 1, PB.pt (Fr.evalPoly cs (xOf i))))
    (ht : threshold = (cs.length : ℕ)) (hlen : cs.length ≤ idxs.length) (hsec : s.secret < Fr.r) :
    (s.pubKey = .pt c0 → restoreDistKeyShare s threshold nodeIdx = .ok ⟨nodeIdx, s.secret, cs⟩) ∧
    (s.pubKey ≠ .pt c0 → restoreDistKeyShare s threshold nodeIdx = .error .restoredKeyMismatch) := by
  have : Fact (Nat.Prime Fr.r) := ⟨Fr.r_prime⟩
  subst hcs0 ht
  have h := restoreDistKeyShare_fact s idxs c0 rest nodeIdx hcs hnd hidx hps hlen hsec
  refine ⟨fun hp => ?_, fun hp => ?_⟩
  · rw [h, hp]; simp
  · rw [h]; simp [Ne.symm hp]

/-- non-vacuity: a share of `5 + 7 X` with public shares under the keys 3, 1, 2. -/
example : restoreDistKeyShare ⟨.pt 5, 12, [2, 0, 1].map fun i => (i + 1, .pt (Fr.evalPoly [5, 7] (xOf i)))⟩
    2 4 = .ok ⟨4, 12, [5, 7]⟩ :=
  (restoreDistKeyShare_roundtrip _ [2, 0, 1] [5, 7] 5 [7] 2 4 rfl (by decide) (by decide) (by decide)
    rfl rfl (by decide) (by decide)).1 rfl

/-- the restored `DistKeyShare` reproduces the node's BLS key share and the validator key. -/
theorem restored_share_reproduces_bls_key (s : Share) (idxs cs : List ℕ) (c0 : ℕ) (rest : List ℕ)
    (threshold : Int) (nodeIdx : ℕ) (hcs0 : cs = c0 :: rest) (hcs : ∀ c ∈ cs, c < Fr.r)
    (hnd : idxs.Nodup) (hidx : ∀ i ∈ idxs, i + 1 < Fr.r)
    (hps : s.publicShares = idxs.map fun i => (i + 1, PB.pt (Fr.evalPoly cs (xOf i))))
    (ht : threshold = (cs.length : ℕ)) (hlen : cs.length ≤ idxs.length) (hsec : s.secret < Fr.r)
    (hpos : 0 < s.secret) (hpk : s.pubKey = .pt c0) :
    ∃ d, restoreDistKeyShare s threshold nodeIdx = .ok d ∧
      keyShareToBLS d = .ok (s.secret, .pt s.secret) ∧
      distKeyShareToValidatorPubKey d = .ok s.pubKey := by
  refine ⟨⟨nodeIdx, s.secret, cs⟩,
    (restoreDistKeyShare_roundtrip s idxs cs c0 rest threshold nodeIdx hcs0 hcs hnd hidx hps ht hlen
      hsec).1 hpk, ?_, ?_⟩
  · have hn : Fr.norm s.secret = s.secret := Nat.mod_eq_of_lt hsec
    simp only [keyShareToBLS, hn]
    rw [if_neg (by omega)]
  · subst hcs0; rw [hpk]; rfl

example : ∃ d, restoreDistKeyShare
      ⟨.pt 5, 12, [2, 0, 1].map fun i => (i + 1, .pt (Fr.evalPoly [5, 7] (xOf i)))⟩ 2 4 = .ok d ∧
    keyShareToBLS d = .ok (12, .pt 12) ∧ distKeyShareToValidatorPubKey d = .ok (.pt 5) :=
  restored_share_reproduces_bls_key _ [2, 0, 1] [5, 7] 5 [7] 2 4 rfl (by decide) (by decide)
    (by decide) rfl rfl (by decide) (by decide) (by decide) rfl

/-- **T5.** any value that does not unmarshal to a point: `unmarshalPubShare`. -/
theorem restoreCommitsFromPubShares_rejects (m : List (Int × PB)) (threshold : Int)
    (expected : Option PB) (h : ∃ e ∈ m, e.2.point? = none) :
    restoreCommitsFromPubShares m threshold expected = .error .unmarshalPubShare :=
  restoreCommits_junk m threshold expected h

example : restoreCommitsFromPubShares [(0, .pt 5), (1, .junk 7 48), (2, .pt 9)] 2 none =
    .error .unmarshalPubShare :=
  restoreCommitsFromPubShares_rejects _ 2 none ⟨(1, .junk 7 48), by simp, rfl⟩

/-- **T4.** the iteration order of the Go map does not matter (distinct keys; ALL values). -/
theorem restoreCommitsFromPubShares_map_order_independent (m m' : List (Int × PB))
    (hnd : (m.map (·.1)).Nodup) (h : m.Perm m') (threshold : Int) (expected : Option PB) :
    restoreCommitsFromPubShares m threshold expected =
      restoreCommitsFromPubShares m' threshold expected :=
  restoreCommits_perm hnd h threshold expected

example : restoreCommitsFromPubShares [(0, .pt 5), (1, .pt 7), (-1, .pt 9)] 2 (some (.pt 3)) =
    restoreCommitsFromPubShares [(1, .pt 7), (-1, .pt 9), (0, .pt 5)] 2 (some (.pt 3)) :=
  restoreCommitsFromPubShares_map_order_independent _ _ (by decide) (by decide) 2 _

end CharonV.PedersenGlue
