/-
C17 — aggregate-signature store (`core/aggsigdb`): a blocking read returns exactly the value
stored under its key and returns as soon as it is stored, whatever the interleaving and however
many other reads are pending; different data under an existing key is rejected and never changes
what readers get; both in-memory implementations behave this way.

Property theorems only (helpers: `CharonV.Proofs.AggSigDB`). `V1` is `MemDB` (actor), `V2 bc` is
`MemDBV2` with the one-slot notify channel (`bc = false`, the code as it is) or with the
broadcast wake-up of `fixes/C17-v2-broadcast.diff` (`bc = true`). Every theorem quantifies over
all states or all reachable states, i.e. all finite sequences of the implementations' atomic
steps: any number of readers over any keys, any order of stores, cancellations, conflicting
re-stores, expiries, shutdown, and any map-iteration order of a stored set (= order of the list).

    FULL STATEMENT that `MemDBV2` as it is does NOT satisfy (defect D-6):
      theorem v2_no_lost_wakeup_oneslot {s : V2} (h : Reach2 false s) :
          ∀ x ∈ s.readers, x.pc = .wait → lookup x.key s.data ≠ none → s.token = true
    (a reader parked on `notify` whose key is stored always has a token to consume).
    It is proved below only under the restriction `ReachP` (`v2_no_lost_wakeup_oneslot_partial`),
    refuted on two concrete runs (`example`s at the end), and the starvation is shown to last until
    some later `Store` (`v2_oneslot_starved_until_next_store`). With the broadcast scheme the
    full statement holds in the stronger form `v2_no_lost_wakeup_broadcast`.
-/
import CharonV.Proofs.AggSigDB

namespace CharonV.AggSigDB

/-! ## V1 — `MemDB` -/

/-- **A read returns exactly the stored value (V1).** Whatever step the actor takes from whatever
state, every value it hands to a reader in that step is the value stored under that reader's key,
and the reader asked for exactly that key (it is the query being processed or a blocked,
uncancelled query). -/
theorem v1_read_returns_stored (s : V1) (e : Ev1) :
    ∃ new, (s.step e).1.answered = s.answered ++ new ∧
      ∀ a ∈ new, lookup a.2.1 (s.step e).1.data = some a.2.2 ∧
        (e = .query a.1 a.2.1 ∨ ∃ q ∈ s.blocked, q.cancelled = false ∧ q.rid = a.1 ∧ q.key = a.2.1) := by
  cases hs : s.stopped with
  | true =>
    refine ⟨[], ?_, by intro a ha; cases ha⟩
    cases e <;> simp [V1.step, hs]
  | false =>
    cases e with
    | cmd k v =>
      refine ⟨answerQ (put s.data k v).1 s.blocked, by simp [V1.step, hs], ?_⟩
      intro a ha
      simp only [answerQ, List.mem_filterMap] at ha
      obtain ⟨q, hq, hqa⟩ := ha
      cases hc : q.cancelled with
      | true => simp [hc] at hqa
      | false =>
        simp only [hc, Bool.false_eq_true, if_false, Option.map_eq_some_iff] at hqa
        obtain ⟨v', hl, rfl⟩ := hqa
        refine ⟨by simpa [V1.step, hs] using hl, Or.inr ⟨q, hq, hc, rfl, rfl⟩⟩
    | query r k =>
      cases hl : lookup k s.data with
      | some v =>
        refine ⟨[(r, k, v)], by simp [V1.step, hs, hl], ?_⟩
        intro a ha
        simp at ha; subst ha
        exact ⟨by simp [V1.step, hs, hl], Or.inl rfl⟩
      | none => exact ⟨[], by simp [V1.step, hs, hl], by intro a ha; cases ha⟩
    | cancel r => exact ⟨[], by simp [V1.step], by intro a ha; cases ha⟩
    | expire d => exact ⟨[], by simp [V1.step, hs], by intro a ha; cases ha⟩
    | stop => exact ⟨[], by simp [V1.step], by intro a ha; cases ha⟩

/-- **What is stored under a key never changes (V1)** except by expiry of the key's own duty:
no store (equal, conflicting, or under another key), read, cancellation or shutdown alters it. -/
theorem v1_value_stable (s : V1) (e : Ev1) {k : Key} {v : Val} (h : lookup k s.data = some v)
    (hne : ∀ d, e = .expire d → k.duty ≠ d) : lookup k (s.step e).1.data = some v := by
  cases hs : s.stopped <;> cases e <;> simp only [V1.step, hs, if_true, Bool.false_eq_true, if_false] <;>
    try exact h
  · exact put_keeps h
  · split <;> exact h
  · rename_i d
    rw [lookup_expire]; simp [hne d rfl, h]

/-- **Different data under an existing key is rejected (V1)** with "mismatching data", the stored
value stays, and no reader is answered with the rejected value (see `v1_read_returns_stored`). -/
theorem v1_conflict_rejected_unchanged (s : V1) {k : Key} {v v' : Val} (hs : s.stopped = false)
    (h : lookup k s.data = some v) (hne : v ≠ v') :
    (s.step (.cmd k v')).2 = some .mismatch ∧ (s.step (.cmd k v')).1.data = s.data := by
  simp [V1.step, hs, put_conflict h hne]

/-- **No lost wake-up (V1).** In every reachable state no query whose reader is still waiting is
blocked on a key that is stored: a reader is blocked only while its key is absent. -/
theorem v1_no_lost_wakeup {s : V1} (h : Reach1 s) :
    ∀ q ∈ s.live, lookup q.key s.data = none := by
  intro q hq
  unfold V1.live at hq
  cases hs : s.stopped with
  | true => simp [hs] at hq
  | false =>
    simp only [hs, Bool.false_eq_true, if_false, List.mem_filter, Bool.not_eq_eq_eq_not, Bool.not_true] at hq
    exact reach1_inv h hs q hq.1 hq.2

/-- **A read returns as soon as its key is stored (V1).** The very step that processes a write
answers every waiting reader whose key is stored afterwards, with the stored value — for all
waiters at once, for whatever key they wait. -/
theorem v1_store_wakes_all (s : V1) (k : Key) (v : Val) (hs : s.stopped = false)
    {q : Query} (hq : q ∈ s.blocked) (hc : q.cancelled = false) {w : Val}
    (hl : lookup q.key (s.step (.cmd k v)).1.data = some w) :
    (q.rid, q.key, w) ∈ (s.step (.cmd k v)).1.answered := by
  simp only [V1.step, hs, Bool.false_eq_true, if_false] at hl ⊢
  apply List.mem_append_right
  simp only [answerQ, List.mem_filterMap]
  exact ⟨q, hq, by simp [hc, hl]⟩

/-! ## V2 — `MemDBV2`, both notification schemes -/

/-- **A read returns exactly the stored value (V2, both schemes).** -/
theorem v2_read_returns_stored (bc : Bool) (s : V2) (e : Ev2) :
    ∃ new, (V2.step bc s e).1.answered = s.answered ++ new ∧
      ∀ a ∈ new, lookup a.2.1 (V2.step bc s e).1.data = some a.2.2 ∧
        ∃ x ∈ s.readers, x.rid = a.1 ∧ x.key = a.2.1 ∧ e = .runQuery x.rid := by
  cases e with
  | runQuery r =>
    refine ⟨_, rfl, ?_⟩
    intro a ha
    simp only [List.mem_filterMap, List.mem_filter, Option.map_eq_some_iff] at ha
    obtain ⟨x, ⟨hx, hat⟩, v, hl, rfl⟩ := ha
    refine ⟨by simpa [V2.step] using hl, x, hx, rfl, rfl, ?_⟩
    simp only [isAt, Bool.and_eq_true, decide_eq_true_eq] at hat
    rw [hat.1]
  | store d es =>
    refine ⟨[], ?_, by intro a ha; cases ha⟩
    simp only [V2.step]; cases s.stopped <;> cases bc <;> simp
  | await r k =>
    refine ⟨[], ?_, by intro a ha; cases ha⟩
    simp only [V2.step]; cases s.stopped <;> simp
    split <;> simp
  | wake r =>
    refine ⟨[], ?_, by intro a ha; cases ha⟩
    simp only [V2.step]; split <;> simp
  | cancel r => exact ⟨[], by simp [V2.step], by intro a ha; cases ha⟩
  | expire d =>
    refine ⟨[], ?_, by intro a ha; cases ha⟩
    simp only [V2.step]; cases s.stopped <;> simp
  | stop => exact ⟨[], by simp [V2.step], by intro a ha; cases ha⟩

/-- **What is stored under a key never changes (V2, both schemes)** except by expiry of its duty;
in particular a multi-key `Store`, failing or not, in any iteration order, leaves it alone. -/
theorem v2_value_stable (bc : Bool) (s : V2) (e : Ev2) {k : Key} {v : Val} (h : lookup k s.data = some v)
    (hne : ∀ d, e = .expire d → k.duty ≠ d) : lookup k (V2.step bc s e).1.data = some v := by
  cases e with
  | store d es =>
    simp only [V2.step]
    cases s.stopped <;> cases bc <;> simp only [if_true, Bool.false_eq_true, if_false] <;>
      first | exact h | exact putAll_keeps es h
  | await r k' => simp only [V2.step]; cases s.stopped <;> simp only [if_true, Bool.false_eq_true, if_false] <;>
      first | exact h | (split <;> exact h)
  | runQuery r => exact h
  | wake r => simp only [V2.step]; split <;> exact h
  | cancel r => exact h
  | expire d =>
    simp only [V2.step]
    cases s.stopped <;> simp only [if_true, Bool.false_eq_true, if_false]
    · rw [lookup_expire]; simp [hne d rfl, h]
    · exact h
  | stop => exact h

/-- **Different data under an existing key is rejected (V2, both schemes):** a `Store` whose set
contains, anywhere in the iteration order, an entry that differs from what is stored under its key
returns an error (and by `v2_value_stable` the stored value stays). -/
theorem v2_conflict_rejected (bc : Bool) (s : V2) (d : Duty) (es : List Entry) (hs : s.stopped = false)
    {e : Entry} {sub : Nat} {v0 : Val} (hmem : e ∈ es) (hsub : subIdx d.ty e.dsub = some sub)
    (h : lookup ⟨d, e.pk, sub⟩ s.data = some v0) (hne : v0 ≠ e.val) :
    (V2.step bc s (.store d es)).2 ≠ none := by
  have := putAll_conflict es hmem hsub h hne
  cases bc <;> simpa [V2.step, hs] using this

/-- **A runnable reader whose key is stored returns it at its next step (V2, both schemes).** -/
theorem v2_runnable_returns (bc : Bool) (s : V2) {x : Reader} (hx : x ∈ s.readers) (hpc : x.pc = .query)
    {v : Val} (hl : lookup x.key s.data = some v) :
    (x.rid, x.key, v) ∈ (V2.step bc s (.runQuery x.rid)).1.answered := by
  simp only [V2.step]
  apply List.mem_append_right
  simp only [List.mem_filterMap, List.mem_filter]
  exact ⟨x, ⟨hx, by simp [isAt, hpc]⟩, by simp [hl]⟩

/-- **No lost wake-up (V2 with broadcast wake-up — the proposed fix).** In every reachable state
no reader is parked waiting for a notification while its key is stored: every `Store` that stored
anything (also one that failed midway) has made all waiting readers runnable, and a runnable reader
returns the value at its next step (`v2_runnable_returns`). Any number of readers, any keys. -/
theorem v2_no_lost_wakeup_broadcast {s : V2} (h : Reach2 true s) :
    ∀ x ∈ s.readers, x.pc = .wait → lookup x.key s.data = none :=
  reach2b_inv h

/-- **No lost wake-up (V2 as it is) — only under restrictions.** If at most one `Await` is in
flight at any time and no `Store` fails after having stored part of its set (`ReachP`), a reader
parked on the one-slot channel whose key is stored always finds a token to consume. Both
restrictions are necessary (witnesses below). -/
theorem v2_no_lost_wakeup_oneslot_partial {s : V2} (h : ReachP s) :
    ∀ x ∈ s.readers, x.pc = .wait → lookup x.key s.data ≠ none → s.token = true :=
  (reachP_inv h).2

/-- **The one-slot starvation persists (V2 as it is).** Once a reader is parked with no token in
the channel, nothing but a further `Store` (or its own cancellation, or shutdown) gets it going
again — not time, not other readers arriving, running or leaving, not expiries. -/
theorem v2_oneslot_starved_until_next_store (s : V2) {x : Reader} (hx : x ∈ s.readers)
    (hpc : x.pc = .wait) (ht : s.token = false) (e : Ev2)
    (hstore : ∀ d es, e ≠ .store d es) (hcancel : e ≠ .cancel x.rid) (hstop : e ≠ .stop) :
    x ∈ (V2.step false s e).1.readers ∧ (V2.step false s e).1.token = false := by
  cases e with
  | store d es => exact absurd rfl (hstore d es)
  | await r k =>
    simp only [V2.step]
    cases s.stopped <;> simp only [if_true, Bool.false_eq_true, if_false]
    · split
      · exact ⟨hx, ht⟩
      · exact ⟨List.mem_append_left _ hx, ht⟩
    · exact ⟨hx, ht⟩
  | runQuery r =>
    simp only [V2.step]
    refine ⟨List.mem_append_left _ (List.mem_filter.mpr ⟨hx, ?_⟩), ht⟩
    simp [isAt, hpc]
  | wake r => simp [V2.step, ht, hx]
  | cancel r =>
    simp only [V2.step]
    refine ⟨List.mem_filter.mpr ⟨hx, ?_⟩, ht⟩
    have : x.rid ≠ r := fun h => hcancel (by rw [h])
    simp [this]
  | expire d => simp only [V2.step]; cases s.stopped <;> exact ⟨hx, ht⟩
  | stop => exact absurd rfl hstop

/-! ## Non-vacuity and witnesses (concrete runs; tests of the statements, not proofs) -/

def kA : Key := ⟨⟨5, 7⟩, 1, 0⟩
def kB : Key := ⟨⟨5, 7⟩, 2, 0⟩
def d57 : Duty := ⟨5, 7⟩

-- V1: three readers (two on the same key), one store per key: each store answers all readers of
-- its key at once with the stored value; a conflicting re-store is rejected and changes nothing.
example :
    let s := V1.run {} [.query 1 kA, .query 2 kA, .query 3 kB, .cmd kA 10, .cmd kA 11, .cmd kB 20]
    s.answered = [(1, kA, 10), (2, kA, 10), (3, kB, 20)] ∧ s.live = [] ∧
    lookup kA s.data = some 10 := by decide

-- V1: the rejected value is reported as such.
example : ((V1.run {} [.cmd kA 10]).step (.cmd kA 11)).2 = some .mismatch := by decide

-- V2 with broadcast: the same scenario — one store wakes both readers of the key.
example :
    let s := V2.settle true 64 (V2.run true {} [.await 1 kA, .await 2 kA, .await 3 kB, .runQuery 1, .runQuery 2,
      .runQuery 3, .store d57 [⟨1, none, 10⟩]])
    s.answered = [(1, kA, 10), (2, kA, 10)] ∧ s.readers = [⟨3, kB, .wait⟩] := by decide

-- V2 one-slot, restricted use (one reader at a time): reachable by `ReachP`, reader served.
example :
    let s := V2.settle false 64 (V2.run false {} [.await 1 kA, .runQuery 1, .store d57 [⟨1, none, 10⟩]])
    s.answered = [(1, kA, 10)] ∧ s.readers = [] := by decide

-- **D-6, witness 1 (negation of the full statement for the one-slot scheme).** Two readers wait
-- for the same key; one successful `Store` of that key puts ONE token into `notify`; reader 1
-- consumes it and returns; reader 2 stays parked although its key is stored and no token is left.
example :
    let s := V2.run false {} [.await 1 kA, .await 2 kA, .runQuery 1, .runQuery 2,
      .store d57 [⟨1, none, 10⟩], .wake 1, .runQuery 1]
    s.answered = [(1, kA, 10)] ∧ s.readers = [⟨2, kA, .wait⟩] ∧
    lookup kA s.data = some 10 ∧ s.token = false := by decide

-- same run, but the token goes to a reader of ANOTHER key, which re-parks: the reader whose key
-- was stored is never woken.
example :
    let s := V2.run false {} [.await 1 kB, .await 2 kA, .runQuery 1, .runQuery 2,
      .store d57 [⟨1, none, 10⟩], .wake 1, .runQuery 1]
    s.answered = [] ∧ s.readers = [⟨2, kA, .wait⟩, ⟨1, kB, .wait⟩] ∧
    lookup kA s.data = some 10 ∧ s.token = false := by decide

-- **D-6, witness 2: a `Store` that fails midway notifies nobody.** A single reader waits for `kA`;
-- `kB` already holds 20; `Store {kA := 10, kB := 21}` iterated in that order stores `kA`, then fails
-- on `kB` and returns without sending on `notify`: the reader stays parked on a stored key.
example :
    let s := V2.run false {} [.store d57 [⟨2, none, 20⟩], .await 9 kB, .runQuery 9, .wake 9,
      .await 1 kA, .runQuery 1, .wake 1, .runQuery 1]
    let r := V2.step false s (.store d57 [⟨1, none, 10⟩, ⟨2, none, 21⟩])
    r.2 = some .mismatch ∧ r.1.readers = [⟨1, kA, .wait⟩] ∧ lookup kA r.1.data = some 10 ∧
    lookup kB r.1.data = some 20 ∧ r.1.token = false := by decide

end CharonV.AggSigDB
