/-
C15 — scheduler: every duty the beacon node assigns to an active cluster validator is triggered
exactly once, not before its offset, with the beacon node's definition set; never twice, never for
a validator outside the cluster, an inactive validator or an unassigned slot.

Property theorems only (helpers: `CharonV.Proofs.Sched`).  All theorems quantify over an
arbitrary beacon-node oracle `bn` (every call may fail or answer anything: all failure patterns,
all assignments, validators activating/exiting), every configuration, every clock value at which
the ticker is created and every finite sequence of clock advances (all missed-tick patterns) and
chain-reorg events (`Reach`).
-/
import CharonV.Proofs.Sched

namespace CharonV.Sched

variable (bn : BN) (cfg : Cfg)

/-- **At most once.** In every reachable state the history of triggered duties `(slot, type)`
has no duplicates, and slots are handled in strictly increasing order — whatever the beacon node
answers, however the clock jumps and whenever reorg events arrive. -/
theorem at_most_once (hdur : 0 < cfg.slotDur) {y : Sys} (h : Reach bn cfg y) :
    (y.hist.map (fun t => t.duty)).Nodup ∧ y.ticked.Pairwise (fun a b => a < b) ∧
    ∀ t ∈ y.hist, t.duty.slot ∈ y.ticked :=
  ⟨(reach_inv hdur h).nodup, (reach_inv hdur h).tickedSorted, (reach_inv hdur h).histTicked⟩

/-- **Only assigned duties.** Every definition in every triggered definition set is *justified*
(`Justified`): an answer the beacon node has given contains exactly this assignment, for the
duty's slot and the duty's type, for a validator that a validators answer already given names as a
cluster validator with this pubkey that is active (or activates in the epoch being resolved). In
particular: nothing for validators outside the cluster, inactive validators or unassigned slots. -/
theorem only_assigned (hdur : 0 < cfg.slotDur) {y : Sys} (h : Reach bn cfg y) :
    ∀ t ∈ y.hist, ∀ pk df, (pk, df) ∈ t.defs → Justified bn cfg y.st t.duty pk df :=
  (reach_inv hdur h).histJ

/-- **Not before the offset.** Every trigger carries the not-before instant
`slotStart + offset(type)` with the offsets of `offset.go`: attester 1/3, aggregator and sync
contribution 2/3 of the slot duration, all other types the slot start. With the (alpha) feature flag
`FetchAttOnBlockWithDelay` the attester deadline is 300 ms later (`waitForEarlyFetchOrTimeout`); it
is never earlier than the offset. -/
theorem not_before_offset (hdur : 0 < cfg.slotDur) {y : Sys} (h : Reach bn cfg y) :
    ∀ t ∈ y.hist,
      t.nb = t.duty.slot * cfg.slotDur +
        (if t.duty.ty = tyAttester then cfg.slotDur * 1 / 3
         else if t.duty.ty = tyAggregator ∨ t.duty.ty = tySyncContribution then cfg.slotDur * 2 / 3
         else 0) +
        (if t.duty.ty = tyAttester ∧ cfg.fetchAttOnBlockWithDelay = true then 300000000 else 0) ∧
      t.duty.slot * cfg.slotDur ≤ t.nb := by
  intro t ht
  have hnb := (reach_inv hdur h).histNb t ht
  rw [hnb]
  unfold notBefore slotOffset fraction tyAttester tyAggregator tySyncContribution delay300
  refine ⟨?_, by omega⟩
  by_cases h2 : t.duty.ty = 2
  · simp [h2]
  · by_cases h9 : t.duty.ty = 9
    · simp [h9]
    · by_cases h12 : t.duty.ty = 12
      · simp [h12]
      · simp [h2, h9, h12]

/-- **Triggered definition sets are frozen.** Nothing is ever added to the stored definition set of
a duty after it was triggered (the Go trigger goroutine holds that very map until its delay has
passed; the model hands it a copy — this theorem is why both agree), so a retry after a transient
error never alters a duty that is already on its way. -/
theorem triggered_defset_frozen (hdur : 0 < cfg.slotDur) {y : Sys} (h : Reach bn cfg y) :
    ∀ t ∈ y.hist, ∀ x, x ∈ defsOf y.st t.duty → x ∈ t.defs :=
  reach_finv hdur h

/-- **Never altered.** A resolution attempt — in particular a retry after a transient error, or the
repeated resolution of the next epoch in the last slot — and the reorg handler never change a stored
definition: for a pubkey that had a definition `df` under duty `d`, whatever is stored under `d` for
that pubkey afterwards is still `df` (first wins; the only other outcome is that the whole set of
`d` was deleted by a trim). `UInv` (one definition per pubkey) holds in every reachable state. -/
theorem definition_never_altered {s : State} (hu : UInv s) {d : Duty} {pk : Nat} {df df' : Def}
    (h : (pk, df) ∈ defsOf s d) :
    (∀ slot, (pk, df') ∈ defsOf (resolveDuties bn cfg s slot) d → df' = df) ∧
    (∀ ep, (pk, df') ∈ defsOf (reorg cfg s ep) d → df' = df) := by
  refine ⟨fun slot h' => ?_, fun ep h' => ?_⟩
  · obtain ⟨hu', hk⟩ := resolveDuties_keeps bn cfg s slot hu
    rcases hk d pk df h with h0 | h1
    · rw [h0] at h'; cases h'
    · exact hu'.uniq h' h1
  · obtain ⟨hu', hk⟩ := reorg_keeps cfg s ep hu
    rcases hk d pk df h with h0 | h1
    · rw [h0] at h'; cases h'
    · exact hu'.uniq h' h1

theorem reachable_unique_definitions {y : Sys} (h : Reach bn cfg y) : UInv y.st := reach_uinv h

variable (T : Truth)

/-- **Complete after resolve.** Hypotheses: the beacon node's successful answers for an epoch do not
change between retries (`Stable`; errors are unrestricted) and name only slots of the requested
epoch (`WellFormed`). Let `y` be any reachable state and `slot` any slot the ticker may hand over
next (`y.next ≤ slot`: missed ticks allowed). If the epoch of `slot` is resolved when
`scheduleSlot` reaches its trigger loop (it was resolved earlier, or the resolution at this very
tick succeeds), then for every assignment `df` the beacon node has for `(slot, ty)` to an active
cluster validator `pk` (`Expected`), the duty `(slot, ty)` is triggered, its definition set
contains `pk`, and everything in that set is such an assignment. -/
theorem complete_after_resolve (hdur : 0 < cfg.slotDur) (hspe : 0 < cfg.spe) (hst : Stable bn T)
    (hwf : WellFormed cfg T) {y : Sys} (h : Reach bn cfg y) {slot : Nat} (hs : y.next ≤ slot)
    (hres : (preResolve bn cfg y.st slot).resolvedEpoch = slot / cfg.spe) (hmax : slot / cfg.spe ≠ maxInt64)
    {ty pk : Nat} {df : Def} (hx : Expected cfg T ⟨slot, ty⟩ pk df) :
    ∃ t ∈ (scheduleSlot bn cfg y.st slot).2, t.duty = ⟨slot, ty⟩ ∧ hasPk t.defs pk = true ∧
      ∀ pk' df', (pk', df') ∈ t.defs → Expected cfg T ⟨slot, ty⟩ pk' df' := by
  have hc := reach_cinv hst hwf hspe hdur h
  obtain ⟨hE, _, hC⟩ := preResolve_inv hst hwf hspe hs hc.e hc.d hc.c
  have hp : hasPk (defsOf (preResolve bn cfg y.st slot) ⟨slot, ty⟩) pk = true :=
    hC (by rw [hres]; exact hmax) ⟨slot, ty⟩ pk df hres.symm (Nat.le_refl _) hx
  have hty : ty ∈ allDutyTypes := by
    cases df with
    | att a => rcases hx.1 with h | h <;> (simp only at h; subst h; decide)
    | pro p => have := hx.1; simp only at this; subst this; decide
    | sync d => have := hx.1; simp only at this; subst this; decide
  obtain ⟨t, ht, hd, hpk⟩ := trigLoop_complete hst hwf hspe slot allDutyTypes _ hE ty hty pk hp
  refine ⟨t, ht, hd, hpk, ?_⟩
  intro pk' df' hm
  have hJ := (trigLoop_JInv (bn := bn) (cfg := cfg) slot allDutyTypes _
    (preResolve_JInv slot (reach_inv hdur h).j)).2 t ht pk' df' hm
  rw [hd] at hJ
  exact expected_of_justified hst hwf hJ

/-- **Definition set equal to the beacon node's assignments.** In the situation of
`complete_after_resolve`, if the beacon node does not list two different assignments for the same
validator and duty, the triggered definition set is *exactly* the set of the beacon node's
assignments for cluster validators: `(pk, df)` is in it iff it is expected. -/
theorem defset_equals_bn (hdur : 0 < cfg.slotDur) (hspe : 0 < cfg.spe) (hst : Stable bn T)
    (hwf : WellFormed cfg T) {y : Sys} (h : Reach bn cfg y) {slot : Nat} (hs : y.next ≤ slot)
    (hres : (preResolve bn cfg y.st slot).resolvedEpoch = slot / cfg.spe) (hmax : slot / cfg.spe ≠ maxInt64)
    {ty : Nat}
    (hfun : ∀ pk df1 df2, Expected cfg T ⟨slot, ty⟩ pk df1 → Expected cfg T ⟨slot, ty⟩ pk df2 → df1 = df2)
    (hne : ∃ pk df, Expected cfg T ⟨slot, ty⟩ pk df) :
    ∃ t ∈ (scheduleSlot bn cfg y.st slot).2, t.duty = ⟨slot, ty⟩ ∧
      ∀ pk df, (pk, df) ∈ t.defs ↔ Expected cfg T ⟨slot, ty⟩ pk df := by
  obtain ⟨pk0, df0, hx0⟩ := hne
  obtain ⟨t, ht, hd, _, hsound⟩ := complete_after_resolve bn cfg T hdur hspe hst hwf h hs hres hmax hx0
  refine ⟨t, ht, hd, fun pk df => ⟨hsound pk df, fun hx => ?_⟩⟩
  obtain ⟨t', ht', hd', hpk', _⟩ := complete_after_resolve bn cfg T hdur hspe hst hwf h hs hres hmax hx
  have : t' = t := nodup_map_inj (scheduleSlot_out_nodup bn cfg y.st slot) ht' ht (by rw [hd, hd'])
  subst this
  obtain ⟨df', hm⟩ := (hasPk_iff _ _).mp hpk'
  have := hfun pk df' df (hsound pk df' hm) hx
  subst this
  exact hm

/-! ### Non-vacuity and witnesses (concrete runs; tests of the statements, not proofs) -/

/-- 4 slots per epoch, 1200 ns per slot. -/
def exCfg : Cfg := { spe := 4, slotDur := 1200, reorgEnabled := true }

/-- validator 0 (pubkey 100) is active, validator 1 (pubkey 101) is pending far in the future. -/
def exVals : List Val := [⟨0, 100, true, 0⟩, ⟨1, 101, false, 99⟩]

/-- per epoch `e`: validator 0 attests in slot `4e+1` and proposes there, validator 1 (inactive)
and validator 5 (not in the cluster) get duties too; validator 0 is in the sync committee. -/
def exTruth : Truth where
  vals _ := exVals
  att e := [⟨0, 100, 4 * e + 1, 7⟩, ⟨1, 101, 4 * e + 2, 8⟩, ⟨5, 105, 4 * e + 1, 9⟩]
  pro e := [⟨0, 100, 4 * e + 1⟩, ⟨5, 105, 4 * e + 2⟩]
  sync _ := [⟨0, 100, 3⟩]

/-- a beacon node answering the truth, except that the first proposer-duties call fails. -/
def exBN : BN where
  vals _ e := some ((exTruth.vals e).map some)
  att _ e _ := some ((exTruth.att e).map some)
  pro k e _ := if k = 0 then none else some ((exTruth.pro e).map some)
  sync _ e _ := some ((exTruth.sync e).map some)

/-- the ticker starts in slot 4 (first slot of epoch 1); the clock then moves slot by slot, skips
slot 7 and a reorg event arrives. -/
def exRun : Sys :=
  Sys.run exBN exCfg (Sys.init exCfg 4800) [.adv 0, .adv 1200, .adv 1200, .reorg 0, .adv 2500, .adv 1200]

-- the hypotheses of `complete_after_resolve` are satisfiable
example : Stable exBN exTruth ∧ WellFormed exCfg exTruth := by
  refine ⟨⟨?_, ?_, ?_, ?_⟩, ?_, ?_⟩
  · intro k e l h; simpa [exBN] using h.symm
  · intro k e ix l h; simpa [exBN] using h.symm
  · intro k e ix l h
    simp only [exBN] at h
    split at h
    · cases h
    · simpa using h.symm
  · intro k e ix l h; simpa [exBN] using h.symm
  · intro e a ha
    simp only [exTruth, List.mem_cons, List.mem_nil_iff, or_false] at ha
    rcases ha with rfl | rfl | rfl <;> simp only [exCfg] <;> omega
  · intro e p hp
    simp only [exTruth, List.mem_cons, List.mem_nil_iff, or_false] at hp
    rcases hp with rfl | rfl <;> simp only [exCfg] <;> omega

-- slots 4, 5, 6, 8, 9 are handled (7 is skipped). The failed proposer call in slot 4 aborts the
-- resolution of epoch 1 before the sync duties are fetched, so slot 4 triggers nothing (a duty is
-- skipped, not altered); the retry in slot 5 succeeds. After the reorg event epoch 1 is resolved again
-- in slot 6; epoch 2 is resolved in slot 8. Nothing is ever triggered for validator 1 (inactive) or
-- validator 5 (outside the cluster), and no duty appears twice.
set_option maxRecDepth 1000000 in
example :
    exRun.ticked = [4, 5, 6, 8, 9] ∧
    exRun.hist.map (fun t => (t.duty.slot, t.duty.ty, t.defs.map (fun p => p.1), t.nb)) =
      [(5, 1, [100], 6000), (5, 2, [100], 6400), (5, 9, [100], 6800), (5, 12, [100], 6800),
       (6, 12, [100], 8000), (8, 12, [100], 10400), (9, 1, [100], 10800), (9, 2, [100], 11200),
       (9, 9, [100], 11600), (9, 12, [100], 11600)] := by decide

-- `Expected` is inhabited and the premise of `complete_after_resolve` holds at slot 9 of that run
set_option maxRecDepth 1000000 in
example :
    let y := Sys.run exBN exCfg (Sys.init exCfg 4800) [.adv 0, .adv 1200, .adv 1200, .reorg 0, .adv 2500]
    y.next ≤ 9 ∧ (preResolve exBN exCfg y.st 9).resolvedEpoch = 9 / exCfg.spe := by decide

example : Expected exCfg exTruth ⟨9, tyAttester⟩ 100 (.att ⟨0, 100, 9, 7⟩) :=
  ⟨Or.inl rfl, by decide, rfl, rfl, ⟨0, 100, true, 0⟩, by decide, rfl, rfl⟩

/-- a beacon node that changes its attester answer for epoch 1 between the first call (tag 7) and
the retry (tag 8) forced by a failing proposer call. -/
def flipBN : BN where
  vals _ _ := some (exVals.map some)
  att k e _ := some [some ⟨0, 100, 4 * e + 2, if k = 0 then 7 else 8⟩]
  pro k _ _ := if k = 0 then none else some []
  sync _ _ _ := some []

-- `Stable` is needed for "equal to the beacon node's assignments": the first answer wins, so the
-- duty of slot 6 is triggered with tag 7 although the resolution that completed saw tag 8.
set_option maxRecDepth 1000000 in
example :
    (Sys.run flipBN exCfg (Sys.init exCfg 4800) [.adv 0, .adv 1200, .adv 1200]).hist.map
        (fun t => (t.duty.slot, t.duty.ty, t.defs)) =
      [(6, 2, [(100, .att ⟨0, 100, 6, 7⟩)]), (6, 9, [(100, .att ⟨0, 100, 6, 7⟩)])] := by decide

end CharonV.Sched
