/-
C04 (addition) — round timers of `core/consensus/timer/roundtimer.go`.

C04 quantifies over "all message latencies below a third of the shortest round timeout". This file
settles what that number is for each timer type, for every round `r ≥ 1` (no bound on `r`), every
duty type and both settings of the ProposalTimeout feature, and states exactly what the
eager-double-linear type does with absolute, slot-aligned deadlines and repeated calls.

All durations are nanoseconds (`Nat`). Model: `CharonV.Model.RoundTimer`; it is tied to the Go code
by the correspondence stream `roundtimer` (driver `drive-timer`, real timers on a fake clock).
-/
import CharonV.Model.RoundTimer

namespace CharonV.RoundTimer

/-! ### 1. Closed forms (every round, every duty type, both feature settings) -/

/-- `increasingRoundTimeout r = 750 ms + r · 250 ms`. -/
theorem inc_timeout_closed (r : Nat) : increasingRoundTimeout r = 750000000 + r * 250000000 := by
  simp [increasingRoundTimeout, incRoundStart, incRoundIncrease, ms]

/-- The increasing timer: 750 ms + r·250 ms, except that a proposer duty with the ProposalTimeout
feature gets 1.5 s in round 1 (and only in round 1). -/
theorem inc_closed (dt : Nat) (pt : Bool) (r : Nat) :
    incTimeout dt pt r =
      if pt = true ∧ dt = 1 ∧ r = 1 then 1500000000 else 750000000 + r * 250000000 := by
  unfold incTimeout increasingRoundTimeout proposalRoundTimeout linearRoundTimeout incRoundStart
    incRoundIncrease linearRoundInc proposalRoundExtra dutyProposer sec ms
  by_cases h : pt = true ∧ dt = 1 ∧ r = 1
  · rw [if_pos h, if_pos h, h.2.2]
  · rw [if_neg h, if_neg h]

/-- The linear timer: 1 s in round 1 (1.5 s for a proposer with the feature), `r · 200 ms` from
round 2 on. -/
theorem linear_closed (dt : Nat) (pt : Bool) (r : Nat) (hr : 1 ≤ r) :
    linTimeout dt pt r =
      if pt = true ∧ dt = 1 ∧ r = 1 then 1500000000
      else if r = 1 then 1000000000 else r * 200000000 := by
  unfold linTimeout proposalRoundTimeout linearRoundTimeout linearRoundInc proposalRoundExtra
    dutyProposer sec ms
  by_cases h : pt = true ∧ dt = 1 ∧ r = 1
  · rw [if_pos h, if_pos h, h.2.2]
  · rw [if_neg h, if_neg h]
    by_cases h1 : r = 1
    · rw [if_pos h1, if_pos h1]
    · rw [if_neg h1, if_neg h1]; omega

/-- The eager-double-linear timer: `r · 1 s`, plus 500 ms in *every* round for a proposer duty with
the feature. -/
theorem eager_closed (dt : Nat) (pt : Bool) (r : Nat) :
    eagerTimeout dt pt r = r * 1000000000 + (if pt = true ∧ dt = 1 then 500000000 else 0) := by
  unfold eagerTimeout proposalRoundTimeout linearRoundTimeout linearRoundInc proposalRoundExtra
    dutyProposer sec ms
  by_cases h : pt = true ∧ dt = 1
  · rw [if_pos h, if_pos h]
  · rw [if_neg h, if_neg h]; omega

/-- A `Timer(round)` call of the increasing type is stateless and relative to the call instant. -/
theorem inc_call (c : Cfg) (hk : c.kind = .inc) (pt : Bool) (s : State) (now r : Nat) :
    timerCall c pt s now r =
      (s, { deadline := now + incTimeout c.dutyType pt r, dur := incTimeout c.dutyType pt r }) := by
  simp [timerCall, hk]

/-- A `Timer(round)` call of the linear type is stateless and relative to the call instant. -/
theorem linear_call (c : Cfg) (hk : c.kind = .linear) (pt : Bool) (s : State) (now r : Nat) :
    timerCall c pt s now r =
      (s, { deadline := now + linTimeout c.dutyType pt r, dur := linTimeout c.dutyType pt r }) := by
  simp [timerCall, hk]

/-- The duty start delay: a third of the slot for attester duties, two thirds for aggregator and
sync-contribution duties, none otherwise (integer division, as in Go). -/
theorem duty_delay_closed (dt sd : Nat) :
    dutyStartDelay dt sd =
      if dt = 2 then sd / 3 else if dt = 9 ∨ dt = 12 then 2 * sd / 3 else 0 := by
  unfold dutyStartDelay dutyAttester dutyAggregator dutySyncContribution
  rfl

/-! ### 2. Monotonicity in the round — where it holds, and where it does not -/

/-- The increasing timer is strictly increasing in the round, unless the proposal extra applies. -/
theorem inc_strict_mono (dt : Nat) (pt : Bool) (h : ¬(pt = true ∧ dt = 1)) {r r' : Nat}
    (hlt : r < r') : incTimeout dt pt r < incTimeout dt pt r' := by
  rw [inc_closed, inc_closed]
  have h1 : ¬(pt = true ∧ dt = 1 ∧ r = 1) := fun ⟨a, b, _⟩ => h ⟨a, b⟩
  have h2 : ¬(pt = true ∧ dt = 1 ∧ r' = 1) := fun ⟨a, b, _⟩ => h ⟨a, b⟩
  simp only [h1, h2, if_false]; omega

/-- From round 2 on the increasing timer is strictly increasing for every duty and flag. -/
theorem inc_strict_mono_from_2 (dt : Nat) (pt : Bool) {r r' : Nat} (h2 : 2 ≤ r) (hlt : r < r') :
    incTimeout dt pt r < incTimeout dt pt r' := by
  rw [inc_closed, inc_closed]
  have h1 : ¬(pt = true ∧ dt = 1 ∧ r = 1) := fun ⟨_, _, c⟩ => by omega
  have h2 : ¬(pt = true ∧ dt = 1 ∧ r' = 1) := fun ⟨_, _, c⟩ => by omega
  simp only [h1, h2, if_false]; omega

/-- **Not monotone**: a proposer duty with the ProposalTimeout feature (enabled by default) has
1.5 s in round 1 and only 1.25 s in round 2 under the increasing timer. -/
theorem inc_not_mono_proposal :
    incTimeout dutyProposer true 1 = 1500000000 ∧ incTimeout dutyProposer true 2 = 1250000000 := by
  decide

/-- The eager-double-linear timeout is strictly increasing in the round, always. -/
theorem eager_strict_mono (dt : Nat) (pt : Bool) {r r' : Nat} (hlt : r < r') :
    eagerTimeout dt pt r < eagerTimeout dt pt r' := by
  rw [eager_closed, eager_closed]; omega

/-- **Not monotone**: the `linear` type is 1 s in round 1 and 400 ms in round 2, for every duty type
and flag (with the proposal extra round 1 is even 1.5 s). -/
theorem linear_not_mono (dt : Nat) (pt : Bool) :
    linTimeout dt false 1 = 1000000000 ∧ linTimeout dt pt 2 = 400000000 ∧
      linTimeout dt pt 2 < linTimeout dt pt 1 := by
  refine ⟨?_, ?_, ?_⟩
  · rw [linear_closed _ _ _ (Nat.le_refl 1)]; simp
  · rw [linear_closed _ _ _ (by omega)]; simp
  · rw [linear_closed _ _ _ (by omega), linear_closed _ _ _ (Nat.le_refl 1)]
    by_cases h : pt = true ∧ dt = 1 <;> simp [h]

/-- From round 2 on the linear timer is strictly increasing. -/
theorem linear_strict_mono_from_2 (dt : Nat) (pt : Bool) {r r' : Nat} (h2 : 2 ≤ r) (hlt : r < r') :
    linTimeout dt pt r < linTimeout dt pt r' := by
  rw [linear_closed _ _ _ (by omega), linear_closed _ _ _ (by omega)]
  have a1 : ¬(r = 1) := by omega
  have a2 : ¬(r' = 1) := by omega
  simp only [a1, a2, and_false, if_false]; omega

/-! ### 3. The shortest timeout of each type over all rounds -/

/-- The minimum over all rounds `r ≥ 1` of the nominal timeout, per timer type, duty type and flag:
* increasing: 1 s (round 1); for a proposer with the feature 1.25 s (round 2, since round 1 has 1.5 s),
* eager-double-linear: 1 s (round 1); 1.5 s for a proposer with the feature,
* linear: 400 ms (round 2). -/
def shortest (k : Kind) (dt : Nat) (pt : Bool) : Nat :=
  match k with
  | .inc => if pt = true ∧ dt = 1 then 1250000000 else 1000000000
  | .eager => if pt = true ∧ dt = 1 then 1500000000 else 1000000000
  | .linear => 400000000

/-- `shortest` is a lower bound of the timeout of every round `r ≥ 1`. -/
theorem shortest_le (c : Cfg) (pt : Bool) (r : Nat) (hr : 1 ≤ r) :
    shortest c.kind c.dutyType pt ≤ timeoutOf c pt r := by
  cases hk : c.kind with
  | inc =>
    simp only [shortest, timeoutOf, hk, inc_closed]
    by_cases h : pt = true ∧ c.dutyType = 1
    · by_cases h1 : r = 1
      · simp [h, h1]
      · have h2 : ¬(pt = true ∧ c.dutyType = 1 ∧ r = 1) := fun ⟨_, _, x⟩ => h1 x
        rw [if_pos h, if_neg h2]; omega
    · have h2 : ¬(pt = true ∧ c.dutyType = 1 ∧ r = 1) := fun ⟨a, b, _⟩ => h ⟨a, b⟩
      rw [if_neg h, if_neg h2]; omega
  | eager =>
    simp only [shortest, timeoutOf, hk, eager_closed]
    by_cases h : pt = true ∧ c.dutyType = 1
    · rw [if_pos h, if_pos h]; omega
    · rw [if_neg h, if_neg h]; omega
  | linear =>
    simp only [shortest, timeoutOf, hk, linear_closed _ _ _ hr]
    by_cases h : pt = true ∧ c.dutyType = 1 ∧ r = 1
    · rw [if_pos h]; omega
    · rw [if_neg h]
      by_cases h1 : r = 1
      · rw [if_pos h1]; omega
      · rw [if_neg h1]; omega

/-- … and it is attained (in round 1 or round 2), so it is the minimum. -/
theorem shortest_attained (c : Cfg) (pt : Bool) :
    ∃ r, 1 ≤ r ∧ r ≤ 2 ∧ timeoutOf c pt r = shortest c.kind c.dutyType pt := by
  cases hk : c.kind with
  | inc =>
    by_cases h : pt = true ∧ c.dutyType = 1
    · refine ⟨2, by omega, by omega, ?_⟩
      simp [shortest, timeoutOf, hk, inc_closed, h]
    · refine ⟨1, by omega, by omega, ?_⟩
      have h1 : ¬(pt = true ∧ c.dutyType = 1 ∧ True) := fun ⟨a, b, _⟩ => h ⟨a, b⟩
      simp only [shortest, timeoutOf, hk, inc_closed]
      rw [if_neg h1, if_neg h]
  | eager =>
    refine ⟨1, by omega, by omega, ?_⟩
    simp only [shortest, timeoutOf, hk, eager_closed]
    by_cases h : pt = true ∧ c.dutyType = 1
    · rw [if_pos h, if_pos h]
    · rw [if_neg h, if_neg h]
  | linear =>
    refine ⟨2, by omega, by omega, ?_⟩
    simp [shortest, timeoutOf, hk, linear_closed]

/-- Whatever the timer type, duty and flag: no round is shorter than 400 ms, and with the default
timer selection (eager-double-linear or increasing) none is shorter than 1 s. -/
theorem shortest_overall (c : Cfg) (pt : Bool) (r : Nat) (hr : 1 ≤ r) :
    400000000 ≤ timeoutOf c pt r ∧ (c.kind ≠ .linear → 1000000000 ≤ timeoutOf c pt r) := by
  have h := shortest_le c pt r hr
  unfold shortest at h
  cases hk : c.kind with
  | inc => rw [hk] at h; simp only at h; refine ⟨?_, fun _ => ?_⟩ <;> split at h <;> omega
  | eager => rw [hk] at h; simp only at h; refine ⟨?_, fun _ => ?_⟩ <;> split at h <;> omega
  | linear => rw [hk] at h; simp only at h; exact ⟨h, fun hn => absurd rfl hn⟩

/-! ### 4. Three message delays fit into every round -/

/-- **three_delays_fit.** For every latency `δ` with `3·δ` below the shortest timeout of the timer
type, `3·δ` is below the timeout of *every* round `r ≥ 1`: PRE-PREPARE → PREPARE → COMMIT of a
round fit before that round's timer. -/
theorem three_delays_fit (c : Cfg) (pt : Bool) (δ : Nat)
    (hδ : 3 * δ < shortest c.kind c.dutyType pt) (r : Nat) (hr : 1 ≤ r) :
    3 * δ < timeoutOf c pt r :=
  Nat.lt_of_lt_of_le hδ (shortest_le c pt r hr)

/-- The same on the level of calls for the two relative (stateless) types: whenever and in whatever
state `Timer(r)` is called, the channel fires exactly `timeoutOf` later, strictly after three
message delays counted from the call. -/
theorem three_delays_fit_call (c : Cfg) (hk : c.kind ≠ .eager) (pt : Bool) (δ : Nat)
    (hδ : 3 * δ < shortest c.kind c.dutyType pt) (s : State) (now r : Nat) (hr : 1 ≤ r) :
    (timerCall c pt s now r).2.dur = timeoutOf c pt r ∧
    (timerCall c pt s now r).2.deadline = now + timeoutOf c pt r ∧
    now + 3 * δ < (timerCall c pt s now r).2.deadline := by
  have h := three_delays_fit c pt δ hδ r hr
  cases hc : c.kind with
  | eager => exact absurd hc hk
  | inc => simp [timerCall, timeoutOf, hc] at h ⊢; omega
  | linear => simp [timerCall, timeoutOf, hc] at h ⊢; omega

/-! ### 5. Eager-double-linear: absolute, slot-aligned first deadline -/

/-- **First call.** With genesis time and slot duration known, the first `Timer(r)` call stores and
returns the deadline `slotStart + dutyDelay + timeout r` (`r · 1 s`, + 500 ms for proposer with the
feature) — independent of the instant `now` of the call. The channel fires `deadline - now` later
(at once if that instant has passed). -/
theorem eager_first_deadline (c : Cfg) (hk : c.kind = .eager) (g : Nat) (hg : c.genesis = some g)
    (hs : 0 < c.slotDur) (pt : Bool) (s : State) (now r : Nat) (hn : lookup r s.first = none) :
    let f := (timerCall c pt s now r).2
    f.deadline = g + c.slotDur * c.slot + dutyStartDelay c.dutyType c.slotDur
                   + (r * 1000000000 + (if pt = true ∧ c.dutyType = 1 then 500000000 else 0)) ∧
    f.dur = f.deadline - now ∧
    lookup r (timerCall c pt s now r).1.first = some f.deadline := by
  simp [timerCall, hk, hn, eagerFirstDeadline, hg, hs, dutyStart, eager_closed, lookup]

/-- **Alignment of first calls.** Two members (any states without an entry for round `r`, any call
instants) get the same absolute deadline for round `r`. -/
theorem eager_first_aligned (c : Cfg) (hk : c.kind = .eager) (g : Nat) (hg : c.genesis = some g)
    (hs : 0 < c.slotDur) (pt : Bool) (s₁ s₂ : State) (now₁ now₂ r : Nat)
    (h₁ : lookup r s₁.first = none) (h₂ : lookup r s₂.first = none) :
    (timerCall c pt s₁ now₁ r).2.deadline = (timerCall c pt s₂ now₂ r).2.deadline := by
  rw [(eager_first_deadline c hk g hg hs pt s₁ now₁ r h₁).1,
      (eager_first_deadline c hk g hg hs pt s₂ now₂ r h₂).1]

/-- Without genesis time or slot duration the first deadline is relative to the call (`now +
timeout r`), so it is *not* aligned between members that call at different instants. -/
theorem eager_untimed_first (c : Cfg) (hk : c.kind = .eager) (hu : c.genesis = none ∨ c.slotDur = 0)
    (pt : Bool) (s : State) (now r : Nat) (hn : lookup r s.first = none) :
    (timerCall c pt s now r).2.deadline = now + eagerTimeout c.dutyType pt r ∧
    (timerCall c pt s now r).2.dur = eagerTimeout c.dutyType pt r := by
  rcases hu with hu | hu
  · simp [timerCall, hk, hn, eagerFirstDeadline, hu]
  · cases hg : c.genesis <;> simp [timerCall, hk, hn, eagerFirstDeadline, hu, hg]

/-! ### 6. Eager-double-linear: repeated calls (the "doubling") -/

/-- An entry of `firstDeadlines` is never changed by any later call (of any round, at any time). -/
theorem first_deadline_never_changes (c : Cfg) (pt : Bool) (s : State) (now r r' d : Nat)
    (h : lookup r' s.first = some d) : lookup r' (timerCall c pt s now r).1.first = some d := by
  unfold timerCall
  cases c.kind with
  | inc => exact h
  | linear => exact h
  | eager =>
    simp only
    cases hl : lookup r s.first with
    | some first => exact h
    | none =>
      simp only [lookup]
      split
      · next heq => subst heq; rw [h] at hl; cases hl
      · exact h

/-- … hence by no sequence of calls. -/
theorem first_deadline_persists (c : Cfg) (r' d : Nat) (cs : List Call) :
    ∀ s : State, lookup r' s.first = some d → lookup r' (run c s cs).first = some d := by
  induction cs with
  | nil => intro s h; exact h
  | cons k ks ih =>
    intro s h
    exact ih _ (first_deadline_never_changes c k.pt s k.now k.round r' d h)

/-- A repeated call for a round does not change the state at all (`firstDeadlines[round]` keeps the
FIRST deadline, it is not advanced). -/
theorem eager_repeat_state (c : Cfg) (pt : Bool) (s : State) (now r d : Nat)
    (h : lookup r s.first = some d) : (timerCall c pt s now r).1 = s := by
  unfold timerCall
  cases c.kind <;> simp [h]

/-- **Second call (doubling).** The second `Timer(r)` call on the same object — whenever it is made
and whatever the flag is then — has the deadline `first deadline + timeout r`: exactly one more
timeout after the first deadline (with an unchanged flag: round `r` ends `2 · timeout r` after
the duty start instead of `1 ·`). -/
theorem eager_second_call (c : Cfg) (hk : c.kind = .eager) (pt pt' : Bool) (s : State)
    (now now' r : Nat) (hn : lookup r s.first = none) :
    let first := (timerCall c pt s now r).2.deadline
    let f2 := (timerCall c pt' (timerCall c pt s now r).1 now' r).2
    f2.deadline = first + eagerTimeout c.dutyType pt' r ∧ f2.dur = f2.deadline - now' := by
  simp [timerCall, hk, hn, lookup]

/-- **n-th call.** After the first call, *every* later call for round `r` — the 2nd, 3rd, n-th, with
any calls for any rounds in between — has the same deadline `first + timeout r`. The code doubles
once; it does not add a further timeout per call. -/
theorem eager_nth_call (c : Cfg) (hk : c.kind = .eager) (pt pt' : Bool) (s : State)
    (now now' r : Nat) (hn : lookup r s.first = none) (between : List Call) :
    let first := (timerCall c pt s now r).2.deadline
    let sn := run c (timerCall c pt s now r).1 between
    (timerCall c pt' sn now' r).2.deadline = first + eagerTimeout c.dutyType pt' r ∧
    (timerCall c pt' sn now' r).2.dur = first + eagerTimeout c.dutyType pt' r - now' := by
  have h1 : lookup r (timerCall c pt s now r).1.first = some (timerCall c pt s now r).2.deadline := by
    simp [timerCall, hk, hn, lookup]
  have h2 := first_deadline_persists c r _ between _ h1
  simp only []
  generalize run c (timerCall c pt s now r).1 between = sn at h2
  generalize (timerCall c pt s now r).2.deadline = first at h2
  simp [timerCall, hk, h2]

/-! ### 7. With the absolute alignment: round `r` of every member ends at the same instant -/

/-- In every state an eager timer with genesis time and slot duration can reach (any number of
calls, any rounds, any instants, flag `pt` throughout), every stored first deadline is
`dutyStart + timeout r`: it depends on nothing but the duty, the round and the chain timing. -/
theorem eager_reach_entries (c : Cfg) (hk : c.kind = .eager) (g : Nat) (hg : c.genesis = some g)
    (hs : 0 < c.slotDur) (pt : Bool) {s : State} (h : Reach c pt s) :
    ∀ r d, lookup r s.first = some d → d = dutyStart c g + eagerTimeout c.dutyType pt r := by
  induction h with
  | init => intro r d h; simp [lookup] at h
  | @call s0 now round _ ih =>
    intro r d hl
    cases hl0 : lookup round s0.first with
    | some first =>
      rw [eager_repeat_state c pt s0 now round first hl0] at hl
      exact ih r d hl
    | none =>
      simp only [timerCall, hk, hl0, lookup] at hl
      split at hl
      · next heq =>
        cases hl; subst heq
        simp [eagerFirstDeadline, hg, hs]
      · exact ih r d hl

/-- **Aligned round ends.** For an eager timer with genesis time and slot duration, in any reachable
state, `Timer(r)` called at any instant has the deadline `dutyStart + timeout r` if it is the
object's first call for `r`, and `dutyStart + 2 · timeout r` otherwise. Nothing else enters. -/
theorem eager_deadline_reach (c : Cfg) (hk : c.kind = .eager) (g : Nat) (hg : c.genesis = some g)
    (hs : 0 < c.slotDur) (pt : Bool) {s : State} (h : Reach c pt s) (now r : Nat) :
    (timerCall c pt s now r).2.deadline =
      dutyStart c g + (if (lookup r s.first).isSome then 2 else 1) * eagerTimeout c.dutyType pt r := by
  cases hl : lookup r s.first with
  | some d =>
    have hd := eager_reach_entries c hk g hg hs pt h r d hl
    simp [timerCall, hk, hl, hd]; omega
  | none =>
    simp [timerCall, hk, hl, eagerFirstDeadline, hg, hs]

/-- Hence round `r` ends at the same absolute instant at any two members (same duty, same chain
timing, same flag), whatever their call histories and call instants were, provided both are at
their first call for `r` or both at a repeated one (both have seen the justified PRE-PREPARE). -/
theorem eager_round_end_aligned (c : Cfg) (hk : c.kind = .eager) (g : Nat) (hg : c.genesis = some g)
    (hs : 0 < c.slotDur) (pt : Bool) {s₁ s₂ : State} (h₁ : Reach c pt s₁) (h₂ : Reach c pt s₂)
    (now₁ now₂ r : Nat) (hsame : (lookup r s₁.first).isSome = (lookup r s₂.first).isSome) :
    (timerCall c pt s₁ now₁ r).2.deadline = (timerCall c pt s₂ now₂ r).2.deadline := by
  rw [eager_deadline_reach c hk g hg hs pt h₁, eager_deadline_reach c hk g hg hs pt h₂, hsame]

/-! ### 8. How long a round of the aligned eager timer really lasts

The nominal timeout `r · 1 s` is measured from the duty start, not from the start of round `r`.
What is left for round `r` is `deadline - now`.

Full statement (it would read like `three_delays_fit_call` for the eager type):
  `3·δ < shortest .eager dt pt → ∀ reachable s, ∀ now r, r ≥ 1 → lookup r s.first = none →
     now + 3·δ < (timerCall c pt s now r).2.deadline`
This is FALSE for the code as it is — see `eager_skipped_rounds` and the witness below: after a
doubled round `r` expires, the rounds `r+1 … 2r` get no time at all. What holds is
`three_delays_fit_eager_partial` with the hypothesis that the call is made at least one
`LinearRoundInc` before the aligned round end. -/

/-- When rounds time out one after the other without doubling, the first `Timer(r+1)` call is made
at round `r`'s first deadline and every such round lasts exactly 1 s (`LinearRoundInc`), for all
duty types and both flags — not `r+1` seconds. -/
theorem eager_round_length (c : Cfg) (hk : c.kind = .eager) (g : Nat) (hg : c.genesis = some g)
    (hs : 0 < c.slotDur) (pt : Bool) (s : State) (r : Nat)
    (hn : lookup (r + 1) s.first = none) :
    (timerCall c pt s (dutyStart c g + eagerTimeout c.dutyType pt r) (r + 1)).2.dur = 1000000000 := by
  simp [timerCall, hk, hn, eagerFirstDeadline, hg, hs, eager_closed]; omega

/-- three_delays_fit for the aligned eager type, partial: if the first `Timer(r)` call is made no
later than 1 s before the aligned end of round `r` (e.g. at the previous round's first deadline,
or for `r = 1` at the duty start), three delays `δ` with `3·δ < 1 s` fit before the timer. -/
theorem three_delays_fit_eager_partial (c : Cfg) (hk : c.kind = .eager) (g : Nat)
    (hg : c.genesis = some g) (hs : 0 < c.slotDur) (pt : Bool) (s : State) (now r δ : Nat)
    (hn : lookup r s.first = none) (hδ : 3 * δ < 1000000000)
    (hnow : now + 1000000000 ≤ dutyStart c g + eagerTimeout c.dutyType pt r) :
    now + 3 * δ < (timerCall c pt s now r).2.deadline ∧
    3 * δ < (timerCall c pt s now r).2.dur := by
  simp [timerCall, hk, hn, eagerFirstDeadline, hg, hs]; omega

/-- **Rounds without any time.** If round `r ≥ 1` was doubled and has expired (the clock has reached
`dutyStart + 2 · timeout r`), the first `Timer(r')` call of every round `r < r' ≤ 2r` fires at
once (duration 0): their aligned deadlines `dutyStart + timeout r'` have already passed. -/
theorem eager_skipped_rounds (c : Cfg) (hk : c.kind = .eager) (g : Nat) (hg : c.genesis = some g)
    (hs : 0 < c.slotDur) (pt : Bool) (s : State) (now r r' : Nat) (hr' : r' ≤ 2 * r)
    (hnow : dutyStart c g + 2 * eagerTimeout c.dutyType pt r ≤ now)
    (hn : lookup r' s.first = none) :
    (timerCall c pt s now r').2.dur = 0 := by
  simp [timerCall, hk, hn, eagerFirstDeadline, hg, hs, eager_closed] at hnow ⊢
  omega

/-! ### 9. Timer selection (`GetRoundTimerFunc`) -/

/-- With the default features (`eager_double_linear` stable = on, `linear` alpha = off) every duty
gets the eager-double-linear timer; the `linear` type is used for proposer duties only, and only
when the `linear` feature is enabled. -/
theorem select_default (dt : Nat) (eager linear : Bool) :
    selectKind false true dt = .eager ∧
    (selectKind linear eager dt = .linear ↔ (linear = true ∧ dt = 1)) := by
  refine ⟨by simp [selectKind], ?_⟩
  unfold selectKind
  cases linear <;> cases eager <;> simp [dutyProposer] <;> split <;> simp_all

/-! ### Non-vacuity and witnesses (concrete runs) -/

/-- attester duty of slot 10 on a 12 s chain, genesis 1000 ns after the base instant -/
def exAtt : Cfg := { kind := .eager, dutyType := 2, slot := 10, genesis := some 1000, slotDur := 12000000000 }
/-- proposer duty, increasing timer -/
def exIncProp : Cfg := { kind := .inc, dutyType := 1, slot := 10, genesis := none, slotDur := 0 }
/-- the eager timer without chain timing -/
def exUntimed : Cfg := { exAtt with genesis := none }

-- closed forms: increasing 1 s, 1.25 s, 1.5 s; proposer with the feature 1.5 s, 1.25 s, 1.5 s
example : (List.range 4).tail.map (incTimeout 2 true) = [1000000000, 1250000000, 1500000000] ∧
    (List.range 4).tail.map (incTimeout 1 true) = [1500000000, 1250000000, 1500000000] := by decide

-- linear: 1 s, 400 ms, 600 ms
example : (List.range 4).tail.map (linTimeout 2 true) = [1000000000, 400000000, 600000000] := by decide

-- three_delays_fit is not vacuous: δ = 133 ms fits the linear type (3δ = 399 ms < 400 ms) …
example : 3 * 133000000 < shortest .linear 1 true := by decide
-- … and the bound is tight: with δ = 134 ms three delays exceed round 2 of the linear timer.
example : ¬ (3 * 134000000 < linTimeout 1 true 2) := by decide

-- eager, aligned: dutyStart = 1000 + 10·12 s + 4 s; two members calling Timer(1) 300 ms apart get the
-- same deadline; the second call of member A doubles; the third call does not add anything.
example :
    let (a1, fa1) := timerCall exAtt false {} 124000001000 1
    let (_, fb1) := timerCall exAtt false {} 124300001000 1
    let (a2, fa2) := timerCall exAtt false a1 124200001000 1
    let (_, fa3) := timerCall exAtt false a2 124900001000 1
    fa1 = ⟨125000001000, 1000000000⟩ ∧ fb1 = ⟨125000001000, 700000000⟩ ∧
    fa2 = ⟨126000001000, 1800000000⟩ ∧ fa3 = ⟨126000001000, 1100000000⟩ := by decide

-- witness against the full three-delays statement for the eager type: round 1 doubled, expired at
-- dutyStart + 2 s; the first Timer(2) call at that instant fires at once, Timer(3) has 1 s.
example :
    let s := run exAtt {} [⟨false, 124000001000, 1⟩, ⟨false, 124100001000, 1⟩]
    (timerCall exAtt false s 126000001000 2).2 = ⟨126000001000, 0⟩ ∧
    (timerCall exAtt false (timerCall exAtt false s 126000001000 2).1 126000001000 3).2
      = ⟨127000001000, 1000000000⟩ := by decide

-- without chain timing the same two first calls are NOT aligned (300 ms apart)
example :
    (timerCall exUntimed false {} 124000001000 1).2.deadline = 125000001000 ∧
    (timerCall exUntimed false {} 124300001000 1).2.deadline = 125300001000 := by decide

-- Reach is inhabited beyond the initial state
example : Reach exAtt false (run exAtt {} [⟨false, 5, 1⟩, ⟨false, 6, 1⟩, ⟨false, 7, 3⟩]) :=
  .call 7 3 (.call 6 1 (.call 5 1 .init))

end CharonV.RoundTimer
