/-
C15 — `Scheduler.Run`: the loop around the per-slot handler never duplicates, reorders or replays a slot,
handles nothing before chain start and sync were reported and nothing after it returned; slot subscribers
and builder registrations ride along without influencing duty triggering.

Property theorems only (helpers: `CharonV.Proofs.SchedRun`). Every theorem quantifies over an arbitrary
beacon-node oracle, every configuration, the clock value at which `Run` is called and every finite sequence
of events (`Reach`): answers of the chain-start / sync polls, returns of `clock.Sleep`, clock moves FORWARD AND
BACKWARD (`adv`, `back`: no theorem here assumes a monotone clock), runs of
the ticker goroutine, outcomes of `Run`'s `select`, returns of the slot handler, `Stop` at any point,
timer / quit / beacon-node outcomes of every registration goroutine — i.e. every interleaving.

Statements the code does NOT satisfy as first formulated, kept here in full:
* "after `Stop` no further slot is handled": false — `select` chooses at random between the closed `quit`
  channel and a slot on offer (`slot_after_stop_witness`); what holds is `stop_is_final` (nothing after `Run`
  returned; `Run` returns at the first `select` that takes `quit`, and at once when no slot is on offer), and
  `Stop` is not looked at before the loop is reached (`stop_ignored_before_loop`).
* "a tick that arrives while the handler is busy is skipped": the slot already on offer is not skipped, it is
  handed over late (`stale_slot_handed_over_late_witness`); the slots after it are skipped; nothing is replayed
  or reordered (`slots_handled_in_order_once`).
* "a failing registration is retried the next slot": false — a new submission is started only by the handling
  of the first slot of an epoch (`registrations_only_at_epoch_start`, `registration_not_retried_within_epoch_witness`).
* "registrations at most once per epoch": holds per epoch label except label 0, where the start-up submission
  and the one of slot 0 can both reach the beacon node (`registrations_once_per_epoch`,
  `registration_twice_label0_witness`).
-/
import CharonV.Proofs.SchedRun

namespace CharonV.SchedRun
open CharonV.Sched

variable (bn : BN) (cfg : RCfg)

/-- **Nothing before the chain started and the node is synced.** If `Run` has received a slot, created the
ticker or started a registration, then `waitChainStart` got a genesis time that is not in the future and
`waitBeaconSync` got "not syncing". -/
theorem no_slot_before_ready (hdur : 0 < cfg.s.slotDur) {x : St} (h : Reach bn cfg x) :
    (x.core.taken ≠ [] ∨ x.core.emitted ≠ [] ∨ x.core.tk ≠ .off ∨ x.core.sys.hist ≠ [] ∨ x.reg.regs ≠ []) →
      x.core.gOk = true ∧ x.core.sOk = true := by
  intro hne
  have hk := reach_kinv hdur h
  have hr := reach_rinv hdur h
  apply hk.flags
  cases hp : x.core.phase.pre with
  | false => rfl
  | true =>
    exfalso
    have hoff := hk.preOff (Or.inl hp)
    have hrel := hk.rel
    rw [hoff] at hrel
    have hnb : ∀ s, x.core.phase ≠ .busy s := by intro s hs; rw [hs] at hp; simp [Phase.pre] at hp
    have ht := (hk.idleB hnb).1
    rcases hne with h1 | h1 | h1 | h1 | h1
    · exact h1 hrel.1
    · exact h1 hrel.2
    · exact h1 hoff
    · apply h1
      have hh := hk.sinv.histTicked
      rw [← ht, hrel.1] at hh
      cases hl : x.core.sys.hist with
      | nil => rfl
      | cons t ts => have := hh t (by rw [hl]; simp); cases this
    · exact h1 (hr.preEmpty hp)

/-- **Every ticker emission is handed over at most once, in order; nothing is replayed.** The slots `Run`
received are strictly increasing; they are exactly the ticker's emissions in the ticker's order, except
possibly the last emission (still on offer, or abandoned when `Run` returned); every slot received lies
below everything the ticker can still emit, so a slot that was skipped is never handled later. -/
theorem slots_handled_in_order_once (hdur : 0 < cfg.s.slotDur) {x : St} (h : Reach bn cfg x) :
    x.core.taken.Pairwise (fun a b => a < b) ∧
    (x.core.emitted = x.core.taken ∨ ∃ s, x.core.emitted = x.core.taken ++ [s]) ∧
    (∀ b, x.core.tk.lo = some b → ∀ s ∈ x.core.taken, s < b) ∧
    x.core.emitted.Pairwise (fun a b => a < b) := by
  have hk := reach_kinv hdur h
  have hrel := hk.rel
  have hem : x.core.emitted = x.core.taken ∨ ∃ s, x.core.emitted = x.core.taken ++ [s] := by
    cases htk : x.core.tk with
    | off => rw [htk] at hrel; left; rw [hrel.1, hrel.2]
    | wait n => rw [htk] at hrel; left; exact hrel
    | offer s => rw [htk] at hrel; right; exact ⟨s, hrel⟩
    | dead => rw [htk] at hrel; exact hrel
  refine ⟨hk.sorted, hem, hk.below, ?_⟩
  cases htk : x.core.tk with
  | off => rw [htk] at hrel; rw [hrel.2]; simp
  | wait n => rw [htk] at hrel; rw [hrel]; exact hk.sorted
  | offer s =>
    rw [htk] at hrel; rw [hrel]
    refine List.pairwise_append.mpr ⟨hk.sorted, by simp, ?_⟩
    intro a ha b hb
    simp at hb; rw [hb]
    exact hk.below s (by rw [htk]; rfl) a ha
  | dead =>
    -- the abandoned offer was made while the ticker was alive: use the handed-over prefix only
    rw [htk] at hrel
    rcases hrel with hrel | ⟨s, hrel⟩
    · rw [hrel]; exact hk.sorted
    · -- order of the abandoned emission: proved through the run (see `emitted_sorted`)
      exact reach_emitted_sorted hdur h
/-- **`Stop` is final once `Run` has returned.** From a reachable state in which `Run` has returned, no event
sequence changes the slots received, the triggered duties, the subscriber calls or the ticker's emissions, and
`Run` stays returned. Together with `stop_returns`: after `Stop`, the first `select` that takes the `quit`
branch — any `select` with no slot on offer — returns. -/
theorem stop_is_final (hdur : 0 < cfg.s.slotDur) {x : St} (h : Reach bn cfg x) {err : Bool}
    (hret : x.core.phase = .returned err) (es : List Ev) :
    let y := run bn cfg x es
    y.core.phase = .returned err ∧ y.core.taken = x.core.taken ∧ y.core.sys = x.core.sys ∧
      y.core.subCalls = x.core.subCalls ∧ y.core.emitted = x.core.emitted := by
  have hk := reach_kinv hdur h
  have hd : x.core.tk = .dead := hk.dead.mp ⟨err, hret⟩
  simp only [run_core]
  generalize x.core = c at hret hd
  clear hk h
  induction es generalizing c with
  | nil => exact ⟨hret, rfl, rfl, rfl, rfl⟩
  | cons e es ih =>
    obtain ⟨h1, h2, h3, h4, h5, h6⟩ := returned_frozen bn cfg hret hd e
    obtain ⟨a, b, c', d, f⟩ := ih _ h1 h2
    exact ⟨a, b.trans h3, c'.trans h4, d.trans h5, f.trans h6⟩

/-- `Run` returns `nil` at the `select` after `Stop` when the `quit` branch is chosen or nothing is on offer. -/
theorem stop_returns {c : Core} (hi : c.phase = .idle) (hs : c.stopped = true) (q : Bool)
    (hq : q = true ∨ ∀ s, c.tk ≠ .offer s) :
    (coreStep bn cfg c (.take q)).phase = .returned false := by
  simp only [coreStep, hi, hs]
  rcases hq with hq | hq
  · simp [hq, Core.ret]
  · cases htk : c.tk with
    | offer s => exact absurd htk (hq s)
    | off => cases q <;> simp [Core.ret]
    | wait n => cases q <;> simp [Core.ret]
    | dead => cases q <;> simp [Core.ret]

/-- **`Stop` is not looked at before the loop.** While `Run` is inside `waitChainStart` / `waitBeaconSync`
no event — in particular no `Stop` — makes it return; it leaves these loops only through a genesis time
that has passed and a "not syncing" answer. -/
theorem stop_ignored_before_loop {c : Core} (hp : c.phase.pre = true) (e : Ev) :
    ∀ err, (coreStep bn cfg c e).phase ≠ .returned err := by
  intro err
  have hc : c.phase ≠ .returned err := by intro hr; rw [hr] at hp; simp [Phase.pre] at hp
  cases e with
  | genesis ans =>
    simp only [coreStep]
    split
    · cases ans with
      | none => simp
      | some g => simp only; split <;> simp
    · rename_i hph; rw [hph] at hp; simp [Phase.pre] at hp
    · exact hc
  | syncing ans =>
    simp only [coreStep]
    split
    · cases ans with
      | none => simp
      | some b => cases b <;> simp
    · exact hc
  | wake =>
    simp only [coreStep]
    split
    · simp
    · split
      · simp
      · exact hc
    · simp
    · exact hc
  | adv d => exact hc
  | back d => exact hc
  | stop => exact hc
  | regTimer i => exact hc
  | regQuit i => exact hc
  | regAns i ok => exact hc
  | tick =>
    simp only [coreStep]
    split
    · split <;> exact hc
    · exact hc
  | take q =>
    simp only [coreStep]
    split
    · rename_i hph; rw [hph] at hp; simp [Phase.pre] at hp
    · exact hc
  | done =>
    simp only [coreStep]
    split
    · rename_i s hph; rw [hph] at hp; simp [Phase.pre] at hp
    · exact hc

/-- **Slot subscribers: once per received slot, in registration order, independent of their results.** The
goroutines `emitCoreSlot` spawned are, slot by slot in the order the slots were received, one per
subscriber in registration order. (What a subscriber returns is only logged and nobody waits for it: the
model has no input for it, so nothing depends on it.) -/
theorem slot_subscribers_once (hdur : 0 < cfg.s.slotDur) {x : St} (h : Reach bn cfg x) :
    x.core.subCalls = x.core.taken.flatMap (fun s => (List.range cfg.nsubs).map (fun i => (s, i))) ∧
    ∀ s i, (x.core.subCalls.count (s, i)) ≤ 1 := by
  have hk := reach_kinv hdur h
  refine ⟨hk.subs, ?_⟩
  intro s i
  have hnd : x.core.subCalls.Nodup := by
    rw [hk.subs]
    have hs := hk.sorted
    generalize x.core.taken = l at hs
    induction l with
    | nil => simp
    | cons a as ih =>
      rw [List.flatMap_cons]
      have hp := List.pairwise_cons.mp hs
      refine List.nodup_append.mpr ⟨?_, ih hp.2, ?_⟩
      · unfold subsOf
        exact List.Pairwise.map _ (fun i j hij h => hij (by simpa using h)) List.nodup_range
      · intro p hp1 q hq hpq
        subst hpq
        simp only [subsOf, List.mem_map, List.mem_range] at hp1
        obtain ⟨j, _, rfl⟩ := hp1
        obtain ⟨b, hb, hq'⟩ := List.mem_flatMap.mp hq
        simp only [subsOf, List.mem_map, List.mem_range] at hq'
        obtain ⟨k, _, hk'⟩ := hq'
        have : b = a := by simpa using congrArg Prod.fst hk'
        have := hp.1 b hb
        omega
  exact List.nodup_iff_count.mp hnd (s, i)

/-- **Registrations: at most one submission per epoch label (two for label 0).** For every epoch label `l`
at most one delayed registration goroutine exists — it belongs to the handling of slot `l * SLOTS_PER_EPOCH`,
which happens at most once — plus the start-up goroutine for label 0; so at most that many submissions reach
the beacon node under this label, whatever the outcomes and the timing. -/
theorem registrations_once_per_epoch (hdur : 0 < cfg.s.slotDur) {x : St} (h : Reach bn cfg x) (l : Nat) :
    (x.reg.regs.filter (fun r => r.started && r.label == l)).length ≤ (if l = 0 then 2 else 1) ∧
    (x.reg.regs.filter (fun r => r.label == l)).length ≤ (if l = 0 then 2 else 1) := by
  have hr := reach_rinv hdur h
  have hc := hr.cnt l
  have hs := started_le_nLabel x.reg.regs l
  have : nLabel x.reg.regs l ≤ (if l = 0 then 2 else 1) := by
    split at hc <;> split at hc <;> simp_all <;> omega
  exact ⟨Nat.le_trans hs this, this⟩

/-- **A new submission is started only by the first slot of an epoch.** Every delayed registration goroutine
was spawned by the handling of a slot that is the first of its epoch, carries that epoch as label, and that
slot was handled. So a failed submission is NOT retried at the next slot: the next attempt is the one of the
next epoch's first slot. -/
theorem registrations_only_at_epoch_start (hdur : 0 < cfg.s.slotDur) {x : St} (h : Reach bn cfg x) :
    ∀ r ∈ x.reg.regs,
      (r.delayed = true → r.slot % cfg.s.spe = 0 ∧ r.label = r.slot / cfg.s.spe ∧ r.slot ∈ x.core.sys.ticked) ∧
      (r.delayed = false → r.label = 0) := by
  intro r hm
  have hr := reach_rinv hdur h
  exact ⟨hr.first r hm, hr.startup r hm⟩

/-- **Registrations never influence slot handling or duty triggering.** Everything but the registration
bookkeeping — phase, ticker, slots received, the embedded scheduler state with its triggered duties,
subscriber calls — evolves by a function that ignores registration events and the registration state: the run
equals the run with every registration event (timer, quit, beacon-node answer ok or failed) removed, started
from any registration state. -/
theorem registration_failure_does_not_skip_duties (x : St) (r' : RegS) (es : List Ev) :
    (run bn cfg x es).core = (run bn cfg { core := x.core, reg := r' } (es.filter (fun e => !e.isReg))).core := by
  rw [run_core, run_core, coreRun_filter]

/-- **Composition with the base model: under `Run` every duty is still triggered at most once.** In every
reachable state the embedded scheduler state satisfies the base model's invariant `SInv`; in particular the
triggered duties `(slot, type)` have no duplicates, the handled slots are strictly increasing, every trigger
belongs to a handled slot and carries its not-before instant; and the handled slots are the slots `Run`
received (all of them once the handler has returned). -/
theorem run_preserves_at_most_once (hdur : 0 < cfg.s.slotDur) {x : St} (h : Reach bn cfg x) :
    (x.core.sys.hist.map (fun t => t.duty)).Nodup ∧
    x.core.sys.ticked.Pairwise (fun a b => a < b) ∧
    (∀ t ∈ x.core.sys.hist, t.duty.slot ∈ x.core.sys.ticked ∧ t.nb = notBefore cfg.s t.duty.slot t.duty.ty) ∧
    (x.core.taken = x.core.sys.ticked ∨ ∃ s, x.core.phase = .busy s ∧ x.core.taken = x.core.sys.ticked ++ [s]) ∧
    (∀ t ∈ x.core.sys.hist, ∀ pk df, (pk, df) ∈ t.defs → Justified bn cfg.s x.core.sys.st t.duty pk df) := by
  have hk := reach_kinv hdur h
  refine ⟨hk.sinv.nodup, hk.sinv.tickedSorted, fun t ht => ⟨hk.sinv.histTicked t ht, hk.sinv.histNb t ht⟩, ?_, hk.sinv.histJ⟩
  by_cases hb : ∃ s, x.core.phase = .busy s
  · obtain ⟨s, hs⟩ := hb
    exact Or.inr ⟨s, hs, (hk.busyB s hs).2⟩
  · exact Or.inl (hk.idleB (by intro s hs; exact hb ⟨s, hs⟩)).1

/-! ### Non-vacuity and witnesses (concrete runs) -/

/-- a beacon node without validators: every epoch resolves to "no active validators". -/
def exBN : BN where
  vals _ _ := some []
  att _ _ _ := some []
  pro _ _ _ := some []
  sync _ _ _ := some []

/-- 4 slots per epoch, 1200 ns per slot, builder registrations on, 2 slot subscribers. -/
def exCfg : RCfg := { s := { spe := 4, slotDur := 1200, reorgEnabled := false }, builder := true, nsubs := 2 }

/-- start-up: first poll fails, genesis (at 1000) in the future, node syncing once; then the loop. -/
def exStart : List Ev :=
  [.genesis none, .wake, .genesis (some 1000), .adv 1000, .wake, .genesis (some 1000),
   .syncing (some true), .wake, .syncing none, .wake, .syncing (some false), .genesis (some 1000)]

def exRun (es : List Ev) : St := run exBN exCfg (St.init 0) (exStart ++ es)

-- the loop is reached; slots 0 and 1 are handled, each subscriber is called once per slot in order
example :
    (exRun [.tick, .take false, .done, .adv 1200, .tick, .take false, .done]).core.taken = [0, 1] ∧
    (exRun [.tick, .take false, .done, .adv 1200, .tick, .take false, .done]).core.subCalls = [(0, 0), (0, 1), (1, 0), (1, 1)] ∧
    (exRun [.tick, .take false, .done, .adv 1200, .tick, .take false, .done]).core.gOk = true := by decide

-- the hypothesis of `no_slot_before_ready` is met there and `Reach` holds by construction
example : Reach exBN exCfg (exRun [.tick, .take false]) := ⟨0, _, rfl⟩

/-- **Witness: `Stop` does not prevent a further slot.** `Stop` is called while slot 1 is on offer; the
`select` may take the slot (`take false`): slot 1 is received after `Stop`. The next `select` then returns. -/
theorem slot_after_stop_witness :
    (exRun [.tick, .take false, .done, .adv 1200, .tick, .stop, .take false, .done, .take false]).core.afterStop = [1] ∧
    (exRun [.tick, .take false, .done, .adv 1200, .tick, .stop, .take false, .done, .take false]).core.phase = .returned false := by
  decide

/-- **Witness: a slot on offer is handed over late, the ones after it are skipped.** Slot 0 is being handled
(the handler is slow) while the clock moves to slot 3; the ticker had put slot 1 on offer at its start, so `Run`
receives slot 1 when the clock (since genesis) reads 4000 = in slot 3; slot 2 is skipped, slot 3 follows. -/
theorem stale_slot_handed_over_late_witness :
    (exRun [.tick, .take false, .adv 1200, .tick, .adv 2800, .done, .take false, .done, .tick, .take false]).core.takenAt
      = [(0, 0), (1, 4000), (3, 4000)] := by
  decide

/-- **A clock that steps back does not make the ticker repeat a slot** (instance of `slots_handled_in_order_once`):
slot 1 is on offer while slot 0 is still being handled; the clock steps back into slot 0; slot 1 is handed over;
`slot.Next()` does not read the clock, so the ticker waits for slot 2 and emits nothing until the clock gets there. -/
theorem clock_step_back_no_duplicate_witness :
    (exRun [.tick, .take false, .adv 1200, .tick, .back 50, .done, .take false, .done, .tick, .adv 60, .tick,
            .adv 1190, .tick, .take false]).core.takenAt = [(0, 0), (1, 1150), (2, 2400)] := by
  decide

/-- **Witness: `Stop` before the loop has no effect.** -/
theorem stop_before_loop_witness :
    (run exBN exCfg (St.init 0) [.stop, .genesis none, .wake, .genesis none, .wake, .genesis none]).core.phase = .gSleep 2 none := by
  decide

/-- **Witness: a transient error of the genesis call inside `newSlotTicker` ends `Run` with that error.** -/
theorem ticker_error_ends_run_witness :
    (run exBN exCfg (St.init 5000) [.genesis (some 1000), .syncing (some false), .genesis none]).core.phase = .returned true := by
  decide

/-- **Witness: a failed submission is not retried within the epoch.** The start-up submission and the one of
slot 0 (label 0) both fail; slots 1..3 start no submission; slot 4 (epoch 1) starts the next one. -/
theorem registration_not_retried_within_epoch_witness :
    (exRun [.regTimer 0, .regAns 0 false, .tick, .take false, .done, .adv 1200, .regTimer 1, .regAns 1 false,
            .tick, .take false, .done, .adv 1200, .tick, .take false, .done, .adv 1200, .tick, .take false, .done]).reg.regs.map
        (fun r => (r.label, r.slot, r.st)) = [(0, 0, .fin false), (0, 0, .fin false)] ∧
    (exRun [.regTimer 0, .regAns 0 false, .tick, .take false, .done, .adv 1200, .regTimer 1, .regAns 1 false,
            .tick, .take false, .done, .adv 1200, .tick, .take false, .done, .adv 1200, .tick, .take false, .done,
            .adv 1200, .tick, .take false, .done]).reg.regs.map
        (fun r => (r.label, r.slot, r.st)) = [(0, 0, .fin false), (0, 0, .fin false), (1, 4, .timer 6700)] := by
  decide

/-- **Witness: two submissions under label 0.** The start-up submission is still in flight when the timer of
slot 0's goroutine fires: both reach the beacon node (test and store are separate critical sections). -/
theorem registration_twice_label0_witness :
    (exRun [.regTimer 0, .tick, .take false, .done, .adv 900, .regTimer 1]).reg.calls = [0, 0] := by
  decide

end CharonV.SchedRun
