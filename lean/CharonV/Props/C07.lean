/-
C07 — partial-signature store (`core/parsigdb/memory.go`): aggregation is triggered exactly once
per duty and validator, as soon as a threshold of distinct shares over one signing root has been
accepted, with exactly those partials.

Property theorems only (helper lemmas: `CharonV.Proofs.ParSigDB`; model: `CharonV.Model.ParSigDB`).
Every theorem quantifies over the threshold, the exempt cap, every finite sequence of the atomic
steps `begin / step / finish / trim` from the empty store — i.e. every arrival order and every
entry-wise interleaving of concurrent `StoreInternal`/`StoreExternal` calls — and every value of
the two map-iteration oracles (order of a batch, order of the root groups).

`Reach cfg s` : `s` is reachable by *any* op sequence (no assumption at all).
`ReachG cfg (OKOp H) s` : reachable by op sequences that respect the environment contract `H`
(see `OKOp`): the deadliner answers `expired` for duties it has emitted and `exempt` exactly for
exempt duties, and does not emit a duty while a call for it is between `Add` and its last
`store` (C16); share indices are `< H.n` (checked by `parsigex` against the cluster lock).

Status of the full statement on the code as it is (`cfg.continueOnError = false`,
`cfg.newRootOnly = false`):

  FULL STATEMENT (false as it stands):
    for every op sequence respecting the contract, every key `k` and root `r`:
    in a quiescent state, `k` has been handed to the threshold subscribers exactly once if
    `threshold ≤ cnt s k r`, and never otherwise.

  * D-1  a rejected entry makes `StoreExternal` return before the subscribers run and the collected
         output is lost for good: `trigger_lost_on_batch_error` (witness). Proved for the fixed
         variant (`continueOnError = true`): `trigger_not_lost`; for the code as it is under the
         hypothesis that no call holding a reached threshold meets a rejected entry:
         `trigger_not_lost_partial`.
  * D-12 (found here) a partial with *another* root stored after a group reached the threshold
         re-triggers that group with the same payload: `double_trigger_late_minority` (witness).
         Proved for the fixed variant (`newRootOnly = true`): `trigger_at_most_once`; for the code
         as it is under the hypothesis that the partials of a key agree on the root:
         `trigger_at_most_once_partial`.
  * D-2  exempt duties: an eviction (cap 10 per share/validator/type) can shrink a group and let
         it reach the threshold again: `double_trigger_exempt_eviction` (witness, holds for every
         variant). Both theorems therefore require, for exempt duties only, that no eviction
         happened (`Untouched`), and `eviction_only_above_cap` shows an eviction happens only when
         a (share, validator, type) already tracks `cap` distinct exempt duties.
  `trigger_exactly_once` combines them for the fully fixed variant, `trigger_exactly_once_partial`
  for the code as it is.
-/
import CharonV.Proofs.ParSigDB

namespace CharonV.ParSigDB

/-- **Payload soundness** (no assumption whatsoever, every variant of the code): whatever was ever
handed to the threshold subscribers for a validator — and whatever sits in the output of a call in
flight — is exactly `threshold` partials, pairwise distinct shares, one common signing root
(`DutySignature` has no roots), each of them accepted earlier under that very key. Never fewer,
never mixed roots, never a repeated share. -/
theorem trigger_sound {cfg : Cfg} {s : State} (h : Reach cfg s) (tr : Trigger)
    (htr : tr ∈ s.trace ∨ ∃ c, (c, tr) ∈ s.pend) :
    tr.payload.length = cfg.threshold ∧ (tr.payload.map (·.share)).Nodup ∧
    (tr.key.duty.typ ≠ dutySignature → ∃ r, ∀ p ∈ tr.payload, p.root = r) ∧
    ∀ p ∈ tr.payload, p ∈ s.acc tr.key := by
  have hi := reach_inv h
  rcases htr with htr | ⟨c, htr⟩
  · exact hi.soundTrace tr htr
  · exact hi.soundPend _ htr

/-- **Exactly the matching partials.** Whenever a loop iteration puts a validator into the call's
output, the partials are *all* partials stored under that key whose root is the group's root, at
that moment, and there are exactly `threshold` of them. Everything else in `pend` was there before. -/
theorem trigger_payload_exact (cfg : Cfg) (s : State) (c o : Nat) (x : Nat × Trigger)
    (hx : x ∈ (step cfg s (.step c o)).1.pend) :
    x ∈ s.pend ∨
    (x.1 = c ∧ ∃ ρ, x.2.payload = group x.2.key.duty.typ ((step cfg s (.step c o)).1.entries x.2.key) ρ ∧
      x.2.payload.length = cfg.threshold) := by
  rcases step_step_cases cfg s c o with h1 | ⟨cl, e, rest, hc, hr, hcase⟩
  · rw [h1] at hx; exact Or.inl hx
  · rcases hcase with ⟨_, err, h1⟩ | ⟨sub, _, _, h1⟩ | ⟨sub, hsub, hn, hcase⟩
    · rw [h1] at hx; unfold failEntry at hx; split at hx
      · exact Or.inl hx
      · exact Or.inl (List.mem_filter.mp hx).1
    · rw [h1] at hx; exact Or.inl hx
    · have hf := storeNew_frame cfg s ⟨cl.duty, e.pk, sub⟩ e.sig cl.exempt
      rcases hcase with ⟨_, h1⟩ | ⟨g, hg, h1⟩
      · rw [h1] at hx; exact Or.inl (hf.2.1 ▸ hx)
      · rw [h1] at hx ⊢
        rcases List.mem_append.mp hx with hx | hx
        · exact Or.inl (hf.2.1 ▸ hx)
        · simp at hx; subst hx
          obtain ⟨ρ, hgr, hl⟩ := gtm_some hg
          exact Or.inr ⟨rfl, ρ, hgr, hl⟩

/-- **Duplicates are ignored**: in every reachable state, an entry whose identical partial is
already stored changes nothing (stored data, indices, outputs, history) and raises no error; the
loop just moves on to the next entry. -/
theorem dup_ignored {cfg : Cfg} {s : State} (h : Reach cfg s) (c o : Nat) (cl : Call) (e : Entry)
    (rest : List Entry) (sub : Nat)
    (hc : s.calls c = some cl) (hr : cl.rest = e :: rest) (hsub : e.sub = some sub)
    (hdup : e.sig ∈ s.entries ⟨cl.duty, e.pk, sub⟩) :
    step cfg s (.step c o) = ({ s with calls := upd s.calls c (some { cl with rest := rest }) }, .none) := by
  rcases store_cases cfg s ⟨cl.duty, e.pk, sub⟩ e.sig cl.exempt with ⟨_, hs⟩ | ⟨⟨x, hx, hsh, hne⟩, _⟩ | ⟨hn, _⟩
  · simp [step, hc, hr, hsub, hs]
  · exact absurd (eq_of_share_eq ((reach_inv h).sharesNodup _) hx hdup hsh) hne
  · exact absurd rfl (hn _ hdup)

/-- **Equivocation is rejected without disturbing anything**: in every reachable state, an entry
whose share has already stored *different* data under the key leaves the stored data, the indices,
the accepted history and the aggregation history untouched, and the outputs of all *other* calls
untouched; the call gets the `mismatch` error (returned at once by the code as it is; remembered
as the first error by the fixed variant, which keeps its own output too). -/
theorem equivocation_rejected_no_change {cfg : Cfg} {s : State} (h : Reach cfg s) (c o : Nat) (cl : Call)
    (e : Entry) (rest : List Entry) (sub : Nat) (x : PSig)
    (hc : s.calls c = some cl) (hr : cl.rest = e :: rest) (hsub : e.sub = some sub)
    (hx : x ∈ s.entries ⟨cl.duty, e.pk, sub⟩) (hsh : x.share = e.sig.share) (hne : x ≠ e.sig) :
    let s' := (step cfg s (.step c o)).1
    s'.entries = s.entries ∧ s'.keysByDuty = s.keysByDuty ∧ s'.exempt = s.exempt ∧ s'.acc = s.acc ∧
    s'.trace = s.trace ∧ (∀ y ∈ s.pend, y.1 ≠ c → y ∈ s'.pend) ∧
    (cfg.continueOnError = false → (step cfg s (.step c o)).2 = .ret (some .mismatch) [] false) ∧
    (cfg.continueOnError = true → s'.pend = s.pend ∧
      s'.calls c = some { cl with rest := rest, err := cl.err.orElse (fun _ => some .mismatch) }) := by
  have hstep : step cfg s (.step c o) = failEntry cfg s c { cl with rest := rest } .mismatch := by
    rcases store_cases cfg s ⟨cl.duty, e.pk, sub⟩ e.sig cl.exempt with ⟨hm, _⟩ | ⟨_, hs⟩ | ⟨hn, _⟩
    · exact absurd (eq_of_share_eq ((reach_inv h).sharesNodup _) hx hm hsh) hne
    · simp [step, hc, hr, hsub, hs]
    · exact absurd hsh (hn x hx)
  simp only [hstep]
  unfold failEntry
  cases hcont : cfg.continueOnError with
  | true =>
    simp only [if_true, true_and, upd_same, implies_true, and_true]
    refine ⟨fun y hy _ => hy, fun h => by cases h⟩
  | false =>
    simp only [Bool.false_eq_true, if_false, true_and, false_implies, and_true, implies_true]
    intro y hy hyc
    exact List.mem_filter.mpr ⟨hy, by simpa using hyc⟩

/-- **At most once** — variant with the `newRootOnly` fix. For every op sequence respecting the
contract, every key whose partials no exempt-cap eviction can have removed is handed to the
threshold subscribers at most once, counting also the outputs of calls still in flight. (Needs the
quorum bound `n < 2·threshold`: two disjoint threshold groups cannot coexist.) -/
theorem trigger_at_most_once {cfg : Cfg} (hnr : cfg.newRootOnly = true) (H : Hyp) (hq : H.n < 2 * cfg.threshold)
    {s : State} (h : ReachG cfg (OKOp H) s) (k : Key) (hu : Untouched H s k) :
    keyCount k s.trace + keyCount k (s.pend.map (·.2)) ≤ 1 :=
  (reachG_once hq (Or.inl hnr) h k hu).1

/-- **At most once** — the code as it is (any variant), under the additional hypothesis
`H.unanimous`: whenever a partial is stored, the partials already stored under its key carry the
same root. Without it the statement is false: `double_trigger_late_minority`. -/
theorem trigger_at_most_once_partial {cfg : Cfg} (H : Hyp) (hun : H.unanimous = true)
    (hq : H.n < 2 * cfg.threshold) {s : State} (h : ReachG cfg (OKOp H) s) (k : Key) (hu : Untouched H s k) :
    keyCount k s.trace + keyCount k (s.pend.map (·.2)) ≤ 1 :=
  (reachG_once hq (Or.inr hun) h k hu).1

/-- **No lost trigger** — variant with the `continueOnError` fix. For every op sequence respecting
the contract: as soon as some root group of a key holds a threshold of partials, the key is in the
aggregation history or in the output of a call in flight; in a quiescent state it has been handed
over. Neither a rejected entry nor any other validator of the batch can prevent it. -/
theorem trigger_not_lost {cfg : Cfg} (hce : cfg.continueOnError = true) (hq : 0 < cfg.threshold) (H : Hyp)
    {s : State} (h : ReachG cfg (OKOp H) s) (k : Key) (hu : Untouched H s k) (r : Nat)
    (hr : cfg.threshold ≤ cnt s k r) :
    1 ≤ keyCount k s.trace + keyCount k (s.pend.map (·.2)) ∧ (s.pend = [] → 1 ≤ keyCount k s.trace) := by
  have := reachG_live hq (Or.inl hce) h k hu r hr
  refine ⟨this, fun hp => ?_⟩
  simp only [N, hp, List.map_nil, keyCount, List.countP_nil, Nat.add_zero] at this
  exact this

/-- **No lost trigger** — the code as it is, under the additional hypothesis `H.cleanErr`: a call
whose output already holds a validator never meets a rejected entry afterwards (true e.g. for
single-validator batches). Without it the statement is false: `trigger_lost_on_batch_error`. -/
theorem trigger_not_lost_partial {cfg : Cfg} (hq : 0 < cfg.threshold) (H : Hyp) (hcl : H.cleanErr = true)
    {s : State} (h : ReachG cfg (OKOp H) s) (k : Key) (hu : Untouched H s k) (r : Nat)
    (hr : cfg.threshold ≤ cnt s k r) :
    1 ≤ keyCount k s.trace + keyCount k (s.pend.map (·.2)) ∧ (s.pend = [] → 1 ≤ keyCount k s.trace) := by
  have := reachG_live hq (Or.inr hcl) h k hu r hr
  refine ⟨this, fun hp => ?_⟩
  simp only [N, hp, List.map_nil, keyCount, List.countP_nil, Nat.add_zero] at this
  exact this

/-- **Exactly once** — the full statement, for the variant with both fixes. For every op sequence
respecting the contract and every key no eviction can have touched, in a quiescent state: the key
was handed to the threshold subscribers exactly once if some root group holds a threshold of
partials, never more than once, and if it was handed over then a group did reach the threshold
(or the duty has been trimmed since). -/
theorem trigger_exactly_once {cfg : Cfg} (hce : cfg.continueOnError = true) (hnr : cfg.newRootOnly = true)
    (H : Hyp) (hq : H.n < 2 * cfg.threshold) {s : State} (h : ReachG cfg (OKOp H) s) (hqs : s.pend = [])
    (k : Key) (hu : Untouched H s k) :
    (∀ r, cfg.threshold ≤ cnt s k r → keyCount k s.trace = 1) ∧ keyCount k s.trace ≤ 1 ∧
    (keyCount k s.trace = 1 → (∃ r, cfg.threshold ≤ cnt s k r) ∨ k.duty ∈ s.trimmed) := by
  have ho := reachG_once hq (Or.inl hnr) h k hu
  have hN : N s k = keyCount k s.trace := by simp [N, hqs, keyCount]
  unfold OnceAt at ho
  rw [hN] at ho
  refine ⟨fun r hr => ?_, ho.1, ho.2⟩
  have := (trigger_not_lost hce (by omega) H h k hu r hr).2 hqs
  have := ho.1
  omega

/-- **Exactly once** — the code as it is, under both additional hypotheses (`H.unanimous`,
`H.cleanErr`). -/
theorem trigger_exactly_once_partial {cfg : Cfg} (H : Hyp) (hun : H.unanimous = true) (hcl : H.cleanErr = true)
    (hq : H.n < 2 * cfg.threshold) {s : State} (h : ReachG cfg (OKOp H) s) (hqs : s.pend = [])
    (k : Key) (hu : Untouched H s k) :
    (∀ r, cfg.threshold ≤ cnt s k r → keyCount k s.trace = 1) ∧ keyCount k s.trace ≤ 1 ∧
    (keyCount k s.trace = 1 → (∃ r, cfg.threshold ≤ cnt s k r) ∨ k.duty ∈ s.trimmed) := by
  have ho := reachG_once hq (Or.inr hun) h k hu
  have hN : N s k = keyCount k s.trace := by simp [N, hqs, keyCount]
  unfold OnceAt at ho
  rw [hN] at ho
  refine ⟨fun r hr => ?_, ho.1, ho.2⟩
  have := (trigger_not_lost_partial (by omega) H hcl h k hu r hr).2 hqs
  have := ho.1
  omega

/-- **As soon as / in the very call.** If the partial a call is about to store is new for its key,
the duty is not exempt (so nothing is evicted) and with it the partial's root group has exactly
`threshold` members, then this very loop iteration puts the validator into the call's output —
whatever the variant and the oracle. `finish_hands_over` shows the output reaches the subscribers
when the loop is done (for the code as it is: unless a later entry of the batch is rejected). -/
theorem trigger_same_call (cfg : Cfg) (s : State) (c o : Nat) (cl : Call) (e : Entry) (rest : List Entry)
    (sub : Nat) (hc : s.calls c = some cl) (hr : cl.rest = e :: rest) (hsub : e.sub = some sub)
    (hex : cl.exempt = false)
    (hnew : ∀ x ∈ s.entries ⟨cl.duty, e.pk, sub⟩, x.share ≠ e.sig.share)
    (hlen : (group cl.duty.typ (s.entries ⟨cl.duty, e.pk, sub⟩ ++ [e.sig]) (effRoot cl.duty.typ e.sig)).length =
      cfg.threshold) :
    ∃ g, (step cfg s (.step c o)).1.pend = s.pend ++ [(c, ⟨⟨cl.duty, e.pk, sub⟩, g⟩)] := by
  have hent : (storeNew cfg s ⟨cl.duty, e.pk, sub⟩ e.sig cl.exempt).entries ⟨cl.duty, e.pk, sub⟩ =
      s.entries ⟨cl.duty, e.pk, sub⟩ ++ [e.sig] := by
    rcases storeNew_entries cfg s ⟨cl.duty, e.pk, sub⟩ e.sig cl.exempt with ⟨h1, _⟩ | ⟨h1, _⟩
    · rw [h1]; simp
    · rw [hex] at h1; cases h1
  have hsome := gtm_live (cfg := cfg) o hlen
  rcases store_cases cfg s ⟨cl.duty, e.pk, sub⟩ e.sig cl.exempt with ⟨hm, _⟩ | ⟨⟨x, hx, hsh, _⟩, _⟩ | ⟨_, hs⟩
  · exact absurd rfl (hnew _ hm)
  · exact absurd hsh (hnew x hx)
  · rw [← hent] at hsome
    cases hg : getThresholdMatching cfg cl.duty.typ
        ((storeNew cfg s ⟨cl.duty, e.pk, sub⟩ e.sig cl.exempt).entries ⟨cl.duty, e.pk, sub⟩) o with
    | none => rw [hg] at hsome; cases hsome
    | some g =>
      refine ⟨g, ?_⟩
      simp [step, hc, hr, hsub, hs, hg, (storeNew_frame cfg s ⟨cl.duty, e.pk, sub⟩ e.sig cl.exempt).2.1]

/-- When the loop of call `c` is done, `finish` hands exactly the call's collected output to the
threshold subscribers (appended to the aggregation history), once, and forgets it. -/
theorem finish_hands_over (cfg : Cfg) (s : State) (c : Nat) (cbErr : Bool) (cl : Call)
    (hc : s.calls c = some cl) (hr : cl.rest = []) :
    (step cfg s (.finish c cbErr)).1.trace = s.trace ++ pendOf s c ∧
    (step cfg s (.finish c cbErr)).1.calls c = none ∧
    ∀ x ∈ (step cfg s (.finish c cbErr)).1.pend, x.1 ≠ c := by
  rcases step_finish_cases cfg s c cbErr with h1 | ⟨cl', _, _, h1⟩
  · simp [step, hc, hr] at h1
  · rw [h1]
    refine ⟨rfl, by simp, fun x hx => ?_⟩
    simpa using (List.mem_filter.mp hx).2

/-- **A refused set is not exchanged.** Whatever step returns control to the caller: when the
internal subscribers (the peer exchange of `StoreInternal`) are called, the call reports no error —
a set of which the node's own store refused an entry (e.g. a second, different signature of this
node's share for a validator it already signed for) is never handed on to the peers, so an honest
share backs at most one signing root on the wire. -/
theorem internal_exchange_only_on_success (cfg : Cfg) (s : State) (op : Op) (err : Option Err)
    (cb : List Trigger) (h : (step cfg s op).2 = .ret err cb true) : err = none := by
  cases op with
  | «begin» c duty st batch internal =>
    simp only [step] at h
    split at h
    · cases h
    · cases st <;> simp at h <;> first | exact h.1.symm | skip
  | step c o =>
    simp only [step] at h
    cases hc : s.calls c with
    | none => rw [hc] at h; cases h
    | some cl =>
      rw [hc] at h
      simp only at h
      cases hr : cl.rest with
      | nil => rw [hr] at h; cases h
      | cons e rest =>
        rw [hr] at h
        simp only at h
        cases hsub : e.sub with
        | none =>
          rw [hsub] at h
          simp only [failEntry] at h
          split at h <;> cases h
        | some sub =>
          rw [hsub] at h
          simp only at h
          split at h
          · simp only [failEntry] at h
            split at h <;> cases h
          · cases h
          · split at h <;> cases h
  | finish c cbErr =>
    simp only [step] at h
    cases hc : s.calls c with
    | none => rw [hc] at h; cases h
    | some cl =>
      rw [hc] at h
      simp only at h
      split at h
      · cases h
      · simp only [Out.ret.injEq] at h
        obtain ⟨h1, _, h3⟩ := h
        rw [← h1]
        cases hx : (if (!(pendOf s c).isEmpty && cbErr) = true then some Err.cb else cl.err) with
        | none => rfl
        | some x => rw [hx] at h3; simp at h3
  | trim d => simp [step] at h

/-- **An eviction needs a full cap** (scope of the D-2 hypothesis `Untouched`): a step removes a
stored partial through the exempt cap only if the duty is exempt and the storing share already
tracks `cap` distinct exempt duties for that validator and duty type. -/
theorem eviction_only_above_cap (cfg : Cfg) (s : State) (c o : Nat)
    (hev : (step cfg s (.step c o)).1.evictions ≠ s.evictions) :
    ∃ cl e sub, s.calls c = some cl ∧ cl.rest.head? = some e ∧ e.sub = some sub ∧ cl.exempt = true ∧
      cfg.cap ≤ (s.exempt ⟨e.sig.share, e.pk, cl.duty.typ⟩).length := by
  rcases step_step_cases cfg s c o with h1 | ⟨cl, e, rest, hc, hr, hcase⟩
  · rw [h1] at hev; exact absurd rfl hev
  · rcases hcase with ⟨_, err, h1⟩ | ⟨sub, _, _, h1⟩ | ⟨sub, hsub, hn, hcase⟩
    · rw [h1] at hev; unfold failEntry at hev; split at hev <;> exact absurd rfl hev
    · rw [h1] at hev; exact absurd rfl hev
    · have hev' : (storeNew cfg s ⟨cl.duty, e.pk, sub⟩ e.sig cl.exempt).evictions ≠ s.evictions := by
        rcases hcase with ⟨_, h1⟩ | ⟨g, _, h1⟩ <;> (rw [h1] at hev; exact hev)
      refine ⟨cl, e, sub, hc, by rw [hr]; rfl, hsub, ?_⟩
      unfold storeNew at hev'
      split at hev'
      · rename_i hex
        refine ⟨hex, ?_⟩
        rcases trackExempt_cases cfg (appendEntry s ⟨cl.duty, e.pk, sub⟩ e.sig) ⟨cl.duty, e.pk, sub⟩ e.sig.share
          with ⟨h2, _⟩ | ⟨k0, rest', _, hcap, _⟩
        · rw [h2] at hev'; exact absurd rfl hev'
        · exact hcap
      · split at hev' <;> exact absurd rfl hev'

/-! ### Witnesses and non-vacuity (concrete runs, checked by evaluation)

`exH n` is the contract with `n` shares (indices `1..n`) in which exactly exits (type 4) are exempt and neither of
the two additional hypotheses is assumed. All witness runs respect the contract (`runOK`). -/

def exH (n : Nat) : Hyp := { n := n, ex := fun d => d.typ == 4, unanimous := false, cleanErr := false }

/-- the code as it is / with the D-1 fix / with both fixes, threshold 2 -/
def cfgNow : Cfg := { threshold := 2 }
def cfgFix1 : Cfg := { threshold := 2, continueOnError := true }
def cfgFix2 : Cfg := { threshold := 2, continueOnError := true, newRootOnly := true }

def att : Duty := ⟨5, 2⟩
def ent (pk share root : Nat) : Entry := ⟨pk, ⟨share, root, 0⟩, some 0⟩

/-- D-1 scenario: share 1 signs for validators 0 and 1; share 2 first stores root 7 for validator 1,
then sends a batch that completes validator 0 and equivocates on validator 1 (visited second);
share 3 arrives later. -/
def opsD1 : List Op :=
  callOps 0 att .scheduled [ent 0 1 0, ent 1 1 0] false 0 false ++
  callOps 1 att .scheduled [ent 1 2 7] false 0 false ++
  callOps 2 att .scheduled [ent 0 2 0, ent 1 2 0] false 0 false ++
  callOps 3 att .scheduled [ent 0 3 0] false 0 false

/-- **D-1 witness (code as it is)**: validator 0 holds 3 ≥ 2 matching partials in a quiescent state
reached under the contract, and was never handed to the subscribers. -/
theorem trigger_lost_on_batch_error :
    ∃ s, ReachG cfgNow (OKOp (exH 3)) s ∧ s.pend = [] ∧ Untouched (exH 3) s ⟨att, 0, 0⟩ ∧
      cfgNow.threshold ≤ cnt s ⟨att, 0, 0⟩ 0 ∧ keyCount ⟨att, 0, 0⟩ s.trace = 0 :=
  ⟨run cfgNow {} opsD1, runOK_reach .init opsD1 (by decide), by decide, Or.inl (by decide), by decide, by decide⟩

-- the same run on the variant with the `continueOnError` fix: handed over exactly once, with the
-- partials of shares 1 and 2 (non-vacuity of `trigger_not_lost` / `trigger_exactly_once`)
example : (run cfgFix1 {} opsD1).trace = [⟨⟨att, 0, 0⟩, [⟨1, 0, 0⟩, ⟨2, 0, 0⟩]⟩] ∧
    runOK cfgFix1 (exH 3) {} opsD1 = true := by decide

example : (run cfgFix2 {} opsD1).trace = [⟨⟨att, 0, 0⟩, [⟨1, 0, 0⟩, ⟨2, 0, 0⟩]⟩] ∧
    runOK cfgFix2 (exH 3) {} opsD1 = true ∧ (run cfgFix2 {} opsD1).pend = [] := by decide

/-- late minority root: shares 1 and 2 sign root 0 (threshold reached, aggregated), then share 3
stores a partial with root 9 for the same key. -/
def opsMinority : List Op :=
  callOps 0 att .scheduled [ent 0 1 0] false 0 false ++
  callOps 1 att .scheduled [ent 0 2 0] false 0 false ++
  callOps 2 att .scheduled [ent 0 3 9] false 0 false

/-- **D-12 witness (code as it is, also with the D-1 fix alone)**: the key is handed to the
subscribers twice, the second time with the very same partials, although every assumption of the
contract holds and nothing was evicted. -/
theorem double_trigger_late_minority :
    ∃ s, ReachG cfgFix1 (OKOp (exH 3)) s ∧ Untouched (exH 3) s ⟨att, 0, 0⟩ ∧
      s.trace = [⟨⟨att, 0, 0⟩, [⟨1, 0, 0⟩, ⟨2, 0, 0⟩]⟩, ⟨⟨att, 0, 0⟩, [⟨1, 0, 0⟩, ⟨2, 0, 0⟩]⟩] :=
  ⟨run cfgFix1 {} opsMinority, runOK_reach .init opsMinority (by decide), Or.inl (by decide), by decide⟩

example : (run cfgNow {} opsMinority).trace.length = 2 := by decide

-- with `newRootOnly` the same run aggregates once (non-vacuity of `trigger_at_most_once`)
example : (run cfgFix2 {} opsMinority).trace = [⟨⟨att, 0, 0⟩, [⟨1, 0, 0⟩, ⟨2, 0, 0⟩]⟩] ∧
    runOK cfgFix2 (exH 3) {} opsMinority = true := by decide

def exit (slot : Nat) : Duty := ⟨slot, 4⟩

/-- D-2 scenario (cap 10 as in the code): shares 1 and 2 sign the exit of slot 100 (aggregated);
share 1 replays its exit under slots 101..110, which evicts its partial from slot 100; then it
re-sends slot 100. -/
def opsD2 : List Op :=
  callOps 0 (exit 100) .exempt [ent 0 1 0] false 0 false ++
  callOps 1 (exit 100) .exempt [ent 0 2 0] false 0 false ++
  (List.range 10).flatMap (fun i => callOps (2 + i) (exit (101 + i)) .exempt [ent 0 1 0] false 0 false) ++
  callOps 12 (exit 100) .exempt [ent 0 1 0] false 0 false

/-- **D-2 witness (every variant, here with both fixes)**: after an eviction the key reaches the
threshold a second time and is handed over twice. -/
theorem double_trigger_exempt_eviction :
    ∃ s, ReachG cfgFix2 (OKOp (exH 3)) s ∧ s.evictions = 2 ∧
      s.trace = [⟨⟨exit 100, 0, 0⟩, [⟨1, 0, 0⟩, ⟨2, 0, 0⟩]⟩, ⟨⟨exit 100, 0, 0⟩, [⟨2, 0, 0⟩, ⟨1, 0, 0⟩]⟩] :=
  ⟨run cfgFix2 {} opsD2, runOK_reach .init opsD2 (by decide), by decide, by decide⟩

-- below the cap nothing is evicted and the replayed exit is ignored as a duplicate
example :
    let ops := callOps 0 (exit 100) .exempt [ent 0 1 0] false 0 false ++
      callOps 1 (exit 100) .exempt [ent 0 2 0] false 0 false ++
      (List.range 9).flatMap (fun i => callOps (2 + i) (exit (101 + i)) .exempt [ent 0 1 0] false 0 false) ++
      callOps 12 (exit 100) .exempt [ent 0 1 0] false 0 false
    (run cfgNow {} ops).evictions = 0 ∧ (run cfgNow {} ops).trace.length = 1 := by decide

-- entry-wise interleaving of two concurrent calls, a duplicate, an equivocation, an expired duty
-- and a trim: one aggregation, exactly the two matching partials (non-vacuity of `trigger_sound`)
example :
    let ops : List Op :=
      [.begin 0 att .scheduled [ent 0 1 0, ent 1 1 0] false, .begin 1 att .scheduled [ent 1 2 0, ent 0 2 3] true,
       .step 0 0, .step 1 0, .step 1 0, .step 0 0, .finish 1 false, .finish 0 false] ++
      callOps 2 att .scheduled [ent 0 1 0] false 0 false ++     -- duplicate
      callOps 3 att .scheduled [ent 0 2 0] false 0 false ++     -- equivocation (share 2 stored root 3)
      callOps 4 ⟨4, 2⟩ .expired [ent 0 1 0] false 0 false ++
      [.trim att]
    (run cfgNow {} ops).trace = [⟨⟨att, 1, 0⟩, [⟨2, 0, 0⟩, ⟨1, 0, 0⟩]⟩] ∧
    (run cfgNow {} ops).entries ⟨att, 0, 0⟩ = [] ∧ (run cfgNow {} ops).acc ⟨att, 0, 0⟩ = [⟨1, 0, 0⟩, ⟨2, 3, 0⟩] := by
  decide

-- why `OKOp` forbids trimming a duty while calls for it are between `Add` and `store`: two such
-- calls re-store after the trim and the key is aggregated a second time (the deadline lies several
-- slots behind every legitimate arrival, so the contract excludes this schedule)
example :
    let ops : List Op :=
      callOps 0 att .scheduled [ent 0 1 0] false 0 false ++ callOps 1 att .scheduled [ent 0 2 0] false 0 false ++
      [.begin 2 att .scheduled [ent 0 1 0] false, .begin 3 att .scheduled [ent 0 2 0] false, .trim att,
       .step 2 0, .step 3 0, .finish 2 false, .finish 3 false]
    (run cfgFix2 {} ops).trace.length = 2 := by decide

end CharonV.ParSigDB
