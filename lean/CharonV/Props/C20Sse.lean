/-
C20, "after a reorg invalidation … the affected epochs are fetched afresh": the epoch that
`InvalidateCache` is called with comes from the beacon node's chain_reorg event through
`app/sse/listener.go` (`handleChainReorgEvent`, `notifyChainReorg`). Model `Model/SseReorg.lean`,
tied by op `sse` of the cache stream (the real handler with a real subscriber).
-/
import CharonV.Model.SseReorg

namespace CharonV.SseReorg

/-- **The notified epoch is the epoch of the common ancestor.** For a well-formed event
(`depth ≤ slot`, `0 < spe`) the epoch handed to the subscribers holds the common ancestor slot
`slot - depth`: every slot that was reorged away (`slot - depth < s ≤ slot`) lies in that epoch or
a later one, and no earlier epoch is named. -/
theorem notified_epoch_holds_common_ancestor (spe last slot depth e l : Nat) (hs : 0 < spe)
    (h : handle spe last slot depth = (l, .notify e)) :
    depth ≤ slot ∧ e * spe ≤ slot - depth ∧ slot - depth < (e + 1) * spe ∧
    (∀ s, slot - depth < s → e ≤ s / spe) ∧ l = e := by
  unfold handle at h
  split at h
  · cases h
  · rename_i hlt
    simp only at h
    split at h
    · cases h
    · simp only [Prod.mk.injEq, Out.notify.injEq] at h
      obtain ⟨h1, h2⟩ := h
      subst h2
      have hle : depth ≤ slot := Nat.le_of_not_lt hlt
      have hd := Nat.div_mul_le_self (slot - depth) spe
      have hlt' : slot - depth < (reorgEpoch slot depth spe + 1) * spe := by
        unfold reorgEpoch
        have := Nat.lt_div_mul_add hs (a := slot - depth)
        rw [Nat.add_mul, Nat.one_mul]
        exact this
      refine ⟨hle, hd, hlt', ?_, h1.symm⟩
      intro s hsgt
      unfold reorgEpoch
      exact Nat.div_le_div_right (Nat.le_of_lt hsgt)

/-- a malformed event (depth exceeds slot) notifies nobody and leaves the listener unchanged. -/
theorem malformed_event_ignored (spe last slot depth : Nat) (h : slot < depth) :
    handle spe last slot depth = (last, .err) := by
  unfold handle; simp [h]

/-- subscribers are not called twice in a row with the same epoch (several beacon nodes report the
same reorg). -/
theorem same_epoch_notified_once (spe last slot depth : Nat) (h1 : depth ≤ slot)
    (h2 : reorgEpoch slot depth spe = last) : handle spe last slot depth = (last, .dup) := by
  unfold handle; simp [Nat.not_lt.mpr h1, h2]

/-- the floor is taken AFTER subtracting the depth: a short reorg across an epoch boundary names the
earlier epoch (slot 161, depth 3, 32 slots per epoch: epoch 4, whereas 161/32 - 3/32 = 5). -/
example : handle 32 0 161 3 = (4, .notify 4) ∧ 161 / 32 - 3 / 32 = 5 := by decide

example : handle 32 4 170 40 = (4, .dup) ∧ handle 32 0 2 5 = (0, .err) := by decide

end CharonV.SseReorg
