/-
C19, `multi.Proxy` and the lazy / http path — property theorems only (helper lemmas in
`CharonV.Proofs.ProxyCall`).

`Proxy` forwards a validator-client request (with its body) to the beacon nodes. It is a
provide-style call, so everything `Props/C19.lean` proves about `provide` holds for it — *provided
every consulted node is handed the request the caller sent*. A request body is a cursor: whoever
reads it first leaves nothing for the others. The theorems below are about the reader heap of
`Model/ProxyCall`: for every scenario (any number of primary / fallback nodes, any outcomes), every
event list (any completion order, hung nodes, cancellation), every heap and every caller body,

* the result of `Proxy` is the result of `provide` over the same nodes (no `isSuccessFunc`);
* the nodes consulted are exactly the primaries, plus the fallbacks iff the call moves on to them;
* every consulted node reads the complete original body, whichever nodes read and in whatever order
  (independent readers);
* the caller's reader is drained and closed exactly once, no node ever holds it, and the caller's
  request is left with a reader that still yields the whole body;
* without a body no reader is created and every node gets a request without body;
* if reading the caller's body fails, no node is consulted.
-/
import CharonV.Proofs.ProxyCall
import CharonV.Props.C19

namespace CharonV.Provide

/-- **`Proxy` is `provide`.** If the caller's body can be read (or there is none), the call returns
what `provide` without `isSuccessFunc` returns for the same nodes and events, at the same event,
consults the fallbacks in exactly the same cases, and hands a request to exactly the nodes consulted:
all primaries, and all fallbacks iff the fallbacks are consulted. -/
theorem proxy_result_is_provide (sc : Scen) (evs : List Ev) (h : Heap) (req : Req)
    (hread : ∀ rid r, req.body = some rid → h[rid]? = some r → r.failAt = none)
    (hlive : ∀ rid, req.body = some rid → rid < h.length) :
    (proxy sc evs h req).res = .ret (provide (noSf sc) evs).1 ∧
    (proxy sc evs h req).consumed = (provide (noSf sc) evs).2 ∧
    (proxy sc evs h req).usedFb = usedFallback (noSf sc) evs ∧
    (proxy sc evs h req).handed.map (·.1) = consulted (noSf sc) evs := by
  cases hb : req.body with
  | none =>
    rw [proxy_nil_eq sc evs h req hb]
    simp [Function.comp_def]
  | some rid =>
    have hlt := hlive rid hb
    have hr : h[rid]? = some h[rid] := List.getElem?_eq_getElem hlt
    rw [proxy_body_eq sc evs h req rid h[rid] hb hr (hread rid _ hb hr)]
    simp [handedFrom_keys]

/-- **Success whenever one primary answers successfully** — the C19 theorem, for `Proxy`: whatever
the request body is, if primary `i` answers without error and nobody cancelled or answered before,
`Proxy` returns exactly node `i`'s response at that very event. -/
theorem proxy_success_if_any (sc : Scen) (pre post : List Ev) (h : Heap) (req : Req)
    (hread : ∀ rid r, req.body = some rid → h[rid]? = some r → r.failAt = none)
    (hlive : ∀ rid, req.body = some rid → rid < h.length)
    (i : Nat) (nd : Node) (hn : sc.prim[i]? = some nd) (hok : isOk (noSf sc) nd.out = true)
    (hq : Quiet (noSf sc) false [i] pre) :
    (proxy sc (pre ++ Ev.rel false i :: post) h req).res = .ret (.okFrom false i) ∧
    (proxy sc (pre ++ Ev.rel false i :: post) h req).consumed = pre.length + 1 := by
  have hp := proxy_result_is_provide sc (pre ++ Ev.rel false i :: post) h req hread hlive
  have hs := success_if_any (noSf sc) pre post i nd (by simpa [noSf] using hn) hok hq
  rw [hp.1, hp.2.1, hs]
  exact ⟨rfl, rfl⟩

/-- **Every consulted node is handed the original body (independent readers).** Let the caller's
request carry a readable body whose remaining bytes are `b`. Take any part `sub` of the consulted
nodes and any order `ord` in which they read the body of the request they were handed: each of them
reads exactly `b`. -/
theorem proxy_every_node_gets_original_body (sc : Scen) (evs : List Ev) (h : Heap) (req : Req)
    (rid : Nat) (r : Reader)
    (hb : req.body = some rid) (hr : h[rid]? = some r) (hf : r.failAt = none)
    (sub ord : List (Key × Req))
    (hsub : sub.Sublist (proxy sc evs h req).handed) (hperm : ord.Perm sub) :
    (nodesRead (proxy sc evs h req).heap ord).2 = ord.map (fun x => (x.1, some (r.data.drop r.pos))) := by
  rw [proxy_body_eq sc evs h req rid r hb hr hf] at hsub ⊢
  simp only at hsub ⊢
  have hlt : rid < h.length := getElem?_lt hr
  apply nodesRead_fresh
  · have hp := (handedFrom_pairwise _ (r.data.drop r.pos) (consulted (noSf sc) evs) (h.length + 1)).sublist hsub
    exact (hperm.pairwise_iff (fun hxy => Ne.symm hxy)).mpr hp
  · intro x hx
    have hx' := hsub.subset (hperm.subset hx)
    obtain ⟨id, h1, h2, h3⟩ := handedFrom_mem _ _ _ _ x hx'
    refine ⟨id, by rw [h3], ?_⟩
    have hlen : (h.set rid (drained r) ++ [freshReader (r.data.drop r.pos)]).length = h.length + 1 := by simp
    rw [List.getElem?_append_right (by omega)]
    rw [hlen, List.getElem?_replicate]
    simp
    omega

/-- **The caller's body is consumed exactly once.** After the call — and after any part of the
consulted nodes have read their bodies in any order — the caller's reader is at its end and has been
closed once more than before (nobody touched it afterwards); no consulted node holds it; the caller's
request no longer holds it either but a reader of its own, from which the complete body can still
be read. -/
theorem proxy_caller_body_consumed_once (sc : Scen) (evs : List Ev) (h : Heap) (req : Req)
    (rid : Nat) (r : Reader)
    (hb : req.body = some rid) (hr : h[rid]? = some r) (hf : r.failAt = none)
    (sub ord : List (Key × Req))
    (hsub : sub.Sublist (proxy sc evs h req).handed) (hperm : ord.Perm sub) :
    (nodesRead (proxy sc evs h req).heap ord).1[rid]? = some (drained r) ∧
    (∀ x ∈ (proxy sc evs h req).handed, x.2.body ≠ some rid) ∧
    (proxy sc evs h req).req.body ≠ some rid ∧
    (∃ r0, (proxy sc evs h req).req.body = some r0 ∧
      (readAll (nodesRead (proxy sc evs h req).heap ord).1 r0).2 = (r.data.drop r.pos, false)) := by
  rw [proxy_body_eq sc evs h req rid r hb hr hf] at hsub ⊢
  simp only at hsub ⊢
  have hlt : rid < h.length := getElem?_lt hr
  have hord : ∀ x ∈ ord, ∀ j, j ≤ h.length → x.2.body ≠ some j :=
    fun x hx j hj => handedFrom_ids_ge _ _ _ _ x (hsub.subset (hperm.subset hx)) j (by omega)
  refine ⟨?_, fun x hx => handedFrom_ids_ge _ _ _ _ x hx rid (by omega), by simp; omega, h.length, rfl, ?_⟩
  · rw [nodesRead_other ord _ rid (fun x hx => hord x hx rid (Nat.le_of_lt hlt))]
    rw [List.append_assoc, List.getElem?_append_left (by simpa using hlt)]
    simp [hlt]
  · apply readAll_fresh
    rw [nodesRead_other ord _ h.length (fun x hx => hord x hx h.length (Nat.le_refl _))]
    rw [List.append_assoc, List.getElem?_append_right (by simp)]
    simp

/-- **No body.** A request without body stays without body for every consulted node; no reader is
created and the caller's request is not touched. -/
theorem proxy_nil_body (sc : Scen) (evs : List Ev) (h : Heap) (req : Req) (hb : req.body = none) :
    (∀ x ∈ (proxy sc evs h req).handed, x.2.body = none) ∧
    (proxy sc evs h req).heap = h ∧ (proxy sc evs h req).req = req := by
  rw [proxy_nil_eq sc evs h req hb]
  refine ⟨?_, rfl, rfl⟩
  intro x hx
  simp only [List.mem_map] at hx
  obtain ⟨k, _, hk⟩ := hx
  rw [← hk]

/-- **A body that cannot be read.** If reading the caller's body fails, `Proxy` returns that error:
no node is consulted, no event is consumed, the caller's request keeps its reader. -/
theorem proxy_read_error_consults_nobody (sc : Scen) (evs : List Ev) (h : Heap) (req : Req)
    (rid : Nat) (r : Reader) (k : Nat)
    (hb : req.body = some rid) (hr : h[rid]? = some r) (hf : r.failAt = some k) :
    (proxy sc evs h req).res = .readErr ∧ (proxy sc evs h req).handed = [] ∧
    (proxy sc evs h req).consumed = 0 ∧ (proxy sc evs h req).req = req := by
  have hp := prepare_fail h req rid r k hb hr hf
  unfold proxy
  generalize prepare h req = x at hp
  obtain ⟨h1, o⟩ := x
  simp at hp
  simp [hp]

/-! ### The lazy / http path (`NewMultiHTTP`): first use of nodes that do not answer -/

/-- **Cancellation is prompt on first use.** Primaries that are unreachable or hung, at least one of
them hung (its lazy client is being created: `eth2http.New` pings the node with the worker's
context), any fallbacks: the call returns the context error at the cancellation event, i.e. right
after the unreachable primaries have failed — it does not wait for the node timeout of any hung
node, primary or fallback. -/
theorem http_cancel_prompt (p f : List Kind)
    (hno : ∀ k ∈ p, k = .hung ∨ k = .dead) (hh : Kind.hung ∈ p) :
    provide (httpScen p f) (httpEvents p f true) = (.ctxErr, (relsOf false p .dead).length + 1) := by
  obtain ⟨i, hi⟩ := List.getElem?_of_mem hh
  have hheld : p.any (fun k => k == .hung || k == .slow) = true := by
    rw [List.any_eq_true]; exact ⟨.hung, hh, rfl⟩
  have hnoh : relsOf false p .healthy = [] := relsOf_nil _ _ _ (fun x hx h => by
    rcases hno x hx with h' | h' <;> rw [h'] at h <;> cases h)
  have hq := quiet_dead p f i .hung hi (by decide)
  have hne : (httpScen p f).prim ≠ [] := by
    intro h
    have := httpScen_prim_get p f i .hung hi
    rw [h] at this; cases this
  have hw0 := waiting_init (httpScen p f) false (httpScen p f).prim.length [i]
    (fun j hj => by simp at hj; subst hj; exact getElem?_lt (httpScen_prim_get p f j .hung hi))
  obtain ⟨st, hst, hw, _⟩ := waiting_run (by simp) hq hw0
  have hev : httpEvents p f true = relsOf false p .dead ++ Ev.cancel ::
      (relsOf false p .slow ++ relsOf false p .hung ++ (relsOf true f .dead ++ relsOf true f .healthy) ++
        relsOf true f .slow ++ relsOf true f .hung) := by
    simp [httpEvents, hheld, hnoh]
  rw [hev]
  exact cancel_prompt (httpScen p f) _ _ st hne hst hw.notCancelled i Kind.hung.node
    (hw.keepPending i (by simp))
    (by rw [hw.stage]; simpa [nodes] using httpScen_prim_get p f i .hung hi) rfl

/-- **A healthy primary wins on first use.** If some primary is healthy, the call returns a healthy
primary's answer as soon as the unreachable primaries have failed — whatever else is configured
(hung, slow, unreachable primaries and fallbacks) and whether or not the caller cancels later. -/
theorem http_healthy_primary_wins (p f : List Kind) (c : Bool) (hh : Kind.healthy ∈ p) :
    ∃ j, p[j]? = some .healthy ∧
      provide (httpScen p f) (httpEvents p f c) = (.okFrom false j, (relsOf false p .dead).length + 1) := by
  obtain ⟨i, hi⟩ := List.getElem?_of_mem hh
  cases hr : relsOf false p .healthy with
  | nil =>
    have : Ev.rel false i ∈ relsOf false p .healthy := (mem_relsOf _ _ _ _).mpr ⟨i, rfl, hi⟩
    rw [hr] at this; cases this
  | cons e tl =>
    have he : e ∈ relsOf false p .healthy := by rw [hr]; exact List.mem_cons_self
    obtain ⟨j, hj, hk⟩ := (mem_relsOf _ _ _ _).mp he
    subst hj
    refine ⟨j, hk, ?_⟩
    have hq := quiet_dead p f j .healthy hk (by decide)
    have hev : httpEvents p f c = relsOf false p .dead ++ Ev.rel false j :: (tl ++
        ((if p.any (fun k => k == .hung || k == .slow) then [] else relsOf true f .dead ++ relsOf true f .healthy) ++
        (if c then [Ev.cancel] else []) ++
        relsOf false p .slow ++ relsOf false p .hung ++ (relsOf true f .dead ++ relsOf true f .healthy) ++
        relsOf true f .slow ++ relsOf true f .hung)) := by
      simp [httpEvents, hr]
    rw [hev]
    exact success_if_any (httpScen p f) _ _ j Kind.healthy.node (httpScen_prim_get p f j .healthy hk) rfl hq

/-! ### Non-vacuity and witnesses (concrete runs) -/

private def hN (o : Outcome) : Node := ⟨o, true⟩
private def callerHeap : Heap := [{ data := [7, 8, 9, 10], pos := 1, failAt := none, closes := 0 }]
private def postReq : Req := { post := true, body := some 0, clen := 0, getBody := none }

-- two primaries (timeout, ok) and a fallback: the ok primary decides; both primaries are handed
-- readers of their own (ids 2 and 3; 1 is the caller's replacement reader) and both read [8, 9, 10]
-- in either order; the caller's reader is drained and closed once.
example :
    let run := proxy ⟨[hN .timeout, hN .ok], [hN .ok], true⟩ [.rel false 0, .rel false 1] callerHeap postReq
    run.res = .ret (.okFrom false 1) ∧ run.consumed = 2 ∧ run.usedFb = false ∧
    run.handed.map (fun x => (x.1, x.2.body)) = [((false, 0), some 2), ((false, 1), some 3)] ∧
    (nodesRead run.heap run.handed).2 = [((false, 0), some [8, 9, 10]), ((false, 1), some [8, 9, 10])] ∧
    (nodesRead run.heap run.handed.reverse).2 = [((false, 1), some [8, 9, 10]), ((false, 0), some [8, 9, 10])] ∧
    run.heap[0]? = some { data := [7, 8, 9, 10], pos := 4, failAt := none, closes := 1 } ∧
    run.req.body = some 1 := by decide

-- primary syncing, fallback consulted: the fallback node too reads the complete body.
example :
    let run := proxy ⟨[hN .syncing], [hN .ok], true⟩ [.rel false 0, .rel true 0] callerHeap postReq
    run.res = .ret (.okFrom true 0) ∧ run.usedFb = true ∧
    (nodesRead run.heap run.handed).2 = [((false, 0), some [8, 9, 10]), ((true, 0), some [8, 9, 10])] := by decide

-- a body that breaks after two more bytes: error, nobody consulted.
example :
    (proxy ⟨[hN .ok], [], true⟩ [.rel false 0]
      [{ data := [7, 8, 9, 10], pos := 1, failAt := some 3, closes := 0 }] postReq).res = .readErr := by decide

/-- the per-node request as it would be if the work function relied on `req.Clone(ctx)` alone:
`Clone` copies the reference `req.Body`, all nodes share the caller's replacement reader. -/
private def handOutShared (req : Req) (ks : List Key) : List (Key × Req) := ks.map (fun k => (k, req))

-- … then the node that reads second gets nothing: the independence of the readers is what
-- `proxy_every_node_gets_original_body` is about (the hypothesis `Pairwise (body ≠ body)` of
-- `nodesRead_fresh` fails for the shared request).
example :
    let run := proxy ⟨[hN .timeout, hN .ok], [], true⟩ [.rel false 0, .rel false 1] callerHeap postReq
    (nodesRead run.heap (handOutShared run.req [(false, 0), (false, 1)])).2 =
      [((false, 0), some [8, 9, 10]), ((false, 1), some [])] := by decide

-- the lazy / http path: one unreachable and one hung primary, a hung fallback, the caller cancels:
-- the context error at event 2 (after the unreachable primary's failure), nobody waits for a timeout.
example : provide (httpScen [.dead, .hung] [.hung]) (httpEvents [.dead, .hung] [.hung] true) = (.ctxErr, 2) := by
  decide

-- a hung, a healthy and a slow primary: the healthy one answers at the first event.
example : provide (httpScen [.hung, .healthy, .slow] []) (httpEvents [.hung, .healthy, .slow] [] false) =
    (.okFrom false 1, 1) := by decide

-- a hung primary without cancellation runs into the node timeout; the healthy fallback answers.
example : provide (httpScen [.hung] [.healthy]) (httpEvents [.hung] [.healthy] false) = (.okFrom true 0, 2) ∧
    usedFallback (httpScen [.hung] [.healthy]) (httpEvents [.hung] [.healthy] false) = true := by decide

end CharonV.Provide
