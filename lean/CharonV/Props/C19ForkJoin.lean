/-
C19 — the fork-join under `provide` / `submit`: `app/forkjoin/forkjoin.go`.

`Model/Provide.lean` (the multi-client call) takes forkjoin's behaviour for granted: "results reach the loop in
completion order, one worker per node, unbuffered result channel, no fail-fast". This module replaces that
assumption by theorems about an executable small-step model of forkjoin.go (`Model/ForkJoin.lean`: `New` with
`WithWorkers` / `WithInputBuffer` / `WithoutFailFast` / `WithWaitOnCancel`, `Fork`, `Join`, the cancel func,
`Results.Flatten`, `NewWithInputs`), tied to the real generic code by the lock-step correspondence stream `forkjoin`.

All theorems quantify over every configuration (any number of workers — at least one where something has to
happen —, any input buffer, fail-fast on or off, wait-on-cancel on or off, any set of inputs whose work function
honours its context), every input, every answer of every work function and every schedule: a schedule is an
arbitrary list of events (`Fork` calls, a worker receiving an input, a work function returning any `(out, err)` or
returning its context's error, the consumer receiving from any blocked sender, drops after `cancel()`, `Join`,
the shutdown goroutine, `cancel()`, cancellation / deadline of the caller's context); an event that is not enabled
is a no-op, so "every list of events" is "every interleaving the Go program admits".

What the code does *not* guarantee, although its users might expect it:

* FULL STATEMENT (does not hold): *results are received in completion order / the results of one worker are
  received in the order it produced them.* `enqueue` starts one goroutine per result; which blocked sender a receive
  is matched with is the runtime's choice: `no_per_worker_fifo_witness` (one worker, two inputs, received in
  reverse). Proved: a result is received only after its work function returned and at most once
  (`received_only_after_completed`); received order = completion order for every schedule in which the channel
  serves blocked senders first-in first-out — what Go's runtime does for parked senders — (`fifo_delivery_is_completion_order`),
  in particular when the consumer receives each result before the next completion (`lone_sender_is_next`). For
  `provide` no order is needed: `Model/Provide.lean`'s theorems hold for every order of its `rel` events, and
  `provide_loop_receives_every_client_once` shows the received results are such a list.
* FULL STATEMENT (does not hold): *`Flatten` returns the error that triggered the fail-fast* (doc comment of
  `Flatten`). It returns the first non-cancellation error in *receive* order: `flatten_error_need_not_be_the_trigger_witness`.
  Proved: `flatten_spec`.
* FULL STATEMENT (does not hold): *the cancel func may be called any number of times* (it is handed out as a
  `context.CancelFunc`, whose contract says so). The second call panics (`double_cancel_panics`); and with
  `WithWaitOnCancel` a `cancel()` before `Join` never returns (`wait_on_cancel_needs_join`). No caller in /repo does
  either today.
-/
import CharonV.Proofs.ForkJoin
import CharonV.Model.Provide

namespace CharonV.ForkJoin

/-- the state after the events `evs`, starting from `forkjoin.New`. -/
abbrev reached (cfg : Cfg) (evs : List Ev) : St := run cfg (init cfg) evs

/-! ## (1) nothing lost, nothing duplicated -/

/-- **Every forked input yields exactly one result.** In every reachable state in which the results channel is
closed and `cancel()` was not called — fail-fast or not, root context cancelled or not —: the inputs of the
received results are, as a multiset, exactly the inputs the input channel accepted; the received results are
exactly the results that were produced; no sender is left, nothing was dropped, nothing is queued or running. -/
theorem each_forked_input_exactly_one_result (cfg : Cfg) (evs : List Ev)
    (hclosed : (reached cfg evs).closed = true) (hnc : (reached cfg evs).dropClosed = false) :
    List.Perm ((reached cfg evs).received.map (·.input)) (reached cfg evs).forked ∧
    List.Perm (reached cfg evs).received (reached cfg evs).completed ∧
    (reached cfg evs).senders = [] ∧ (reached cfg evs).dropped = [] ∧
    (reached cfg evs).queue = [] ∧ runningOf (reached cfg evs).ws = [] := by
  have h := inv_reach cfg evs
  obtain ⟨hq, _, hr, hs⟩ := quiet_of_closed h hclosed
  have hd := h.dropped_nil hnc
  have hc := completed_perm h
  have hf := forked_perm h
  rw [hs, hd] at hc
  rw [hq, hr] at hf
  simp at hc hf
  exact ⟨(hc.symm.map _).trans hf.symm, hc.symm, hs, hd, hq, hr⟩

/-- **Without fail-fast and without cancellation every result is the work function's own answer**: the worker
context is live, no input is skipped, no work function is told to stop. -/
theorem without_fail_fast_results_are_work_outcomes (cfg : Cfg) (evs : List Ev) (hff : cfg.failFast = false)
    (hnc : (reached cfg evs).dropClosed = false) (hroot : (reached cfg evs).rootErr = .nil) :
    (reached cfg evs).ctxErr = .nil ∧ (∀ r ∈ (reached cfg evs).completed, r.src = .work) ∧
    (∀ r ∈ (reached cfg evs).received, r.src = .work) := by
  have h := inv_reach cfg evs
  have hctx := h.noff_ctx hff hnc hroot
  refine ⟨hctx, h.src_work hctx, fun r hr => h.src_work hctx r ?_⟩
  exact (completed_perm h).mem_iff.mpr (by simp [hr])

/-- **A `work` result carries the input the worker was given and exactly what the work function returned.** -/
theorem work_result_is_the_answer (cfg : Cfg) (st : St) (w i out : Nat) (err : ErrC)
    (hw : st.ws[w]? = some (.running i)) :
    (step cfg st (.complete w out err)).2 = .ok ∧
    (step cfg st (.complete w out err)).1.senders = st.senders ++ [⟨i, out, err, .work⟩] ∧
    (step cfg st (.complete w out err)).1.completed = st.completed ++ [⟨i, out, err, .work⟩] := by
  simp [step, hw, enqueue]

/-- **After `Join`, a consumer that keeps reading receives everything and then sees the channel closed.** From
every reachable joined state (at least one worker, `cancel()` not called) there is a continuation of at most
`measure` progress events (workers receive, work functions return, the consumer receives, the shutdown goroutine
closes) that ends with the channel closed, every input the channel accepted received exactly once, nothing dropped. -/
theorem join_then_reading_receives_everything_once (cfg : Cfg) (hW : 1 ≤ cfg.workers) (evs : List Ev)
    (hj : (reached cfg evs).joined = true) (hnc : (reached cfg evs).dropClosed = false) :
    ∃ more : List Ev, (∀ e ∈ more, isProgress e = true) ∧ more.length ≤ measure (reached cfg evs) ∧
      (reached cfg (evs ++ more)).closed = true ∧
      List.Perm ((reached cfg (evs ++ more)).received.map (·.input)) (reached cfg evs).forked ∧
      (reached cfg (evs ++ more)).dropped = [] ∧ (reached cfg (evs ++ more)).senders = [] := by
  obtain ⟨more, h1, h2, h3⟩ := reach_closed hW (measure (reached cfg evs)) (reached cfg evs) (inv_reach cfg evs) hj (Nat.le_refl _)
  have hrun : reached cfg (evs ++ more) = run cfg (reached cfg evs) more := run_append cfg _ evs more
  have hd : (reached cfg (evs ++ more)).dropClosed = false := by
    rw [hrun]; rw [dropClosed_progress_run more h1]; exact hnc
  have hf : (reached cfg (evs ++ more)).forked = (reached cfg evs).forked := by
    rw [hrun]; exact forked_progress_run more (inv_reach cfg evs) hj h1
  have hcl : (reached cfg (evs ++ more)).closed = true := by rw [hrun]; exact h3
  obtain ⟨p, _, hs, hdr, _, _⟩ := each_forked_input_exactly_one_result cfg (evs ++ more) hcl hd
  exact ⟨more, h1, h2, hcl, hf ▸ p, hdr, hs⟩

/-- **Every schedule of progress events is finite**: each enabled progress event strictly decreases the amount of
outstanding work, so a consumer that keeps reading (and work functions that return) cannot be kept from the
close by any interleaving. -/
theorem progress_terminates (cfg : Cfg) (st : St) (e : Ev) (hp : isProgress e = true)
    (hok : (step cfg st e).2 = .ok) : measure (step cfg st e).1 < measure st :=
  progress_decreases e hp hok

/-! ## (2) order -/

/-- **A result is received only after it was produced, and at most once**: at every moment the produced results
are, as a multiset, the received ones plus those whose sender is still blocked plus the dropped ones. -/
theorem received_only_after_completed (cfg : Cfg) (evs : List Ev) :
    List.Perm (reached cfg evs).completed
      ((reached cfg evs).received ++ (reached cfg evs).senders ++ (reached cfg evs).dropped) :=
  completed_perm (inv_reach cfg evs)

/-- **Received order = completion order whenever the channel serves blocked senders first-in first-out** (every
`deliver` takes the oldest sender; no `cancel()`): then the received results followed by the pending ones are the
produced results *in order*. This is the order guarantee `Model/Provide.lean` assumed; it rests on the runtime's
queue of parked senders, not on forkjoin.go (see `no_per_worker_fifo_witness`). -/
theorem fifo_delivery_is_completion_order (cfg : Cfg) (evs : List Ev) (hf : evs.all isFifoEv = true) :
    (reached cfg evs).received ++ (reached cfg evs).senders = (reached cfg evs).completed :=
  fifo_run evs hf rfl

/-- **A consumer that receives each result before the next one is produced sees completion order**: with at
most one blocked sender, the receive takes it (index 0). -/
theorem lone_sender_is_next (cfg : Cfg) (st : St) (k : Nat) (h1 : st.senders.length ≤ 1)
    (hok : (step cfg st (.deliver k)).2 = .ok) : k = 0 := by
  simp only [step] at hok
  split at hok
  · rename_i r hr
    have := (List.getElem?_eq_some_iff.mp hr).1
    omega
  · simp at hok

/-- **No per-worker FIFO**: one worker, inputs 1 and 2 processed in this order, received in reverse. -/
theorem no_per_worker_fifo_witness :
    let cfg : Cfg := ⟨1, 100, false, false, fun _ => false⟩
    let evs : List Ev := [.fork 1 true, .fork 2 true, .take 0, .complete 0 10 .nil, .take 0, .complete 0 20 .nil,
                          .join, .deliver 1, .deliver 0, .close]
    (reached cfg evs).completed.map (·.input) = [1, 2] ∧ (reached cfg evs).received.map (·.input) = [2, 1] ∧
    (reached cfg evs).closed = true := by
  decide

/-! ## (3) no deadlock -/

/-- **No deadlock after `Join`**: in every reachable joined state with the channel still open (at least one worker)
some progress event is enabled — a worker can receive, a work function can return, the consumer can receive, or
the shutdown goroutine can close. -/
theorem no_deadlock (cfg : Cfg) (hW : 1 ≤ cfg.workers) (evs : List Ev)
    (hj : (reached cfg evs).joined = true) (hc : (reached cfg evs).closed = false) :
    ∃ e, isProgress e = true ∧ (step cfg (reached cfg evs) e).2 = .ok :=
  exists_progress (inv_reach cfg evs) hW hj hc

/-- **Workers never wait for the consumer** (`enqueue` is asynchronous): a running work function can return in
every state, whatever the consumer does. -/
theorem worker_never_blocks_on_consumer (cfg : Cfg) (st : St) (w i out : Nat) (err : ErrC)
    (hw : st.ws[w]? = some (.running i)) : (step cfg st (.complete w out err)).2 = .ok := by
  simp [step, hw]

/-- **Before `Join` too, a queued input is taken**: whenever an input is queued (or a `Fork` is blocked) a worker
can receive it or a running work function can return — no consumer needed. -/
theorem queued_input_is_taken (cfg : Cfg) (hW : 1 ≤ cfg.workers) (evs : List Ev)
    (hq : (reached cfg evs).queue ≠ [] ∨ (reached cfg evs).blocked.isSome = true) :
    (∃ w, (step cfg (reached cfg evs) (.take w)).2 = .ok) ∨
    (∃ w, (step cfg (reached cfg evs) (.complete w 0 .nil)).2 = .ok) := by
  have h := inv_reach cfg evs
  by_cases hr : runningOf (reached cfg evs).ws = []
  · left
    exact ⟨0, take_enabled (all_idle _ hr 0 (by rw [h.ws_len]; omega)) hq⟩
  · right
    obtain ⟨i, hi⟩ := List.exists_mem_of_ne_nil _ hr
    obtain ⟨w, hw⟩ := running_mem _ _ hi
    exact ⟨w, by simp [step, hw]⟩

/-- **What happens when the consumer stops reading**: if, after `Join`, nothing but a receive can happen any more,
then every input has been processed, every worker has returned — the workers do *not* block —, `cancel()` was not
called, and what is left are sender goroutines blocked on the unbuffered channel; the channel is never closed
until somebody receives or calls `cancel()`. -/
theorem stuck_only_if_consumer_stopped (cfg : Cfg) (hW : 1 ≤ cfg.workers) (evs : List Ev)
    (hj : (reached cfg evs).joined = true) (hc : (reached cfg evs).closed = false)
    (hstuck : ∀ e, isProgress e = true → (∀ k, e ≠ .deliver k) → (step cfg (reached cfg evs) e).2 ≠ .ok) :
    (reached cfg evs).queue = [] ∧ runningOf (reached cfg evs).ws = [] ∧ (reached cfg evs).senders ≠ [] ∧
    (reached cfg evs).dropClosed = false := by
  have h := inv_reach cfg evs
  have hr : runningOf (reached cfg evs).ws = [] := by
    by_cases hr : runningOf (reached cfg evs).ws = []
    · exact hr
    · obtain ⟨i, hi⟩ := List.exists_mem_of_ne_nil _ hr
      obtain ⟨w, hw⟩ := running_mem _ _ hi
      exact absurd (by simp [step, hw]) (hstuck (.complete w 0 .nil) rfl (by simp))
  have hidle := all_idle _ hr 0 (by rw [h.ws_len]; omega)
  have hq : (reached cfg evs).queue = [] := by
    cases hq : (reached cfg evs).queue with
    | nil => rfl
    | cons i rest => exact absurd (take_enabled hidle (by simp [hq])) (hstuck (.take 0) rfl (by simp))
  have hs : (reached cfg evs).senders ≠ [] := by
    intro hs
    have hwg := h.wg_eq
    simp [hq, hs, hr, blockedN, h.joined_unblocked hj] at hwg
    exact absurd (by simp [step, hj, hwg, hc]) (hstuck .close rfl (by simp))
  refine ⟨hq, hr, hs, ?_⟩
  cases hd : (reached cfg evs).dropClosed with
  | false => rfl
  | true =>
    obtain ⟨r, rest, hrs⟩ := List.exists_cons_of_ne_nil hs
    exact absurd (by simp [step, hrs, hd]) (hstuck (.drop 0) rfl (by simp))

/-! ## (4) fail-fast, Flatten -/

/-- **Fail-fast: the first error cancels the worker context** (in the very step in which the work function
returns it); without fail-fast an error changes nothing. -/
theorem fail_fast_cancels_on_error (cfg : Cfg) (st : St) (w i out : Nat) (err : ErrC)
    (hw : st.ws[w]? = some (.running i)) (he : err ≠ .nil) :
    (cfg.failFast = true → (step cfg st (.complete w out err)).1.ctxErr ≠ .nil) ∧
    (cfg.failFast = false → (step cfg st (.complete w out err)).1.ctxErr = st.ctxErr) := by
  constructor
  · intro hff
    by_cases h0 : st.ctxErr = .nil <;> simp [step, hw, enqueue, hff, he, h0]
  · intro hff; simp [step, hw, enqueue, hff]

/-- **Once the worker context is cancelled no work function is started any more**: a worker that receives an
input does not call `work`; it produces the result `(input, zero, workCtx.Err())` at once and stays idle. This
holds for inputs already queued and for inputs forked later alike. -/
theorem no_work_starts_after_cancel (cfg : Cfg) (st : St) (w : Nat) (hctx : st.ctxErr ≠ .nil)
    (hok : (step cfg st (.take w)).2 = .ok) :
    (step cfg st (.take w)).1.ws = st.ws ∧
    ∃ i, (step cfg st (.take w)).1.senders = st.senders ++ [⟨i, 0, st.ctxErr, .skip⟩] ∧
         (i ∈ st.queue ∨ st.blocked = some i) := by
  simp only [step] at hok ⊢
  split at hok
  · split at hok
    · rename_i i rest hq
      split <;> simp_all [received1, enqueue]
    · split at hok
      · rename_i j hb; simp_all [received1, enqueue]
      · simp at hok
  · simp at hok

/-- **The worker context's error never changes once set**, so all skipped and aborted results of a run carry the
same error. -/
theorem ctx_error_is_sticky (cfg : Cfg) (st : St) (evs : List Ev) (h : st.ctxErr ≠ .nil) :
    (run cfg st evs).ctxErr = st.ctxErr :=
  ctxErr_run evs h

/-- **What a result that is not a work function's answer looks like**: zero output and the worker context's
error, which is a context-cancelled error unless the caller's context ran into its deadline; such results exist
only after a fail-fast error, `cancel()` or the end of the caller's context. -/
theorem skipped_and_aborted_results (cfg : Cfg) (evs : List Ev) :
    (∀ r ∈ (reached cfg evs).completed, r.src ≠ .work →
       r.out = 0 ∧ r.err = (reached cfg evs).ctxErr ∧ r.err ≠ .nil) ∧
    ((reached cfg evs).rootErr ≠ .dl → (reached cfg evs).ctxErr = .nil ∨ (reached cfg evs).ctxErr = .canc) ∧
    ((reached cfg evs).ctxErr = .nil → ∀ r ∈ (reached cfg evs).completed, r.src = .work) := by
  have h := inv_reach cfg evs
  refine ⟨h.skip_shape, fun hdl => ?_, h.src_work⟩
  rcases h.ctx_kind with h1 | h1 | h1
  · exact Or.inl h1
  · exact Or.inr h1
  · have := h.root_kind
    cases hr : (reached cfg evs).rootErr <;> simp_all

/-- **With fail-fast every error of a work function leaves the worker context cancelled**: after the first error
every not-yet-started input yields a skipped result (`no_work_starts_after_cancel`); every forked input still
yields exactly one result (`each_forked_input_exactly_one_result`). -/
theorem fail_fast_error_implies_cancelled (cfg : Cfg) (evs : List Ev) (hff : cfg.failFast = true)
    (r : Result) (hr : r ∈ (reached cfg evs).completed) (hs : r.src = .work) (he : r.err ≠ .nil) :
    (reached cfg evs).ctxErr ≠ .nil :=
  (inv_reach cfg evs).ff_err hff ⟨r, hr, hs, he⟩

/-- **`Flatten`**: the outputs of all received results in receive order; the error is the first one in receive
order that is neither nil nor a cancellation, if there is one; else a cancellation error if some result carries
one; else nil. -/
theorem flatten_spec (rs : List Result) :
    (flatten rs).1 = rs.map (·.out) ∧
    ((∃ r ∈ rs, r.err ≠ .nil ∧ r.err ≠ .canc) →
       ∃ pre r post, rs = pre ++ r :: post ∧ (∀ x ∈ pre, x.err = .nil ∨ x.err = .canc) ∧
         r.err ≠ .nil ∧ r.err ≠ .canc ∧ (flatten rs).2 = r.err) ∧
    ((∀ r ∈ rs, r.err = .nil ∨ r.err = .canc) → (∃ r ∈ rs, r.err = .canc) → (flatten rs).2 = .canc) ∧
    ((∀ r ∈ rs, r.err = .nil) → (flatten rs).2 = .nil) := by
  rw [flatten_eq]
  refine ⟨rfl, ?_, ?_, ?_⟩
  · intro ⟨r, hr, h1, h2⟩
    have hne : otherOf rs ≠ .nil := by
      intro h0
      rcases otherOf_nil rs h0 r hr with h | h
      · exact h1 h
      · exact h2 h
    obtain ⟨pre, x, post, e1, e2, e3, e4, e5⟩ := otherOf_spec rs hne
    exact ⟨pre, x, post, e1, e2, e4, e5, by simp [hne, e3]⟩
  · intro hall ⟨r, hr, hc⟩
    have h0 : otherOf rs = .nil := by
      by_cases h0 : otherOf rs = .nil
      · exact h0
      · obtain ⟨pre, x, post, e1, _, _, e4, e5⟩ := otherOf_spec rs h0
        have hx : x ∈ rs := by rw [e1]; simp
        rcases hall x hx with h | h
        · exact absurd h e4
        · exact absurd h e5
    rcases cancOf_cases rs with h | h
    · exact absurd hc (cancOf_nil rs h r hr)
    · simp [h0, h]
  · intro hall
    have h0 : otherOf rs = .nil := by
      by_cases h0 : otherOf rs = .nil
      · exact h0
      · obtain ⟨pre, x, post, e1, _, _, e4, _⟩ := otherOf_spec rs h0
        exact absurd (hall x (by rw [e1]; simp)) e4
    rcases cancOf_cases rs with h | h
    · simp [h0, h]
    · have : ∀ rs : List Result, (∀ r ∈ rs, r.err = .nil) → cancOf rs = .nil := by
        intro rs; induction rs with
        | nil => intro _; rfl
        | cons a as ih => intro ha; simp [cancOf, ha a (by simp), ih (fun r hr => ha r (by simp [hr]))]
      rw [this rs hall] at h; cases h

/-- **`Flatten` over a completed fail-fast run** (`cancel()` not called): it returns nil exactly when every work
function succeeded, and then its outputs are the outputs of all forked inputs' work functions. -/
theorem flatten_nil_iff_all_succeeded (cfg : Cfg) (evs : List Ev)
    (hclosed : (reached cfg evs).closed = true) (hnc : (reached cfg evs).dropClosed = false) :
    ((flatten (reached cfg evs).received).2 = .nil ↔ ∀ r ∈ (reached cfg evs).completed, r.err = .nil) ∧
    ((flatten (reached cfg evs).received).2 = .nil →
       (∀ r ∈ (reached cfg evs).received, r.src = .work) ∧
       List.Perm ((reached cfg evs).received.map (·.input)) (reached cfg evs).forked) := by
  obtain ⟨p1, p2, _, _, _, _⟩ := each_forked_input_exactly_one_result cfg evs hclosed hnc
  have h := inv_reach cfg evs
  have hiff : (flatten (reached cfg evs).received).2 = .nil ↔ ∀ r ∈ (reached cfg evs).received, r.err = .nil := by
    constructor
    · intro hn r hr
      rw [flatten_eq] at hn
      by_cases h0 : otherOf (reached cfg evs).received = .nil
      · simp [h0] at hn
        rcases otherOf_nil _ h0 r hr with h1 | h1
        · exact h1
        · exact absurd h1 (cancOf_nil _ hn r hr)
      · simp [h0] at hn
    · exact (flatten_spec _).2.2.2
  refine ⟨?_, fun hn => ⟨fun r hr => ?_, p1⟩⟩
  · rw [hiff]
    exact ⟨fun a r hr => a r (p2.mem_iff.mpr hr), fun a r hr => a r (p2.mem_iff.mp hr)⟩
  · have hc := p2.mem_iff.mp hr
    by_cases hs : r.src = .work
    · exact hs
    · have := h.skip_shape r hc hs
      exact absurd (hiff.mp hn r hr) this.2.2

/-- **The error `Flatten` returns need not be the one that triggered the fail-fast** (its doc comment says it is):
two workers; input 1 fails with a deadline error and triggers the fail-fast, input 2 (not honouring its context)
fails afterwards with another error and is received first. -/
theorem flatten_error_need_not_be_the_trigger_witness :
    let cfg : Cfg := ⟨2, 100, true, false, fun _ => false⟩
    let evs : List Ev := [.fork 1 true, .fork 2 true, .take 0, .take 1, .complete 0 11 .dl, .complete 1 21 .fail,
                          .join, .deliver 1, .deliver 0, .close]
    (reached cfg evs).closed = true ∧
    (reached cfg evs).completed.map (·.err) = [.dl, .fail] ∧ (flatten (reached cfg evs).received).2 = .fail := by
  decide

/-! ## (5) cancel -/

/-- **After cancellation a work function that honours its context can return at once.** -/
theorem cancel_lets_honouring_work_return (cfg : Cfg) (st : St) (w i : Nat) (hw : st.ws[w]? = some (.running i))
    (hh : cfg.hon i = true) (hctx : st.ctxErr ≠ .nil) :
    (step cfg st (.abort w)).2 = .ok ∧
    (step cfg st (.abort w)).1.senders = st.senders ++ [⟨i, 0, st.ctxErr, .abort⟩] := by
  simp [step, hw, hh, hctx, enqueue]

/-- **`cancel()` cancels the worker context and opens the drop path**; the first call never panics. -/
theorem cancel_cancels (cfg : Cfg) (st : St) (hd : st.dropClosed = false) :
    (step cfg st .cancel).1.dropClosed = true ∧ (step cfg st .cancel).1.ctxErr ≠ .nil ∧
    (step cfg st .cancel).2 ≠ .panicDoubleCancel := by
  by_cases h0 : st.ctxErr = .nil <;> by_cases hw : (cfg.waitOnCancel && !st.closed) = true <;>
    simp [step, hd, h0, hw]

/-- **After `Join` and `cancel()` the results channel closes without the consumer**, if the work functions still
running honour their context: from every such reachable state a continuation of internal events only (workers
receive and skip, work functions abort, senders drop, shutdown goroutine closes) reaches the closed channel. -/
theorem cancel_closes_without_consumer (cfg : Cfg) (hW : 1 ≤ cfg.workers) (evs : List Ev)
    (hj : (reached cfg evs).joined = true) (hd : (reached cfg evs).dropClosed = true)
    (hh : ∀ i ∈ runningOf (reached cfg evs).ws, cfg.hon i = true) :
    ∃ more : List Ev, (∀ e ∈ more, isInternal e = true) ∧ more.length ≤ measure (reached cfg evs) ∧
      (reached cfg (evs ++ more)).closed = true ∧ (reached cfg (evs ++ more)).cancelWaiting = false := by
  obtain ⟨more, h1, h2, h3⟩ :=
    reach_closed_internal hW (measure (reached cfg evs)) (reached cfg evs) (inv_reach cfg evs) hj hd hh (Nat.le_refl _)
  have hrun : reached cfg (evs ++ more) = run cfg (reached cfg evs) more := run_append cfg _ evs more
  refine ⟨more, h1, h2, by rw [hrun]; exact h3, ?_⟩
  have h := inv_reach cfg (evs ++ more)
  cases hw : (reached cfg (evs ++ more)).cancelWaiting with
  | false => rfl
  | true =>
    have := (h.wait_imp hw).2.1
    have h3' : (run cfg (init cfg) (evs ++ more)).closed = true := by
      rw [show run cfg (init cfg) (evs ++ more) = run cfg (reached cfg evs) more from hrun]; exact h3
    rw [h3'] at this; cases this

/-- **No send on a closed channel**: in no reachable state has a sender goroutine hit the closed results channel;
when the channel is closed nothing is in flight (no queued input, no blocked `Fork`, no running work function, no
sender), so no send can follow either. -/
theorem no_send_on_closed_channel (cfg : Cfg) (evs : List Ev) :
    (reached cfg evs).bug = false ∧
    ((reached cfg evs).closed = true →
      (reached cfg evs).queue = [] ∧ (reached cfg evs).blocked = none ∧ runningOf (reached cfg evs).ws = [] ∧
      (reached cfg evs).senders = [] ∧ ∀ k, (step cfg (reached cfg evs) (.deliver k)).2 ≠ .bugSendOnClosed) := by
  have h := inv_reach cfg evs
  refine ⟨h.no_bug, fun hc => ?_⟩
  obtain ⟨a, b, c, d⟩ := quiet_of_closed h hc
  exact ⟨a, b, c, d, fun k => by simp [step, d]⟩

/-- **The channel is closed only after `Join`, and only when every accepted input has had its result received
or dropped.** -/
theorem closed_only_after_join (cfg : Cfg) (evs : List Ev) (hc : (reached cfg evs).closed = true) :
    (reached cfg evs).joined = true ∧
    (reached cfg evs).received.length + (reached cfg evs).dropped.length = (reached cfg evs).forked.length := by
  have h := inv_reach cfg evs
  obtain ⟨a, _, c, d⟩ := quiet_of_closed h hc
  have hf := (forked_perm h).length_eq
  have hp := (completed_perm h).length_eq
  simp [a, c, d] at hf hp
  refine ⟨(h.closed_imp hc).1, ?_⟩
  simp only [reached] at *
  omega

/-- **Misuse panics** exactly as documented for `Fork` and `Join` — and, undocumented, for the cancel func:
`Fork` after `Join` (send on closed channel; with a done root context the `select` may instead take the `Done`
case), a second `Join`, a second `cancel()` (both: close of closed channel). None of them changes the state. -/
theorem double_cancel_panics (cfg : Cfg) (st : St) :
    (st.dropClosed = true → step cfg st .cancel = (st, .panicDoubleCancel)) ∧
    (st.joined = true → step cfg st .join = (st, .panicDoubleJoin)) ∧
    (st.joined = true → st.blocked = none → ∀ i, step cfg st (.fork i true) = (st, .panicForkAfterJoin)) := by
  refine ⟨fun h => by simp [step, h], fun h => by simp [step, h], fun h hb i => by simp [step, h, hb]⟩

/-- **`WithWaitOnCancel`: `cancel()` returns exactly when the shutdown goroutine closes the channel** — nothing
else releases it; in particular a `cancel()` before `Join` waits for as long as nobody calls `Join`. Without the
option `cancel()` never waits. -/
theorem wait_on_cancel_needs_join (cfg : Cfg) (evs : List Ev) :
    (∀ e, (reached cfg evs).cancelWaiting = true → (step cfg (reached cfg evs) e).1.cancelWaiting = false → e = .close) ∧
    (∀ more : List Ev, (∀ e ∈ more, e ≠ Ev.join) → (reached cfg evs).joined = false →
       (reached cfg evs).cancelWaiting = true →
       (run cfg (reached cfg evs) more).cancelWaiting = true ∧ (run cfg (reached cfg evs) more).closed = false) ∧
    (cfg.waitOnCancel = false → (reached cfg evs).cancelWaiting = false) := by
  have h := inv_reach cfg evs
  refine ⟨fun e hw hc => cancelWaiting_cleared_only_by_close h e hw hc, fun more hne hj hw => ?_, fun hwoc => ?_⟩
  · obtain ⟨a, _, c⟩ := waits_without_join more h hne hj hw
    exact ⟨a, c⟩
  · cases hw : (reached cfg evs).cancelWaiting with
    | false => rfl
    | true => have := (h.wait_imp hw).2.2; rw [hwoc] at this; cases this

/-! ## (6) what `provide` / `submit` rely on -/

/-- `forkjoin.New(ctx, work, WithoutFailFast(), WithWorkers(len(clients)))` (input buffer `buf`: 100 in the code). -/
def provideCfg (n buf : Nat) (hon : Nat → Bool) : Cfg := ⟨n, buf, false, false, hon⟩

/-- **One worker per client: no client's request waits for another client's request.** With as many workers as
`Fork` calls, whenever an input is queued (or a `Fork` blocked on a full buffer) an idle worker can receive it at
once — a request starts without any other request having to finish. -/
theorem provide_every_client_has_a_worker (n buf : Nat) (hon : Nat → Bool) (evs : List Ev)
    (hn : forkCount evs ≤ n)
    (hq : (reached (provideCfg n buf hon) evs).queue ≠ [] ∨ (reached (provideCfg n buf hon) evs).blocked.isSome = true) :
    ∃ w, (step (provideCfg n buf hon) (reached (provideCfg n buf hon) evs) (.take w)).2 = .ok := by
  have h := inv_reach (provideCfg n buf hon) evs
  have hb := fork_budget_run (cfg := provideCfg n buf hon) (st := init (provideCfg n buf hon)) evs
  have hi : (init (provideCfg n buf hon)).forked.length + blockedN (init (provideCfg n buf hon)) = 0 := by
    simp [init, blockedN]
  have hf := (forked_perm h).length_eq
  simp only [List.length_append, List.length_map] at hf
  have hlen : (reached (provideCfg n buf hon) evs).ws.length = n := h.ws_len
  have hpos : 1 ≤ (reached (provideCfg n buf hon) evs).queue.length + blockedN (reached (provideCfg n buf hon) evs) := by
    rcases hq with hq | hq
    · have := List.length_pos_iff.mpr hq; omega
    · simp [blockedN, hq]
  simp only [reached] at *
  obtain ⟨w, hw⟩ := exists_idle (run (provideCfg n buf hon) (init (provideCfg n buf hon)) evs).ws (by omega)
  exact ⟨w, take_enabled hw hq⟩

/-- **What the loop `for res := range join()` of `runForkJoin` receives** — the statement that replaces
`Model/Provide.lean`'s assumption. For every schedule, as long as neither the deferred `cancel()` ran nor the
caller's context ended: every received result is a client's own answer (input = that client, output / error =
what its request returned), no client is received twice, nothing is dropped, a result is receivable as soon as its
request returned (`worker_never_blocks_on_consumer`, `received_only_after_completed`); once the channel is closed
every forked client has been received exactly once — the loop ends after exactly `len(clients)` results — and it
is not closed before. Mapped to `Model/Provide.lean`: the received results are a duplicate-free list of `rel`
events of the forked nodes, each carrying that node's outcome, in an order chosen by the schedule — and the
theorems of Props/C19.lean hold for every such list. -/
theorem provide_loop_receives_every_client_once (n buf : Nat) (hon : Nat → Bool) (evs : List Ev) (st : St)
    (hst : st = reached (provideCfg n buf hon) evs)
    (hnc : st.dropClosed = false) (hroot : st.rootErr = .nil) :
    (∀ r ∈ st.received, r.src = .work) ∧ st.dropped = [] ∧
    List.Perm (st.received ++ st.senders) st.completed ∧
    List.Perm (st.completed.map (·.input) ++ runningOf st.ws ++ st.queue) st.forked ∧
    (st.closed = true → List.Perm (st.received.map (·.input)) st.forked ∧ st.received.length = st.forked.length) ∧
    (st.received.length < st.forked.length → st.closed = false) := by
  subst hst
  have h := inv_reach (provideCfg n buf hon) evs
  have hw := (without_fail_fast_results_are_work_outcomes (provideCfg n buf hon) evs rfl hnc hroot).2.2
  have hd := h.dropped_nil hnc
  have hc := completed_perm h
  have hf := forked_perm h
  simp only [reached] at *
  rw [hd] at hc
  simp at hc
  refine ⟨hw, hd, hc.symm, ?_, ?_, ?_⟩
  · refine List.Perm.trans ?_ hf.symm
    rw [List.perm_iff_count]; intro x; simp [List.count_append]; omega
  · intro hcl
    obtain ⟨p, _, _, _, _, _⟩ := each_forked_input_exactly_one_result (provideCfg n buf hon) evs hcl hnc
    exact ⟨p, by simpa using p.length_eq⟩
  · intro hlt
    cases hcl : (run (provideCfg n buf hon) (init (provideCfg n buf hon)) evs).closed with
    | false => rfl
    | true =>
      have := (closed_only_after_join (provideCfg n buf hon) evs hcl).2
      simp only [reached] at this
      rw [hd] at this; simp at this; omega

/-- **… in completion order, if the runtime serves blocked senders first-in first-out**: then the results the loop
has received are exactly the first results produced, in the order their requests returned. -/
theorem provide_loop_sees_completion_order (n buf : Nat) (hon : Nat → Bool) (evs : List Ev)
    (hf : evs.all isFifoEv = true) :
    (reached (provideCfg n buf hon) evs).received ++ (reached (provideCfg n buf hon) evs).senders =
      (reached (provideCfg n buf hon) evs).completed :=
  fifo_delivery_is_completion_order _ evs hf

/-- **As `rel` events of `Model/Provide.lean`**: when the loop has run to the end, the received results, read as
completion events `rel fb i` of the Provide model, are a permutation of the forked clients' events — each client
exactly once. -/
theorem provide_events_are_each_client_once (n buf : Nat) (hon : Nat → Bool) (evs : List Ev) (fb : Bool)
    (hcl : (reached (provideCfg n buf hon) evs).closed = true)
    (hnc : (reached (provideCfg n buf hon) evs).dropClosed = false) :
    List.Perm ((reached (provideCfg n buf hon) evs).received.map (fun r => Provide.Ev.rel fb r.input))
      ((reached (provideCfg n buf hon) evs).forked.map (fun i => Provide.Ev.rel fb i)) := by
  obtain ⟨p, _⟩ := each_forked_input_exactly_one_result (provideCfg n buf hon) evs hcl hnc
  have := p.map (fun i => Provide.Ev.rel fb i)
  simpa [List.map_map, Function.comp_def] using this

/-- **When the caller's context ends, a client whose request honours the context is the next thing the loop can
receive**: the worker context is a child of the caller's; the request returns its context's error, the result is
receivable at once, and `runForkJoin` returns `ctx.Err()` when it sees it (`Model/Provide.lean`, event `cancel`). -/
theorem provide_cancel_reaches_the_loop (n buf : Nat) (hon : Nat → Bool) (st : St) (dl : Bool) (w i : Nat)
    (hroot : st.rootErr = .nil) (hw : st.ws[w]? = some (.running i)) (hh : hon i = true) :
    let cfg := provideCfg n buf hon
    let st1 := (step cfg st (.rootCancel dl)).1
    st1.ctxErr ≠ .nil ∧ (step cfg st1 (.abort w)).2 = .ok ∧
    ∃ r, (step cfg st1 (.abort w)).1.senders = st.senders ++ [r] ∧ r.input = i ∧ r.err = st1.ctxErr := by
  intro cfg st1
  have hctx : st1.ctxErr ≠ .nil := by
    by_cases h0 : st.ctxErr = .nil <;> cases dl <;> simp [st1, step, hroot, h0]
  have hws : st1.ws = st.ws := by simp [st1, step, hroot]
  have hss : st1.senders = st.senders := by simp [st1, step, hroot]
  have hw1 : st1.ws[w]? = some (.running i) := by rw [hws]; exact hw
  obtain ⟨a, b⟩ := cancel_lets_honouring_work_return cfg st1 w i hw1 hh hctx
  exact ⟨hctx, a, ⟨i, 0, st1.ctxErr, .abort⟩, by rw [b, hss], rfl, rfl⟩

/-! ## `NewWithInputs` -/

/-- **`NewWithInputs` forks every input, in order, and joins** — whatever the workers, work functions, senders and
the consumer do in between, however small the input buffer (a `Fork` that blocks is resumed by a worker), as long
as the caller's context is live: when it returns the forkjoin is joined, the input channel has accepted exactly
`inputs` in order, no `Fork` panicked or gave up. So every theorem about joined states applies with
`forked = inputs`: e.g. `join_then_reading_receives_everything_once` — the returned channel yields exactly one
result per element of `inputs` and is then closed. -/
theorem new_with_inputs_forks_all_then_joins (cfg : Cfg) (inputs : List Nat) (st' : St)
    (r : NwiRun cfg (init cfg) inputs st') :
    st'.joined = true ∧ st'.forked = inputs ∧ st'.blocked = none := by
  have := nwi_run_spec r rfl rfl
  simpa [handedOver, init] using this

/-! ## non-vacuity -/

/-- three inputs, two workers, no fail-fast: joined, drained, closed; everything received once. -/
example :
    let cfg : Cfg := ⟨2, 1, false, false, fun _ => false⟩
    let evs : List Ev := [.fork 5 true, .take 0, .fork 6 true, .take 1, .fork 7 true, .complete 1 60 .fail, .take 1,
                          .join, .deliver 0, .complete 0 50 .nil, .complete 1 70 .nil, .deliver 1, .deliver 0, .close]
    (reached cfg evs).closed = true ∧ (reached cfg evs).dropClosed = false ∧
    (reached cfg evs).received.map (·.input) = [6, 7, 5] ∧ (reached cfg evs).forked = [5, 6, 7] := by
  decide

/-- a joined state with work outstanding (hypotheses of `join_then_reading_receives_everything_once`, `no_deadlock`). -/
example :
    let cfg : Cfg := ⟨2, 1, false, false, fun _ => false⟩
    let evs : List Ev := [.fork 5 true, .take 0, .fork 6 true, .join]
    (reached cfg evs).joined = true ∧ (reached cfg evs).closed = false ∧ (reached cfg evs).dropClosed = false ∧
    measure (reached cfg evs) = 6 := by
  decide

/-- the consumer has stopped: only blocked senders are left (hypotheses of `stuck_only_if_consumer_stopped`). -/
example :
    let cfg : Cfg := ⟨1, 1, false, false, fun _ => false⟩
    let evs : List Ev := [.fork 5 true, .take 0, .complete 0 50 .nil, .join]
    (reached cfg evs).joined = true ∧ (reached cfg evs).closed = false ∧ (reached cfg evs).senders.length = 1 ∧
    (step cfg (reached cfg evs) .close).2 = .notEnabled ∧ (step cfg (reached cfg evs) (.take 0)).2 = .notEnabled := by
  decide

/-- fail-fast: the error of input 1 cancels; input 2 (queued) is skipped, input 3 (forked later) too; all three
get a result; Flatten returns the trigger here. -/
example :
    let cfg : Cfg := ⟨1, 5, true, false, fun _ => false⟩
    let evs : List Ev := [.fork 1 true, .fork 2 true, .take 0, .complete 0 10 .fail, .take 0, .fork 3 true, .take 0,
                          .join, .deliver 0, .deliver 0, .deliver 0, .close]
    (reached cfg evs).closed = true ∧ (reached cfg evs).dropClosed = false ∧
    (reached cfg evs).received.map (fun r => (r.input, r.out, r.err, r.src)) =
      [(1, 10, .fail, .work), (2, 0, .canc, .skip), (3, 0, .canc, .skip)] ∧
    flatten (reached cfg evs).received = ([10, 0, 0], .fail) := by
  decide

/-- cancel with wait-on-cancel: the honouring work aborts, results are dropped, the channel closes, cancel returns. -/
example :
    let cfg : Cfg := ⟨2, 5, false, true, fun i => i % 2 == 1⟩
    let evs : List Ev := [.fork 1 true, .fork 3 true, .take 0, .take 1, .join, .cancel]
    (reached cfg evs).joined = true ∧ (reached cfg evs).dropClosed = true ∧ (reached cfg evs).cancelWaiting = true ∧
    (∀ i ∈ runningOf (reached cfg evs).ws, cfg.hon i = true) ∧
    (reached cfg (evs ++ [.abort 0, .abort 1, .drop 0, .drop 0, .close])).closed = true ∧
    (reached cfg (evs ++ [.abort 0, .abort 1, .drop 0, .drop 0, .close])).cancelWaiting = false := by
  decide

/-- cancel before Join with wait-on-cancel: waiting (hypotheses of `wait_on_cancel_needs_join`). -/
example :
    let cfg : Cfg := ⟨2, 5, false, true, fun _ => true⟩
    (reached cfg [.fork 1 true, .cancel]).cancelWaiting = true ∧ (reached cfg [.fork 1 true, .cancel]).joined = false := by
  decide

/-- provide: three clients, three workers; FIFO schedule; the loop receives in completion order 2, 0, 1. -/
example :
    let evs : List Ev := [.fork 0 true, .fork 1 true, .fork 2 true, .take 0, .take 1, .take 2, .join,
                          .complete 2 1 .fail, .deliver 0, .complete 0 1 .fail, .complete 1 1 .nil, .deliver 0, .deliver 0, .close]
    forkCount evs ≤ 3 ∧ evs.all isFifoEv = true ∧
    (reached (provideCfg 3 100 (fun _ => true)) evs).closed = true ∧
    (reached (provideCfg 3 100 (fun _ => true)) evs).dropClosed = false ∧
    (reached (provideCfg 3 100 (fun _ => true)) evs).rootErr = .nil ∧
    (reached (provideCfg 3 100 (fun _ => true)) evs).received.map (·.input) = [2, 0, 1] := by
  decide

/-- provide: a queued client with a free worker (hypotheses of `provide_every_client_has_a_worker`). -/
example :
    let evs : List Ev := [.fork 0 true, .take 0, .fork 1 true]
    forkCount evs ≤ 2 ∧ (reached (provideCfg 2 100 (fun _ => true)) evs).queue ≠ [] := by
  decide

/-- a `NewWithInputs` run with an unbuffered input channel: the second `Fork` blocks until the worker is free. -/
example :
    let cfg : Cfg := ⟨1, 0, true, false, fun _ => false⟩
    ∃ st', NwiRun cfg (init cfg) [1, 2] st' ∧ st'.forked = [1, 2] ∧ runningOf st'.ws = [2] := by
  refine ⟨_, .fork rfl (.env (.take 0) rfl (.fork rfl (.env (.complete 0 5 .nil) rfl (.env (.take 0) rfl (.join rfl))))), ?_, ?_⟩ <;> decide

end CharonV.ForkJoin
