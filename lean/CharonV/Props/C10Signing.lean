/-
C10 / C09 — the signing input (domain, fork version, signing root) made concrete.

`CharonV.Model.Admit` and `CharonV.Model.SigAgg` treat "verifies for the object's own domain, epoch
and signing root" symbolically: `verify key domain epoch root sig`. This file models what those
three stand for in the code — `eth2util/signing.GetDomain` / `GetDataRoot`, the exit rule of
`eth2wrap`'s http adapter and go-eth2-client's `Domain` / `GenesisDomain` — and proves, for every
2-to-1 compression function `h` on 32-byte chunks (SHA-256 of the concatenation in the real hasher;
collision resistance is a hypothesis / conclusion exactly as in C12, never an axiom), that the
signing input separates domain types unconditionally and binds fork version, genesis validators
root and object root up to explicit (truncated) SHA-256 collisions. These are the facts behind the
premise "wrong domain or fork ⇒ the signature does not verify" that `tamper_not_valid` (C10) and
`publish_content` (C09) take as hypotheses on `verify`.

Property theorems only (helper lemmas: `CharonV.Proofs.Signing`).
-/
import CharonV.Proofs.Signing

namespace CharonV.Signing

open CharonV.Ssz (Bytes Chunk mkChunk Collision mkChunk_inj Chunk.ext')

variable (h : Chunk → Chunk → Chunk)

/-- **The first four bytes of a domain are its domain type** — for every compression function, every
fork version and genesis root. -/
theorem compute_domain_type_prefix (ty v g : Bytes) (hty : ty.length = 4) :
    (computeDomain h ty v g).bytes.take 4 = ty := by
  rw [computeDomain_bytes h ty v g hty, List.take_append_of_le_length (by omega), ← hty, List.take_length]

/-- **Domain separation.** (1) Different domain types give different domains, whatever the fork
versions and genesis roots — no hash assumption. (2) Hence a signature's signing input for one
domain type is the hash of a different 64-byte input than for any other; equal signing roots for
different (object root, domain) pairs ARE an explicit collision of the compression function. -/
theorem domain_separation :
    (∀ ty ty' v v' g g' : Bytes, ty.length = 4 → ty'.length = 4 → ty ≠ ty' →
      computeDomain h ty v g ≠ computeDomain h ty' v' g') ∧
    (∀ o o' d d' : Chunk, (o, d) ≠ (o', d') → signingRoot h o d = signingRoot h o' d' → Collision h) := by
  constructor
  · intro ty ty' v v' g g' hty hty' hne heq
    apply hne
    rw [← compute_domain_type_prefix h ty v g hty, ← compute_domain_type_prefix h ty' v' g' hty', heq]
  · intro o o' d d' hne heq
    exact ⟨o, d, o', d', hne, heq⟩

/-- **Which fork `forkAtEpoch` picks.** Either the schedule starts after `e` and the first entry is
taken (its PREVIOUS version is then the one in force), or the entry taken is preceded only by
entries that start at or before `e`, starts at or before `e` itself, and the next entry (if any)
starts after `e` (its CURRENT version is in force). If the schedule is sorted by epoch, every later
entry starts after `e`: the fork chosen is the LAST one with `epoch ≤ e`. -/
theorem fork_version_monotone_choice (schedule : List Fork) (e : Nat) (f : Fork)
    (hf : forkAtEpoch schedule e = some f) :
    ((∃ rest, schedule = f :: rest ∧ e < f.epoch ∧ f.versionAt e = f.prev) ∨
     (∃ pre post, schedule = pre ++ f :: post ∧ (∀ g ∈ pre, g.epoch ≤ e) ∧ f.epoch ≤ e ∧
        f.versionAt e = f.cur ∧ (∀ g, post.head? = some g → e < g.epoch) ∧
        (schedule.Pairwise (fun a b => a.epoch ≤ b.epoch) → ∀ g ∈ post, e < g.epoch))) := by
  cases schedule with
  | nil => simp [forkAtEpoch] at hf
  | cons f0 rest =>
    simp only [forkAtEpoch, Option.some.injEq] at hf
    rcases scanForks_spec e (f0 :: rest) f0 with ⟨heq, hcase⟩ | ⟨pre, post, hl, hpre, hlast, hpost⟩
    · rcases hcase with hnil | ⟨g, rest', hl, hg⟩
      · cases hnil
      · simp only [List.cons.injEq] at hl
        obtain ⟨rfl, rfl⟩ := hl
        rw [heq] at hf; subst hf
        exact Or.inl ⟨rest, rfl, hg, by simp [Fork.versionAt, hg]⟩
    · rw [hf] at hl hlast
      refine Or.inr ⟨pre, post, hl, hpre, hlast, by simp [Fork.versionAt]; omega, hpost, ?_⟩
      intro hsorted g hg
      rw [hl] at hsorted
      have hs2 := (List.pairwise_append.mp hsorted).2.1
      cases post with
      | nil => cases hg
      | cons p ps =>
        have hp : e < p.epoch := hpost p rfl
        rcases List.mem_cons.mp hg with rfl | hg'
        · exact hp
        · have hpg : p.epoch ≤ g.epoch := by
            have h3 := (List.pairwise_cons.mp hs2).2
            exact (List.pairwise_cons.mp h3).1 g hg'
          omega

/-- **The domain binds fork version and genesis validators root** up to a truncated collision:
equal domains (same type) for different (fork version, genesis root) are an explicit collision of
the compression function on the 28 bytes of the fork data root that `compute_domain` keeps; and
equal fork data roots are a full collision. -/
theorem signing_root_binds_fork (ty v v' g g' : Bytes) (hty : ty.length = 4)
    (hv : v.length = 4) (hv' : v'.length = 4) (hg : g.length = 32) (hg' : g'.length = 32)
    (hne : (v, g) ≠ (v', g')) :
    (computeDomain h ty v g = computeDomain h ty v' g' → TruncCollision h) ∧
    (forkDataRoot h v g = forkDataRoot h v' g' → Collision h) := by
  have hin : (mkChunk v, mkChunk g) ≠ (mkChunk v', mkChunk g') := by
    intro heq
    simp only [Prod.mk.injEq] at heq
    apply hne
    rw [mkChunk_inj (by omega) (by omega) heq.1, mkChunk_inj (by omega) (by omega) heq.2]
  constructor
  · intro heq
    have hb := congrArg Chunk.bytes heq
    rw [computeDomain_bytes h ty v g hty, computeDomain_bytes h ty v' g' hty] at hb
    exact ⟨mkChunk v, mkChunk g, mkChunk v', mkChunk g', hin, List.append_cancel_left hb⟩
  · intro heq
    exact ⟨mkChunk v, mkChunk g, mkChunk v', mkChunk g', hin, heq⟩

/-- **The signing root binds everything that goes into it**: two signing inputs that differ in the
object root, the domain type, the fork version or the genesis validators root have different
signing roots unless SHA-256 collides (fully, or on the 28 bytes kept of the fork data root). This
discharges, up to collisions, the premise "another domain, fork or content ⇒ the signature was not
made over it" that C10's `tamper_not_valid` and C09's `publish_content` assume of `verify`. -/
theorem data_root_binds (o o' ty ty' v v' g g' : Bytes) (ho : o.length = 32) (ho' : o'.length = 32)
    (hty : ty.length = 4) (hty' : ty'.length = 4) (hv : v.length = 4) (hv' : v'.length = 4)
    (hg : g.length = 32) (hg' : g'.length = 32) (hne : (o, ty, v, g) ≠ (o', ty', v', g'))
    (heq : signingRoot h (mkChunk o) (computeDomain h ty v g) =
           signingRoot h (mkChunk o') (computeDomain h ty' v' g')) :
    Collision h ∨ TruncCollision h := by
  by_cases hd : (mkChunk o, computeDomain h ty v g) = (mkChunk o', computeDomain h ty' v' g')
  · simp only [Prod.mk.injEq] at hd
    obtain ⟨hoo, hdd⟩ := hd
    have hoeq : o = o' := mkChunk_inj (by omega) (by omega) hoo
    by_cases htt : ty = ty'
    · subst htt
      subst hoeq
      have hvg : (v, g) ≠ (v', g') := by
        intro hx
        simp only [Prod.mk.injEq] at hx
        apply hne; rw [hx.1, hx.2]
      exact Or.inr ((signing_root_binds_fork h ty v v' g g' hty hv hv' hg hg' hvg).1 hdd)
    · exact absurd hdd ((domain_separation h).1 ty ty' v v' g g' hty hty' htt)
  · exact Or.inl ((domain_separation h).2 _ _ _ _ hd heq)

/-- **What `GetDataRoot` hashes.** A data root returned by `signing.GetDataRoot` is the signing root
of the object root and `compute_domain(type, version, genesis root)` where the type is the spec's
value for the domain name and (version, genesis root) are: for `DomainApplicationBuilder` the
genesis entry of the schedule at epoch 0 — whatever epoch was asked for; through the production
adapter, for domain type `0x04000000` (voluntary exit, EIP-7044) the network's Capella version with
the spec's exit type — whatever epoch was asked for; otherwise the fork version in force at the
epoch (`forkVersionAt`). The genesis validators root is zero exactly for domain type `0x00000001`.
So the epoch enters the signing input only through the fork version. -/
theorem getDataRoot_factor (c : Chain) (name : DomainName) (e : Nat) (o : Bytes) (r : Chunk)
    (hr : getDataRoot h c name e o = some r) :
    ∃ ty ty' v g, c.spec name = some ty ∧
      r = signingRoot h (mkChunk o) (computeDomain h ty' v g) ∧
      ((name = .applicationBuilder ∧ ty' = ty ∧ g = gvrFor ty c.gvr ∧
          ∃ f, c.schedule.head? = some f ∧ v = f.versionAt 0) ∨
       (name ≠ .applicationBuilder ∧ ty = [4, 0, 0, 0] ∧ c.capella = some (some v) ∧
          c.spec .exit = some ty' ∧ g = c.gvr) ∨
       (name ≠ .applicationBuilder ∧ ty' = ty ∧ g = gvrFor ty c.gvr ∧
          forkVersionAt c.schedule e = some v)) := by
  unfold getDataRoot at hr
  cases hd : getDomain h c name e with
  | none => simp [hd] at hr
  | some d =>
    simp only [hd, Option.map_some, Option.some.injEq] at hr
    subst hr
    unfold getDomain at hd
    cases hs : c.spec name with
    | none => simp [hs] at hd
    | some ty =>
      simp only [hs] at hd
      by_cases hb : name = .applicationBuilder
      · simp only [hb, if_true] at hd
        unfold genesisDomain at hd
        cases hh : c.schedule.head? with
        | none => simp [hh] at hd
        | some f =>
          simp only [hh, Option.map_some, Option.some.injEq] at hd
          exact ⟨ty, ty, f.versionAt 0, gvrFor ty c.gvr, rfl, by rw [← hd], Or.inl ⟨hb, rfl, rfl, f, rfl, rfl⟩⟩
      · simp only [hb, if_false] at hd
        have normal : serviceDomain h c ty e = some d →
            ∃ v, forkVersionAt c.schedule e = some v ∧ d = computeDomain h ty v (gvrFor ty c.gvr) := by
          intro hsd
          rw [serviceDomain_eq] at hsd
          cases hv : forkVersionAt c.schedule e with
          | none => simp [hv] at hsd
          | some v => simp only [hv, Option.map_some, Option.some.injEq] at hsd; exact ⟨v, rfl, hsd.symm⟩
        unfold clientDomain at hd
        cases hc : c.capella with
        | none =>
          simp only [hc] at hd
          obtain ⟨v, hv, hdv⟩ := normal hd
          exact ⟨ty, ty, v, gvrFor ty c.gvr, rfl, by rw [hdv], Or.inr (Or.inr ⟨hb, rfl, rfl, hv⟩)⟩
        | some cap =>
          simp only [hc] at hd
          by_cases hx : ty = [4, 0, 0, 0]
          · simp only [hx, if_true] at hd
            cases cap with
            | none => simp at hd
            | some v =>
              cases he : c.spec .exit with
              | none => simp [he] at hd
              | some ty' =>
                simp only [he, Option.some.injEq] at hd
                exact ⟨ty, ty', v, c.gvr, rfl, by rw [← hd], Or.inr (Or.inl ⟨hb, hx, rfl, rfl, rfl⟩)⟩
          · simp only [hx, if_false] at hd
            obtain ⟨v, hv, hdv⟩ := normal hd
            exact ⟨ty, ty, v, gvrFor ty c.gvr, rfl, by rw [hdv], Or.inr (Or.inr ⟨hb, rfl, rfl, hv⟩)⟩

/-! ### The link to the symbolic triple of `CharonV.Model.Admit` / `SigAgg` -/

/-- the `signing.DomainName` behind each symbolic domain of the admission / aggregation models. -/
def ofAdmit : CharonV.Admit.Domain → DomainName
  | .beaconProposer => .beaconProposer | .beaconAttester => .beaconAttester
  | .voluntaryExit => .exit | .applicationBuilder => .applicationBuilder | .randao => .randao
  | .selectionProof => .selectionProof | .aggregateAndProof => .aggregateAndProof
  | .syncCommittee => .syncCommittee | .contributionAndProof => .contributionAndProof
  | .syncCommitteeSelectionProof => .syncCommitteeSelectionProof

/-- **The symbolic triple (domain, epoch, root) of C10 / C09 determines the signing input through
`getDataRoot`, and only through (domain type, fork version in force, genesis root, object root).**
(1) The ten symbolic domains are distinct domain names. (2) For every domain but the builder one
(and, through the adapter, the exit one, whose input does not depend on the epoch at all), two
epochs with the same fork version in force give the SAME signing input: the symbolic `epoch`
argument of `verify` is finer than what is actually signed — a signature verifies for every epoch
of the fork it was made for, which is why the models never assume a signature is rejected for
another epoch of the same fork (the correspondence harness feeds `verify` facts with the object's
own epoch). (3) Any other difference is bound by `data_root_binds`. -/
theorem admit_triple_determines_signing_input :
    (∀ d d' : CharonV.Admit.Domain, ofAdmit d = ofAdmit d' → d = d') ∧
    (∀ (c : Chain) (d : CharonV.Admit.Domain) (e e' : Nat) (o : Bytes),
      d ≠ .applicationBuilder → forkVersionAt c.schedule e = forkVersionAt c.schedule e' →
      getDataRoot h c (ofAdmit d) e o = getDataRoot h c (ofAdmit d) e' o) ∧
    (∀ (c : Chain) (e e' : Nat) (o : Bytes),
      getDataRoot h c .applicationBuilder e o = getDataRoot h c .applicationBuilder e' o) := by
  refine ⟨?_, ?_, ?_⟩
  · intro d d' hdd
    cases d <;> cases d' <;> simp [ofAdmit] at hdd <;> rfl
  · intro c d e e' o hd hv
    have hne : ofAdmit d ≠ .applicationBuilder := by
      cases d <;> simp [ofAdmit] at hd ⊢
    unfold getDataRoot getDomain
    cases hs : c.spec (ofAdmit d) with
    | none => rfl
    | some ty =>
      simp only [hne, if_false]
      have hsd : serviceDomain h c ty e = serviceDomain h c ty e' := by
        rw [serviceDomain_eq, serviceDomain_eq, hv]
      unfold clientDomain
      cases c.capella with
      | none => simp only [hsd]
      | some cap =>
        simp only
        split
        · rfl
        · rw [hsd]
  · intro c e e' o
    unfold getDataRoot getDomain
    cases c.spec .applicationBuilder <;> simp

/-! ### Non-vacuity: the real SHA-256 instance on concrete inputs -/

/-- a three-fork schedule; the mock's spec types. -/
def exChain : Chain :=
  { schedule := [⟨[0x10,0,9,0x10], [0x10,0,9,0x10], 0⟩, ⟨[0x10,0,9,0x10], [0x20,0,9,0x10], 4⟩,
                 ⟨[0x20,0,9,0x10], [0x30,0,9,0x10], 8⟩],
    gvr := List.replicate 32 7,
    spec := fun n => match n with
      | .beaconAttester => some [1,0,0,0] | .exit => some [4,0,0,0]
      | .applicationBuilder => some [0,0,0,1] | _ => none,
    capella := some (some [0x40,0,9,0x10]) }

example : forkVersionAt exChain.schedule 3 = some [0x10,0,9,0x10] ∧
    forkVersionAt exChain.schedule 4 = some [0x20,0,9,0x10] ∧
    forkVersionAt exChain.schedule 7 = some [0x20,0,9,0x10] ∧
    forkVersionAt exChain.schedule 8 = some [0x30,0,9,0x10] ∧
    forkVersionAt exChain.schedule 100000 = some [0x30,0,9,0x10] ∧
    forkVersionAt [] 5 = none ∧
    forkVersionAt [⟨[1,1,1,1], [2,2,2,2], 10⟩] 9 = some [1,1,1,1] := by decide

end CharonV.Signing
