/-
C05 (extension) — the per-instance consensus transport: what a node broadcasts, caches, delivers to
itself and hands to the decide subscribers.

Property theorems only (model: `CharonV.Model.Transport`, a mirror of `transport.go` newTransport /
setValues / getValue / Broadcast / createMsg / ProcessReceives, `msg.go` newMsg / ToConsensusMsg and
the `Decide` callback of `newDefinition`; helper lemmas: `CharonV.Proofs.Transport`). It composes with
`CharonV.Model.QbftWire` (same `Crypto`, `Core`, `VMap`, `newMsg`, `valuesByHash`, `verifyMsg`).

All theorems hold for every symbolic crypto `C`, every signing function, every sequence of events
(proposals, Broadcast calls with arbitrary arguments and justifications, self-deliveries in any
order, received messages) and every size. `Reach` = reached from a fresh transport by events as the
surrounding code produces them (`propose` pairs a value with its own hash; `handle` only enqueues
messages built by `valuesByHash` + `newMsg`). Collision freedom of the value hash (`HashInj`) and
correctness of the own signature are hypotheses where needed, never axioms.
-/
import CharonV.Proofs.Transport

namespace CharonV.Transport

open CharonV.QbftWire

/-- **broadcast_carries_exactly_the_referenced_values.** Whatever the arguments and the state: the
message a successful `Broadcast` hands to the broadcaster is signed over exactly the arguments, carries
the protos of the given justifications, and its values map has a value for a hash iff that hash is a
non-zero value / prepared-value hash of the message or of one of its justifications — nothing
missing, nothing extra (the zero hash needs and gets no value). -/
theorem broadcast_carries_exactly_the_referenced_values (C : Crypto) (sign : C.Digest → SigB)
    (s s' : State) (a : BArgs) (m : TMsg) (h : broadcast C sign s a = (s', .ok m)) :
    m.pb.fields = fieldsOf a ∧ m.pb.sig = some (sign (C.digest (fieldsOf a))) ∧
      m.just = a.just.map (·.pb) ∧
      (∀ hh, Refs m hh ↔ (m.values.get hh).isSome) ∧
      (∀ x ∈ m.pb :: m.just, RefsOk m.values x) := by
  rcases broadcast_cases C sign s a with ⟨s1, _, hb⟩ | ⟨s1, vals, hc, hb⟩
  · rw [hb] at h; cases h
  · simp only at hb
    rw [hb] at h
    injection h with _ h2
    injection h2 with h2
    subst h2
    obtain ⟨_, _, _, _, c4, c5⟩ := collect_ok (C := C) _ _ _ _ _ hc
    refine ⟨rfl, rfl, rfl, ?_, refsOk_of_collected C sign a vals c4⟩
    intro hh
    unfold Refs
    rw [refs_iff_hashesOf C sign a hh]
    constructor
    · exact c4 hh
    · intro hv
      rcases c5 hh hv with h1 | ⟨h1, _⟩
      · simp [VMap.get] at h1
      · exact h1

/-- **broadcast_never_fails_building_the_message.** The only way `Broadcast` fails before reaching
the broadcaster is `getValue`'s "unknown value": `createMsg` / `newMsg` never reject the map the
look-up loop built. -/
theorem broadcast_never_fails_building_the_message (C : Crypto) (sign : C.Digest → SigB)
    (s : State) (a : BArgs) (r : Reason) : (broadcast C sign s a).2 ≠ .error (.create r) := by
  rcases broadcast_cases C sign s a with ⟨s1, _, hb⟩ | ⟨s1, vals, _, hb⟩
  · rw [hb]; intro h; cases h
  · simp only at hb; rw [hb]; intro h; cases h

/-- **broadcast_fails_iff_a_referenced_value_is_unknown.** With no unread proposal on the value
channel, `Broadcast` fails iff some non-zero hash among value, prepared value and the justifications'
values / prepared values has no cache entry. -/
theorem broadcast_fails_iff_a_referenced_value_is_unknown (C : Crypto) (sign : C.Digest → SigB)
    (s : State) (a : BArgs) (hch : s.valueCh = []) :
    (broadcast C sign s a).2 = .error .unknownValue ↔
      ∃ h, some h ∈ hashesOf a ∧ s.cache.get h = none := by
  have key := collect_nil_iff (hashesOf a) s [] hch
  rcases broadcast_cases C sign s a with ⟨s1, hc, hb⟩ | ⟨s1, vals, hc, hb⟩
  · rw [hb]
    rw [hc] at key
    constructor
    · intro _
      obtain ⟨x, hx, _, h2⟩ := key.mp rfl
      exact ⟨x, hx, h2⟩
    · intro _; rfl
  · simp only at hb
    rw [hb]
    rw [hc] at key
    constructor
    · intro h; cases h
    · rintro ⟨x, hx, h2⟩
      have := key.mpr ⟨x, hx, by simp [VMap.get], h2⟩
      cases this

/-- **broadcast_fails_only_on_an_uncached_hash.** In every state (unread proposals included): a failing
`Broadcast` referred to a non-zero hash that had no cache entry when it was called. -/
theorem broadcast_fails_only_on_an_uncached_hash (C : Crypto) (sign : C.Digest → SigB)
    (s : State) (a : BArgs) (e : BErr) (h : (broadcast C sign s a).2 = .error e) :
    e = .unknownValue ∧ ∃ hh, some hh ∈ hashesOf a ∧ s.cache.get hh = none := by
  rcases broadcast_cases C sign s a with ⟨s1, hc, hb⟩ | ⟨s1, vals, _, hb⟩
  · rw [hb] at h
    injection h with h
    exact ⟨h.symm, collect_none _ _ _ _ hc⟩
  · simp only at hb; rw [hb] at h; cases h

/-- **broadcast_succeeds_on_seen_justifications.** In every reachable state: if the value and prepared
value are zero or cached and every justification is a message the reader took from the inner buffer
(received from a peer or self-delivered) or an own earlier broadcast, `Broadcast` succeeds — values
that are only present in earlier messages are found in the cache. -/
theorem broadcast_succeeds_on_seen_justifications (C : Crypto) (sign : C.Digest → SigB)
    (s : State) (a : BArgs) (hr : Reach C sign s)
    (hv : ∀ h, a.value = some h → (s.cache.get h).isSome)
    (hp : ∀ h, a.pvalue = some h → (s.cache.get h).isSome)
    (hj : ∀ j ∈ a.just, j ∈ s.delivered ∨ j ∈ s.sent) :
    ∃ m, (broadcast C sign s a).2 = .ok m := by
  obtain ⟨_, hsent, _, hdel⟩ := reach_inv hr
  cases hb : (broadcast C sign s a).2 with
  | ok m => exact ⟨m, rfl⟩
  | error e =>
    exfalso
    obtain ⟨_, x, hx, hnone⟩ := broadcast_fails_only_on_an_uncached_hash C sign s a e hb
    have hsome : (s.cache.get x).isSome := by
      rcases mem_hashesOf.mp hx with h1 | h1 | ⟨j, hjm, h1⟩
      · exact hv x h1
      · exact hp x h1
      · have hg : Good C s j := by
          rcases hj j hjm with h2 | h2
          · exact hdel j h2
          · exact hsent j h2
        have hr := hg.2 j.pb (List.mem_cons_self ..)
        rcases h1 with h1 | h1
        · exact hr.1 x h1
        · exact hr.2 x h1
    rw [hnone] at hsome
    cases hsome

/-- **broadcast_accepted_by_every_receiver.** In every reachable state a successfully broadcast
message passes the receiver's `valuesByHash` + `newMsg` (the tail of `handle`): the wire values
re-hash to their keys, every referenced hash finds its value, and the receiver's message shows the
same protos and the same hash ↦ value bindings as the sender's. -/
theorem broadcast_accepted_by_every_receiver (C : Crypto) (sign : C.Digest → SigB)
    (s s' : State) (a : BArgs) (m : TMsg) (hr : Reach C sign s)
    (h : broadcast C sign s a = (s', .ok m)) :
    ∃ m', admitMsg C m.pb m.just m.wire.values = .ok m' ∧ m'.pb = m.pb ∧ m'.just = m.just ∧
      (∀ hh, m'.values.get hh = m.values.get hh) ∧
      QbftWire.newMsg m.pb m.just m'.values = .ok m'.view := by
  obtain ⟨hcache, _, _, _⟩ := reach_inv hr
  have hok : MsgOk C m := by
    rcases broadcast_cases C sign s a with ⟨s1, _, hb⟩ | ⟨s1, vals, hc, hb⟩
    · rw [hb] at h; cases h
    · simp only at hb
      rw [hb] at h
      injection h with _ h2
      injection h2 with h2
      subst h2
      exact (broadcast_good sign hcache hc s1 rfl).1
  have hE : ∀ p ∈ entries m.values [], valHash C p.2 = some p.1 := by
    intro p hp
    exact hok.1 p.1 p.2 (mem_entries m.values [] p hp).2
  have hvb := valuesByHash_rebuild C (entries m.values []) [] hE
  have hrefs : ∀ x ∈ m.pb :: m.just, RefsOk (entries m.values [] ++ []) x := by
    intro x hx
    have := hok.2 x hx
    simp only [List.append_nil]
    exact ⟨fun hh h1 => by rw [get_entries_nil]; exact this.1 hh h1,
           fun hh h1 => by rw [get_entries_nil]; exact this.2 hh h1⟩
  have hnew := newTMsg_of_refs hrefs
  refine ⟨{ pb := m.pb, just := m.just, values := entries m.values [] ++ [] }, ?_, rfl, rfl, ?_, ?_⟩
  · unfold admitMsg TMsg.wire
    simp only
    rw [hvb]
    exact hnew
  · intro hh; simp only [List.append_nil]; exact get_entries_nil m.values hh
  · exact (newTMsg_ok hnew).2.2

/-- **broadcast_accepted_in_any_value_order.** `ToConsensusMsg` ranges over a Go map: whatever order
the values are put on the wire in (`ws` any permutation), the receiver's `valuesByHash` + `newMsg`
accept the message and rebuild exactly the sender's hash ↦ value bindings. -/
theorem broadcast_accepted_in_any_value_order (C : Crypto) (sign : C.Digest → SigB)
    (s s' : State) (a : BArgs) (m : TMsg) (hr : Reach C sign s)
    (h : broadcast C sign s a = (s', .ok m)) (ws : List Val) (hp : List.Perm ws m.wire.values) :
    ∃ m', admitMsg C m.pb m.just ws = .ok m' ∧ m'.pb = m.pb ∧ m'.just = m.just ∧
      (∀ hh, m'.values.get hh = m.values.get hh) := by
  have hok : MsgOk C m := broadcast_msgOk (reach_inv hr).1 h
  -- the wire values are the values of the first bindings
  have hmem : ∀ v, v ∈ ws ↔ ∃ p ∈ entries m.values [], p.2 = v := by
    intro v
    rw [hp.mem_iff]
    simp only [TMsg.wire, List.mem_reverse, List.mem_map]
  have hE : ∀ p ∈ entries m.values [], valHash C p.2 = some p.1 ∧ m.values.get p.1 = some p.2 := by
    intro p hpE
    have := (mem_entries m.values [] p hpE).2
    exact ⟨hok.1 p.1 p.2 this, this⟩
  have hall : ∀ v ∈ ws, (valHash C v).isSome := by
    intro v hv
    obtain ⟨p, hpE, hpv⟩ := (hmem v).mp hv
    rw [← hpv, (hE p hpE).1]; rfl
  obtain ⟨M, hM⟩ := valuesByHash_some_of_all (C := C) (acc := []) hall
  have hMok : ValuesOk C M := valuesByHash_ok hM (valuesOk_nil C)
  -- a binding of the rebuilt map is a binding of the sender's map
  have hback : ∀ hh v', M.get hh = some v' → m.values.get hh = some v' := by
    intro hh v' hg
    rcases valuesByHash_mem hM hh v' hg with hin | hacc
    · obtain ⟨p, hpE, hpv⟩ := (hmem v').mp hin
      obtain ⟨h1, h2⟩ := hE p hpE
      have h3 := hMok hh v' hg
      rw [hpv] at h1
      rw [h1] at h3
      cases h3
      rw [← hpv]; exact h2
    · simp [VMap.get] at hacc
  have hget : ∀ hh, M.get hh = m.values.get hh := by
    intro hh
    cases hv : m.values.get hh with
    | some v =>
      have hin : (hh, v) ∈ entries m.values [] := get_mem (by rw [get_entries_nil]; exact hv)
      have hvh := (hE (hh, v) hin).1
      have hsome := valuesByHash_complete hM hh (Or.inl ⟨v, (hmem v).mpr ⟨(hh, v), hin, rfl⟩, hvh⟩)
      obtain ⟨v', hv'⟩ := isSome_get hsome
      rw [hv']
      have := hback hh v' hv'
      rw [hv] at this
      exact this.symm
    | none =>
      cases hM' : M.get hh with
      | none => rfl
      | some v' =>
        have := hback hh v' hM'
        rw [hv] at this; cases this
  have hrefs : ∀ x ∈ m.pb :: m.just, RefsOk M x := by
    intro x hx
    have := hok.2 x hx
    exact ⟨fun hh h1 => by rw [hget]; exact this.1 hh h1, fun hh h1 => by rw [hget]; exact this.2 hh h1⟩
  refine ⟨{ pb := m.pb, just := m.just, values := M }, ?_, rfl, rfl, hget⟩
  unfold admitMsg
  rw [hM]
  exact newTMsg_of_refs hrefs

/-- **own_broadcast_passes_verifyMsg.** If the own signature verifies (recovering the own key from the
signature over the digest of the signed fields — a hypothesis about secp256k1) and the arguments are
in range, the broadcast main message passes the receivers' `verifyMsg` under the sender's index. -/
theorem own_broadcast_passes_verifyMsg (C : Crypto) (sign : C.Digest → SigB) (keys : List Key)
    (s s' : State) (a : BArgs) (m : TMsg) (pk : Key)
    (h : broadcast C sign s a = (s', .ok m))
    (hsig : C.recover (C.digest (fieldsOf a)) (sign (C.digest (fieldsOf a))) = some pk)
    (hkey : lookupKey keys a.peerIdx = some pk)
    (ht : msgTypeValid a.type = true) (hd : dutyTypeValid a.duty.type = true)
    (hround : a.round > 0) (hpr : a.pr ≥ 0) :
    verifyMsg C keys (some m.pb) = none := by
  obtain ⟨hf, hs, _⟩ := broadcast_carries_exactly_the_referenced_values C sign s s' a m h
  unfold verifyMsg
  simp only [hf, hs]
  have hr : ¬ (fieldsOf a).round ≤ 0 := by simp only [fieldsOf]; omega
  have hp : ¬ (fieldsOf a).preparedRound < 0 := by simp only [fieldsOf]; omega
  simp only [fieldsOf] at hr hp hsig ⊢
  simp [ht, hd, hr, hp, hkey, hsig]

/-- **cache_sound.** In every reachable state the value cache maps a hash only to a value whose
recomputed hash is that hash. -/
theorem cache_sound (C : Crypto) (sign : C.Digest → SigB) (s : State) (hr : Reach C sign s) :
    ∀ h v, s.cache.get h = some v → valHash C v = some h :=
  (reach_inv hr).1.1

/-- **cache_entry_never_replaced_by_another_value.** From every reachable state, over every further
event sequence: a hash that has a cache entry keeps one, the entry still hashes to the key, and — the
value hash being collision free — it wraps the same inner message as before (the `Any` wrapper itself
may be replaced by another wrapper of the same message). -/
theorem cache_entry_never_replaced_by_another_value (C : Crypto) (sign : C.Digest → SigB)
    (s : State) (evs : List Ev) (hinj : HashInj C) (hr : Reach C sign s) (he : ∀ e ∈ evs, EvOk C e)
    (h : Hash) (v : Val) (hv : s.cache.get h = some v) :
    ∃ v', (run C sign s evs).cache.get h = some v' ∧ valHash C v' = some h ∧
      C.unmarshalAny v' = C.unmarshalAny v := by
  have hi := reach_inv hr
  have hi' := inv_run (sign := sign) evs hi he
  obtain ⟨v', hv'⟩ := isSome_get (run_cache_mono C sign evs s h (by rw [hv]; rfl))
  have h1 := hi.1.1 h v hv
  have h2 := hi'.1.1 h v' hv'
  obtain ⟨x, hx, hxh⟩ := valHash_some h1
  obtain ⟨x', hx', hxh'⟩ := valHash_some h2
  refine ⟨v', hv', h2, ?_⟩
  rw [hx, hx', hinj x' x h hxh' hxh]

/-- **self_delivery_exactly_once.** After every event sequence (any arguments, any delivery order):
the messages handed to the broadcaster are, as a multiset, exactly the own messages the reader took
from the inner buffer plus those still parked for it — each broadcast is self-delivered at most once,
none is lost, nothing else is self-delivered, and the self-delivered message is the very message the
peers got. Once nothing is parked, the self-delivered messages are a permutation of the broadcasts. -/
theorem self_delivery_exactly_once (C : Crypto) (sign : C.Digest → SigB) (evs : List Ev) :
    let s := run C sign {} evs
    List.Perm s.sent (s.selfDelivered ++ s.pending) ∧
      (s.pending = [] → List.Perm s.sent s.selfDelivered) ∧
      (∀ m, m ∈ s.selfDelivered → m ∈ s.sent) ∧
      (∀ m, s.selfDelivered.count m + s.pending.count m = s.sent.count m) := by
  intro s
  have hp : List.Perm s.sent (s.selfDelivered ++ s.pending) := selfInv_run C sign evs selfInv_init
  refine ⟨hp, ?_, ?_, ?_⟩
  · intro hn; rw [hn, List.append_nil] at hp; exact hp
  · intro m hm
    exact hp.mem_iff.mpr (List.mem_append_left _ hm)
  · intro m
    rw [hp.count_eq m, List.count_append]

/-- **newMsg_fails_iff_a_referenced_value_is_missing.** `newMsg` rejects a message iff some non-zero
(32-byte, not all-zero) value hash or prepared-value hash of the message or of one of its
justifications has no entry in the values map; nil / short / zero hashes need no value. -/
theorem newMsg_fails_iff_a_referenced_value_is_missing (c : Core) (just : List Core) (vals : VMap) :
    (∃ r, newTMsg c just vals = .error r) ↔
      ∃ x ∈ c :: just, ∃ h, (toHash32 x.fields.valueHash = some h ∨
        toHash32 x.fields.preparedValueHash = some h) ∧ vals.get h = none := by
  constructor
  · rintro ⟨r, hr⟩
    have hn := newTMsg_error hr
    apply Classical.byContradiction
    intro hno
    apply hn
    intro x hx
    constructor
    · intro h hh
      cases hg : vals.get h with
      | some v => rfl
      | none => exact absurd ⟨x, hx, h, Or.inl hh, hg⟩ hno
    · intro h hh
      cases hg : vals.get h with
      | some v => rfl
      | none => exact absurd ⟨x, hx, h, Or.inr hh, hg⟩ hno
  · rintro ⟨x, hx, h, hh, hg⟩
    cases hn : newTMsg c just vals with
    | error r => exact ⟨r, rfl⟩
    | ok m =>
      exfalso
      have hr := (newTMsg_ok hn).2.1 x hx
      rcases hh with hh | hh
      · have := hr.1 h hh; rw [hg] at this; cases this
      · have := hr.2 h hh; rw [hg] at this; cases this

/-- **receive_caches_every_value_and_forwards.** One round of `ProcessReceives`: every binding of the
received message's map is in the cache afterwards (so later broadcasts that justify with it find its
values), and the message itself is what the reader gets. -/
theorem receive_caches_every_value_and_forwards (s : State) (m : TMsg) :
    (∀ h v, m.values.get h = some v → (receive s m).cache.get h = some v) ∧
      (receive s m).delivered = s.delivered ++ [m] ∧
      (∀ h, m.values.get h = none → (receive s m).cache.get h = s.cache.get h) := by
  refine ⟨?_, rfl, ?_⟩
  · intro h v hv
    simp only [receive, setValues]
    rw [get_append, hv]
  · intro h hv
    simp only [receive, setValues]
    rw [get_append, hv]

/-- **decided_value_is_the_cached_value_of_the_decided_hash.** In every reachable state, for every
message `m` the reader took from the inner buffer (a commit of the decided quorum) and its non-zero
value hash `h`: the `Decide` callback hands the subscribers an inner message `x` with hash `h`; the
cache holds a value for `h` that wraps the same `x`; and — the value hash being collision free — `x`
is the proposed data whose hash was agreed (any message with hash `h`). -/
theorem decided_value_is_the_cached_value_of_the_decided_hash (C : Crypto) (sign : C.Digest → SigB)
    (s : State) (hinj : HashInj C) (hr : Reach C sign s) (m : TMsg) (hm : m ∈ s.delivered)
    (h : Hash) (hv : m.value = some h) :
    ∃ x v', decideOut C m (some h) = some x ∧ C.hashInner x = some h ∧
      s.cache.get h = some v' ∧ C.unmarshalAny v' = some x ∧
      (∀ x0, C.hashInner x0 = some h → x0 = x) := by
  obtain ⟨hc, _, _, hdel⟩ := reach_inv hr
  obtain ⟨hok, hcached⟩ := hdel m hm
  obtain ⟨v, hgv⟩ := isSome_get ((hok.2 m.pb (List.mem_cons_self ..)).1 h hv)
  obtain ⟨v', hgv'⟩ := isSome_get ((hcached m.pb (List.mem_cons_self ..)).1 h hv)
  obtain ⟨x, hx, hxh⟩ := valHash_some (hok.1 h v hgv)
  obtain ⟨x', hx', hxh'⟩ := valHash_some (hc.1 h v' hgv')
  refine ⟨x, v', ?_, hxh, hgv', ?_, ?_⟩
  · simp only [decideOut, decideValue, TMsg.view]
    rw [hgv]; exact hx
  · rw [hx', hinj x' x h hxh' hxh]
  · intro x0 h0; exact hinj x0 x h h0 hxh

/-- **decide_without_value_delivers_nothing.** For the zero hash, or a hash the commit's map has no
value for, or a value that does not unmarshal, the callback calls neither `decideCallback` nor any
subscriber. -/
theorem decide_without_value_delivers_nothing (C : Crypto) (m : TMsg) :
    decideOut C m none = none ∧
      (∀ h, m.values.get h = none → decideOut C m (some h) = none) ∧
      (∀ h v, m.values.get h = some v → decideOut C m (some h) = C.unmarshalAny v) := by
  refine ⟨rfl, ?_, ?_⟩
  · intro h hg
    simp only [decideOut, decideValue, TMsg.view]
    rw [hg]; rfl
  · intro h v hg
    simp only [decideOut, decideValue, TMsg.view]
    rw [hg]; rfl

/-- **admitted_message_view.** The message `handle`'s tail builds (`admitMsg`) is well-formed, keeps the
protos, and shows through the `qbft.Msg` accessors exactly the `MsgView` of `Model/QbftWire.lean`'s
`newMsg` on the same inputs (the two models compose). -/
theorem admitted_message_view (C : Crypto) (c : Core) (just : List Core) (vs : List Val) (m : TMsg)
    (h : admitMsg C c just vs = .ok m) :
    MsgOk C m ∧ m.pb = c ∧ m.just = just ∧
      ∃ vals, valuesByHash C vs [] = some vals ∧ QbftWire.newMsg c just vals = .ok m.view := by
  obtain ⟨h1, h2, h3⟩ := admitMsg_ok h
  refine ⟨h1, h2, h3, ?_⟩
  unfold admitMsg at h
  split at h
  · cases h
  · rename_i vals hvals
    exact ⟨vals, hvals, (newTMsg_ok h).2.2⟩

/-! ### non-vacuity: a concrete crypto and a concrete run -/

/-- value token `id*4 + variant` (variant 0 / 1: two wrappers of inner message `id`, 3: undecodable),
hash of inner `x` = `x + 1`; a signature token is the recovered key + 1. -/
def C0 : Crypto :=
  { Digest := Unit
    digest := fun _ => ()
    recover := fun _ s => if s = 0 then none else some (s - 1)
    unmarshalAny := fun v => if v % 4 ≥ 2 then none else some (v / 4)
    hashInner := fun x => some (x + 1) }

def sign0 : Unit → SigB := fun _ => 2     -- own key 1

def core0 (ty : Int) (peer : Int) (vh pvh : Option Hash) : Core :=
  { fields := { type := ty, duty := some { slot := 5, type := 2 }, peerIdx := peer, round := 1,
                preparedRound := 0, valueHash := hbytes vh, preparedValueHash := hbytes pvh }, sig := none }

/-- a peer's PREPARE for value 7 (hash 8) carrying the value. -/
def prep0 : TMsg := { pb := core0 2 0 (some 8) none, just := [], values := [(8, 28)] }

def args0 : BArgs :=
  { type := 3, duty := { slot := 5, type := 2 }, peerIdx := 1, round := 1, value := some 8, pr := 0,
    pvalue := none, just := [prep0] }

def evs0 : List Ev := [.propose 4 12, .receive prep0, .broadcast args0, .selfDeliver 0]

example : ∀ e ∈ evs0, EvOk C0 e := by
  intro e he
  simp only [evs0, List.mem_cons, List.not_mem_nil, or_false] at he
  rcases he with rfl | rfl | rfl | rfl
  · show valHash C0 12 = some 4
    rfl
  · refine ⟨?_, ?_⟩
    · intro h v hg
      simp only [prep0, get_cons] at hg
      split at hg
      · rename_i h8; cases hg; subst h8; decide
      · simp [VMap.get] at hg
    · intro x hx
      simp only [prep0, List.mem_cons, List.not_mem_nil, or_false] at hx
      subst hx
      exact checkRefs_none (by decide)
  · trivial
  · trivial

/-- the run broadcasts once, the broadcast carries exactly value 7, it is self-delivered once and
nothing stays parked. -/
example : (run C0 sign0 {} evs0).sent.map (fun m => m.values) = [[(8, 28)]] ∧
    (run C0 sign0 {} evs0).selfDelivered = (run C0 sign0 {} evs0).sent ∧
    (run C0 sign0 {} evs0).pending = [] ∧
    (run C0 sign0 {} evs0).delivered.length = 2 ∧
    (run C0 sign0 {} evs0).cache = [(4, 12), (8, 28)] := by decide

/-- Broadcast fails on a hash nobody has a value for, and only then. -/
example : (broadcast C0 sign0 (run C0 sign0 {} evs0) { args0 with value := some 99 }).2 = .error .unknownValue ∧
    ∃ m, (broadcast C0 sign0 (run C0 sign0 {} evs0) args0).2 = .ok m := by
  exact ⟨rfl, _, rfl⟩

/-- a receiver admits the broadcast message. -/
example : ∃ m m', (broadcast C0 sign0 (run C0 sign0 {} [.receive prep0]) args0).2 = .ok m ∧
    admitMsg C0 m.pb m.just m.wire.values = .ok m' ∧ m'.values = [(8, 28)] := by
  exact ⟨_, _, rfl, rfl, rfl⟩

/-- two values on the wire: both orders are admitted with the same bindings. -/
example : ∃ m m1 m2, (broadcast C0 sign0 (run C0 sign0 {} evs0) { args0 with pvalue := some 4, pr := 1 }).2 = .ok m ∧
    m.wire.values = [28, 12] ∧
    admitMsg C0 m.pb m.just [28, 12] = .ok m1 ∧ admitMsg C0 m.pb m.just [12, 28] = .ok m2 ∧
    m1.values.get 8 = some 28 ∧ m2.values.get 8 = some 28 ∧ m1.values.get 4 = some 12 ∧ m2.values.get 4 = some 12 := by
  exact ⟨_, _, _, rfl, rfl, rfl, rfl, rfl, rfl, rfl, rfl⟩

/-- `newMsg` rejects a PREPARE whose value is not attached, accepts it with the value, and accepts
zero / short hashes without any value. -/
example : newTMsg (core0 2 0 (some 8) none) [] [] = .error .noValue ∧
    (∃ m, newTMsg (core0 2 0 (some 8) none) [] [(8, 28)] = .ok m) ∧
    (∃ m, newTMsg { (core0 2 0 none none) with fields := { (core0 2 0 none none).fields with valueHash := .other 2 } } [] [] = .ok m) := by
  exact ⟨rfl, ⟨_, rfl⟩, ⟨_, rfl⟩⟩

/-- the decide callback hands over inner value 7 for hash 8; another wrapper of the same value in
the cache (token 29) unmarshals to the same inner message; nothing for the zero hash. -/
example : decideOut C0 prep0 (some 8) = some 7 ∧ C0.unmarshalAny 29 = some 7 ∧
    decideOut C0 prep0 none = none ∧ decideOut C0 prep0 (some 9) = none := by decide

/-- the own signature verifies under the own index (key list 0..3). -/
example : ∃ m, (broadcast C0 sign0 (run C0 sign0 {} [.receive prep0]) args0).2 = .ok m ∧
    verifyMsg C0 [0, 1, 2, 3] (some m.pb) = none := ⟨_, rfl, by decide⟩

/-- the cache replaces a wrapper by another wrapper of the same inner message, never by another
message: receiving value 7 wrapped as token 29 after token 28. -/
example : (run C0 sign0 {} [.receive prep0, .receive { prep0 with values := [(8, 29)] }]).cache.get 8 = some 29 ∧
    C0.unmarshalAny 29 = C0.unmarshalAny 28 := by decide

example : HashInj C0 := by
  intro x y h hx hy
  simp only [C0, Option.some.injEq] at hx hy
  rw [← hy] at hx
  exact Nat.add_right_cancel hx

end CharonV.Transport
