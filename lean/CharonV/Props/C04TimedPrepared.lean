/-
C04 — the timed composition when earlier rounds made PARTIAL progress: members may hold prepared
certificates (`preparedRound` / `preparedValue` ≠ 0) when the good round starts.

C04: "If at most f members crash (at any point, even halfway through a broadcast), start late or
stay silent, the other members keep running the duty's consensus instance with their proposals
available, and messages between running members arrive well within a round's timeout, then every
running member decides, within at most one full leader rotation after the last such fault."

`Props/C04Timed.lean` / `Props/C04Resync.lean` prove this on the timed cluster semantics
(`Model/QbftTimed.lean`) from states in which nobody ever prepared (`Poised`: the leaders of the
earlier rounds did not run). A leader that crashes half-way through its PRE-PREPARE broadcast — or
PREPAREs that are partly lost — leaves a different state behind: some members hold a prepared
certificate, their ROUND-CHANGEs carry it, and the next running leader must re-propose the value
prepared in the highest round (rule J2) with a justification every receiver accepts.
`Props/C04Prepared.lean` proves that on the phased (untimed) schedule. Here the timed model is used.

THE FULL STATEMENT IS PROVED (second session of this module), for EVERY execution of the timed
semantics — any interleaving, any delivery instants in `(sent + lo, sent + hi]`, any oracle at every
delivery, phases overlapping — and any prepared state `CertState` (members prepared in different
rounds on different values included):

* `timed_prepared_good_round` — leader of `ρ` runs with an input, `σ + 4·hi < timeout ρ`: either the
  leader has not proposed yet (then the clock is `≤ E + σ + hi` and everybody is quiet and undecided),
  or there is ONE value `w ≠ 0` — the value prepared in the highest prepared round among the quorum
  `Q` of ROUND-CHANGEs the leader held when it proposed, else its input (`ValueSpec`) — such that
  nobody faults, returns or leaves round `ρ`, whoever has decided has decided `w` in round `ρ` exactly
  once, and once the clock has passed `E + σ + 4·hi` EVERY running member has decided `w`.
* `timed_prepared_decides_within_rotation` — production leader function: after the last fault, with
  arbitrary prepared state left behind by earlier partial rounds, there is a first round `ρ0 + m`,
  `m < n`, whose leader runs; nobody ever faults, and by
  `E0 + (timeout ρ0 + … + timeout (ρ0 + m - 1)) + σ + 4·hi` every running member has decided one
  value (`ValueSpec` of the leader's quorum in round `ρ0 + m`).
* `timed_prepared_silent_round` — a round whose leader is down, started from any such prepared state,
  ends with the cluster poised for the next round: same prepared states, skew preserved, all
  ROUND-CHANGEs (with their certificates) delivered, one more message per source.
* `timed_prepared_good_round_partial`, `timed_prepared_decides_within_rotation_partial` (first
  session; kept, now consequences in spirit): the ROUND-CHANGE delay alone — the execution passes
  through ONE delivery at which the leader broadcasts a PRE-PREPARE that `isJustified` accepts at
  every receiver, in flight to everybody at an instant `≤ E + σ + hi` — under the weaker hypothesis
  `σ + hi < timeout ρ` and without the two extra hypotheses below.
* `prepared_member_any_order`, `prepared_member_decides` — member level: the PRE-PREPARE, PREPAREs,
  COMMITs and DECIDEDs of the round do their work in any order at a member holding earlier rounds'
  messages; those are inert.
* `stuck_is_poised_prepared` — the phased state predicate `Stuck` of `Props/C04Prepared.lean`
  (`stuck_at_start`, `partial_round_keeps_stuck`) at every running member gives the hypotheses here.

How (`Proofs/QbftTimedPrepared.lean`, ~4100 lines): `S1` / `S1H` — invariant of the ROUND-CHANGE stage
on top of `rc_step'` of `Proofs/QbftPrepared.lean`; `TP.Shape` / `TP.Act` / `TP.RInv` — the cluster
invariant of `Proofs/QbftTimed.lean` generalised (members hold arbitrary earlier-round messages
`G.pre p`, ROUND-CHANGEs carry certificates, the PRE-PREPARE a J1/J2 justification `TP.JOk`, the value
is the one the leader proposed); `TP.qrc_some_any` — `getJustifiedQrc` succeeds on EVERY buffer of
the round (a ROUND-CHANGE arriving after the proposal never yields `UnjustQuorumRoundChanges`);
`s1_rinv`, `fire_rinv` — the stage invariant, and the firing delivery, establish `TP.RInv` for the
value proposed; `TP.live` — the thresholds follow one from the other within `4·hi`;
`texec_sameSem` — the history variables `rcvd` / `log` are not read by the semantics.

Two hypotheses beyond `C04Timed` + `CertState`, both explicit in the statements:
* `hnd`: no DECIDED of an earlier round sits in a running member's buffer (an undecided member that
  had received a justified DECIDED would have decided);
* `hinpC`: the members' inputs are the proposals `P.inp` handed over by `start`.
The full theorems are for `σ ≤ lo` (as `C04Timed`); the skew-tolerant treatment of `C04Resync` is not
combined with prepared members.

Non-vacuity (kernel-evaluated): 4 members, member 0 down, round 1 led by member 1 progressed
partially (members 1 and 3 prepared `(1, 8)`, member 2 did not); the hypotheses of the theorems hold
in the timed start state `sp` (`sp_poised`), `timed_prepared_good_round` is instantiated on it
(every execution past 1.4 s has all three members decided on one value in round 2), and two
kernel-evaluated executions (full latency; short latencies, other oracles and delivery orders)
decide the prepared value 8 — not the leader's input 9 — within `E + σ + 4·hi` = 1.4 s.

Hypotheses as in `C04Timed`: `σ ≤ lo` (entry skew at most the minimal latency), relative round timer,
`compare` succeeds, no Byzantine member, no clock drift, exact timers.
-/
import CharonV.Proofs.QbftTimedPrepared
import CharonV.Props.C04Timed
import CharonV.Props.C04Prepared

namespace CharonV.Qbft

/-- **The ROUND-CHANGE delay of a good round, whatever the members prepared before** (partial form
of `timed_prepared_good_round`, see the file header). Relative round timer; the running members (at
least a quorum) are poised for round `X.ρ ≥ 2` (`PoisedP`: in round `X.ρ - 1`, undecided, timers due
in `[E, E + σ]`, nothing in flight, member `p` holding `old p` and the prepared state / input of
`C p`, `PHyp`: that prepared state is null or a valid certificate of an earlier round, `σ ≤ lo`,
`B + 1 ≤ fifo`); the leader `X.l` runs and has an input; `σ + hi < timeout X.ρ`. Then for every
execution `acts` ending in `s'`:
* either the cluster is still in the ROUND-CHANGE stage — then `s'.now ≤ E + σ + hi` and every
  running member is quiet (no fault, no decision), has not returned, is undecided, in a round
  `≤ X.ρ`, with its prepared state untouched;
* or `acts = a1 ++ deliver k o :: a2` where `a1` leads to such a stage state `s1` with
  `s1.now ≤ E + σ + hi`, and the delivery is the one at which the leader proposes: for a
  duplicate-free quorum `Q` of running members its PRE-PREPARE `ppMsg X.ρ w J X.l` has `w ≠ 0`, is
  accepted by `isJustified` (so by every receiver), `w` is the value prepared in the highest prepared
  round among `Q`, else the leader's input (`ValueSpec`), and it is in flight to every running member.
In particular an execution whose clock has passed `E + σ + hi` is of the second kind. -/
theorem timed_prepared_good_round_partial (P : TParams) (timeout : Nat → Nat) (X : PRd)
    (C : Nat → NodeState) (old : Nat → List Msg) (hy : PHyp P timeout X C old)
    (hl : X.l ∈ P.R) (hq : P.d.quorum ≤ P.R.length) (hfit : X.σ + P.hi < timeout X.ρ)
    (s : TState) (hp : PoisedP P X C old s)
    (acts : List TAct) (s' : TState) (hs : texec P s acts = some s') :
    (s'.now ≤ X.E + X.σ + P.hi ∧
      ∀ p ∈ P.R, Quiet (s'.node p).outs ∧ (s'.node p).st.dead = false ∧ (s'.node p).st.qCommit = [] ∧
        (s'.node p).st.round ≤ X.ρ ∧
        Prep3 (C p).preparedRound (C p).preparedValue (C p).preparedJust (s'.node p).st) ∨
     ∃ a1 k o a2 s1 s2, acts = a1 ++ TAct.deliver k o :: a2 ∧ texec P s a1 = some s1 ∧
       tstep P s1 (.deliver k o) = some s2 ∧ texec P s2 a2 = some s' ∧
       s1.now ≤ X.E + X.σ + P.hi ∧
       (∀ p ∈ P.R, Quiet (s1.node p).outs ∧ (s1.node p).st.dead = false ∧
         (s1.node p).st.qCommit = [] ∧ (s1.node p).st.round ≤ X.ρ) ∧
       ∃ Q J w, Q.Nodup ∧ Q.length = P.d.quorum ∧ (∀ a ∈ Q, a ∈ P.R) ∧ w ≠ 0 ∧
         isJustified P.d (ppMsg X.ρ w J X.l) 0 = some true ∧
         ValueSpec (rcsOf X.ρ C) Q (C X.l).inputValue w ∧
         (∀ q ∈ P.R, ppMsg X.ρ w J X.l ∈ inflight q s2.net) ∧ ppMsg X.ρ w J X.l ∈ s2.log ∧
         s2.now = s1.now := by
  rcases s1_exec hy hl hq hfit acts s _ (poisedP_s1 hy hp) s' hs with
    ⟨T', h'⟩ | ⟨a1, k, o, a2, s1, T1, e1, e2, e3, e4⟩
  · left
    exact ⟨s1_now_le hy h' hl hq, fun p hpR => h'.safe hpR⟩
  · right
    have hs' := hs
    rw [e1, texec_append a1 s s1 _ e2] at hs'
    simp only [texec] at hs'
    split at hs'
    · cases hs'
    · rename_i s2 hs2
      refine ⟨a1, k, o, a2, s1, s2, e1, e2, hs2, hs', s1_now_le hy e3 hl hq,
        fun p hpR => ⟨(e3.safe hpR).1, (e3.safe hpR).2.1, (e3.safe hpR).2.2.1, (e3.safe hpR).2.2.2.1⟩,
        fires_sends hy e4 hs2⟩

/-- **A round whose leader is down keeps the prepared state and ends with the cluster poised for the
next round** — full strength, for every prepared state. As `timed_silent_round`, but from `PoisedP`:
the running members may hold certificates of earlier rounds. The leader `X.l` of round `X.ρ` does not
run; every execution that has reached an instant in `(E + σ + hi, E + timeout X.ρ)` is poised for round
`X.ρ + 1` (`PRd.next`: entry window `[E + timeout X.ρ, E + timeout X.ρ + σ]`, `B + 1`), every member
holding what it held before plus the ROUND-CHANGEs of the round (`old'`), with the same prepared
states and inputs `C`, and the standing hypotheses hold again. -/
theorem timed_prepared_silent_round (P : TParams) (timeout : Nat → Nat) (X : PRd)
    (C : Nat → NodeState) (old : Nat → List Msg) (hy : PHyp P timeout X C old) (hl : X.l ∉ P.R)
    (hinp : ∀ p ∈ P.R, (C p).inputValue ≠ 0) (hfifo : X.B + 2 ≤ P.d.fifo)
    (s : TState) (hp : PoisedP P X C old s)
    (acts : List TAct) (s' : TState) (hs : texec P s acts = some s')
    (h1 : X.E + X.σ + P.hi < s'.now) (h2 : s'.now < X.E + timeout X.ρ) :
    ∃ old', PHyp P timeout (X.next timeout (P.d.leader (X.ρ + 1))) C old' ∧
      PoisedP P (X.next timeout (P.d.leader (X.ρ + 1))) C old' s' := by
  rcases s1_silent_split hy hl acts s _ (poisedP_s1 hy hp) s' hs with
    ⟨T', h'⟩ | ⟨a1, a2, s1, T1, _, _, e3, _, e5⟩
  · exact ⟨_, phyp_next hy h' rfl (fun h => hinp _ h) hfifo, poisedP_next h' h1 _⟩
  · have := texec_now_mono a2 e3
    omega

/-- **Within one leader rotation the first running leader proposes, whatever prepared state the
earlier rounds left behind** (partial form of `timed_prepared_decides_within_rotation`, see the file
header). Production leader function (`leaderFn`, `rotDef`), `n` members of which `P.R` (at least a
quorum, all with their proposals) run, relative round timer, the cluster poised for round `ρ0 ≥ 2`
with arbitrary prepared certificates, `σ ≤ lo`, `σ + hi < timeout ρ` for the `n` rounds
`ρ0 … ρ0 + n - 1`. Then there is a first round `ρ0 + m`, `m < n`, whose leader runs, and every
execution whose clock has passed

  `E0 + (timeout ρ0 + … + timeout (ρ0 + m - 1)) + σ + hi`

has a prefix `a1` ending (state `s1`, not later than that instant) in the ROUND-CHANGE stage of round
`ρ0 + m`, followed by the delivery at which that leader broadcasts a PRE-PREPARE for round `ρ0 + m`
that every receiver accepts, for the value prepared in the highest prepared round among its quorum
`Q` of ROUND-CHANGEs, else its own input; in `s1` nobody has faulted, decided or returned. -/
theorem timed_prepared_decides_within_rotation_partial (slot ty n fifo : Nat) (P : TParams)
    (hd : P.d = rotDef slot ty n fifo) (timeout : Nat → Nat) (X : PRd) (C : Nat → NodeState)
    (old : Nat → List Msg) (hy : PHyp P timeout X C old) (hRn : ∀ p ∈ P.R, p < n) (hn : 1 ≤ n)
    (hq : P.d.quorum ≤ P.R.length) (hinp : ∀ p ∈ P.R, (C p).inputValue ≠ 0)
    (hfifo : X.B + n + 1 ≤ fifo)
    (hfit : ∀ ρ, X.ρ ≤ ρ → ρ < X.ρ + n → X.σ + P.hi < timeout ρ) :
    ∃ m, m < n ∧ leaderFn slot ty (X.ρ + m) n ∈ P.R ∧
      (∀ k, k < m → leaderFn slot ty (X.ρ + k) n ∉ P.R) ∧
      ∀ (s : TState), PoisedP P X C old s →
      ∀ (acts : List TAct) (s' : TState), texec P s acts = some s' →
        X.E + sumTimeouts timeout X.ρ m + X.σ + P.hi < s'.now →
        ∃ a1 k o a2 s1 s2, acts = a1 ++ TAct.deliver k o :: a2 ∧ texec P s a1 = some s1 ∧
          tstep P s1 (.deliver k o) = some s2 ∧ texec P s2 a2 = some s' ∧
          s1.now ≤ X.E + sumTimeouts timeout X.ρ m + X.σ + P.hi ∧
          (∀ p ∈ P.R, Quiet (s1.node p).outs ∧ (s1.node p).st.dead = false ∧
            (s1.node p).st.qCommit = [] ∧ (s1.node p).st.round ≤ X.ρ + m) ∧
          ∃ Q J w, Q.Nodup ∧ Q.length = P.d.quorum ∧ (∀ a ∈ Q, a ∈ P.R) ∧ w ≠ 0 ∧
            isJustified P.d (ppMsg (X.ρ + m) w J (leaderFn slot ty (X.ρ + m) n)) 0 = some true ∧
            ValueSpec (rcsOf (X.ρ + m) C) Q (C (leaderFn slot ty (X.ρ + m) n)).inputValue w ∧
            (∀ q ∈ P.R, ppMsg (X.ρ + m) w J (leaderFn slot ty (X.ρ + m) n) ∈ inflight q s2.net) ∧
            s2.now = s1.now := by
  have hq1 : 1 ≤ P.d.quorum := quorum_pos P.d hy.n1
  have hne : P.R ≠ [] := by
    intro hc; rw [hc] at hq; simp at hq; omega
  obtain ⟨m, hm, hmR, hsil⟩ := first_running_leader slot ty n hn P.R hRn hne X.ρ
  refine ⟨m, hm, hmR, hsil, ?_⟩
  intro s hp acts s' hs hlate
  have hlead : ∀ r, P.d.leader r = leaderFn slot ty r n := by intro r; rw [hd]; rfl
  have hff : P.d.fifo = fifo := by rw [hd]; rfl
  obtain ⟨X', old', a1, k, o, a2, s1, T1, r1, r2, r3, r4, r5, r6, r7, r8, r9, r10⟩ :=
    rot_prepared hq hinp m X old hy (fun k hk => by rw [hlead]; exact hsil k hk)
      (by rw [hlead]; exact hmR) (fun k hk => hfit (X.ρ + k) (by omega) (by omega))
      (by rw [hff]; omega) s hp acts s' hs hlate
  have hs' := hs
  rw [r6, texec_append a1 s s1 _ r7] at hs'
  simp only [texec] at hs'
  split at hs'
  · cases hs'
  · rename_i s2 hs2
    obtain ⟨Q, J, w, q1, q2, q3, q4, q5, q6, q7, _, q9⟩ := fires_sends r5 r9 hs2
    rw [r2, hlead] at q5 q6 q7
    rw [r1] at q5 q6 q7
    refine ⟨a1, k, o, a2, s1, s2, r6, r7, hs2, hs', by rw [r3, r4] at r10; exact r10,
      fun p hpR => ⟨(r8.safe hpR).1, (r8.safe hpR).2.1, (r8.safe hpR).2.2.1,
        by rw [← r1]; exact (r8.safe hpR).2.2.2.1⟩,
      Q, J, w, q1, q2, q3, q4, q5, q6, q7, q9⟩

/-- **The phased predicate `Stuck` gives the timed start state**: if every running member satisfies
`Stuck` for round `X.ρ - 1` (`Props/C04Prepared.lean`: holds at the start, preserved by lost and by
partially progressing rounds), nothing is in flight, the round timers are due in `[E, E + σ]` and the
timer objects were not asked for round `X.ρ` or later yet, then
the hypotheses `PHyp` / `PoisedP` of the theorems above hold with `C` = the members' own states. -/
theorem stuck_is_poised_prepared (P : TParams) (timeout : Nat → Nat) (X : PRd) (old : Nat → List Msg)
    (s : TState) (hR : P.R.Nodup) (hn : 1 ≤ P.d.nodes) (hρ : 2 ≤ X.ρ) (hlead : P.d.leader X.ρ = X.l)
    (harm : P.arm = relTimer timeout) (hfifo : X.B + 1 ≤ P.d.fifo) (hlo : X.σ ≤ P.lo)
    (hst : ∀ p ∈ P.R, Stuck P.d (X.ρ - 1) X.B p (old p) ((s.node p).st, (s.node p).outs))
    (hinp : X.l ∈ P.R → (s.node X.l).st.inputValue ≠ 0) (hnet : s.net = [])
    (htm : ∀ p ∈ P.R, ∃ e, (s.node p).timer = some e ∧ X.E ≤ e ∧ e ≤ X.E + X.σ ∧ s.now ≤ e)
    (hfd : ∀ p ∈ P.R, ∀ r, X.ρ ≤ r → RoundTimer.lookup r (s.node p).firsts = none) :
    PHyp P timeout X (fun p => (s.node p).st) old ∧ PoisedP P X (fun p => (s.node p).st) old s :=
  stuck_poised hR hn hρ hlead harm hfifo hlo hst hinp hnet htm hfd

/-- **After the proposal, at every member: the messages of the round do their work in ANY order, and
what the member holds from earlier rounds is inert** (member level; the step from
`timed_prepared_good_round_partial` towards the decision). A running, undecided member `p` in round
`G.ρ` holds the messages `L` — messages of earlier rounds of any type with any attachments
(`TP.Shape.old`), ROUND-CHANGEs of the round carrying prepared certificates (`TP.Shape.rc`), possibly
messages of the round already — in the product form `TP.Act` (its `dedup` records exactly the
thresholds reached by `L`; nothing is assumed about its prepared state). Then for every sequence `es`
of further deliveries of PRE-PREPARE (justified by J1 or J2 for `G.v`), PREPAREs, COMMITs and DECIDEDs
of the round (one per sender and type, within the FIFO limit), in any order — PREPAREs before the
PRE-PREPARE, COMMITs before the last PREPARE — and with any oracle per delivery: the member stays
in that form without a fault or a decision, or it has decided `G.v` in round `G.ρ` exactly once
without a fault (`TP.Dcd`: running, `qCommit` a quorum of COMMITs for `G.v`). -/
theorem prepared_member_any_order (d : Def) (R : List Nat) (G : TP.Rd) (I : Nat → Nat) (p : Nat)
    (hq1 : 1 ≤ d.quorum) (es : List (Oracle × Msg)) (s : NodeState) (L : List Msg)
    (h : TP.Act d G I p s L) (hsh : ∀ x ∈ L ++ es.map (·.2), TP.Shape d R G x)
    (hnd : ∀ K, (K = tPrePrepare ∨ K = tPrepare ∨ K = tCommit ∨ K = tRoundChange) →
      (srcsOf K G.ρ (L ++ es.map (·.2))).Nodup)
    (hfifo : ∀ a, ((L ++ es.map (·.2)).filter (fun x => x.core.src == a)).length ≤ d.fifo)
    (hrd : ∀ e ∈ es, e.2.core.round = G.ρ ∧ e.2.core.typ ≠ tRoundChange) :
    (TP.Act d G I p (TP.runRecv d s es).1 (L ++ es.map (·.2)) ∧ Quiet (TP.runRecv d s es).2) ∨
    (TP.Dcd d G p (TP.runRecv d s es).1 ∧ decidedOnce G.v G.ρ (TP.runRecv d s es).2 = true ∧
      noFault (TP.runRecv d s es).2 = true) :=
  TP.tail_any_order hq1 es s L h hsh hnd hfifo hrd

/-- … **and it has decided as soon as COMMITs of a quorum of distinct members, or a DECIDED, are among
the deliveries**, whatever else arrived before, in between or after. -/
theorem prepared_member_decides (d : Def) (R : List Nat) (G : TP.Rd) (I : Nat → Nat) (p : Nat)
    (hq1 : 1 ≤ d.quorum) (es : List (Oracle × Msg)) (s : NodeState) (L : List Msg)
    (h : TP.Act d G I p s L) (hsh : ∀ x ∈ L ++ es.map (·.2), TP.Shape d R G x)
    (hnd : ∀ K, (K = tPrePrepare ∨ K = tPrepare ∨ K = tCommit ∨ K = tRoundChange) →
      (srcsOf K G.ρ (L ++ es.map (·.2))).Nodup)
    (hfifo : ∀ a, ((L ++ es.map (·.2)).filter (fun x => x.core.src == a)).length ≤ d.fifo)
    (hrd : ∀ e ∈ es, e.2.core.round = G.ρ ∧ e.2.core.typ ≠ tRoundChange)
    (hfin : d.quorum ≤ (srcsOf tCommit G.ρ (L ++ es.map (·.2))).length ∨
      ∃ e ∈ es, e.2.core.typ = tDecided) :
    TP.Dcd d G p (TP.runRecv d s es).1 ∧ decidedOnce G.v G.ρ (TP.runRecv d s es).2 = true ∧
      noFault (TP.runRecv d s es).2 = true :=
  TP.tail_decides hq1 es s L h hsh hnd hfifo hrd hfin

/-- **A round whose leader runs decides within `σ + 4·δ`, whatever the members prepared before** —
the FULL statement. Relative round timer; the running members (at least a quorum) are poised for round
`X.ρ ≥ 2` (`PoisedP` / `PHyp`: in round `X.ρ - 1`, undecided, timers due in `[E, E + σ]`, `σ ≤ lo`,
nothing in flight, member `p` holding the earlier-round messages `old p` — none of them a DECIDED —
and the prepared state / input of `C p`: null or a valid certificate of an earlier round, different
members possibly prepared in different rounds on different values); the inputs are the proposals
`P.inp`; the leader `X.l` runs and has an input; `σ + 4·hi < timeout X.ρ`; `B + 4 ≤ fifo`. Then for
EVERY execution (any interleaving, any delivery instants, any oracle, phases overlapping), in its
final state `s'`:
* either the leader has not proposed yet — then `s'.now ≤ E + σ + hi` and every running member is
  quiet (no fault, no decision), has not returned, is undecided and in a round `≤ X.ρ`;
* or there are a value `w ≠ 0` and a duplicate-free quorum `Q` of running members such that `w` is
  the value prepared in the highest prepared round among the ROUND-CHANGEs of `Q`, or the leader's
  input if those are all null (`ValueSpec`), and at every running member: no fault (`bug` /
  `unjust`), `Run` has not returned, the member has not left round `X.ρ` (no round timer of the
  round has fired), a member that has decided has decided `w` in round `X.ρ` exactly once — and once
  the clock has passed `E + σ + 4·hi` EVERY running member has decided `w`. -/
theorem timed_prepared_good_round (P : TParams) (timeout : Nat → Nat) (X : PRd)
    (C : Nat → NodeState) (old : Nat → List Msg) (hy : PHyp P timeout X C old)
    (hnd : ∀ p ∈ P.R, ∀ x ∈ old p, x.core.typ ≠ tDecided)
    (hinpC : ∀ p ∈ P.R, (C p).inputValue = P.inp p)
    (hl : X.l ∈ P.R) (hq : P.d.quorum ≤ P.R.length) (hfit : X.σ + 4 * P.hi < timeout X.ρ)
    (hfifo : X.B + 4 ≤ P.d.fifo) (s : TState) (hp : PoisedP P X C old s)
    (acts : List TAct) (s' : TState) (hs : texec P s acts = some s') :
    (s'.now ≤ X.E + X.σ + P.hi ∧
      ∀ p ∈ P.R, Quiet (s'.node p).outs ∧ (s'.node p).st.dead = false ∧ (s'.node p).st.qCommit = [] ∧
        (s'.node p).st.round ≤ X.ρ) ∨
    ∃ w Q, w ≠ 0 ∧ Q.Nodup ∧ Q.length = P.d.quorum ∧ (∀ a ∈ Q, a ∈ P.R) ∧
      ValueSpec (rcsOf X.ρ C) Q (C X.l).inputValue w ∧
      (∀ p ∈ P.R, noFault (s'.node p).outs = true ∧ (s'.node p).st.dead = false ∧
        (s'.node p).st.round ≤ X.ρ ∧
        ((s'.node p).st.qCommit ≠ [] → GoodOutcome w X.ρ ((s'.node p).st, (s'.node p).outs))) ∧
      (X.E + X.σ + 4 * P.hi < s'.now →
        ∀ p ∈ P.R, GoodOutcome w X.ρ ((s'.node p).st, (s'.node p).outs)) :=
  good_round_any hy hnd hinpC hl hq hfit hfifo hp acts hs

/-- **Decision within one leader rotation after the last fault, with arbitrary prepared state left
behind by earlier partial rounds** — the FULL statement. Production leader function (`leaderFn`,
`rotDef`), `n` members of which `P.R` (at least a quorum, all with their proposals) run, relative
round timer, the cluster poised for round `X.ρ ≥ 2` as in `timed_prepared_good_round`, `σ ≤ lo`, and
`σ + 4·hi < timeout ρ` for the `n` rounds `X.ρ … X.ρ + n - 1`. Then there is a first round `X.ρ + m`,
`m < n`, whose leader runs, and in every execution: nobody faults and `Run` never returns, and once
the clock has passed

  `E + (timeout X.ρ + … + timeout (X.ρ + m - 1)) + σ + 4·hi`

every running member has decided ONE value `w ≠ 0` in round `X.ρ + m` exactly once: the value prepared
in the highest prepared round among a quorum `Q` of the ROUND-CHANGEs for that round, else the input
of its leader. The `m` leaderless rounds keep the members' prepared certificates
(`timed_prepared_silent_round`). -/
theorem timed_prepared_decides_within_rotation (slot ty n fifo : Nat) (P : TParams)
    (hd : P.d = rotDef slot ty n fifo) (timeout : Nat → Nat) (X : PRd) (C : Nat → NodeState)
    (old : Nat → List Msg) (hy : PHyp P timeout X C old)
    (hnd : ∀ p ∈ P.R, ∀ x ∈ old p, x.core.typ ≠ tDecided)
    (hinpC : ∀ p ∈ P.R, (C p).inputValue = P.inp p) (hRn : ∀ p ∈ P.R, p < n) (hn : 1 ≤ n)
    (hq : P.d.quorum ≤ P.R.length) (hinp : ∀ p ∈ P.R, (C p).inputValue ≠ 0)
    (hfifo : X.B + n + 3 ≤ fifo)
    (hfit : ∀ ρ, X.ρ ≤ ρ → ρ < X.ρ + n → X.σ + 4 * P.hi < timeout ρ) :
    ∃ m, m < n ∧ leaderFn slot ty (X.ρ + m) n ∈ P.R ∧
      (∀ k, k < m → leaderFn slot ty (X.ρ + k) n ∉ P.R) ∧
      ∀ (s : TState), PoisedP P X C old s →
      ∀ (acts : List TAct) (s' : TState), texec P s acts = some s' →
        (∀ p ∈ P.R, noFault (s'.node p).outs = true ∧ (s'.node p).st.dead = false) ∧
        (X.E + sumTimeouts timeout X.ρ m + X.σ + 4 * P.hi < s'.now →
          ∃ w Q, w ≠ 0 ∧ Q.Nodup ∧ Q.length = P.d.quorum ∧ (∀ a ∈ Q, a ∈ P.R) ∧
            ValueSpec (rcsOf (X.ρ + m) C) Q (C (leaderFn slot ty (X.ρ + m) n)).inputValue w ∧
            ∀ p ∈ P.R, GoodOutcome w (X.ρ + m) ((s'.node p).st, (s'.node p).outs)) := by
  have hq1 : 1 ≤ P.d.quorum := quorum_pos P.d hy.n1
  have hne : P.R ≠ [] := by
    intro hc; rw [hc] at hq; simp at hq; omega
  obtain ⟨m, hm, hmR, hsil⟩ := first_running_leader slot ty n hn P.R hRn hne X.ρ
  refine ⟨m, hm, hmR, hsil, ?_⟩
  intro s hp acts s' hs
  have hlead : ∀ r, P.d.leader r = leaderFn slot ty r n := by intro r; rw [hd]; rfl
  have hff : P.d.fifo = fifo := by rw [hd]; rfl
  have := rot_prepared_decides hq hinp hinpC m X old hy hnd (fun k hk => by rw [hlead]; exact hsil k hk)
    (by rw [hlead]; exact hmR) (fun k hk => hfit (X.ρ + k) (by omega) (by omega))
    (by rw [hff]; omega) s hp acts s' hs
  rw [hlead] at this
  exact this

/-! ### Non-vacuity: a 4-member cluster, one down, prepared in round 1, deciding in round 2 -/

namespace C04TimedPreparedEx

open C04LiveEx C04PreparedEx C04TimedEx

/-- the cluster of `C04PreparedEx`: `e4` (4 members, quorum 3, leader of round `r` = `r % 4`, FIFO limit
8), members 1, 2, 3 run; δ = 100 ms, every round lasts 1 s. -/
def Pp : TParams :=
  { d := e4, R := R4, lo := 0, hi := 100000000, arm := relTimer (fun _ => 1000000000), inp := inp4 }

/-- after the partially progressed round 1 (leader 1, value 8): members 1 and 3 hold a certificate
for `(1, 8)`, member 2 does not. -/
def clp : Cluster := partialPrepareRound e4 env1 R4 inp4 1 dp4 dc4

/-- the timed state: everybody in round 1 with its round timer due at 1 s, nothing in flight. -/
def sp : TState :=
  { now := 0
    node := fun p => { st := (clp p).1, outs := (clp p).2, timer := some 1000000000,
                       firsts := [(1, 1000000000)] } }

example : R4.map (fun p => ((sp.node p).st.round, (sp.node p).st.preparedRound,
    (sp.node p).st.preparedValue)) = [(1, 1, 8), (1, 0, 0), (1, 1, 8)] := by decide

def Xp : PRd := ⟨2, 2, 1000000000, 0, 4⟩

/-- the hypotheses of the theorems hold in `sp` (round 2, leader 2 — the unprepared member —,
`E` = 1 s, `σ` = 0, `B` = 4). -/
theorem sp_poised : ∃ old, PHyp Pp (fun _ => 1000000000) Xp (fun p => (sp.node p).st) old ∧
    PoisedP Pp Xp (fun p => (sp.node p).st) old sp := by
  obtain ⟨old, hold⟩ := partialPrepareRound_stuck e4 (by decide) (by decide) R4 (by decide) (by decide)
    1 (by decide) (by decide) inp4 8 (by decide) (by decide) env1
    (by intro ph p l
        show (if (ph + p) % 2 = 0 then l else l.reverse).Perm l
        split
        · exact List.Perm.refl l
        · exact List.reverse_perm l) dp4 dc4 (partialDeliveryB_sound (by decide))
  refine ⟨old, stuck_is_poised_prepared Pp (fun _ => 1000000000) Xp old sp (by decide) (by decide)
    (by decide) (by decide) rfl (by decide) (by decide) (fun p hp => (hold p hp).1) ?_ rfl ?_ ?_⟩
  · intro _
    have := (hold 2 (by decide)).2.1
    show (clp 2).1.inputValue ≠ 0
    rw [show (clp 2).1.inputValue = inp4 2 from this]; decide
  · intro p _
    exact ⟨1000000000, rfl, by decide, by decide, by decide⟩
  · intro p _ r hr
    have hr' : 2 ≤ r := hr
    show RoundTimer.lookup r [(1, 1000000000)] = none
    simp only [RoundTimer.lookup]
    rw [if_neg (by omega)]

/-- `timed_prepared_good_round_partial` applies to `sp`: every execution that has passed 1.1 s went
through the leader's proposal. -/
example : ∀ (acts : List TAct) (s' : TState), texec Pp sp acts = some s' → 1100000000 < s'.now →
    ∃ a1 k o a2 s1 s2, acts = a1 ++ TAct.deliver k o :: a2 ∧ texec Pp sp a1 = some s1 ∧
      tstep Pp s1 (.deliver k o) = some s2 ∧ texec Pp s2 a2 = some s' ∧ s1.now ≤ 1100000000 := by
  obtain ⟨old, hy, hp⟩ := sp_poised
  intro acts s' hs hlate
  rcases timed_prepared_good_round_partial Pp _ Xp _ old hy (by decide) (by decide) (by decide) sp hp
    acts s' hs with ⟨h, _⟩ | ⟨a1, k, o, a2, s1, s2, e1, e2, e3, e4, e5, _⟩
  · have : s'.now ≤ 1000000000 + 0 + 100000000 := h
    omega
  · exact ⟨a1, k, o, a2, s1, s2, e1, e2, e3, e4, e5⟩

/-- the FULL theorem `timed_prepared_good_round` applies to `sp`: in every execution that has passed
`E + σ + 4·hi` = 1.4 s all three members have decided the prepared value 8 in round 2 (the only
candidates `ValueSpec` leaves are 8 and the leader's input 9; all three members form the quorum `Q`,
members 1 and 3 are prepared on `(1, 8)`: it is 8). -/
example : ∀ (acts : List TAct) (s' : TState), texec Pp sp acts = some s' → 1400000000 < s'.now →
    ∃ w, w ≠ 0 ∧ ∀ p ∈ Pp.R, GoodOutcome w 2 ((s'.node p).st, (s'.node p).outs) := by
  obtain ⟨old, hy, hp⟩ := sp_poised
  intro acts s' hs hlate
  have hbufs : ∀ p ∈ R4, ∀ e ∈ (sp.node p).st.buffer, ∀ x ∈ e.2, x.core.typ ≠ tDecided := by decide
  have hnd : ∀ p ∈ Pp.R, ∀ x ∈ old p, x.core.typ ≠ tDecided := by
    intro p hpR x hx
    obtain ⟨e, hw, _⟩ := hp.mem p hpR
    obtain ⟨en, hen, hxe⟩ := bufIs_mem hw.buf hx
    exact hbufs p hpR en hen x hxe
  have hinpC : ∀ p ∈ Pp.R, (sp.node p).st.inputValue = Pp.inp p := by decide
  rcases timed_prepared_good_round Pp _ Xp _ old hy hnd hinpC (by decide) (by decide) (by decide)
    (by decide) sp hp acts s' hs with ⟨h, _⟩ | ⟨w, Q, hw, _, _, _, _, _, hall⟩
  · have : s'.now ≤ 1000000000 + 0 + 100000000 := h
    omega
  · exact ⟨w, hw, hall hlate⟩

/-- an execution in which every message takes the full 100 ms: ROUND-CHANGEs (members 1 and 3 attach
their certificates), the PRE-PREPARE of member 2 — for the prepared value 8, not its own input 9 —,
PREPAREs, COMMITs … -/
def schedFull : List TAct :=
  [.tick 1000000000, .fire 1, .fire 2, .fire 3, .tick 100000000] ++
  List.replicate 9 (.deliver 0 {}) ++ [.tick 100000000] ++ List.replicate 3 (.deliver 0 {}) ++
  [.tick 100000000] ++ List.replicate 9 (.deliver 0 {}) ++ [.tick 100000000] ++
  List.replicate 9 (.deliver 0 {})

/-- … and one with short latencies, other oracles and the newest packet delivered first. -/
def schedShort : List TAct :=
  [.tick 1000000000, .fire 3, .fire 1, .fire 2, .tick 1,
    .deliver 8 ⟨[3, 2, 1], 1⟩, .deliver 7 ⟨[1], 2⟩, .deliver 6 ⟨[2], 0⟩, .deliver 5 ⟨[3], 1⟩,
    .deliver 4 ⟨[], 3⟩, .deliver 3 ⟨[2, 1], 1⟩, .deliver 2 ⟨[], 0⟩, .deliver 1 ⟨[1, 3], 2⟩,
    .deliver 0 ⟨[], 1⟩, .tick 5] ++
  List.replicate 3 (.deliver 0 ⟨[3, 1], 1⟩) ++ [.tick 7] ++
  List.replicate 9 (.deliver 0 ⟨[2], 2⟩) ++ [.tick 2] ++ List.replicate 9 (.deliver 0 {})

-- both are executions of the model; everybody decides the PREPARED value 8 in round 2, within
-- `E + σ + 4·hi` = 1.4 s: the full statement holds on them
set_option maxRecDepth 100000 in
example : finalOk [1, 2, 3] 8 2 1400000000 (texec Pp sp schedFull) = true := by decide
set_option maxRecDepth 100000 in
example : finalOk [1, 2, 3] 8 2 1400000000 (texec Pp sp schedShort) = true := by decide
-- the leader's input was 9
example : Pp.inp 2 = 9 ∧ (sp.node 2).st.inputValue = 9 := by decide

end C04TimedPreparedEx

end CharonV.Qbft
