/-
C01, the production wiring: what `app/app.go` hands to the constructors of the core workflow.

C01's proof (`Props/C01.lean` over `Model/Cluster.lean`) and the drivers build every member the way the
model says a node is built: partial-signature store and aggregator with the lock's threshold, the
aggregator with the real group-key verifier, the exchange with the real eth2 verifier over the lock's
public shares and with the duty gater, the validator API with the secure constructor and the node's
own share index, every store with a deadliner, and `core.Wire` over exactly these instances. Whether
the shipped binary is assembled like that is decided in `app/app.go` (`Run`, `wireCoreWorkflow`,
`wirePrioritise`, `newTracker`), in `consensus.NewConsensusController` and in
`cluster.Definition.NodeIdx` — code that no driver executes.

The tables of `CharonV.Generated.AppWire` are regenerated from that source on every run (translator
T-appwire, `harness/cmd/trans-appwire`: go/packages, type-checked; see its header for what is listed
and how texts are normalised — package qualifiers are declared package names, a shadowing variable is
printed `name'k`, so inside one function a name denotes one variable). The theorems below are decided
by the kernel on the regenerated tables; each is false as soon as the fact it names changes in the
source (checked on 35 hand-made mutants of app.go / controller.go / definition.go), and the translator
refuses (no table, no theorem) Go it does not model, e.g. a constructor used as a function value.
Texts are stored and compared as numbers (`c!"…"`, see below).

`thresholds_agree` and `single_instances_wired` do not depend on what the local variables of the wiring
functions are called, nor on whether a call-free expression such as `lock.Threshold` is first bound to a
local: they read the CANONICAL texts of the translator (`Arg.canon`, `Def.nrhs`, `Use.nrole`; a parameter is
`«param i»`, a variable assigned exactly once — address not taken — by a call of a named function is
`«callee»`, one assigned once by a call-free path over such variables stands for that path, the used variable
itself is `_`; see the header of the translator) and find variables by def-use — the variable that IS
argument i of a call (`Arg.root` with `Arg.isVar`), the parameter i of a function — not by name.

Reading aid. `site pkg name` = (enclosing function, enclosing constructs) of every call of that
function in the scanned packages; `arg pkg name i` = text of argument `i` of every such call;
`var fn x` = type, kind (`param i` / `local` / …), EVERY assignment to `x` in `fn` (enclosing
constructs, right-hand side, result index) and whether `&x` occurs; `writesTo fn x` = every
`x.f = e` / `x[k] = e`; `aliasesOf fn x` = every `y := x` / `y = &x` / `y := *x`; `usesOf fn x` = every
occurrence of `x` other than its own assignments (listed for the variables that hold a component, a
function value, a map or a `cluster.NodeIdx`).
-/
import CharonV.Generated.AppWire

namespace CharonV.AppWire

open CharonV.Generated.AppWire

/-- `c!"ab"` is the number whose base-256 digits are 1 followed by the UTF-8 bytes of the literal
(`0x16162`): texts are compared as numbers, the way `Generated/AppWire.lean` stores them (the kernel
evaluates `String` operations very slowly). The leading 1 keeps the encoding injective. -/
scoped macro:max "c!" s:str : term => do
  let n := s.getString.toUTF8.foldl (fun acc b => acc * 256 + b.toNat) 1
  `(($(Lean.Syntax.mkNumLit (toString n)) : Nat))

example : c!"" = 1 ∧ c!"ab" = 0x16162 ∧ c!"i + 1" = 0x169202b2031 ∧ c!"\"é" = 0x122c3a9 := by decide

/-- decoding, for `#eval` only (`#eval decodeTxt (str 7)`); no theorem uses it. -/
def decodeTxt (t : Txt) : String :=
  let rec go (fuel n : Nat) (acc : List UInt8) : List UInt8 :=
    match fuel with
    | 0 => acc
    | fuel + 1 => if n ≤ 1 then acc else go fuel (n / 256) ((n % 256).toUInt8 :: acc)
  (String.fromUTF8? ⟨(go t t []).toArray⟩).getD "?"

/-- the text with index `i`. -/
def str (i : Nat) : Txt := strs.getD i 0
def strsOf (p : List Nat) : List Txt := p.map str

def callsOf (pkg name : Txt) : List Call := calls.filter fun c => c.name == name && c.pkg == pkg

/-- (enclosing function, enclosing constructs) of every call of `pkg.name`. -/
def site (pkg name : Txt) : List (Txt × List Txt) :=
  (callsOf pkg name).map fun c => (c.fn, strsOf c.path)

/-- argument texts of every call of `pkg.name`. -/
def args (pkg name : Txt) : List (List Txt) :=
  (callsOf pkg name).map fun c => c.args.map fun a => str a.expr

/-- text of argument `i` of every call of `pkg.name` (`<none>` if there is no such argument). -/
def arg (pkg name : Txt) (i : Nat) : List Txt :=
  (callsOf pkg name).map fun c => (c.args[i]?.map fun a => str a.expr).getD c!"<none>"

/-- the listed calls that appear directly as argument `i` of the calls of `pkg.name`: (package, function, argument texts). -/
def argCall (pkg name : Txt) (i : Nat) : List (Option (Txt × Txt × List Txt)) :=
  (callsOf pkg name).map fun c =>
    ((c.args[i]?.bind (·.call)).bind (calls[·]?)).map fun d => (d.pkg, d.name, d.args.map fun a => str a.expr)

/-- every listed call made inside the functions `fns`: (enclosing function, callee package, callee). -/
def callsIn (fns : List Txt) : List (Txt × Txt × Txt) :=
  (calls.filter fun c => fns.contains c.fn).map fun c => (c.fn, c.pkg, c.name)

/-- every listed constructor of package `pkg` that is called anywhere: (enclosing function, constructor, enclosing constructs). -/
def ctorsOf (pkg : Txt) : List (Txt × Txt × List Txt) :=
  (calls.filter fun c => c.pkg == pkg).map fun c => (c.fn, c.name, strsOf c.path)

/-- one assignment: enclosing constructs, right-hand side, result index. -/
structure DefV where
  path : List Txt
  rhs  : Txt
  res  : Nat
deriving DecidableEq, Repr

/-- a variable: type, kind, every assignment, whether its address is taken. -/
structure VarV where
  ty   : Txt
  kind : Txt
  defs : List DefV
  addrTaken : Bool
deriving DecidableEq, Repr

def varsNamed (fn x : Txt) : List Var := vars.filter fun v => v.name == x && v.fn == fn

def var (fn x : Txt) : List VarV :=
  (varsNamed fn x).map fun v =>
    ⟨str v.ty, str v.kind, v.defs.map (fun d => ⟨strsOf d.path, str d.rhs, d.res⟩), v.addrTaken⟩

/-- the functions called by the right-hand sides of the assignments to `x` (empty text: not a call of a named function). -/
def defCallees (fn x : Txt) : List (List Txt × Txt) :=
  ((varsNamed fn x).map fun v => v.defs.map fun d => (strsOf d.path, str d.callee)).flatten

/-- every `x.f = e`, `x[k] = e`: (enclosing constructs, left-hand side, right-hand side). -/
def writesTo (fn x : Txt) : List (List Txt × Txt × Txt) :=
  (writes.filter fun w => w.name == x && w.fn == fn).map fun w => (strsOf w.path, str w.lhs, str w.rhs)

/-- every `y := x`, `y = &x`, `y := *x` (a second name for, or a copy of, `x`): (enclosing constructs, `y`). -/
def aliasesOf (fn x : Txt) : List (List Txt × Txt) :=
  (aliases.filter fun w => w.name == x && w.fn == fn).map fun w => (strsOf w.path, str w.lhs)

/-- every occurrence of `x` (other than as the target of its own assignments): (enclosing constructs, what is done with it). -/
def usesOf (fn x : Txt) : List (List Txt × Txt) :=
  (uses.filter fun u => u.name == x && u.fn == fn).map fun u => (strsOf u.path, str u.role)

def returnsOf (fn : Txt) : List (List Txt × Txt) :=
  (plainReturns.filter fun r => r.1 == fn).map fun r => (strsOf r.2.1, str r.2.2)

/-! ### name-free readers (canonical texts, variables found by def-use) -/

/-- canonical text of argument `i` of every call of `pkg.name` (`<none>` if there is no such argument). -/
def argC (pkg name : Txt) (i : Nat) : List Txt :=
  (callsOf pkg name).map fun c => (c.args[i]?.map fun a => str a.canon).getD c!"<none>"

/-- canonical argument texts of every call of `pkg.name`. -/
def argsC (pkg name : Txt) : List (List Txt) :=
  (callsOf pkg name).map fun c => c.args.map fun a => str a.canon

/-- the variable (index into `vars`) that argument `i` of every call of `pkg.name` is (`none`: not a plain variable). -/
def argVar (pkg name : Txt) (i : Nat) : List (Option Nat) :=
  (callsOf pkg name).map fun c => c.args[i]?.bind fun a => if a.isVar then a.root else none

/-- the variables of `fn` of the given kind (`param 3`): indices into `vars`. -/
def varsOfKind (fn kind : Txt) : List Nat :=
  (List.range vars.length).filter fun k => (vars[k]?.map fun v => v.fn == fn && str v.kind == kind).getD false

/-- variable `k`: type, kind, every assignment (canonical right-hand side), whether its address is taken. -/
def varAt (k : Option Nat) : List VarV :=
  ((k.bind (vars[·]?)).toList).map fun v =>
    ⟨str v.ty, str v.kind, v.defs.map (fun d => ⟨strsOf d.path, str d.nrhs, d.res⟩), v.addrTaken⟩

def defCalleesAt (k : Option Nat) : List (List Txt × Txt) :=
  (((k.bind (vars[·]?)).toList).map fun v => v.defs.map fun d => (strsOf d.path, str d.callee)).flatten

/-- every `x.f = e`, `x[k] = e` on variable `k`: number of them (the theorems below only need "none"). -/
def writesAt (k : Option Nat) : List (List Txt × Txt × Txt) :=
  (writes.filter fun w => some w.var == k).map fun w => (strsOf w.path, str w.lhs, str w.rhs)

def aliasesAt (k : Option Nat) : List (List Txt × Txt) :=
  (aliases.filter fun w => some w.var == k).map fun w => (strsOf w.path, str w.lhs)

/-- every occurrence of variable `k` other than its own assignments: (enclosing constructs, canonical role). -/
def usesAt (k : Option Nat) : List (List Txt × Txt) :=
  (uses.filter fun u => some u.var == k).map fun u => (strsOf u.path, str u.nrole)

/-- the one variable of `fn` that is its parameter `i` (`none` unless there is exactly one). -/
def paramOf (fn kind : Txt) : Option Nat :=
  match varsOfKind fn kind with
  | [k] => some k
  | _ => none

/-- the one variable that is argument `i` of the one call of `pkg.name` (`none` otherwise). -/
def theArgVar (pkg name : Txt) (i : Nat) : Option Nat :=
  match argVar pkg name i with
  | [some k] => some k
  | _ => none

/-! ### the constants of the statements -/

def wcw : Txt := c!"app.wireCoreWorkflow"
def ifTestExchange : Txt := c!"if conf.TestConfig.ParSigExFunc != nil"
def elseTestExchange : Txt := c!"else conf.TestConfig.ParSigExFunc != nil"
def perValidator : Txt := c!"range vi, val := lock.Validators"
def perShare : Txt := c!"range i, b := val.PubShares"
def nicknameGuard : Txt := c!"unless len(conf.Nickname) > 32"

/-- **One threshold, the lock's.** The partial-signature store and the aggregator are each
constructed once, unconditionally, in `wireCoreWorkflow`, and the threshold argument of both is, in
canonical form, `«param 3».Threshold`: the field `Threshold` of parameter 3 of `wireCoreWorkflow`, written
there directly or reached through locals that are assigned exactly once by a call-free path (the
translator resolves those; `t := lock.Threshold - 1`, a second assignment to `t`, `&t` all leave the name
`t` in the text). The priority protocol gets parameter 5 of `wirePrioritise`, never assigned, which the only
call of `wirePrioritise` gives `«param 3».Threshold` too. Parameter 3 of `wireCoreWorkflow` (the lock) is
never assigned, its address is not taken, none of its fields is written there and it gets no second name
(`l := lock`); the only call of `wireCoreWorkflow` (in `Run`) passes a variable whose only assignment is
`loadClusterLock(…)`, and `Run` writes no field of it and gives it no second name either. (There is no
second source such as `cluster.Threshold(len(lock.Operators))`.) -/
theorem thresholds_agree :
    site c!"core/parsigdb" c!"NewMemDB" = [(wcw, [])] ∧ argC c!"core/parsigdb" c!"NewMemDB" 0 = [c!"«param 3».Threshold"] ∧
    site c!"core/sigagg" c!"New" = [(wcw, [])] ∧ argC c!"core/sigagg" c!"New" 0 = [c!"«param 3».Threshold"] ∧
    site c!"core/priority" c!"NewComponent" = [(c!"app.wirePrioritise", [c!"unless !ok"])] ∧
    argC c!"core/priority" c!"NewComponent" 3 = [c!"«param 5»"] ∧
    varAt (paramOf c!"app.wirePrioritise" c!"param 5") = [⟨c!"int", c!"param 5", [], false⟩] ∧
    site c!"app" c!"wirePrioritise" = [(wcw, [])] ∧ argC c!"app" c!"wirePrioritise" 5 = [c!"«param 3».Threshold"] ∧
    varAt (paramOf wcw c!"param 3") = [⟨c!"*cluster.Lock", c!"param 3", [], false⟩] ∧
    writesAt (paramOf wcw c!"param 3") = [] ∧ aliasesAt (paramOf wcw c!"param 3") = [] ∧
    site c!"app" c!"wireCoreWorkflow" = [(c!"app.Run", [nicknameGuard])] ∧
    argC c!"app" c!"wireCoreWorkflow" 3 = [c!"«app.loadClusterLock»"] ∧
    varAt (theArgVar c!"app" c!"wireCoreWorkflow" 3) = [⟨c!"*cluster.Lock", c!"local",
      [⟨[], c!"loadClusterLock(«param 0», «param 1», «app/eth1wrap.NewDefaultEthClientRunner»)", 0⟩], false⟩] ∧
    writesAt (theArgVar c!"app" c!"wireCoreWorkflow" 3) = [] ∧ aliasesAt (theArgVar c!"app" c!"wireCoreWorkflow" 3) = [] := by
  and_intros <;> decide +kernel

/-- **The verifiers are the real ones.**
* Aggregator: the second argument of `sigagg.New` is the call `sigagg.NewVerifier(eth2Cl)`.
* Exchange: `parSigEx` is assigned twice — under the named test-config condition
  `conf.TestConfig.ParSigExFunc != nil` the test's own exchange, otherwise
  `parsigex.NewParSigEx(…, verifyFunc, gaterFunc)`; `verifyFunc` has one assignment,
  `parsigex.NewEth2Verifier(eth2Cl, allPubSharesByKey)`.
* `allPubSharesByKey` is over the lock's public shares: created empty, its only write is
  `allPubSharesByKey[corePubkey] = allPubShares` once per `lock.Validators` entry `val`, with
  `corePubkey = core.PubKeyFromBytes(val.PubKey)` and `allPubShares` a fresh map per validator whose
  only write files `tblsconv.PubkeyFromBytes(b)` for every `b` of `val.PubShares`; apart from these
  writes the map is only handed to `validatorapi.NewComponent` and `parsigex.NewEth2Verifier`.
* Validator API: the only constructor of `core/validatorapi` called for the component is
  `NewComponent` (the secure one; `NewComponentInsecure` is not called), unconditionally, with that
  map; `vapi` has no other assignment.
* The test-config switch is not set by the wiring itself: `conf` is a by-value parameter of `Run` and of
  `wireCoreWorkflow`, no field of it is written in either; its address is taken once, for
  `wireVAPIRouter`, which writes no field of it and gives it no second name.
* `eth2Cl` is parameter 7 of `wireCoreWorkflow`, never assigned; `Run` passes the first result of
  `newETH2Client(…)`. -/
theorem verifier_is_real :
    arg c!"core/sigagg" c!"New" 1 = [c!"sigagg.NewVerifier(eth2Cl)"] ∧
    argCall c!"core/sigagg" c!"New" 1 = [some (c!"core/sigagg", c!"NewVerifier", [c!"eth2Cl"])] ∧
    ctorsOf c!"core/sigagg" = [(wcw, c!"New", []), (wcw, c!"NewVerifier", [])] ∧
    var wcw c!"parSigEx" = [⟨c!"core.ParSigEx", c!"local",
      [⟨[], c!"<zero>", 0⟩,
       ⟨[ifTestExchange], c!"conf.TestConfig.ParSigExFunc()", 0⟩,
       ⟨[elseTestExchange],
        c!"parsigex.NewParSigEx(p2pNode, sender.SendAsync, nodeIdx.PeerIdx, peerIDs, verifyFunc, gaterFunc)", 0⟩], false⟩] ∧
    ctorsOf c!"core/parsigex" = [(wcw, c!"NewEth2Verifier", [elseTestExchange]), (wcw, c!"NewParSigEx", [elseTestExchange])] ∧
    arg c!"core/parsigex" c!"NewParSigEx" 4 = [c!"verifyFunc"] ∧
    var wcw c!"verifyFunc" =
      [⟨c!"func(context.Context, github.com/libp2p/go-libp2p/core/peer.ID, core.Duty, core.PubKey, core.ParSignedData) error",
        c!"local", [⟨[elseTestExchange], c!"parsigex.NewEth2Verifier(eth2Cl, allPubSharesByKey)", 0⟩], false⟩] ∧
    args c!"core/parsigex" c!"NewEth2Verifier" = [[c!"eth2Cl", c!"allPubSharesByKey"]] ∧
    var wcw c!"allPubSharesByKey" = [⟨c!"map[core.PubKey]map[int]tbls.PublicKey", c!"local",
      [⟨[], c!"make(map[core.PubKey]map[int]tbls.PublicKey)", 0⟩], false⟩] ∧
    writesTo wcw c!"allPubSharesByKey" = [([perValidator], c!"allPubSharesByKey[corePubkey]", c!"allPubShares")] ∧
    usesOf wcw c!"allPubSharesByKey" =
      [([perValidator], c!"written allPubSharesByKey[corePubkey]"),
       ([], c!"allPubSharesByKey as arg 1 of core/validatorapi.NewComponent"),
       ([elseTestExchange], c!"allPubSharesByKey as arg 1 of core/parsigex.NewEth2Verifier")] ∧
    aliasesOf wcw c!"allPubSharesByKey" = [] ∧
    aliasesOf wcw c!"allPubShares" = [([perValidator], c!"allPubSharesByKey[corePubkey]")] ∧
    var wcw c!"corePubkey" = [⟨c!"core.PubKey", c!"local", [⟨[perValidator], c!"core.PubKeyFromBytes(val.PubKey)", 0⟩], false⟩] ∧
    var wcw c!"val" = [⟨c!"cluster.DistValidator", c!"local", [⟨[], c!"range lock.Validators", 1⟩], false⟩] ∧
    var wcw c!"allPubShares" = [⟨c!"map[int]tbls.PublicKey", c!"local", [⟨[perValidator], c!"make(map[int]tbls.PublicKey)", 0⟩], false⟩] ∧
    (writesTo wcw c!"allPubShares").map (fun w => (w.1, w.2.2)) = [([perValidator, perShare], c!"pubshare")] ∧
    usesOf wcw c!"allPubShares" =
      [([perValidator, perShare], c!"written allPubShares[i+1]"),
       ([perValidator], c!"copied | allPubSharesByKey[corePubkey] = allPubShares")] ∧
    var wcw c!"pubshare" = [⟨c!"tbls.PublicKey", c!"local", [⟨[perValidator, perShare], c!"tblsconv.PubkeyFromBytes(b)", 0⟩], false⟩] ∧
    var wcw c!"b" = [⟨c!"[]byte", c!"local", [⟨[perValidator], c!"range val.PubShares", 1⟩], false⟩] ∧
    ctorsOf c!"core/validatorapi" = [(wcw, c!"NewComponent", []), (c!"app.wireVAPIRouter", c!"NewRouter", [])] ∧
    arg c!"core/validatorapi" c!"NewComponent" 0 = [c!"eth2Cl"] ∧
    arg c!"core/validatorapi" c!"NewComponent" 1 = [c!"allPubSharesByKey"] ∧
    defCallees wcw c!"vapi" = [([], c!"core/validatorapi.NewComponent")] ∧
    var c!"app.Run" c!"conf" = [⟨c!"app.Config", c!"param 1", [], false⟩] ∧ writesTo c!"app.Run" c!"conf" = [] ∧
    var wcw c!"conf" = [⟨c!"app.Config", c!"param 2", [], true⟩] ∧ writesTo wcw c!"conf" = [] ∧ aliasesOf wcw c!"conf" = [] ∧
    arg c!"app" c!"wireVAPIRouter" 4 = [c!"&conf"] ∧
    var c!"app.wireVAPIRouter" c!"conf" = [⟨c!"*app.Config", c!"param 4", [], false⟩] ∧
    writesTo c!"app.wireVAPIRouter" c!"conf" = [] ∧ aliasesOf c!"app.wireVAPIRouter" c!"conf" = [] ∧
    var wcw c!"eth2Cl" = [⟨c!"app/eth2wrap.Client", c!"param 7", [], false⟩] ∧
    arg c!"app" c!"wireCoreWorkflow" 7 = [c!"eth2Cl"] ∧
    var c!"app.Run" c!"eth2Cl" = [⟨c!"app/eth2wrap.Client", c!"local",
      [⟨[], c!"newETH2Client(ctx, conf, life, lock, lock.ForkVersion, conf.BeaconNodeTimeout, conf.BeaconNodeSubmitTimeout)", 0⟩], false⟩] := by
  and_intros <;> decide +kernel

/-- **The duty gater is wired.** `gaterFunc` has one assignment, `core.NewDutyGater(ctx, eth2Cl)`
(the only call of that constructor), and its uses are exactly: argument 5 of
`parsigex.NewParSigEx`, argument 7 of `consensus.NewConsensusController`, argument 13 of
`wirePrioritise` — whose parameter `gaterFunc` goes, unassigned, into `priority.NewComponent`. Inside
`NewConsensusController` the parameter `gaterFunc` goes, unassigned, into `qbft.NewConsensus`, the
only consensus constructor called. (A literal such as `func(core.Duty) bool { return true }` in any
of these positions changes an argument text.) -/
theorem gater_wired :
    site c!"core" c!"NewDutyGater" = [(wcw, [])] ∧
    args c!"core" c!"NewDutyGater" = [[c!"ctx", c!"eth2Cl"]] ∧
    var wcw c!"gaterFunc" = [⟨c!"core.DutyGaterFunc", c!"local", [⟨[], c!"core.NewDutyGater(ctx, eth2Cl)", 0⟩], false⟩] ∧
    usesOf wcw c!"gaterFunc" =
      [([elseTestExchange], c!"gaterFunc as arg 5 of core/parsigex.NewParSigEx"),
       ([], c!"gaterFunc as arg 7 of core/consensus.NewConsensusController"),
       ([], c!"gaterFunc as arg 13 of app.wirePrioritise")] ∧
    arg c!"core/parsigex" c!"NewParSigEx" 5 = [c!"gaterFunc"] ∧
    site c!"core/consensus" c!"NewConsensusController" = [(wcw, [])] ∧
    arg c!"core/consensus" c!"NewConsensusController" 7 = [c!"gaterFunc"] ∧
    arg c!"app" c!"wirePrioritise" 13 = [c!"gaterFunc"] ∧
    var c!"app.wirePrioritise" c!"gaterFunc" = [⟨c!"core.DutyGaterFunc", c!"param 13", [], false⟩] ∧
    arg c!"core/priority" c!"NewComponent" 10 = [c!"gaterFunc"] ∧
    ctorsOf c!"core/consensus/qbft" = [(c!"core/consensus.NewConsensusController", c!"NewConsensus", [])] ∧
    arg c!"core/consensus/qbft" c!"NewConsensus" 7 = [c!"gaterFunc"] ∧
    var c!"core/consensus.NewConsensusController" c!"gaterFunc" = [⟨c!"core.DutyGaterFunc", c!"param 7", [], false⟩] := by
  and_intros <;> decide +kernel

/-- the variable passed for parameter `i` of `core.Wire` by its one call (`none`: no such call, or not a plain variable). -/
def wireVar (i : Nat) : Option Nat := theArgVar c!"core" c!"Wire" i

/-- the parameters of `core.Wire` and, for the variable `wireCoreWorkflow` passes for each, the function every
one of its assignments calls (with the enclosing constructs; empty text: not a call of a named function; empty
list: the argument is not a plain variable). -/
def wireArgs : List (Txt × Txt × List (List Txt × Txt)) :=
  ((List.range wireParams.length).zip wireParams).map fun (i, p) => (str p.1, str p.2, defCalleesAt (wireVar i))

/-- **The instances wired are the ones constructed above, once.**
* `core.Wire` is referred to in one non-test file of the repository, `app/app.go`; it is called once,
  unconditionally, in `wireCoreWorkflow`, whose only non-error return is the final `return nil`.
* Its arguments are, position by position, plain variables; each has exactly the assignments listed (one
  constructor call; for the exchange and the aggregate store the two named alternatives; the consensus
  argument is `CurrentConsensus()` of the variable assigned once, unconditionally, by
  `consensus.NewConsensusController`); the wire options are the tracing, tracking and retry wrappers and
  nothing else. (What the variables are called does not matter: they are found as the arguments of the call.)
* The listed constructors are called in the functions of package app exactly in the order given: no
  second store, aggregator, exchange, broadcaster or `Wire`.
* Besides going into `Wire`: the broadcaster, exchange and consensus variables are not used at all (nothing
  else feeds or subscribes to them), the aggregator only gets the test-config `BroadcastCallback` subscriber
  under `conf.TestConfig.BroadcastCallback != nil`, the partial-signature store, aggregate store and duty store
  only hand their `Trim` / `Run` / `Shutdown` to the life-cycle manager, the validator API goes to the HTTP router.
* The broadcaster is built over the submission client, parameter 8, the second result of `newETH2Client`;
  the consensus controller over the lock's peers `lock.Peers()`. -/
theorem single_instances_wired :
    wireSites.map str = [c!"app/app.go"] ∧
    site c!"core" c!"Wire" = [(wcw, [])] ∧
    returnsOf wcw = [([], c!"return nil")] ∧
    wireArgs =
      [(c!"sched", c!"core.Scheduler", [([], c!"core/scheduler.New")]),
       (c!"fetch", c!"core.Fetcher", [([], c!"core/fetcher.New")]),
       (c!"cons", c!"core.Consensus", [([], c!"(core.ConsensusController).CurrentConsensus")]),
       (c!"dutyDB", c!"core.DutyDB", [([], c!"core/dutydb.NewMemDB")]),
       (c!"vapi", c!"core.ValidatorAPI", [([], c!"core/validatorapi.NewComponent")]),
       (c!"parSigDB", c!"core.ParSigDB", [([], c!"core/parsigdb.NewMemDB")]),
       (c!"parSigEx", c!"core.ParSigEx", [([], c!""), ([ifTestExchange], c!""), ([elseTestExchange], c!"core/parsigex.NewParSigEx")]),
       (c!"sigAgg", c!"core.SigAgg", [([], c!"core/sigagg.New")]),
       (c!"aggSigDB", c!"core.AggSigDB",
         [([], c!""), ([c!"if featureset.Enabled(featureset.AggSigDBV2)"], c!"core/aggsigdb.NewMemDBV2"),
          ([c!"else featureset.Enabled(featureset.AggSigDBV2)"], c!"core/aggsigdb.NewMemDB")]),
       (c!"bcast", c!"core.Broadcaster", [([], c!"core/bcast.New")]),
       (c!"opts", c!"...core.WireOption", [([], c!"")])] ∧
    varAt (wireVar 10) = [⟨c!"[]core.WireOption", c!"local",
      [⟨[], c!"[]core.WireOption{ core.WithTracing(), core.WithTracking(«app.newTracker», «core/tracker.NewInclusion»), core.WithAsyncRetry(«app/retry.New»), }", 0⟩], false⟩] ∧
    varAt (wireVar 2) = [⟨c!"core.Consensus", c!"local", [⟨[], c!"«core/consensus.NewConsensusController».CurrentConsensus()", 0⟩], false⟩] ∧
    callsIn [wcw, c!"app.Run", c!"app.wirePrioritise", c!"app.newTracker", c!"app.wireVAPIRouter"] =
      [(c!"app.Run", c!"core/consensus", c!"NewDebugger"), (c!"app.Run", c!"app", c!"wireCoreWorkflow"),
       (wcw, c!"core", c!"NewDutyDeadlineFunc"), (wcw, c!"core", c!"NewDeadliner"), (wcw, c!"core/scheduler", c!"New"),
       (wcw, c!"core", c!"NewDutyGater"), (wcw, c!"core/fetcher", c!"NewGraffitiBuilder"), (wcw, c!"core/fetcher", c!"New"),
       (wcw, c!"core/dutydb", c!"NewMemDB"), (wcw, c!"core/validatorapi", c!"NewComponent"), (wcw, c!"app", c!"wireVAPIRouter"),
       (wcw, c!"core/parsigdb", c!"NewMemDB"), (wcw, c!"core/parsigdb", c!"NewMemDBMetadata"),
       (wcw, c!"core/parsigex", c!"NewEth2Verifier"), (wcw, c!"core/parsigex", c!"NewParSigEx"),
       (wcw, c!"core/sigagg", c!"New"), (wcw, c!"core/sigagg", c!"NewVerifier"),
       (wcw, c!"core/aggsigdb", c!"NewMemDBV2"), (wcw, c!"core/aggsigdb", c!"NewMemDB"), (wcw, c!"core/bcast", c!"New"),
       (wcw, c!"core/consensus", c!"NewConsensusController"), (wcw, c!"app", c!"wirePrioritise"), (wcw, c!"app", c!"newTracker"),
       (wcw, c!"core/tracker", c!"NewInclusion"), (wcw, c!"core", c!"Wire"),
       (c!"app.wirePrioritise", c!"core/priority", c!"NewComponent"),
       (c!"app.newTracker", c!"core", c!"NewDeadliner"), (c!"app.newTracker", c!"core", c!"NewDeadliner"), (c!"app.newTracker", c!"core/tracker", c!"New"),
       (c!"app.wireVAPIRouter", c!"core/validatorapi", c!"NewRouter")] ∧
    (calls.filter fun c => c.pkg != c!"cluster").all (fun c =>
      [wcw, c!"app.Run", c!"app.wirePrioritise", c!"app.newTracker", c!"app.wireVAPIRouter", c!"core/consensus.NewConsensusController"].contains c.fn) = true ∧
    usesAt (wireVar 9) = [([], c!"_ as arg 9 of core.Wire")] ∧
    usesAt (wireVar 6) = [([], c!"_ as arg 6 of core.Wire")] ∧
    usesAt (wireVar 2) = [([], c!"_ as arg 2 of core.Wire")] ∧
    usesAt (wireVar 7) =
      [([], c!"_ as arg 7 of core.Wire"),
       ([c!"if conf.TestConfig.BroadcastCallback != nil"], c!"called _.Subscribe | _.Subscribe(«param 2».TestConfig.BroadcastCallback)")] ∧
    usesAt (wireVar 5) = [([], c!"_ as arg 5 of core.Wire"), ([], c!"_.Trim as arg 0 of lifecycle.HookFuncCtx")] ∧
    usesAt (wireVar 8) = [([], c!"_ as arg 8 of core.Wire"), ([], c!"_.Run as arg 0 of lifecycle.HookFuncCtx")] ∧
    usesAt (wireVar 3) = [([], c!"_ as arg 3 of core.Wire"), ([], c!"_.Shutdown as arg 0 of lifecycle.HookFuncMin")] ∧
    usesAt (wireVar 4) = [([], c!"_ as arg 2 of app.wireVAPIRouter"), ([], c!"_ as arg 4 of core.Wire")] ∧
    argsC c!"core/bcast" c!"New" = [[c!"«param 0»", c!"«param 8»"]] ∧
    varAt (paramOf wcw c!"param 8") = [⟨c!"app/eth2wrap.Client", c!"param 8", [], false⟩] ∧
    argC c!"app" c!"wireCoreWorkflow" 8 = [c!"«app.newETH2Client#1»"] ∧
    varAt (theArgVar c!"app" c!"wireCoreWorkflow" 8) = [⟨c!"app/eth2wrap.Client", c!"local",
      [⟨[], c!"newETH2Client(«param 0», «param 1», life, «app.loadClusterLock», «app.loadClusterLock».ForkVersion, « ...#06f17efc", 1⟩], false⟩] ∧
    argC c!"core/consensus" c!"NewConsensusController" 4 = [c!"«(cluster.Definition).Peers»"] ∧
    varAt (theArgVar c!"core/consensus" c!"NewConsensusController" 4) =
      [⟨c!"[]p2p.Peer", c!"local", [⟨[], c!"«param 3».Peers()", 0⟩], false⟩] ∧
    argC c!"core/consensus/qbft" c!"NewConsensus" 4 = [c!"«param 4»"] ∧
    varAt (paramOf c!"core/consensus.NewConsensusController" c!"param 4") = [⟨c!"[]p2p.Peer", c!"param 4", [], false⟩] := by
  and_intros <;> decide +kernel

/-- **Share index = peer index + 1, wherever it is computed.**
* `cluster.Definition.NodeIdx` (the only function of the scanned packages that builds a
  `cluster.NodeIdx` with values) returns `{PeerIdx: i, ShareIdx: i + 1}` for the position `i` of the
  matching peer in `d.Peers()` (`i` is the range key, reached only past `if p.ID != pID { continue }`);
  the other two literals are the empty ones of the error returns.
* `Run` computes `nodeIdx` once as `lock.NodeIdx(p2pNode.ID())` and passes it as argument 4; in
  `wireCoreWorkflow` it is parameter 4, never assigned, no field written; `ShareIdx` goes to the
  validator API (argument 2, its own share index), `PeerIdx` to the exchange (argument 2) and to
  `val.PublicShare`.
* The share maps are keyed the same way: `allPubShares[i+1] = pubshare` for the range key `i` of
  `val.PubShares`. -/
theorem share_index_arithmetic :
    (ctorsOf c!"cluster").map (fun c => (c.1, c.2.2)) =
      [(c!"(cluster.Definition).NodeIdx", [c!"if err != nil"]),
       (c!"(cluster.Definition).NodeIdx", [c!"range i, p := peers", c!"unless p.ID != pID"]),
       (c!"(cluster.Definition).NodeIdx", [])] ∧
    args c!"cluster" c!"NodeIdx{}" = [[], [c!"i", c!"i + 1"], []] ∧
    var c!"(cluster.Definition).NodeIdx" c!"i" = [⟨c!"int", c!"local", [⟨[], c!"range peers", 0⟩], false⟩] ∧
    var c!"(cluster.Definition).NodeIdx" c!"peers" = [⟨c!"[]p2p.Peer", c!"local", [⟨[], c!"d.Peers()", 0⟩], false⟩] ∧
    var c!"app.Run" c!"nodeIdx" = [⟨c!"cluster.NodeIdx", c!"local", [⟨[], c!"lock.NodeIdx(p2pNode.ID())", 0⟩], false⟩] ∧
    defCallees c!"app.Run" c!"nodeIdx" = [([], c!"(cluster.Definition).NodeIdx")] ∧
    writesTo c!"app.Run" c!"nodeIdx" = [] ∧ aliasesOf c!"app.Run" c!"nodeIdx" = [] ∧
    usesOf c!"app.Run" c!"nodeIdx" =
      [([], c!"nodeIdx.PeerIdx as arg 1 of app/z.Int"), ([nicknameGuard], c!"nodeIdx as arg 4 of app.wireCoreWorkflow")] ∧
    arg c!"app" c!"wireCoreWorkflow" 4 = [c!"nodeIdx"] ∧
    var wcw c!"nodeIdx" = [⟨c!"cluster.NodeIdx", c!"param 4", [], false⟩] ∧
    writesTo wcw c!"nodeIdx" = [] ∧ aliasesOf wcw c!"nodeIdx" = [] ∧
    usesOf wcw c!"nodeIdx" =
      [([perValidator], c!"nodeIdx.PeerIdx as arg 0 of (cluster.DistValidator).PublicShare"),
       ([], c!"nodeIdx.ShareIdx as arg 2 of core/validatorapi.NewComponent"),
       ([elseTestExchange], c!"nodeIdx.PeerIdx as arg 2 of core/parsigex.NewParSigEx")] ∧
    arg c!"core/validatorapi" c!"NewComponent" 2 = [c!"nodeIdx.ShareIdx"] ∧
    arg c!"core/parsigex" c!"NewParSigEx" 2 = [c!"nodeIdx.PeerIdx"] ∧
    writesTo wcw c!"allPubShares" = [([perValidator, perShare], c!"allPubShares[i+1]", c!"pubshare")] ∧
    var wcw c!"i" = [⟨c!"int", c!"local", [⟨[perValidator], c!"range val.PubShares", 0⟩], false⟩] := by
  and_intros <;> decide +kernel

/-- **Every store has a deadliner.** `dutydb.NewMemDB`, `parsigdb.NewMemDB` and both variants of the
aggregate store (`aggsigdb.NewMemDBV2` under `featureset.AggSigDBV2`, `aggsigdb.NewMemDB` otherwise —
the only constructors of these packages that are called) get `deadlinerFunc("<label>")`;
`deadlinerFunc` has one assignment, the literal that returns `core.NewDeadliner(ctx, label,
deadlineFunc)` for its parameter `label`, and is used for nothing else; `deadlineFunc` has one
assignment, `core.NewDutyDeadlineFunc(ctx, eth2Cl)`. The consensus controller gets the same
`deadlineFunc` and builds its own `core.NewDeadliner(ctx, "consensus.qbft", deadlineFunc)`, which is
what `qbft.NewConsensus` receives. -/
theorem every_store_has_deadliner :
    ctorsOf c!"core/dutydb" = [(wcw, c!"NewMemDB", [])] ∧
    args c!"core/dutydb" c!"NewMemDB" = [[c!"deadlinerFunc(\"dutydb\")"]] ∧
    ctorsOf c!"core/parsigdb" = [(wcw, c!"NewMemDB", []), (wcw, c!"NewMemDBMetadata", [])] ∧
    arg c!"core/parsigdb" c!"NewMemDB" 1 = [c!"deadlinerFunc(\"parsigdb\")"] ∧
    ctorsOf c!"core/aggsigdb" =
      [(wcw, c!"NewMemDBV2", [c!"if featureset.Enabled(featureset.AggSigDBV2)"]),
       (wcw, c!"NewMemDB", [c!"else featureset.Enabled(featureset.AggSigDBV2)"])] ∧
    args c!"core/aggsigdb" c!"NewMemDBV2" = [[c!"deadlinerFunc(\"aggsigdb\")"]] ∧
    args c!"core/aggsigdb" c!"NewMemDB" = [[c!"deadlinerFunc(\"aggsigdb\")"]] ∧
    var wcw c!"deadlinerFunc" = [⟨c!"func(label string) core.Deadliner", c!"local",
      [⟨[], c!"func(label string) core.Deadliner { return core.NewDeadliner(ctx, label, deadlineFunc) }", 0⟩], false⟩] ∧
    usesOf wcw c!"deadlinerFunc" =
      [([], c!"called deadlinerFunc | deadlinerFunc(\"dutydb\")"),
       ([], c!"called deadlinerFunc | deadlinerFunc(\"parsigdb\")"),
       ([c!"if featureset.Enabled(featureset.AggSigDBV2)"], c!"called deadlinerFunc | deadlinerFunc(\"aggsigdb\")"),
       ([c!"else featureset.Enabled(featureset.AggSigDBV2)"], c!"called deadlinerFunc | deadlinerFunc(\"aggsigdb\")")] ∧
    (site c!"core" c!"NewDeadliner").filter (·.1 == wcw) = [(wcw, [c!"funclit deadlinerFunc"])] ∧
    (callsOf c!"core" c!"NewDeadliner" |>.filter (·.fn == wcw)).map (fun c => c.args.map fun a => str a.expr) = [[c!"ctx", c!"label", c!"deadlineFunc"]] ∧
    var wcw c!"label" = [⟨c!"string", c!"litparam", [], false⟩] ∧
    var wcw c!"deadlineFunc" = [⟨c!"core.DeadlineFunc", c!"local", [⟨[], c!"core.NewDutyDeadlineFunc(ctx, eth2Cl)", 0⟩], false⟩] ∧
    arg c!"core/consensus" c!"NewConsensusController" 6 = [c!"deadlineFunc"] ∧
    (callsOf c!"core" c!"NewDeadliner" |>.filter (·.fn == c!"core/consensus.NewConsensusController")).map
      (fun c => (strsOf c.path, c.args.map fun a => str a.expr)) = [([], [c!"ctx", c!"\"consensus.qbft\"", c!"deadlineFunc"])] ∧
    var c!"core/consensus.NewConsensusController" c!"deadlineFunc" = [⟨c!"core.DeadlineFunc", c!"param 6", [], false⟩] ∧
    arg c!"core/consensus/qbft" c!"NewConsensus" 6 = [c!"qbftDeadliner"] ∧
    var c!"core/consensus.NewConsensusController" c!"qbftDeadliner" =
      [⟨c!"core.Deadliner", c!"local", [⟨[], c!"core.NewDeadliner(ctx, \"consensus.qbft\", deadlineFunc)", 0⟩], false⟩] := by
  and_intros <;> decide +kernel

/-! ### non-vacuity: the tables are populated, and the readers do tell mutated tables apart -/

example : calls.length ≥ 30 ∧ vars.length ≥ 80 ∧ uses.length ≥ 60 ∧ writes.length ≥ 3 := by decide +kernel

-- a reader applied to a function that is not called yields the empty list (so an equation with a
-- non-empty right-hand side cannot hold by accident)
example : site c!"core/validatorapi" c!"NewComponentInsecure" = [] ∧ arg c!"core/sigagg" c!"New" 7 = [c!"<none>"] := by decide +kernel

end CharonV.AppWire
