/-
C18 / C01 — the fetcher (`core/fetcher/fetcher.go`): the first hop of the duty pipeline, where every node's
*candidate data* comes from, and one of the fan-outs C18 is anchored in.

Model: `CharonV.Model.Fetcher` (`Fetch`, `FetchOnly`, `HandleChainReorg`, the four `fetch*Data` loops, the fan-out with
a clone per subscriber, the early-fetch cache, memory as cells with identities); helper lemmas: `CharonV.Proofs.Fetcher`.

Every theorem quantifies over every configuration (number of subscribers, which of them are hostile, electra slot,
`fetchOnlyCommIdx0`, builder mode, graffiti, plural sync contributions), every duty, every definition set IN EVERY ORDER
Go's map iteration may visit it, and every environment: each answer of the beacon node, of the function registered with
`RegisterAggSigDB` and of the one registered with `RegisterAwaitAttData` is an arbitrary value (error, nil, data, also a
different one every time the same question is asked); every subscriber may return an error; theorems about states hold in
every state reachable from a fresh fetcher by any sequence of `Fetch` / `FetchOnly` / `HandleChainReorg` / hostile writes.

(1) what is handed over      `subscribers_called_once_in_order`, `every_subscriber_reads_the_same_set`,
                             `delivered_keys_in_definition_set`, `attester_and_proposer_deliver_every_validator`,
                             `aggregator_delivers_only_selected`, `early_fetch_is_served_whole`
                             (+ `cache_hit_ignores_definitions_witness`)
(2) consistency              `attester_same_committee_same_data`, `attester_one_query_per_committee`,
                             `aggregator_same_committee_same_data`, `aggregate_queried_for_decided_root`,
                             `aggregate_is_for_decided_data_partial` (+ `aggregate_for_other_data_witness`),
                             `contribution_one_query_per_key`
(3) isolation (C18)          `subscriber_memory_is_private`, `hostile_subscribers_cannot_interfere`,
                             `honest_subscriber_value_never_changes`;
                             the code as it is: `early_cache_shares_bn_response_witness`; with the candidate repair:
                             `beacon_node_cannot_interfere_fixed`
(4) determinism              `fetch_order_independent` (+ `error_depends_on_order_witness`)

The code as it is violates one statement one would like to make:

* FULL STATEMENT (does not hold for `cloneOnCache = false`, the tree as it is): *nobody who is not the fetcher can
  change what `Fetch` hands out — in particular not the beacon client, by writing into a response object after the call
  that returned it.* `FetchOnly` keeps the set it built in `attDataCache`; its values are struct copies of the response
  objects and share their `Source` / `Target` checkpoints: `early_cache_shares_bn_response_witness`. Latent (the http
  client decodes a fresh object per request and keeps no reference). Candidate repair:
  fixes/C18-fetcher-early-cache-clone.diff (model switch `Cfg.cloneOnCache`; second half of the witness).
  Everything a SUBSCRIBER can do is covered without restriction: `hostile_subscribers_cannot_interfere`.

Observations that are not violations (modelled and compared, see the snippet): a nil proposal / nil aggsigdb value for
the randao / nil dutydb answer / a zero TARGET_AGGREGATORS_PER_COMMITTEE make `Fetch` panic (`Res.panic`); the aggregate
attestation the beacon node answers is not checked against the root it was asked for
(`aggregate_is_for_decided_data_partial`); a cache hit ignores the definition set of the call.
-/
import CharonV.Proofs.Fetcher

namespace CharonV.Fetcher

/-! ## (1) what is handed to subscribers -/

/-- **Exactly one call per subscriber, in registration order; nothing on error.** In every reachable state, for every
`Fetch`: the subscribers called are `0, 1, …, m-1`, each once. If `Fetch` returns nil then `m` is the number of
subscribers — or nobody was called because the duty is an aggregator / sync contribution duty whose set came out
empty. If it returns a subscriber's error, that subscriber was the last one called (the later ones are not called).
On every other error and on a panic nobody was called. -/
theorem subscribers_called_once_in_order (cfg : Cfg) (ops : List Op) (env : Env) (subErr : Nat → Option Nat)
    (ty : DutyType) (slot : Nat) (defs : DefSet) :
    ∃ m, m ≤ cfg.nsubs ∧
      ((fetch cfg env subErr (run cfg St.init ops) ty slot defs).2.deliv.map (·.1)) = List.range' 0 m ∧
      ((fetch cfg env subErr (run cfg St.init ops) ty slot defs).2.res = .ok () →
          m = cfg.nsubs ∨ (m = 0 ∧ emptyReturns ty = true ∧ (prepare cfg env (run cfg St.init ops) ty slot defs).2.2 = .ok [])) ∧
      (∀ e, (fetch cfg env subErr (run cfg St.init ops) ty slot defs).2.res = .err (.sub e) → 0 < m ∧ subErr (m - 1) = some e) ∧
      (∀ e, (fetch cfg env subErr (run cfg St.init ops) ty slot defs).2.res = .err e → (∀ x, e ≠ .sub x) → m = 0) ∧
      ((fetch cfg env subErr (run cfg St.init ops) ty slot defs).2.res = .panic → m = 0) := by
  have hi : Inv cfg (run cfg St.init ops) := inv_run ops (inv_init cfg)
  have hf := fetch_spec env subErr ty slot defs hi
  generalize (fetch cfg env subErr (run cfg St.init ops) ty slot defs).2 = out at hf
  have hperr := prepare_err cfg env (run cfg St.init ops) ty slot defs
  generalize prepare cfg env (run cfg St.init ops) ty slot defs = p at hf hperr
  rcases p with ⟨s1, log, r⟩
  cases r with
  | err e =>
    obtain ⟨h1, h2⟩ := hf.err e rfl
    have hns : NotSub e := hperr e rfl
    refine ⟨0, Nat.zero_le _, (by simp [h2]), fun h => ?_, fun e' h => ?_, fun _ _ _ => rfl, fun _ => rfl⟩
    · rw [h1] at h; cases h
    · rw [h1] at h; cases h; exact absurd rfl (hns e')
  | panic =>
    obtain ⟨h1, h2⟩ := hf.panic rfl
    refine ⟨0, Nat.zero_le _, (by simp [h2]), fun h => ?_, fun e' h => ?_, fun _ _ _ => rfl, fun _ => rfl⟩
    · rw [h1] at h; cases h
    · rw [h1] at h; cases h
  | ok set =>
    by_cases hem : emptyReturns ty = true ∧ set = []
    · obtain ⟨h1, h2⟩ := hf.empty set rfl hem.1 hem.2
      refine ⟨0, Nat.zero_le _, (by simp [h2]), fun _ => Or.inr ⟨rfl, hem.1, (by rw [hem.2])⟩, fun e' h => ?_,
        fun _ _ _ => rfl, fun _ => rfl⟩
      rw [h1] at h; cases h
    · obtain ⟨m, hm, hd, g1, g2, g3, g4⟩ := hf.fanout set rfl hem
      have hmap : out.deliv.map (·.1) = List.range' 0 m := by
        rw [hd, List.map_map]
        exact List.map_id _
      refine ⟨m, hm, hmap, fun h => Or.inl (g1 h), g2, fun e he hne => ?_, fun hp => ?_⟩
      · rcases g4 with h | ⟨e', h⟩ | h
        · rw [h] at he; cases he
        · rw [h] at he; cases he; exact absurd rfl (hne e')
        · exact g3 h
      · rcases g4 with h | ⟨e', h⟩ | h <;> (rw [h] at hp; cases hp)


/-- **Every subscriber reads the same set — the one `Fetch` built — whatever earlier subscribers did to theirs.** In
every reachable state: every delivery of a `Fetch` reads exactly as the prepared set (fetched now, or taken from the
early-fetch cache) read before the fan-out began. A hostile subscriber scribbling over what it was handed does not
change what a later subscriber of the same `Fetch` is handed. -/
theorem every_subscriber_reads_the_same_set (cfg : Cfg) (ops : List Op) (env : Env) (subErr : Nat → Option Nat)
    (ty : DutyType) (slot : Nat) (defs : DefSet) (set : USet)
    (hset : (prepare cfg env (run cfg St.init ops) ty slot defs).2.2 = .ok set) :
    ∀ d ∈ (fetch cfg env subErr (run cfg St.init ops) ty slot defs).2.deliv,
      d.2 = observeSet (prepare cfg env (run cfg St.init ops) ty slot defs).1.heap set := by
  have hi : Inv cfg (run cfg St.init ops) := inv_run ops (inv_init cfg)
  have hf := fetch_spec env subErr ty slot defs hi
  intro d hd
  by_cases hem : emptyReturns ty = true ∧ set = []
  · rw [(hf.empty set hset hem.1 hem.2).2] at hd
    cases hd
  · obtain ⟨m, _, hdl, _⟩ := hf.fanout set hset hem
    rw [hdl] at hd
    obtain ⟨j, _, rfl⟩ := List.mem_map.mp hd
    rfl

/-- **Only validators of the definition set.** Without a pending early fetch for the slot (always, for every duty type
but attester), every key of every set handed to a subscriber is a pubkey of the definition set `Fetch` was called with. -/
theorem delivered_keys_in_definition_set (cfg : Cfg) (ops : List Op) (env : Env) (subErr : Nat → Option Nat)
    (ty : DutyType) (slot : Nat) (defs : DefSet)
    (hfresh : ty ≠ .attester ∨ clookup slot (run cfg St.init ops).cache = none) :
    ∀ d ∈ (fetch cfg env subErr (run cfg St.init ops) ty slot defs).2.deliv, ∀ q ∈ d.2.map (·.1), q ∈ defs.map (·.1) := by
  intro d hd q hq
  have hp := prepare_fresh cfg env (run cfg St.init ops) ty slot defs hfresh
  cases hr : (buildSet cfg env ty slot defs (LSt.start (run cfg St.init ops).next)).2 with
  | ok set =>
    have hset : (prepare cfg env (run cfg St.init ops) ty slot defs).2.2 = .ok set := by rw [hp]; exact hr
    rw [every_subscriber_reads_the_same_set cfg ops env subErr ty slot defs set hset d hd, keys_observeSet] at hq
    exact ((buildSet_good cfg env ty slot defs _).2 set hr).2 q hq
  | err e =>
    have hi : Inv cfg (run cfg St.init ops) := inv_run ops (inv_init cfg)
    have := (fetch_spec env subErr ty slot defs hi).err e (by rw [hp]; exact hr)
    rw [this.2] at hd; cases hd
  | panic =>
    have hi : Inv cfg (run cfg St.init ops) := inv_run ops (inv_init cfg)
    have := (fetch_spec env subErr ty slot defs hi).panic (by rw [hp]; exact hr)
    rw [this.2] at hd; cases hd

/-- **Attester and proposer duties: every validator of the definition set.** Without a pending early fetch, every
set handed to a subscriber for an attester or proposer duty has a value for EVERY pubkey of the definition set
(one failing validator fails the whole duty: `subscribers_called_once_in_order`). -/
theorem attester_and_proposer_deliver_every_validator (cfg : Cfg) (ops : List Op) (env : Env) (subErr : Nat → Option Nat)
    (ty : DutyType) (slot : Nat) (defs : DefSet) (hty : ty = .attester ∨ ty = .proposer)
    (hfresh : ty ≠ .attester ∨ clookup slot (run cfg St.init ops).cache = none) :
    ∀ d ∈ (fetch cfg env subErr (run cfg St.init ops) ty slot defs).2.deliv, ∀ p ∈ defs, p.1 ∈ d.2.map (·.1) := by
  intro d hd p hpd
  have hp := prepare_fresh cfg env (run cfg St.init ops) ty slot defs hfresh
  have hi : Inv cfg (run cfg St.init ops) := inv_run ops (inv_init cfg)
  cases hr : (buildSet cfg env ty slot defs (LSt.start (run cfg St.init ops).next)).2 with
  | ok set =>
    have hset : (prepare cfg env (run cfg St.init ops) ty slot defs).2.2 = .ok set := by rw [hp]; exact hr
    rw [every_subscriber_reads_the_same_set cfg ops env subErr ty slot defs set hset d hd, keys_observeSet]
    rcases hty with h | h <;> subst h
    · exact (loopG_all_keys (fun _ _ _ _ h => attOne_noskip h) defs _ [] set hr).2 p hpd
    · exact (loopG_all_keys (fun _ _ _ _ h => propOne_noskip h) defs _ [] set hr).2 p hpd
  | err e =>
    have := (fetch_spec env subErr ty slot defs hi).err e (by rw [hp]; exact hr)
    rw [this.2] at hd; cases hd
  | panic =>
    have := (fetch_spec env subErr ty slot defs hi).panic (by rw [hp]; exact hr)
    rw [this.2] at hd; cases hd

/-- **Aggregator duty: only validators whose selection proof says "aggregator".** Every validator that is handed an
aggregate has an attester definition (committee length `len`) in the set, the aggsigdb function answered a beacon
committee selection for it, and `IsAttAggregator` judged that selection's proof an aggregator's against the spec the
beacon node answered at that moment. (The converse — every selected validator is served — is part of
`fetch_order_independent`'s characterisation for beacon nodes that answer consistently.) -/
theorem aggregator_delivers_only_selected (cfg : Cfg) (ops : List Op) (env : Env) (subErr : Nat → Option Nat)
    (slot : Nat) (defs : DefSet) :
    ∀ d ∈ (fetch cfg env subErr (run cfg St.init ops) .aggregator slot defs).2.deliv, ∀ q ∈ d.2.map (·.1),
      ∃ ci len vi n sig h, (q, Def.att ci len vi) ∈ defs ∧ env.aggSig n .prepAgg slot q 0 = .data .sel sig h ∧
        isAttAgg env (n + 1) len h = .ok true := by
  intro d hd q hq
  have hp := prepare_fresh cfg env (run cfg St.init ops) .aggregator slot defs (Or.inl (by intro h; cases h))
  have hi : Inv cfg (run cfg St.init ops) := inv_run ops (inv_init cfg)
  cases hr : (buildSet cfg env .aggregator slot defs (LSt.start (run cfg St.init ops).next)).2 with
  | ok set =>
    have hset : (prepare cfg env (run cfg St.init ops) .aggregator slot defs).2.2 = .ok set := by rw [hp]; exact hr
    rw [every_subscriber_reads_the_same_set cfg ops env subErr _ slot defs set hset d hd, keys_observeSet] at hq
    obtain ⟨v, hv⟩ := mem_ukeys.mp hq
    obtain ⟨ci, len, vi, c, h1, _, _, n, sig, h, h2, h3⟩ := ((aggLoop_spec env slot defs _).2 set hr).vals (q, v) hv
    exact ⟨ci, len, vi, n, sig, h, h1, h2, h3⟩
  | err e =>
    have := (fetch_spec env subErr .aggregator slot defs hi).err e (by rw [hp]; exact hr)
    rw [this.2] at hd; cases hd
  | panic =>
    have := (fetch_spec env subErr .aggregator slot defs hi).panic (by rw [hp]; exact hr)
    rw [this.2] at hd; cases hd

/-- **What an early fetch stores is the whole answer for ITS definition set.** Whatever `FetchOnly` adds to the cache
is filed under its slot and has a value for every validator of the definition set `FetchOnly` was called with and for
nobody else; every other entry was there before. A later `Fetch` for the slot hands out exactly that set
(`every_subscriber_reads_the_same_set`) — it does not look at its own definition set:
`cache_hit_ignores_definitions_witness`. -/
theorem early_fetch_is_served_whole (cfg : Cfg) (env : Env) (s : St) (ty : DutyType) (slot : Nat) (defs : DefSet) (addr head : Nat) :
    ∀ p ∈ (fetchOnly cfg env s ty slot defs addr head).1.cache,
      p ∈ s.cache ∨ (p.1 = slot ∧ (∀ q ∈ ukeys p.2, q ∈ defs.map (·.1)) ∧ ∀ x ∈ defs, x.1 ∈ ukeys p.2) := by
  unfold fetchOnly
  cases ty with
  | attester =>
    dsimp only
    have hg := loopG_good (good_att s.next cfg env addr slot) defs (LSt.start s.next) [] (wf_start _)
      (fun c hc => by simp [setCells] at hc)
    have hall := loopG_all_keys (one := attOne cfg env addr slot) (fun _ _ _ _ h => attOne_noskip h) defs (LSt.start s.next) []
    generalize loopG (attOne cfg env addr slot) defs (LSt.start s.next) [] = r at hg hall
    have hold : ∀ p ∈ s.cache.filter (fun p => !(p.1 < slot)), p ∈ s.cache := fun p hp => (List.mem_filter.mp hp).1
    cases hres : r.2 with
    | err e => exact fun p hp => Or.inl (hold p hp)
    | panic => exact fun p hp => Or.inl (hold p hp)
    | ok set =>
      have hk1 : ∀ q ∈ ukeys set, q ∈ defs.map (·.1) := fun q hq => by
        rcases ((hg.2.2 set hres).2 q hq) with h | h
        · simp [ukeys] at h
        · exact h
      have hk2 := (hall set hres).2
      simp only []
      split
      · split
        · split
          · exact fun p hp => Or.inl (hold p hp)
          · intro p hp
            simp only [List.mem_cons] at hp
            rcases hp with hp | hp
            · subst hp
              refine Or.inr ⟨rfl, ?_, ?_⟩
              · intro q hq; simp only [cloneSet, ukeys_relabel] at hq; exact hk1 q hq
              · intro x hx; simp only [cloneSet, ukeys_relabel]; exact hk2 x hx
            · exact Or.inl (hold p (List.mem_filter.mp hp).1)
        · intro p hp
          simp only [List.mem_cons] at hp
          rcases hp with hp | hp
          · subst hp; exact Or.inr ⟨rfl, hk1, hk2⟩
          · exact Or.inl (hold p (List.mem_filter.mp hp).1)
      · exact fun p hp => Or.inl (hold p hp)
  | proposer => exact fun p hp => Or.inl hp
  | builderProposer => exact fun p hp => Or.inl hp
  | aggregator => exact fun p hp => Or.inl hp
  | syncContribution => exact fun p hp => Or.inl hp
  | other n => exact fun p hp => Or.inl hp

/-! ## (2) consistency -/

/-- **Two validators of the same committee are handed the same attestation data.** In every set an attester `Fetch`
(without a pending early fetch) hands out: two validators whose committee indices are asked as the same index — the
same `CommitteeIndex`, or any two indices from the Electra slot on with `fetchOnlyCommIdx0` — read the same datum (and
the same copied beacon block root): the code asks the beacon node once per index and uses that answer for all. -/
theorem attester_same_committee_same_data (cfg : Cfg) (ops : List Op) (env : Env) (subErr : Nat → Option Nat)
    (slot : Nat) (defs : DefSet) (hfresh : clookup slot (run cfg St.init ops).cache = none) :
    ∀ d ∈ (fetch cfg env subErr (run cfg St.init ops) .attester slot defs).2.deliv,
      ∀ pk1 pk2 x1 x2 r1 r2 d1 d2, (pk1, VObs.att x1 r1 d1) ∈ d.2 → (pk2, VObs.att x2 r2 d2) ∈ d.2 →
        effCi cfg slot d1.ci = effCi cfg slot d2.ci → x1 = x2 ∧ r1 = r2 := by
  intro d hd pk1 pk2 x1 x2 r1 r2 d1 d2 h1 h2 he
  have hp := prepare_fresh cfg env (run cfg St.init ops) .attester slot defs (Or.inr hfresh)
  have hi : Inv cfg (run cfg St.init ops) := inv_run ops (inv_init cfg)
  cases hr : (buildSet cfg env .attester slot defs (LSt.start (run cfg St.init ops).next)).2 with
  | ok set =>
    have hset : (prepare cfg env (run cfg St.init ops) .attester slot defs).2.2 = .ok set := by rw [hp]; exact hr
    rw [every_subscriber_reads_the_same_set cfg ops env subErr _ slot defs set hset d hd] at h1 h2
    obtain ⟨v1, hv1, ho1⟩ := mem_observeSet h1
    obtain ⟨v2, hv2, ho2⟩ := mem_observeSet h2
    have hI := (attLoop_spec cfg env 0 slot defs _).2 set hr
    obtain ⟨c1, q1, e1, hve1, hl1⟩ := hI.vals _ hv1
    obtain ⟨c2, q2, e2, hve2, hl2⟩ := hI.vals _ hv2
    simp only at hve1 hve2
    subst hve1 hve2
    simp only [observe, VObs.att.injEq] at ho1 ho2
    obtain ⟨rfl, rfl, rfl⟩ := ho1
    obtain ⟨rfl, rfl, rfl⟩ := ho2
    rw [he, hl2] at hl1
    cases hl1
    exact ⟨rfl, rfl⟩
  | err e =>
    have := (fetch_spec env subErr .attester slot defs hi).err e (by rw [hp]; exact hr)
    rw [this.2] at hd; cases hd
  | panic =>
    have := (fetch_spec env subErr .attester slot defs hi).panic (by rw [hp]; exact hr)
    rw [this.2] at hd; cases hd

/-- **At most one `AttestationData` query per committee index** — in `Fetch` and in `FetchOnly`, also when the call
fails half way: the committee indices asked are pairwise different; from the Electra slot on with `fetchOnlyCommIdx0`
the only index ever asked is 0 (so there is at most one query). -/
theorem attester_one_query_per_committee (cfg : Cfg) (env : Env) (addr slot : Nat) (defs : DefSet) (n : Nat) :
    (attCis (loopG (attOne cfg env addr slot) defs (LSt.start n) []).1.log).Nodup ∧
    (cfg.electraSlot ≤ slot → cfg.only0 = true →
      ∀ ci ∈ attCis (loopG (attOne cfg env addr slot) defs (LSt.start n) []).1.log, ci = 0) := by
  obtain ⟨h1, h2⟩ := (attLoop_spec cfg env addr slot defs n).1
  exact ⟨h1, fun he ho ci hci => h2 ci hci he ho⟩

/-- **Two aggregators of the same committee are handed the same aggregate.** -/
theorem aggregator_same_committee_same_data (cfg : Cfg) (ops : List Op) (env : Env) (subErr : Nat → Option Nat)
    (slot : Nat) (defs : DefSet) (hn : (defs.map (·.1)).Nodup) :
    ∀ d ∈ (fetch cfg env subErr (run cfg St.init ops) .aggregator slot defs).2.deliv,
      ∀ pk1 pk2 ci l1 v1 l2 v2 o1 o2, (pk1, Def.att ci l1 v1) ∈ defs → (pk2, Def.att ci l2 v2) ∈ defs →
        (pk1, o1) ∈ d.2 → (pk2, o2) ∈ d.2 → o1 = o2 := by
  intro d hd pk1 pk2 ci l1 v1 l2 v2 o1 o2 hd1 hd2 h1 h2
  have hp := prepare_fresh cfg env (run cfg St.init ops) .aggregator slot defs (Or.inl (by intro h; cases h))
  have hi : Inv cfg (run cfg St.init ops) := inv_run ops (inv_init cfg)
  cases hr : (buildSet cfg env .aggregator slot defs (LSt.start (run cfg St.init ops).next)).2 with
  | ok set =>
    have hset : (prepare cfg env (run cfg St.init ops) .aggregator slot defs).2.2 = .ok set := by rw [hp]; exact hr
    rw [every_subscriber_reads_the_same_set cfg ops env subErr _ slot defs set hset d hd] at h1 h2
    obtain ⟨u1, hu1, ho1⟩ := mem_observeSet h1
    obtain ⟨u2, hu2, ho2⟩ := mem_observeSet h2
    have hI := (aggLoop_spec env slot defs _).2 set hr
    obtain ⟨ci1, len1, vi1, c1, m1, e1, ⟨q1, k1⟩, _⟩ := hI.vals _ hu1
    obtain ⟨ci2, len2, vi2, c2, m2, e2, ⟨q2, k2⟩, _⟩ := hI.vals _ hu2
    simp only at m1 m2 e1 e2
    have a1 := def_unique hn hd1 m1
    have a2 := def_unique hn hd2 m2
    cases a1; cases a2
    rw [k1] at k2
    cases k2
    subst e1 e2
    rw [ho1, ho2]
  | err e =>
    have := (fetch_spec env subErr .aggregator slot defs hi).err e (by rw [hp]; exact hr)
    rw [this.2] at hd; cases hd
  | panic =>
    have := (fetch_spec env subErr .aggregator slot defs hi).panic (by rw [hp]; exact hr)
    rw [this.2] at hd; cases hd

/-- **The aggregate is asked for by the root of the attestation data decided earlier.** Every `AggregateAttestation`
query the code makes (also in calls that fail later) directly follows the `awaitAttDataFunc` query for the same slot
and committee, and asks for exactly the hash tree root of what that query returned; and there is at most one
`AggregateAttestation` query per committee index. -/
theorem aggregate_queried_for_decided_root (env : Env) (slot : Nat) (defs : DefSet) (n : Nat) :
    (∀ sl r ci rest, (Call.aggAtt sl r ci :: rest) <:+ (loopG (aggOne env slot) defs (LSt.start n) []).1.log →
      ∃ rest', rest = Call.await sl ci :: rest' ∧ env.await rest'.length sl ci = .ok r) ∧
    (aggCis (loopG (aggOne env slot) defs (LSt.start n) []).1.log).Nodup :=
  ⟨(aggLoop_spec env slot defs n).1.logok, (aggLoop_spec env slot defs n).1.nodup⟩

/-- the beacon node answers `AggregateAttestation` with an aggregate over the attestation data whose root it was asked for -/
def HonestAgg (env : Env) : Prop :=
  ∀ n sl root ci id droot bad, env.aggAtt n sl root ci = .ok id droot bad → droot = root

/-- **The aggregate handed out is over the decided attestation data — if the beacon node answers what it was asked.**
FULL STATEMENT (does not hold: `aggregate_for_other_data_witness`): every aggregate handed to a subscriber is over the
attestation data the duty store returned for its committee. The code asks by that data's root
(`aggregate_queried_for_decided_root`) and hands on whatever the node answers without comparing. Proved under the
hypothesis that the node's answer is over the data it was asked for. -/
theorem aggregate_is_for_decided_data_partial (env : Env) (hh : HonestAgg env) (slot : Nat) (defs : DefSet) (n : Nat) (h : Heap)
    (set : USet) (hs : (loopG (aggOne env slot) defs (LSt.start n) []).2 = .ok set) :
    ∀ p ∈ set, ∃ ci len vi c root p1, (p.1, Def.att ci len vi) ∈ defs ∧ p.2 = .agg c ∧ env.await p1 slot ci = .ok root ∧
      (applyWrites h (loopG (aggOne env slot) defs (LSt.start n) []).1.writes c).aux = root := by
  intro p hp
  have hI := (aggLoop_spec env slot defs n).2 set hs
  obtain ⟨ci, len, vi, c, m, e, ⟨r, k⟩, _⟩ := hI.vals p hp
  obtain ⟨root, id, droot, bad, p1, p2, a1, a2, a3⟩ := hI.dcw ci c r k
  refine ⟨ci, len, vi, c, root, p1, m, e, a1, ?_⟩
  rw [applyWrites_of_wlookup a3]
  exact hh p2 slot root ci id droot bad a2

/-- **At most one `SyncCommitteeContribution` query per (subcommittee, beacon block root)**, also in calls that fail. -/
theorem contribution_one_query_per_key (cfg : Cfg) (env : Env) (slot : Nat) (defs : DefSet) (n : Nat) :
    (conKeys (contribData cfg env slot defs (LSt.start n)).1.log).Nodup :=
  contribData_spec cfg env slot defs n

/-! ## (3) isolation (C18) -/

/-- **What subscribers hold is private memory.** In every reachable state: no memory cell was handed out twice — not
to two subscribers, not to one subscriber in two calls, not twice within one set — and no cell a subscriber holds is
part of a response object of the beacon node or of what the early-fetch cache keeps. (Values of the aggsigdb / dutydb
functions are only read: selection proofs are hashed, signatures and roots copied into arrays, attestation data
hashed — the model keeps no cell for them.) -/
theorem subscriber_memory_is_private (cfg : Cfg) (ops : List Op) :
    (heldCells (run cfg St.init ops)).Nodup ∧
    (∀ c ∈ heldCells (run cfg St.init ops), c ∉ (run cfg St.init ops).bn) ∧
    (∀ c ∈ heldCells (run cfg St.init ops), c ∉ cacheCells (run cfg St.init ops)) := by
  have hi : Inv cfg (run cfg St.init ops) := inv_run ops (inv_init cfg)
  exact ⟨hi.held_nodup, hi.held_bn, hi.held_cache⟩

/-- **Hostile subscribers cannot interfere.** For every op sequence, the results, the calls made and EVERYTHING handed
to every subscriber in every `Fetch` are the same as in the run in which no subscriber ever writes into what it was
handed: scribbling over a received set — inside the callback or at any later time — changes nothing that a later
subscriber or a later `Fetch` (also one served from the early-fetch cache) observes. -/
theorem hostile_subscribers_cannot_interfere (cfg : Cfg) (ops : List Op) :
    outs cfg St.init ops = outs { cfg with hostile := [] } St.init ops :=
  outs_sim ops (inv_init cfg)

/-- **What an honest subscriber was handed never changes.** Once a cell has been handed to a subscriber that does not
write into it itself, no later operation — of the fetcher, of the beacon node writing into its response objects, of
other (hostile) subscribers — changes its content. -/
theorem honest_subscriber_value_never_changes (cfg : Cfg) (ops later : List Op) (i : Nat) (hi : i ∉ cfg.hostile) (c : Cell)
    (hc : c ∈ heldBy (run cfg St.init ops) i) :
    (run cfg (run cfg St.init ops) later).heap c = (run cfg St.init ops).heap c :=
  (honest_run later (inv_run ops (inv_init cfg)) hi hc).2

/-- **With the candidate repair nobody but the fetcher can change what `Fetch` hands out.** For the variant with
fixes/C18-fetcher-early-cache-clone.diff (`cloneOnCache`): for every op sequence, all results, calls and deliveries are
the same as in the run in which the beacon node never writes into a response object it handed out (`outsQ true`: its
`bnScribble` steps do nothing) — together with `hostile_subscribers_cannot_interfere`: no holder of memory the fetcher
ever touched can influence a later `Fetch`. For the tree as it is this fails: `early_cache_shares_bn_response_witness`. -/
theorem beacon_node_cannot_interfere_fixed (cfg : Cfg) (hc : cfg.cloneOnCache = true) (ops : List Op) :
    outs cfg St.init ops = outsQ true cfg St.init ops :=
  outs_quiet hc ops (inv_init cfg)

/-! ## (4) determinism -/

/-- **The set handed over does not depend on the order in which Go visits the definition set.** For a beacon node
and stores whose answers depend on the question only (`Env.Stateless`) and a definition set with pairwise different
pubkeys (a Go map), for every duty type and any two orders `defs1 ~ defs2`: `Fetch` builds a set for the one iff it
builds one for the other (otherwise both fail — with possibly different errors: `error_depends_on_order_witness`),
and the two sets read the same for every validator. (With `every_subscriber_reads_the_same_set`: every subscriber is
handed the same content whatever the iteration order.) -/
theorem fetch_order_independent (cfg : Cfg) (env : Env) (hs : env.Stateless) (ty : DutyType) (slot : Nat)
    (defs1 defs2 : DefSet) (hp : defs1.Perm defs2) (hn : (defs1.map (·.1)).Nodup) (n : Nat) (h1 h2 : Heap) :
    ((∃ set, (buildSet cfg env ty slot defs1 (LSt.start n)).2 = .ok set) ↔
     (∃ set, (buildSet cfg env ty slot defs2 (LSt.start n)).2 = .ok set)) ∧
    ∀ set1 set2, (buildSet cfg env ty slot defs1 (LSt.start n)).2 = .ok set1 →
      (buildSet cfg env ty slot defs2 (LSt.start n)).2 = .ok set2 →
      ∀ pk, reads (applyWrites h1 (buildSet cfg env ty slot defs1 (LSt.start n)).1.writes) set1 pk =
            reads (applyWrites h2 (buildSet cfg env ty slot defs2 (LSt.start n)).1.writes) set2 pk :=
  buildSet_order_independent cfg env hs ty slot hp hn n h1 h2

/-! ## non-vacuity and witnesses -/

/-- a beacon node and stores that answer every question, the same way every time -/
private def envA : Env where
  spec _ := .ok ⟨some 16, some 512, some 4, some 16⟩
  attData _ _ _ ci := .ok (10 + ci) 7
  aggAtt _ _ root ci := .ok (20 + ci) root false
  proposal _ _ _ _ _ := .ok 30 false 0
  contrib _ _ sub _ := .ok (40 + sub) false
  aggSig _ k _ pk _ :=
    match k with
    | .prepAgg => .data .sel (100 + pk) (pk % 2)       -- validators with an even id are aggregators (32 / 16 = 2)
    | .randao => .data .randao (200 + pk) 0
    | .prepSync => .data .syncSel (300 + pk) 0
    | .syncMsg => .data .syncMsg (400 + pk) 5
  await _ _ ci := .ok (50 + ci)

private def cfgA : Cfg := ⟨2, [0], 100, false, true, [(1, 9)], some (fun _ => true), false⟩
private def noErr : Nat → Option Nat := fun _ => none
private def clean (id aux : Nat) : Content := ⟨id, aux, false, false⟩

/-- `subscribers_called_once_in_order`, `every_subscriber_reads_the_same_set`, `attester_same_committee_same_data`,
`attester_one_query_per_committee`: three validators, two committees, two subscribers of which the first scribbles:
two beacon node queries, both subscribers read the same three values, validators 1 and 2 the same datum. -/
example : (fetch cfgA envA noErr St.init .attester 9 [(1, .att 3 8 101), (2, .att 3 8 102), (3, .att 5 8 103)]).2 =
    ⟨.ok (), [.attData 0 9 5, .attData 0 9 3],
     [(0, [(3, .att (clean 15 7) 7 ⟨5, 8, 103⟩), (2, .att (clean 13 7) 7 ⟨3, 8, 102⟩), (1, .att (clean 13 7) 7 ⟨3, 8, 101⟩)]),
      (1, [(3, .att (clean 15 7) 7 ⟨5, 8, 103⟩), (2, .att (clean 13 7) 7 ⟨3, 8, 102⟩), (1, .att (clean 13 7) 7 ⟨3, 8, 101⟩)])]⟩ := by
  decide

/-- from the Electra slot on with `fetchOnlyCommIdx0`: one query, for index 0, whatever the committees -/
example : (fetch { cfgA with electraSlot := 9, only0 := true } envA noErr St.init .attester 9
      [(1, .att 3 8 101), (3, .att 5 8 103)]).2.log = [.attData 0 9 0] := by decide

/-- nothing is handed over on error: the second committee's query fails -/
example : (fetch cfgA { envA with attData := fun _ _ _ ci => if ci == 5 then .err 77 else .ok (10 + ci) 7 } noErr St.init
      .attester 9 [(1, .att 3 8 101), (3, .att 5 8 103)]).2 =
    ⟨.err (.bn 77), [.attData 0 9 5, .attData 0 9 3], []⟩ := by decide

/-- a subscriber's error stops the fan-out: subscriber 0 was called, subscriber 1 was not -/
example : ((fetch cfgA envA (fun i => if i == 0 then some 4 else none) St.init .proposer 9 [(1, .prop 101)]).2.res,
           (fetch cfgA envA (fun i => if i == 0 then some 4 else none) St.init .proposer 9 [(1, .prop 101)]).2.deliv.map (·.1)) =
    (.err (.sub 4), [0]) := by decide

/-- `aggregator_delivers_only_selected`, `aggregator_same_committee_same_data`, `aggregate_queried_for_decided_root`:
validators 2 and 4 are aggregators of committee 3 (one duty store query, one beacon node query for the decided root
53), validator 1 is not one; the proposer call carries the randao from the aggsigdb, the configured graffiti and the
maximal builder boost factor. -/
example : (fetch cfgA envA noErr St.init .aggregator 9 [(1, .att 3 32 101), (2, .att 3 32 102), (4, .att 3 32 104)]).2 =
    ⟨.ok (), [.spec, .aggSig .prepAgg 9 4 0, .aggAtt 9 53 3, .await 9 3, .spec, .aggSig .prepAgg 9 2 0, .spec, .aggSig .prepAgg 9 1 0],
     [(0, [(4, .agg (clean 23 53)), (2, .agg (clean 23 53))]), (1, [(4, .agg (clean 23 53)), (2, .agg (clean 23 53))])]⟩ ∧
    (fetch cfgA envA noErr St.init .proposer 9 [(1, .prop 101)]).2.log =
      [.fee 1, .proposal 9 201 9 1, .aggSig .randao 9 1 0] := by decide

/-- no aggregator in the slot: `Fetch` returns nil and calls nobody -/
example : (fetch cfgA envA noErr St.init .aggregator 9 [(1, .att 3 32 101)]).2 =
    ⟨.ok (), [.spec, .aggSig .prepAgg 9 1 0], []⟩ := by decide

/-- sync contributions: validator 1 sits in subcommittees 0 and 1, validator 2 in subcommittee 1; same block root: the
contribution of subcommittee 1 is fetched once and shared (`contribution_one_query_per_key`); plural encoding -/
example : ((fetch cfgA envA noErr St.init .syncContribution 9 [(1, .sync 101 [0, 130, 5]), (2, .sync 102 [129])]).2.deliv.head?,
           conKeys (fetch cfgA envA noErr St.init .syncContribution 9 [(1, .sync 101 [0, 130, 5]), (2, .sync 102 [129])]).2.log) =
    (some (0, [(2, .contribs [clean 41 0]), (1, .contribs [clean 40 0, clean 41 0])]), [(1, 5), (0, 5)]) := by decide

/-- ... and the single-contribution encoding when the plural one is not enabled: the lowest aggregated subcommittee -/
example : (fetch { cfgA with v2 := none } envA noErr St.init .syncContribution 9 [(1, .sync 101 [130, 0])]).2.deliv.head? =
    some (0, [(1, .contrib (clean 40 0))]) := by decide

/-- the no-op duty types and the deprecated one -/
example : ((fetch cfgA envA noErr St.init (.other 7) 9 [(1, .att 3 8 101)]).2.res,
           (fetch cfgA envA noErr St.init .builderProposer 9 [(1, .prop 101)]).2.res) =
    (.err .unsupported, .err .deprecated) := by decide

/-- **The code as it is: the early-fetch cache shares memory with the beacon node's response objects.** The negation
of "nobody but the fetcher can change what `Fetch` hands out": `FetchOnly`, then the beacon client writes into the
response object it returned, then the scheduled `Fetch` — served from the cache — hands every subscriber the written
content. With the candidate repair (`cloneOnCache`) it hands out what the node answered. -/
theorem early_cache_shares_bn_response_witness :
    (outs cfgA St.init [.fetchOnly envA .attester 9 [(1, .att 3 8 101)] 1 7, .bnScribble,
        .fetch envA noErr .attester 9 [(1, .att 3 8 101)]]).map (·.deliv) =
      [[], [], [(0, [(1, .att ⟨13, 7, false, true⟩ 7 ⟨3, 8, 101⟩)]), (1, [(1, .att ⟨13, 7, false, true⟩ 7 ⟨3, 8, 101⟩)])]] ∧
    (outs { cfgA with cloneOnCache := true } St.init [.fetchOnly envA .attester 9 [(1, .att 3 8 101)] 1 7, .bnScribble,
        .fetch envA noErr .attester 9 [(1, .att 3 8 101)]]).map (·.deliv) =
      [[], [], [(0, [(1, .att (clean 13 7) 7 ⟨3, 8, 101⟩)]), (1, [(1, .att (clean 13 7) 7 ⟨3, 8, 101⟩)])]] := by
  decide

/-- **A cache hit ignores the definition set of the call**: the early fetch was for validator 1, the scheduled `Fetch`
is called with validator 2 — and hands out validator 1's data without asking anybody (in production both calls get the
scheduler's definition set for the slot; `HandleChainReorg` clears the cache). An early fetch whose data does not vote
for the head event's root is not cached: the second `Fetch` asks the beacon node. -/
theorem cache_hit_ignores_definitions_witness :
    (outs { cfgA with nsubs := 1 } St.init [.fetchOnly envA .attester 9 [(1, .att 3 8 101)] 1 7,
        .fetch envA noErr .attester 9 [(2, .att 4 8 102)]]) =
      [⟨.ok (), [.attData 1 9 3], []⟩, ⟨.ok (), [], [(0, [(1, .att (clean 13 7) 7 ⟨3, 8, 101⟩)])]⟩] ∧
    (outs { cfgA with nsubs := 1 } St.init [.fetchOnly envA .attester 9 [(1, .att 3 8 101)] 1 8,
        .fetch envA noErr .attester 9 [(2, .att 4 8 102)]]) =
      [⟨.ok (), [.attData 1 9 3], []⟩, ⟨.ok (), [.attData 0 9 4], [(0, [(2, .att (clean 14 7) 7 ⟨4, 8, 102⟩)])]⟩] := by
  decide

/-- **The beacon node's aggregate is not checked**: asked for the root 53 of the decided data, the node answers an
aggregate over other data (root 99) and that is what the subscribers are handed — the negation of the full statement
of `aggregate_is_for_decided_data`. -/
theorem aggregate_for_other_data_witness :
    (fetch cfgA { envA with aggAtt := fun _ _ _ ci => .ok (20 + ci) 99 false } noErr St.init .aggregator 9 [(2, .att 3 32 102)]).2 =
    ⟨.ok (), [.aggAtt 9 53 3, .await 9 3, .spec, .aggSig .prepAgg 9 2 0],
     [(0, [(2, .agg (clean 23 99))]), (1, [(2, .agg (clean 23 99))])]⟩ := by decide

/-- **Which error is returned depends on the iteration order** (whether one is returned does not:
`fetch_order_independent`): validator 1's committee fails at the beacon node, validator 2 has the wrong kind of
definition. -/
theorem error_depends_on_order_witness :
    (buildSet cfgA { envA with attData := fun _ _ _ _ => .err 77 } .attester 9 [(1, .att 3 8 101), (2, .prop 102)] (LSt.start 0)).2
      = .err (.bn 77) ∧
    (buildSet cfgA { envA with attData := fun _ _ _ _ => .err 77 } .attester 9 [(2, .prop 102), (1, .att 3 8 101)] (LSt.start 0)).2
      = .err .invalidAttDef := by decide

/-- `fetch_order_independent` is not vacuous: `envA` is stateless -/
example : envA.Stateless := ⟨fun _ _ => rfl, fun _ _ => rfl, fun _ _ => rfl, fun _ _ => rfl, fun _ _ => rfl, fun _ _ => rfl, fun _ _ => rfl⟩

/-- `hostile_subscribers_cannot_interfere`, `honest_subscriber_value_never_changes`: subscriber 0 scribbles inside the
callback and again later; what subscriber 1 holds (cell 3) still reads what it was handed -/
example : (run cfgA St.init [.fetch envA noErr .attester 9 [(1, .att 3 8 101)], .subScribble 0, .bnScribble]).heap 2 = clean 13 7 ∧
          (run cfgA St.init [.fetch envA noErr .attester 9 [(1, .att 3 8 101)], .subScribble 0, .bnScribble]).held = [(1, [2]), (0, [1])] ∧
          (run cfgA St.init [.fetch envA noErr .attester 9 [(1, .att 3 8 101)], .subScribble 0, .bnScribble]).heap 1 = ⟨13, 7, false, true⟩ := by
  decide

/-- the panics of the code as it is: a nil proposal, a nil randao from the aggsigdb, a nil answer of the duty store, a
zero TARGET_AGGREGATORS_PER_COMMITTEE -/
example : ((fetch cfgA { envA with proposal := fun _ _ _ _ _ => .nil } noErr St.init .proposer 9 [(1, .prop 101)]).2.res,
           (fetch cfgA { envA with aggSig := fun _ _ _ _ _ => .nil } noErr St.init .proposer 9 [(1, .prop 101)]).2.res,
           (fetch cfgA { envA with await := fun _ _ _ => .nil } noErr St.init .aggregator 9 [(2, .att 3 32 102)]).2.res,
           (fetch cfgA { envA with spec := fun _ => .ok ⟨some 0, none, none, none⟩ } noErr St.init .aggregator 9 [(2, .att 3 32 102)]).2.res) =
    (.panic, .panic, .panic, .panic) := by decide

end CharonV.Fetcher
