/-
C14, extension `Priority`: the priority protocol's calculation is a function of the SET of messages, admits only
supported priorities in a canonical order, and malformed input never reaches it except as documented below.
Model `Model/Priority.lean` (core/priority/calculate.go, prioritiser.go, component.go newMsgVerifier, p2p/receive.go);
helper lemmas `Proofs/Priority.lean`. Only property theorems here.

FINDING (full statement that does NOT hold for the code as it is):
  "for every run of an instance in which every ADMITTED request is authenticated, `runInstance` proposes a result"
  fails: `handleRequest` authenticates the sender but does not look at the content; a cluster member's signed message with
  a duplicate topic / duplicate priority / >= 1000 priorities (or unknown fields inside its Duty) is appended to `msgs`, and
  `calculateResult` then fails for the whole list: the instance returns an error and proposes nothing
  (`malformed_msg_aborts_instance_witness`; `instance_proposes_partial` needs the hypothesis that admitted contents are valid).
-/
import CharonV.Proofs.Priority

namespace CharonV.Priority

/-! ## 1. calculateResult -/

/-- `validateMsgs` accepts exactly: non-empty, one common duty, pairwise different peers, per message pairwise
different topics, per topic fewer than 1000 pairwise different priorities (messages with a duty). -/
theorem validate_accepts_iff (msgs : List Msg) (hduty : ∀ m ∈ msgs, m.duty ≠ none) :
    validateMsgs msgs = none ↔
      msgs ≠ [] ∧ (∃ d, ∀ m ∈ msgs, m.duty = some d) ∧ (msgs.map (·.peer)).Nodup ∧
      ∀ m ∈ msgs, (m.topics.map (·.topic)).Nodup ∧ ∀ t ∈ m.topics, t.prios.length < 1000 ∧ t.prios.Nodup :=
  validateMsgs_none_iff msgs hduty

example : validateMsgs [⟨some 1, 5, [⟨7, [1, 2]⟩]⟩, ⟨some 1, 3, []⟩] = none := by decide
example : validateMsgs [⟨some 1, 5, [⟨7, [1, 1]⟩]⟩] = some .dupPrio := by decide

/-- the verdict does not depend on the arrival order. -/
theorem validate_order_independent {l₁ l₂ : List Msg} (hp : l₁.Perm l₂) (hduty : ∀ m ∈ l₁, m.duty ≠ none) :
    (validateMsgs l₁ = none ↔ validateMsgs l₂ = none) := by
  have hduty₂ : ∀ m ∈ l₂, m.duty ≠ none := fun m hm => hduty m (hp.mem_iff.2 hm)
  rw [validateMsgs_none_iff l₁ hduty, validateMsgs_none_iff l₂ hduty₂]
  exact ⟨Valid.perm hp, Valid.perm hp.symm⟩

example : validateMsgs [⟨some 1, 5, []⟩, ⟨some 2, 3, []⟩] = some .mismatch ∧
    validateMsgs [⟨some 2, 3, []⟩, ⟨some 1, 5, []⟩] = some .mismatch := by decide

/-- WITNESS (pure-function wart, unreachable through the verifier which rejects nil duties): with a nil duty in the list
the verdict DOES depend on the order - a leading nil duty is skipped, a later one is a mismatch. -/
theorem validate_nil_duty_order_witness :
    validateMsgs [⟨none, 1, []⟩, ⟨some 7, 2, []⟩] = none ∧
    validateMsgs [⟨some 7, 2, []⟩, ⟨none, 1, []⟩] = some .mismatch := by decide

/-- MAIN: the cluster-wide priorities (`Topics`) and the verdict are the same for every arrival order of the same
messages; together with `sort_input_any_sort` / `topic_order_any_map_order` also for every result of the unstable
`slices.SortFunc` and every iteration order of the Go map. -/
theorem calculate_topics_order_independent {l₁ l₂ : List Msg} (hp : l₁.Perm l₂)
    (hduty : ∀ m ∈ l₁, m.duty ≠ none) (minRequired : Int) :
    (calculateResult l₁ minRequired).toOption.map (·.topics) = (calculateResult l₂ minRequired).toOption.map (·.topics) := by
  have hv := validate_order_independent hp hduty
  unfold calculateResult
  cases h1 : validateMsgs l₁ with
  | some e =>
    cases h2 : validateMsgs l₂ with
    | some e' => rfl
    | none => rw [hv.2 h2] at h1; cases h1
  | none =>
    rw [hv.1 h1]
    have hn : (l₁.map (·.peer)).Nodup := ((validateMsgs_none_iff l₁ hduty).1 h1).2.2.1
    simp only [Except.toOption, Option.map, sortInput]
    rw [sortBy_eq_of_perm (·.peer) hp hn]

example : (calculateResult [⟨some 1, 5, [⟨7, [1, 2]⟩]⟩, ⟨some 1, 3, [⟨7, [2, 1]⟩]⟩] 2).toOption.map (·.topics)
    = some [⟨7, [(2, 1999), (1, 1999)]⟩] := by decide

/-- whatever (correct) sort `slices.SortFunc` performs on validated input, it returns `sortInput`. -/
theorem sort_input_any_sort {msgs s : List Msg} (hduty : ∀ m ∈ msgs, m.duty ≠ none) (hv : validateMsgs msgs = none)
    (hp : s.Perm msgs) (hs : s.Pairwise (fun a b => a.peer ≤ b.peer)) : s = sortInput msgs :=
  sorted_perm_eq_sortBy (fun m : Msg => m.peer) hp hs ((validateMsgs_none_iff msgs hduty).1 hv).2.2.1

/-- whatever order the Go map `proposalsByTopic` is ranged in, `orderTopicResults` returns the same list. -/
theorem topic_order_any_map_order (sorted : List Msg) {keys : List Nat} (hp : keys.Perm (topicKeys sorted)) :
    sortBy id keys = sortBy id (topicKeys sorted) := by
  apply sortBy_eq_of_perm id hp
  rw [List.map_id]
  exact (hp.nodup_iff).2 (dedup_nodup _)

/-- `Msgs` of the result is the input slice as given: the full `PriorityResult` (and its consensus hash) differs
between nodes that received the same messages in different orders - each node has its own message first. QBFT decides
the leader's value, every subscriber reads `Topics` only. -/
theorem calculate_msgs_is_input (msgs : List Msg) (m : Int) (r : Result) (h : calculateResult msgs m = .ok r) :
    r.msgs = msgs := by
  unfold calculateResult at h
  cases hv : validateMsgs msgs with
  | some e => rw [hv] at h; cases h
  | none => rw [hv] at h; cases h; rfl

theorem calculate_msgs_echo_order_witness :
    (calculateResult [⟨some 1, 5, []⟩, ⟨some 1, 3, []⟩] 1).toOption.map (·.msgs) ≠
    (calculateResult [⟨some 1, 3, []⟩, ⟨some 1, 5, []⟩] 1).toOption.map (·.msgs) := by decide

/-- topics come out strictly ascending by hash, each once. -/
theorem topics_strictly_ascending (msgs : List Msg) (m : Int) (r : Result) (h : calculateResult msgs m = .ok r) :
    (r.topics.map (·.topic)).Pairwise (fun a b => a < b) := by
  unfold calculateResult at h
  cases hv : validateMsgs msgs with
  | some e => rw [hv] at h; cases h
  | none =>
    rw [hv] at h; cases h
    have : (topicsOf (sortInput msgs) m).map (·.topic) = sortBy id (topicKeys (sortInput msgs)) := by
      simp [topicsOf, List.map_map, Function.comp_def, topicResult]
    rw [this]
    have hs : (sortBy id (topicKeys (sortInput msgs))).Pairwise (fun a b => a ≤ b) := sortBy_sorted id _
    exact strict_of_sorted_nodup hs ((sortBy_perm id _).nodup_iff.2 (dedup_nodup _))

/-- scores are non-increasing inside every topic result. -/
theorem scores_descending (sorted : List Msg) (m : Int) (k : Nat) :
    (topicResult sorted m k).prios.Pairwise (fun a b => a.2 ≥ b.2) :=
  (sortDesc_sorted _).filter _

/-- only supported priorities appear: every entry scored more than `(minRequired-1)*1000`, its score is the sum of
`1000 - position` over the proposals of that topic listing it, and at least `minRequired` proposals (one per peer, since
a peer may not repeat a topic) list it. -/
theorem result_entry_supported (sorted : List Msg) (m : Int) (k p : Nat) (s : Int)
    (hn : ∀ pr ∈ proposalsFor sorted k, pr.Nodup) (h : (p, s) ∈ (topicResult sorted m k).prios) :
    s > minScore m ∧ m ≤ (listing p (proposalsFor sorted k) : Nat) :=
  ⟨(topicResult_entry sorted m k p s hn h).1, (topicResult_entry sorted m k p s hn h).2.2⟩

example : (topicResult [⟨some 1, 3, [⟨7, [2, 1]⟩]⟩, ⟨some 1, 5, [⟨7, [1, 9]⟩]⟩] 2 7).prios = [(1, 1999)] := by decide

/- REMARK (not a theorem here: the smallest witness needs lists of several hundred priorities): support is necessary, not
sufficient. The comment "equivalent to ordering by count then by priority" is not exact: a priority listed by all of
minRequired = 3 peers at position 400 scores 3 * 600 = 1800 <= minScore = 2000 and is dropped. -/

/-- totality at the edges: no messages is an error, messages without topics give an empty result, a topic without
priorities gives an empty topic result - no index is taken anywhere. -/
theorem calculate_edges (m : Int) :
    calculateResult [] m = .error .empty ∧
    (calculateResult [⟨some 1, 5, []⟩] m).toOption.map (·.topics) = some [] ∧
    (calculateResult [⟨some 1, 5, [⟨7, []⟩]⟩] m).toOption.map (·.topics) = some [⟨7, []⟩] := by
  refine ⟨rfl, rfl, rfl⟩

/-! ## 2. admission of peer requests -/

/-- a rejected request leaves the instance untouched. -/
theorem reject_leaves_state (c : Cfg) (i : Inst) (sender : Nat) (w : Option Wire) (e : HErr)
    (h : (onRequest c i sender w).2 = .err e) : (onRequest c i sender w).1 = i := by
  unfold onRequest at *
  cases ha : admission c sender w with
  | reject e' => simp [ha]
  | enqueue d =>
    cases w with
    | none => simp [ha]
    | some w =>
      simp only [ha] at h ⊢
      split
      · rfl
      · rename_i hc; simp [hc] at h

/-- an answered request is well-formed: sent by the peer it names, a cluster member, signed by that member's key over
this message, for this instance's duty, inside the gater's and the deadliner's window. -/
theorem answered_request_wellformed (c : Cfg) (i : Inst) (sender : Nat) (w : Option Wire)
    (h : (onRequest c i sender w).2 = .own) :
    ∃ x, w = some x ∧ x.msg.peer = sender ∧ sender ∈ c.cluster ∧ x.sig = .by sender ∧
      x.msg.duty = some i.duty ∧ i.duty ≤ c.gateMax ∧ c.expBelow ≤ i.duty := by
  unfold onRequest at h
  cases w with
  | none => simp [admission] at h
  | some x =>
    refine ⟨x, rfl, ?_⟩
    cases ha : admission c sender (some x) with
    | reject e => simp [ha] at h
    | enqueue d =>
      simp only [ha] at h
      have hd : ¬ (d ≠ i.duty ∨ i.aborted.isSome = true) := by
        intro hc; simp [hc] at h
      have hd' : d = i.duty := by
        apply Classical.byContradiction; intro hne; exact hd (Or.inl hne)
      unfold admission at ha
      simp only [] at ha
      by_cases hs : sender ≠ x.msg.peer
      · simp [hs] at ha
      · have hs' : sender = x.msg.peer := Classical.byContradiction hs
        simp only [hs, if_false] at ha
        cases hv : verifyMsg c.cluster x with
        | some e => simp [hv] at ha
        | none =>
          simp only [hv] at ha
          cases hdu : x.msg.duty with
          | none => simp [hdu] at ha
          | some d' =>
            simp only [hdu] at ha
            by_cases hg : d' > c.gateMax
            · simp [hg] at ha
            · simp only [hg, if_false] at ha
              by_cases he : d' < c.expBelow
              · simp [he] at ha
              · simp only [he, if_false] at ha
                cases ha
                unfold verifyMsg at hv
                simp only [hdu] at hv
                by_cases hm : x.msg.peer ∉ c.cluster
                · simp [hm] at hv
                · have hm' : x.msg.peer ∈ c.cluster := Classical.byContradiction hm
                  cases hsig : x.sig with
                  | missing => simp [hm', hsig] at hv
                  | malformed => simp [hm', hsig] at hv
                  | other => simp [hm', hsig] at hv
                  | «by» p =>
                    simp [hm', hsig] at hv
                    refine ⟨hs'.symm, hs' ▸ hm', by rw [hv, hs'], by rw [hd'], by omega, by omega⟩

example : (onRequest ⟨[1, 2, 3], 2, 20, 5⟩ (Inst.start 10 ⟨some 10, 1, []⟩) 2 (some ⟨⟨some 10, 2, []⟩, .by 2⟩)).2 = .own := by
  decide

/-- messages in `msgs` beyond the own one only ever come from answered requests. -/
theorem msgs_grow_only_by_answered (c : Cfg) (i : Inst) (sender : Nat) (w : Option Wire) :
    (onRequest c i sender w).1.msgs = i.msgs ∨
    ∃ x, w = some x ∧ (onRequest c i sender w).2 = .own ∧ (onRequest c i sender w).1.msgs = i.msgs ++ [x.msg] := by
  unfold onRequest
  cases ha : admission c sender w with
  | reject e => left; rfl
  | enqueue d =>
    cases w with
    | none => left; rfl
    | some x =>
      simp only []
      split
      · left; rfl
      · unfold maybeStart addMsg
        by_cases hm : x.msg.peer ∈ i.dedup
        · left; simp only [hm, if_true]; split <;> (try split) <;> rfl
        · right; refine ⟨x, rfl, rfl, ?_⟩
          simp only [hm, if_false]; split <;> (try split) <;> rfl

/-- FINDING witness: cluster {1,2}, own = peer 1; peer 2 sends a correctly signed message whose topic 7 lists priority 4
twice. It is admitted and answered, the list is complete, `calculateResult` fails with `duplicate priority`: the
instance returns that error and proposes nothing. -/
theorem malformed_msg_aborts_instance_witness :
    let c : Cfg := ⟨[1, 2], 2, 20, 5⟩
    let r := onRequest c (Inst.start 10 ⟨some 10, 1, [⟨7, [4]⟩]⟩) 2 (some ⟨⟨some 10, 2, [⟨7, [4, 4]⟩]⟩, .by 2⟩)
    r.2 = .own ∧ r.1.aborted = some .dupPrio ∧ r.1.proposed = none := by decide

/-- partial: when the complete list is valid (in particular: every admitted content is structurally valid), the
instance proposes the calculated result. -/
theorem instance_proposes_partial (c : Cfg) (i : Inst) (hs : i.started = false)
    (hl : i.msgs.length = c.cluster.length) (hv : validateMsgs i.msgs = none) :
    (maybeStart c i).aborted = i.aborted ∧
    (maybeStart c i).proposed = some ⟨i.msgs, topicsOf (sortInput i.msgs) c.minRequired⟩ := by
  unfold maybeStart calculateResult
  simp [hs, hl, hv]

/-! ## 3. p2p/receive.go -/

/-- the handler function runs iff a complete frame within the limit arrived whose payload decodes into the registered
type and passes protonil; a handler error or `false` writes nothing. -/
theorem recv_called_iff (limit : Nat) (stream : List Nat) (decodes nilOk : List Nat → Bool) (h : HandlerOut) :
    (recvStream limit stream decodes nilOk h).called = true ↔
      ∃ b, readFrame limit stream = .payload b ∧ decodes b = true ∧ nilOk b = true := by
  unfold recvStream
  cases hr : readFrame limit stream with
  | payload b =>
    by_cases hd : (decodes b && nilOk b) = true
    · simp only [hd, if_true]
      have := Bool.and_eq_true_iff.1 hd
      cases h <;> simp [this.1, this.2]
    · simp only [hd]
      constructor
      · intro h'; cases h'
      · rintro ⟨b', hb, h1, h2⟩; cases hb; simp [h1, h2] at hd
  | varintErr => simp
  | tooLarge => simp
  | short => simp

theorem recv_written_iff (limit : Nat) (stream : List Nat) (decodes nilOk : List Nat → Bool) (h : HandlerOut) :
    (recvStream limit stream decodes nilOk h).written = true ↔
      (recvStream limit stream decodes nilOk h).called = true ∧ h = .resp := by
  unfold recvStream
  cases readFrame limit stream <;> (try simp)
  split <;> cases h <;> simp

/-- an oversized or truncated frame never reaches the handler, whatever follows the length prefix. -/
theorem recv_oversized_or_truncated_dropped (limit len : Nat) (stream rest : List Nat)
    (decodes nilOk : List Nat → Bool) (h : HandlerOut)
    (hv : readUvarint 0 0 stream = some (len, rest)) (hbad : len > limit ∨ rest.length < len) :
    recvStream limit stream decodes nilOk h = ⟨false, false⟩ := by
  unfold recvStream readFrame
  rw [hv]
  rcases hbad with hb | hb
  · simp [hb]
  · by_cases hl : len > limit
    · simp [hl]
    · simp [hl, hb]

example : recvStream 48 [2, 10, 0] (fun _ => true) (fun _ => true) .resp = ⟨true, true⟩ := by decide
example : recvStream 48 [49, 10, 0] (fun _ => true) (fun _ => true) .resp = ⟨false, false⟩ := by decide
example : recvStream 48 [3, 10, 0] (fun _ => true) (fun _ => true) .resp = ⟨false, false⟩ := by decide

end CharonV.Priority
