/-
C13 — DKG reliable broadcast (`dkg/bcast`): a payload reaches the application only if every
cluster member signed exactly that payload for that message id in that session; agreement on
(sender, id).

Property theorems only; model in `CharonV.Model.Bcast`, lemmas/invariants in
`CharonV.Proofs.Bcast`. All theorems quantify over: any peer list (any cluster size), any
application environment `E` (CheckMessage, unmarshalling, callbacks), any set of dishonest keys
(`honest p = false`), and any finite event sequence `evs` from the initial state — registrations,
`Broadcast` calls, signature requests and messages in any order with any transport identity, any
payloads (equivocation), any signature lists (subsets, permutations, substitutions, replays from
other ids), and signatures made by the same keys in other sessions (`Ev.foreign`).

Hypotheses are explicit and never axioms:
* `hinj : Function.Injective C.hash` — collision resistance of SHA-256 (idealised);
* `admRun … = true` — per event (see `admissible`): authenticated transport + honest-client
  behaviour for events carrying an honest member's identity, unforgeability of honest keys'
  signatures, and "other sessions have another session hash".
The hash *input encoding* carries no hypothesis: `hash_input_injective` is proved.
-/
import CharonV.Proofs.Bcast

namespace CharonV.Bcast

set_option linter.unusedSectionVars false

/-- **The length-prefixed hash input is unambiguous**: `newHashAny` feeds SHA-256 with
`len64(session)‖session‖len64(id)‖id‖len64(typeUrl)‖typeUrl‖len64(value)‖value`; two inputs
with the same byte string agree on all four fields. (Field lengths are Go `int`s, below 2^64:
built into `Bytes`.) -/
theorem hash_input_injective {a b : HashIn} (h : encode a = encode b) : a = b :=
  encode_inj h

section
variable {Digest Sig : Type} [DecidableEq Digest] [DecidableEq Sig]
variable (C : Crypto Digest Sig) (E : Env) (cfg : Cfg) (honest : Peer → Bool)

/-- **Delivery implies everybody signed exactly this.** If the application callback was invoked
at any member (accepted or not) for `(id, P)`, then every honest cluster member `k` — the
receiver included, see `deliver_receiver_signed` — produced a signature whose hash input is
exactly `(this session, id, P.typeUrl, P.value)`, and it did so inside this session: either by
accepting a signature request (`via = req q`) or as the broadcasting client (`via = client`).
Holds for any number of dishonest members and any manipulation of the signature list. -/
theorem deliver_all_signed (hinj : Function.Injective C.hash) (evs : List (Ev Sig))
    (ha : admRun C E cfg honest {} evs = true)
    (d : Delivery) (hd : d ∈ (run C E cfg {} evs).delivered)
    (k : Peer) (hk : k ∈ cfg.peers) (hh : honest k = true) :
    ∃ via, via ≠ .foreign ∧
      (⟨k, ⟨cfg.session, d.id, d.payload.typeUrl, d.payload.value⟩, via⟩ : SignRec)
        ∈ (run C E cfg {} evs).signed :=
  (reach_inv C E cfg honest hinj evs ha).2.delivSigned d hd k hk hh

/-- … the receiver included. -/
theorem deliver_receiver_signed (hinj : Function.Injective C.hash) (evs : List (Ev Sig))
    (ha : admRun C E cfg honest {} evs = true)
    (d : Delivery) (hd : d ∈ (run C E cfg {} evs).delivered)
    (hk : d.at_ ∈ cfg.peers) (hh : honest d.at_ = true) :
    ∃ via, via ≠ .foreign ∧
      (⟨d.at_, ⟨cfg.session, d.id, d.payload.typeUrl, d.payload.value⟩, via⟩ : SignRec)
        ∈ (run C E cfg {} evs).signed :=
  deliver_all_signed C E cfg honest hinj evs ha d hd d.at_ hk hh

/-- **What the signature log means** (every event sequence, no assumption): a signature recorded
as given to requester `q` is in the signer's dedup table under `(q, id)`, and one recorded as a
client signature belongs to a `Broadcast(id, P)` call of the signer; both are for this session. -/
theorem signature_provenance (evs : List (Ev Sig)) (r : SignRec)
    (hr : r ∈ (run C E cfg {} evs).signed) :
    (∀ q, r.via = .req q → r.hin.session = cfg.session ∧
      dget ((run C E cfg {} evs).mem r.signer).dedup (q, r.hin.id) = some (C.hash (encode r.hin))) ∧
    (r.via = .client → r.hin.session = cfg.session ∧
      (r.signer, r.hin.id, payloadOf r.hin) ∈ (run C E cfg {} evs).started) :=
  have hi := invA_run C E cfg {} evs (invA_init C E cfg)
  ⟨hi.reqDedup r hr, hi.clientStarted r hr⟩

/-- **One hash per (requester, id)**: whatever happens (every event sequence, no assumption), a
member never signs two different hashes for the same requester and message id. -/
theorem one_hash_per_requester (evs : List (Ev Sig)) (r1 r2 : SignRec) (q : Peer)
    (h1 : r1 ∈ (run C E cfg {} evs).signed) (h2 : r2 ∈ (run C E cfg {} evs).signed)
    (hs : r1.signer = r2.signer) (hq1 : r1.via = .req q) (hq2 : r2.via = .req q)
    (hid : r1.hin.id = r2.hin.id) :
    C.hash (encode r1.hin) = C.hash (encode r2.hin) := by
  have hi := invA_run C E cfg {} evs (invA_init C E cfg)
  have a := (hi.reqDedup r1 h1 q hq1).2
  have b := (hi.reqDedup r2 h2 q hq2).2
  rw [hs, hid] at a
  rw [a] at b
  exact Option.some.inj b

/-- … hence, with collision resistance, at most one payload per (requester, id). -/
theorem one_payload_per_requester (hinj : Function.Injective C.hash) (evs : List (Ev Sig))
    (r1 r2 : SignRec) (q : Peer)
    (h1 : r1 ∈ (run C E cfg {} evs).signed) (h2 : r2 ∈ (run C E cfg {} evs).signed)
    (hs : r1.signer = r2.signer) (hq1 : r1.via = .req q) (hq2 : r2.via = .req q)
    (hid : r1.hin.id = r2.hin.id) : r1.hin = r2.hin :=
  encode_inj (hinj (one_hash_per_requester C E cfg evs r1 r2 q h1 h2 hs hq1 hq2 hid))

/-- **Overlapping requests, one signature.** The handler's check-and-record (`dedupHash` under
`s.mu`) is one atomic step of the model, so two overlapping signature requests of one requester
for one id are some interleaving of two atomic `sigReq` steps, possibly with any other events
`mid` in between. Whichever of the two runs first (call its payload `P1`): if it was answered with
a signature, the other one — for a different payload — is not, from any state `w` whatsoever.
(That the Go handler really is atomic in this sense is tied only by the racing `sreq2` ops of the
correspondence stream, see trusted base.) -/
theorem concurrent_requests_one_signature (hinj : Function.Injective C.hash)
    (w : World Digest) (h q : Peer) (id : Bytes) (P1 P2 : Payload) (hne : P1 ≠ P2)
    (mid : List (Ev Sig)) (s1 s2 : Sig)
    (h1 : (step C E cfg w (.sigReq h q id P1)).2 = .sig (.ok s1)) :
    (step C E cfg (run C E cfg (step C E cfg w (.sigReq h q id P1)).1 mid) (.sigReq h q id P2)).2
      ≠ .sig (.ok s2) := by
  intro h2
  have a := (step_sigReq_ok C E cfg w h q id P1 s1 h1).1
  have b := run_dedup_mono C E cfg _ mid h _ _ a
  have c := (step_sigReq_ok C E cfg _ h q id P2 s2 h2).2 _ b
  have e := encode_inj (hinj c)
  simp only [hinOf, HashIn.mk.injEq, true_and] at e
  apply hne
  cases P1; cases P2; simp_all

/-- **Agreement for an honest sender, any number of dishonest members**: two deliveries carrying
the transport identity of the same honest sender and the same id have the same payload, as soon as
one honest cluster member other than the sender exists among the receivers. -/
theorem agreement_honest_sender (hinj : Function.Injective C.hash) (evs : List (Ev Sig))
    (ha : admRun C E cfg honest {} evs = true)
    (d1 d2 : Delivery) (hd1 : d1 ∈ (run C E cfg {} evs).delivered)
    (hd2 : d2 ∈ (run C E cfg {} evs).delivered)
    (hr : honest d1.at_ = true) (hrp : d1.at_ ∈ cfg.peers)
    (hS : honest d1.sender = true) (hs : d1.sender = d2.sender) (hid : d1.id = d2.id) :
    d1.payload = d2.payload := by
  obtain ⟨hA, hB⟩ := reach_inv C E cfg honest hinj evs ha
  obtain ⟨hne, _, hall1⟩ := hB.delivHonest d1 hd1 hS
  obtain ⟨_, _, hall2⟩ := hB.delivHonest d2 hd2 (hs ▸ hS)
  have s1 := hall1 d1.at_ hrp hr hne
  have s2 := hall2 d1.at_ hrp hr (hs ▸ hne)
  have e := one_payload_per_requester C E cfg hinj evs _ _ d1.sender s1 s2 rfl rfl (by rw [hs]) hid
  simp only [hinOf, HashIn.mk.injEq] at e
  cases hp1 : d1.payload; cases hp2 : d2.payload
  simp_all

/-- **Agreement with at most one dishonest identity** `F`, for applications whose callbacks bind
honest payloads to their sender (`hbind`: a payload some honest member `a` broadcasts is accepted
by the callback only when it arrives from `a`): no two honest members accept different payloads
for the same (sender, id) — even when `F` equivocates, withholds, replays, or relays other
members' fully signed messages under its own identity.

The statement for two colluding dishonest members is false at this layer
(`agreement_fails_two_colluding`), and so is the statement without `hbind`
(`relay_breaks_agreement_without_binding`). -/
theorem agreement_single_faulty (hinj : Function.Injective C.hash)
    (F : Peer) (hF : ∀ p, honest p = false → p = F)
    (evs : List (Ev Sig)) (ha : admRun C E cfg honest {} evs = true)
    (hbind : ∀ a id P, honest a = true → (a, id, P) ∈ (run C E cfg {} evs).started →
      ∀ q, E.binds id P q = true → q = a)
    (d1 d2 : Delivery) (hd1 : d1 ∈ (run C E cfg {} evs).delivered)
    (hd2 : d2 ∈ (run C E cfg {} evs).delivered)
    (hr : honest d1.at_ = true) (hrp : d1.at_ ∈ cfg.peers)
    (hacc1 : d1.accepted = true) (hacc2 : d2.accepted = true)
    (hs : d1.sender = d2.sender) (hid : d1.id = d2.id) :
    d1.payload = d2.payload := by
  cases hS : honest d1.sender with
  | true => exact agreement_honest_sender C E cfg honest hinj evs ha d1 d2 hd1 hd2 hr hrp hS hs hid
  | false =>
    obtain ⟨hA, hB⟩ := reach_inv C E cfg honest hinj evs ha
    have hb1 := hA.delivBinds d1 hd1 hacc1
    have hb2 := hA.delivBinds d2 hd2 hacc2
    -- the honest receiver of d1 signed both payloads inside this session
    obtain ⟨v1, hv1, s1⟩ := hB.delivSigned d1 hd1 d1.at_ hrp hr
    obtain ⟨v2, hv2, s2⟩ := hB.delivSigned d2 hd2 d1.at_ hrp hr
    -- each of these signatures was given to the dishonest sender itself
    have key : ∀ (d : Delivery) (v : Via), d.sender = d1.sender →
        E.binds d.id d.payload d.sender = true → v ≠ .foreign →
        (⟨d1.at_, hinOf cfg.session d.id d.payload, v⟩ : SignRec) ∈ (run C E cfg {} evs).signed →
        v = .req d1.sender := by
      intro d v hds hb hv hm
      cases v with
      | foreign => exact absurd rfl hv
      | client =>
        have := (hA.clientStarted _ hm rfl).2
        have := hbind d1.at_ d.id d.payload hr this d.sender hb
        rw [hds] at this; rw [this, hr] at hS; cases hS
      | req q =>
        cases hq : honest q with
        | true =>
          have := hB.reqHonest _ hm q rfl hq
          have := hbind q d.id d.payload hq this d.sender hb
          rw [hds] at this; rw [this, hq] at hS; cases hS
        | false => rw [hF q hq, hF d1.sender hS]
    have e1 := key d1 v1 rfl hb1 hv1 s1
    have e2 := key d2 v2 hs.symm hb2 hv2 s2
    subst e1; subst e2
    have e := one_payload_per_requester C E cfg hinj evs _ _ d1.sender s1 s2 rfl rfl rfl hid
    simp only [hinOf, HashIn.mk.injEq] at e
    cases hp1 : d1.payload; cases hp2 : d2.payload
    simp_all

end

/-! ## Witnesses: the two strengthenings that are false for the code as it is -/

open Witness in
/-- **Two colluding dishonest members break agreement** (D-10; outside the property's "a faulty
sender"): the signature does not name the requester, so member 3 can lend its `(3, id)` dedup
slot to member 2. All environment assumptions hold, callbacks bind payloads to the sender, and
still honest members 0 and 1 accept different payloads for (sender 2, id). -/
theorem agreement_fails_two_colluding :
    Function.Injective symC.hash ∧
    admRun symC envBind cfg4 honest2 {} evsCollude = true ∧
    (⟨0, 2, mid, pay 2 1, true⟩ : Delivery) ∈ (run symC envBind cfg4 {} evsCollude).delivered ∧
    (⟨1, 2, mid, pay 2 2, true⟩ : Delivery) ∈ (run symC envBind cfg4 {} evsCollude).delivered ∧
    pay 2 1 ≠ pay 2 2 :=
  ⟨fun _ _ h => h, by decide, by decide, by decide, by decide⟩

open Witness in
/-- **Without sender-binding callbacks a single dishonest member breaks agreement by relaying**:
`handleMessage` hands the callback the *transport* sender, and nothing in the signed hash names
the broadcaster. Member 3 forwards honest member 0's fully signed message to member 2 under its
own identity and sends its own payload to member 1: members 1 and 2 accept different payloads
for (sender 3, id). This is the situation of `pedersen.Board.handleNodePubKeyMessage`, whose
payload does not name its sender (finding D-11, `fixes/C13-bind-sender-into-hash.diff`). -/
theorem relay_breaks_agreement_without_binding :
    Function.Injective symC.hash ∧
    (∀ p ∈ cfg4.peers, honest3 p = false → p = 3) ∧
    admRun symC envAny cfg4 honest3 {} evsRelay = true ∧
    (⟨1, 3, mid, pay 3 9, true⟩ : Delivery) ∈ (run symC envAny cfg4 {} evsRelay).delivered ∧
    (⟨2, 3, mid, pay 0 1, true⟩ : Delivery) ∈ (run symC envAny cfg4 {} evsRelay).delivered ∧
    pay 3 9 ≠ pay 0 1 :=
  ⟨fun _ _ h => h, by decide, by decide, by decide, by decide, by decide⟩

/-! ## Non-vacuity -/

open Witness in
/-- the hypotheses of the agreement theorems are satisfiable with deliveries taking place: an
honest broadcast among four honest members is admissible and delivers at the three others. -/
example : admRun symC envBind cfg4 (fun _ => true) {} evsHonest = true ∧
    (run symC envBind cfg4 {} evsHonest).delivered.length = 3 ∧
    (run symC envBind cfg4 {} evsHonest).signed.length = 4 := by decide

open Witness in
/-- `hbind` holds in the honest run for sender-binding callbacks. -/
example : ∀ x ∈ (run symC envBind cfg4 {} evsHonest).started,
    ∀ q ∈ cfg4.peers, envBind.binds x.2.1 x.2.2 q = true → q = x.1 := by decide

open Witness in
/-- with sender-binding callbacks the relay of the witness above is refused (callback error),
the deliveries that remain agree. -/
example : (run symC envBind cfg4 {} evsRelay).delivered.map (fun d => (d.at_, d.sender, d.accepted)) =
    [(2, 3, false), (1, 3, true), (2, 0, true), (1, 0, true)] := by decide

open Witness in
/-- `concurrent_requests_one_signature` is not vacuous: the first of two racing requests is signed. -/
example : ∃ s, (step symC envBind cfg4 (run symC envBind cfg4 {} [.reg 0 mid]) (.sigReq 0 2 mid (pay 2 1))).2
    = .sig (.ok s) := ⟨_, rfl⟩

/-- the encoding separates what plain concatenation would confuse. -/
example : encode ⟨Witness.B [1, 2], Witness.B [3], Witness.B [], Witness.B []⟩ ≠
    encode ⟨Witness.B [1], Witness.B [2, 3], Witness.B [], Witness.B []⟩ := by decide

end CharonV.Bcast
