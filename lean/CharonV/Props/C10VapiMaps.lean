/-
C10 — what sits AROUND signature verification in the validator API: the tables built from the lock
(`app/app.go` `wireCoreWorkflow`), the four lookup maps of `validatorapi.NewComponent`, the duties endpoints that swap
the validator key for this node's public share, and `Validators` / `convertValidators` (share → key → beacon node →
re-keyed copies).

Model: `CharonV.Model.VapiMaps` (keys are interned naturals, `0` = Go's zero key; the iteration order of the Go map
`allPubSharesByKey` in `NewComponent` is explicit — the table is a list, theorems quantify over every permutation).
Helper lemmas: `CharonV.Proofs.VapiMaps`. All theorems hold for every lock / table / share index / provider answer.

Clauses that hold of the code as it is: every lookup returns the share of THAT validator at THIS node's index as
recorded in the lock (`app_table_*`, `all_share_*`, `own_share_is_lock_share`), an unknown validator never gets a
default or another validator's share (`own_share_unknown`, `all_share_unknown`), the lookups by validator key do not
depend on map iteration order (`lookups_order_independent`), the duties responses keep order, multiplicity and every
field but the key (`duties_response`, `duties_only_pubkey_changes`, `duties_pubkey_is_lock_share`), `Validators`
rejects a share that is not this node's share of some validator before any beacon-node query
(`validators_rejects_foreign_share`).

Worth knowing (stated as theorems / witnesses, the code AS IT IS):
* `shares[shareIdx]` in `NewComponent` is a Go map read: an index the validator has no share for yields the ZERO key
  without error (`own_share_out_of_range_is_zero`); app.go's `PublicShare(PeerIdx)` panics first when
  `ShareIdx = PeerIdx+1` (`app_pubshares_some_iff`, `own_share_agrees_with_app_pubshares`).
* the inverse map `keysByShare` inverts `sharesByKey` iff this node's shares are pairwise distinct
  (`inverse_iff_distinct`); with a duplicate the last in map iteration order wins, i.e. the answer depends on Go's
  randomised iteration (`duplicate_share_last_in_map_order_wins`, `inverse_depends_on_map_order_witness`).
* the duties endpoints WRITE `d.PubKey = pubshare` into the objects the provider handed over, also on the error paths
  (`duties_handed_only_key_written`, `duties_write_into_provider_objects_witness`,
  `attester_error_leaves_prefix_rewritten_witness`); a second pass over the same objects fails with "pubshare not
  found" (`second_pass_on_shared_objects_witness`) — providers must hand out private copies.
* `Validators` assigns to the caller's `opts.PubKeys` (`validators_writes_caller_opts_witness`).
-/
import CharonV.Proofs.VapiMaps

namespace CharonV.VapiMaps

/-! ## A. the tables app.go builds from the lock -/

/-- `allPubSharesByKey` is a Go map: every validator key occurs at most once, whatever the lock looks like. -/
theorem app_table_keys_nodup (L : Lock) : ((appTable L).map (·.1)).Nodup :=
  lastWins_keys_nodup _

example : (appTable [⟨7, [1, 2]⟩, ⟨8, [3, 4]⟩, ⟨7, [5, 6]⟩]).map (·.1) = [8, 7] := by decide

/-- A validator key that occurs several times in the lock: the LAST entry's shares are the ones every component
sees (`allPubSharesByKey[corePubkey] = allPubShares` overwrites). -/
theorem app_table_lookup_last_wins (L₁ L₂ : Lock) (v : LockVal) (h : ∀ w ∈ L₂, w.pubkey ≠ v.pubkey) :
    lookup (appTable (L₁ ++ v :: L₂)) v.pubkey = some v.shares :=
  lookup_appTable_append L₁ L₂ v h

example : lookup (appTable ([⟨7, [1, 2]⟩] ++ ⟨7, [5, 6]⟩ :: [⟨8, [3, 4]⟩])) 7 = some [5, 6] := by decide

/-- With distinct validator keys in the lock (what `cluster.Lock` verification guarantees), the table maps every
validator to exactly its own `PubShares`. -/
theorem app_table_lookup (L : Lock) (hL : (keysOf L).Nodup) (v : LockVal) (hv : v ∈ L) :
    lookup (appTable L) v.pubkey = some v.shares :=
  lookup_appTable_mem L hL v hv

example : lookup (appTable [⟨7, [1, 2]⟩, ⟨8, [3, 4]⟩]) 8 = some [3, 4] := by decide

/-- A key that is not a validator of the lock is not in the table. -/
theorem app_table_unknown (L : Lock) (pk : Key) (h : ∀ v ∈ L, v.pubkey ≠ pk) : lookup (appTable L) pk = none :=
  lookup_appTable_none L pk h

example : lookup (appTable [⟨7, [1, 2]⟩, ⟨8, [3, 4]⟩]) 9 = none := by decide

/-- `allPubSharesByKey[pk][i+1]` (what `parsigex.NewEth2Verifier` verifies peer `i+1`'s partial signatures against)
is `lock.Validators[·].PubShares[i]` of that very validator. -/
theorem all_share_is_lock_share (L : Lock) (hL : (keysOf L).Nodup) (v : LockVal) (hv : v ∈ L) (i : Nat)
    (hi : i < v.shares.length) : allShare (appTable L) v.pubkey ((i : Int) + 1) = .ok v.shares[i] := by
  unfold allShare
  rw [lookup_appTable_mem L hL v hv]
  simp only [shareAt_succ, List.getElem?_eq_getElem hi]

example : allShare (appTable [⟨7, [1, 2]⟩, ⟨8, [3, 4]⟩]) 8 2 = .ok 4 := by decide

/-- A share index outside `1..len(PubShares)` is an error, never a default and never another validator's key. -/
theorem all_share_out_of_range (L : Lock) (hL : (keysOf L).Nodup) (v : LockVal) (hv : v ∈ L) (i : Int)
    (h : i < 1 ∨ (v.shares.length : Int) < i) : allShare (appTable L) v.pubkey i = .error .noIdx := by
  unfold allShare
  rw [lookup_appTable_mem L hL v hv]
  simp only [shareAt_out _ _ h]

example : allShare (appTable [⟨7, [1, 2]⟩, ⟨8, [3, 4]⟩]) 8 0 = .error .noIdx ∧
    allShare (appTable [⟨7, [1, 2]⟩, ⟨8, [3, 4]⟩]) 8 3 = .error .noIdx := by decide

/-- A validator that is not in the lock has no share at any index. -/
theorem all_share_unknown (L : Lock) (pk : Key) (i : Int) (h : ∀ v ∈ L, v.pubkey ≠ pk) :
    allShare (appTable L) pk i = .error .unknown := by
  unfold allShare
  rw [lookup_appTable_none L pk h]

example : allShare (appTable [⟨7, [1, 2]⟩, ⟨8, [3, 4]⟩]) 9 1 = .error .unknown := by decide

/-- The lock as the admission model `CharonV.Admit` takes it is this table: same validators, same shares. -/
theorem admit_lock_pubshare (T : Tbl) (pk : Key) (i : Int) :
    Admit.pubshare (toAdmitLock T) pk i = (match allShare T pk i with | .ok k => some k | .error _ => none) := by
  unfold Admit.pubshare toAdmitLock allShare
  cases lookup T pk with
  | none => rfl
  | some sh =>
    simp only [Option.map_some, Option.bind_some]
    cases shareAt sh i <;> rfl

example : Admit.pubshare (toAdmitLock (appTable [⟨7, [1, 2]⟩, ⟨8, [3, 4]⟩])) 8 2 = some 4 := by decide

/-- app.go's loop `pubshares = append(pubshares, val.PublicShare(nodeIdx.PeerIdx))` runs through iff EVERY validator
has a share at position `PeerIdx`; otherwise it panics (no default, no skipping). -/
theorem app_pubshares_some_iff (L : Lock) (p : Int) :
    (appPubshares L p).isSome ↔ ∀ v ∈ L, 0 ≤ p ∧ p.toNat < v.shares.length :=
  appPubshares_some_iff L p

example : (appPubshares [⟨7, [1, 2]⟩, ⟨8, [3, 4]⟩] 1).isSome ∧ ¬ (appPubshares [⟨7, [1, 2]⟩, ⟨8, [3]⟩] 1).isSome := by
  decide

/-- When the loop runs through, the slice is, in lock order, each validator's share with index `PeerIdx+1`, and that
share exists for every validator. -/
theorem app_pubshares_eq (L : Lock) (p : Int) (l : List Key) (h : appPubshares L p = some l) :
    l = L.map (fun v => ownShare v.shares (p + 1)) ∧ ∀ v ∈ L, shareAt v.shares (p + 1) ≠ none :=
  appPubshares_eq L p l h

example : appPubshares [⟨7, [1, 2]⟩, ⟨8, [3, 4]⟩] 1 = some [2, 4] := by decide


/-! ## B. the lookups `NewComponent` builds (`T` = the Go map `allPubSharesByKey` in ANY iteration order) -/

/-- `getPubShareFunc` / `getVerifyShareFunc` do not depend on the order in which `NewComponent` ranges over the Go
map. -/
theorem lookups_order_independent (T T' : Tbl) (hk : (T.map (·.1)).Nodup) (hp : T'.Perm T) (idx : Int) (pk : Key) :
    (newComponent T' idx).getPubShare pk = (newComponent T idx).getPubShare pk ∧
    (newComponent T' idx).getVerifyShare pk = (newComponent T idx).getVerifyShare pk := by
  have : (newComponent T' idx).getPubShare pk = (newComponent T idx).getPubShare pk := by
    rw [getPubShare_eq, getPubShare_eq, lookup_perm hk hp]
  exact ⟨this, by unfold Comp.getVerifyShare; rw [this]⟩

example : (newComponent [(8, [3, 4]), (7, [1, 2])] 2).getPubShare 7 = (newComponent [(7, [1, 2]), (8, [3, 4])] 2).getPubShare 7 ∧
    (newComponent [(7, [1, 2]), (8, [3, 4])] 2).getPubShare 7 = some 2 := by decide

/-- The share this node swaps in for validator `v` (and verifies the validator client's signatures against) is
`v.PubShares[shareIdx-1]` of the lock — of that validator, at this node's index. -/
theorem own_share_is_lock_share (L : Lock) (hL : (keysOf L).Nodup) (T : Tbl) (hT : T.Perm (appTable L))
    (v : LockVal) (hv : v ∈ L) (i : Nat) (hi : i < v.shares.length) :
    (newComponent T ((i : Int) + 1)).getPubShare v.pubkey = some v.shares[i] ∧
    (newComponent T ((i : Int) + 1)).getVerifyShare v.pubkey = .ok v.shares[i] := by
  have : (newComponent T ((i : Int) + 1)).getPubShare v.pubkey = some v.shares[i] := by
    rw [getPubShare_eq, lookup_perm (app_table_keys_nodup L) hT, lookup_appTable_mem L hL v hv]
    simp [ownShare, shareAt_succ, List.getElem?_eq_getElem hi]
  exact ⟨this, by unfold Comp.getVerifyShare; rw [this]⟩

example : (newComponent (appTable [⟨7, [1, 2]⟩, ⟨8, [3, 4]⟩]) 2).getVerifyShare 8 = .ok 4 := by decide

/-- A validator that is not in the lock: no share — never a default, never another validator's share. -/
theorem own_share_unknown (L : Lock) (T : Tbl) (hT : T.Perm (appTable L)) (pk : Key) (idx : Int)
    (h : ∀ v ∈ L, v.pubkey ≠ pk) :
    (newComponent T idx).getPubShare pk = none ∧ (newComponent T idx).getVerifyShare pk = .error .unknown := by
  have : (newComponent T idx).getPubShare pk = none := by
    rw [getPubShare_eq, lookup_perm (app_table_keys_nodup L) hT, lookup_appTable_none L pk h]; rfl
  exact ⟨this, by unfold Comp.getVerifyShare; rw [this]⟩

example : (newComponent (appTable [⟨7, [1, 2]⟩, ⟨8, [3, 4]⟩]) 2).getVerifyShare 9 = .error .unknown := by decide

/-- app.go's `PeerIdx`-based slice `pubshares` (handed to the scheduler, the tracker, …) and `NewComponent`'s
`ShareIdx`-based map agree validator by validator when `ShareIdx = PeerIdx + 1`; in particular once app.go's loop has
passed no validator has the zero default. -/
theorem own_share_agrees_with_app_pubshares (L : Lock) (hL : (keysOf L).Nodup) (T : Tbl)
    (hT : T.Perm (appTable L)) (p : Int) (l : List Key) (h : appPubshares L p = some l) :
    L.map (fun v => (newComponent T (p + 1)).getPubShare v.pubkey) = l.map some := by
  rw [(appPubshares_eq L p l h).1, List.map_map]
  apply List.map_congr_left
  intro v hv
  rw [getPubShare_eq, lookup_perm (app_table_keys_nodup L) hT, lookup_appTable_mem L hL v hv]
  rfl

example : appPubshares [⟨7, [1, 2]⟩, ⟨8, [3, 4]⟩] 1 = some [2, 4] ∧
    [7, 8].map (newComponent (appTable [⟨7, [1, 2]⟩, ⟨8, [3, 4]⟩]) 2).getPubShare = [some 2, some 4] := by decide

/-- As the code is: `pubshare := shares[shareIdx]` reads a Go map, so a share index the validator has no share for
gives the ZERO key, without error (app.go's `PublicShare(PeerIdx)` panics first when `ShareIdx = PeerIdx+1`). It is
still never another validator's share. -/
theorem own_share_out_of_range_is_zero (L : Lock) (hL : (keysOf L).Nodup) (T : Tbl) (hT : T.Perm (appTable L))
    (v : LockVal) (hv : v ∈ L) (idx : Int) (h : idx < 1 ∨ (v.shares.length : Int) < idx) :
    (newComponent T idx).getPubShare v.pubkey = some 0 := by
  rw [getPubShare_eq, lookup_perm (app_table_keys_nodup L) hT, lookup_appTable_mem L hL v hv]
  simp [ownShare, shareAt_out _ _ h]

example : (newComponent (appTable [⟨7, [1, 2]⟩, ⟨8, [3]⟩]) 2).getPubShare 8 = some 0 := by decide

/-- `getVerifyShareFunc` answers exactly what the admission model's lock holds for (validator, own index), with the
zero default where the inner map has no entry. -/
theorem verify_share_matches_admit (T : Tbl) (idx : Int) (pk : Key) :
    (newComponent T idx).getVerifyShare pk =
      (match toAdmitLock T pk with | none => .error .unknown | some m => .ok ((m idx).getD 0)) := by
  unfold Comp.getVerifyShare toAdmitLock
  rw [getPubShare_eq]
  cases lookup T pk <;> rfl

example : (newComponent [(7, [1, 2]), (8, [3, 4])] 1).getVerifyShare 8 = .ok 3 := by decide

/-- `getPubKeyFunc` is sound: the validator it returns for a share `s` has `s` as this node's share. -/
theorem get_pubkey_sound (T : Tbl) (hk : (T.map (·.1)).Nodup) (idx : Int) (s pk : Key)
    (h : (newComponent T idx).getPubKey s = .ok pk) : (newComponent T idx).getPubShare pk = some s :=
  getPubShare_of_mem hk (keyByShare_some (getPubKey_ok_iff.1 h))

example : (newComponent [(7, [1, 2]), (8, [3, 4])] 2).getPubKey 4 = .ok 8 := by decide

/-- `keysByShare` inverts `sharesByKey` on every validator iff this node's shares are pairwise distinct (the zero
defaults included). -/
theorem inverse_iff_distinct (T : Tbl) (hk : (T.map (·.1)).Nodup) (idx : Int) :
    (∀ r ∈ T, (newComponent T idx).getPubKey (ownShare r.2 idx) = .ok r.1) ↔
      (T.map fun r => ownShare r.2 idx).Nodup := by
  have hm : (newComponent T idx).own.map (·.2) = T.map fun r => ownShare r.2 idx := by
    simp [newComponent, List.map_map, Function.comp_def]
  constructor
  · intro h
    rw [← hm]
    apply nodup_of_inverse (by rw [own_keys]; exact hk) (newComponent T idx).keyByShare
    intro e he
    obtain ⟨r, hr, rfl⟩ := List.mem_map.1 he
    exact getPubKey_ok_iff.1 (h r hr)
  · intro h r hr
    rw [← hm] at h
    exact getPubKey_ok_iff.2 (keyByShare_of_nodup h (e := (r.1, ownShare r.2 idx)) (List.mem_map.2 ⟨r, hr, rfl⟩))

example : (newComponent [(7, [1, 2]), (8, [3, 4])] 2).getPubKey 2 = .ok 7 ∧
    (newComponent [(7, [1, 2]), (8, [3, 4])] 2).getPubKey 4 = .ok 8 := by decide

/-- Two validators with the same share at this node's index: `keysByShare[share]` keeps the one the map iteration
reached LAST. -/
theorem duplicate_share_last_in_map_order_wins (T₁ T₂ : Tbl) (r : Row) (idx : Int)
    (h : ∀ x ∈ T₂, ownShare x.2 idx ≠ ownShare r.2 idx) :
    (newComponent (T₁ ++ r :: T₂) idx).getPubKey (ownShare r.2 idx) = .ok r.1 := by
  apply getPubKey_ok_iff.2
  simp only [newComponent, List.map_append, List.map_cons]
  apply keyByShare_append _ _ (r.1, ownShare r.2 idx)
  intro x hx
  obtain ⟨y, hy, rfl⟩ := List.mem_map.1 hx
  exact h y hy

example : (newComponent ([(7, [1, 5])] ++ (8, [3, 5]) :: [(9, [4, 6])]) 2).getPubKey 5 = .ok 8 := by decide

/-- …so with a duplicated share the answer of `getPubKeyFunc` depends on Go's (randomised) map iteration order. -/
theorem inverse_depends_on_map_order_witness :
    ∃ (T T' : Tbl) (idx : Int) (s : Key), T'.Perm T ∧ (T.map (·.1)).Nodup ∧
      (newComponent T idx).getPubKey s ≠ (newComponent T' idx).getPubKey s :=
  ⟨[(7, [1, 5]), (8, [3, 5])], [(8, [3, 5]), (7, [1, 5])], 2, 5, List.Perm.swap _ _ _, by decide, by decide⟩

/-- A share that is no validator's share at this node's index is an error: "mismatching validator client key share
index" when it is some validator's share at ANOTHER index, "unknown public key" otherwise. -/
theorem get_pubkey_error (T : Tbl) (idx : Int) (s : Key) (h : ∀ r ∈ T, ownShare r.2 idx ≠ s) :
    (newComponent T idx).getPubKey s =
      .error (if T.any (fun r => r.2.contains s) then .mismatch else .unknown) := by
  have : (newComponent T idx).keyByShare s = none := by
    apply keyByShare_none_iff.2
    intro e he
    obtain ⟨r, hr, rfl⟩ := List.mem_map.1 he
    exact h r hr
  have hall : (newComponent T idx).all = T := rfl
  unfold Comp.getPubKey
  rw [this, hall]
  show (if T.any (fun r => r.2.contains s) then _ else _) = _
  cases T.any (fun r => r.2.contains s) <;> rfl

example : (newComponent [(7, [1, 2]), (8, [3, 4])] 2).getPubKey 3 = .error .mismatch ∧
    (newComponent [(7, [1, 2]), (8, [3, 4])] 2).getPubKey 9 = .error .unknown := by decide

/-! ## C. `ProposerDuties`, `AttesterDuties`, `SyncCommitteeDuties` -/

/-- The endpoint answers iff no duty is nil and — attester / sync only — every duty's validator is in the lock. -/
theorem duties_accept_iff (c : Comp) (k : DutyKind) (ds : List (Option Duty)) (md : Option Nat) :
    (∃ r, (duties c k ds md).res = .ok r) ↔
      (∀ d ∈ ds, d ≠ none) ∧ (k ≠ .proposer → ∀ d, some d ∈ ds → c.getPubShare d.pubkey ≠ none) := by
  rw [← swapLoop_fst_none_iff]
  constructor
  · rintro ⟨r, h⟩; exact ((duties_ok_iff c k ds md r).1 h).1
  · intro h; exact ⟨_, (duties_ok_iff c k ds md _).2 ⟨h, rfl⟩⟩

example : ∃ r, (duties (newComponent [(7, [1, 2])] 2) .attester [some ⟨7, 5⟩] none).res = .ok r :=
  ⟨([some ⟨2, 5⟩], none), by decide⟩

example : ¬ ∃ r, (duties (newComponent [(7, [1, 2])] 2) .attester [some ⟨8, 5⟩] none).res = .ok r := by
  have : (duties (newComponent [(7, [1, 2])] 2) .attester [some ⟨8, 5⟩] none).res = .error .notFound := by decide
  rw [this]; simp

/-- The response is the provider's list with each duty's key swapped: same order, multiplicity, length; nothing is
dropped or added. The provider's metadata is passed on, except by `SyncCommitteeDuties` (none). -/
theorem duties_response (c : Comp) (k : DutyKind) (ds : List (Option Duty)) (md : Option Nat)
    (data : List (Option Duty)) (m : Option Nat) (h : (duties c k ds md).res = .ok (data, m)) :
    data = ds.map (Option.map (swapOne c)) ∧ m = (if k = .sync then none else md) := by
  obtain ⟨h1, h2⟩ := (duties_ok_iff c k ds md _).1 h
  simp only [Prod.mk.injEq] at h2
  exact ⟨by rw [h2.1, swapLoop_snd_of_none c k ds h1], h2.2⟩

example : (duties (newComponent [(7, [1, 2]), (8, [3, 4])] 2) .attester [some ⟨8, 5⟩, some ⟨7, 6⟩, some ⟨8, 7⟩] (some 9)).res =
    .ok ([some ⟨4, 5⟩, some ⟨2, 6⟩, some ⟨4, 7⟩], some 9) := by decide

/-- Object by object, only the key changes: to this node's share when the validator is in the lock, not at all
otherwise; every other field is what the provider delivered. -/
theorem duties_only_pubkey_changes (c : Comp) (k : DutyKind) (ds : List (Option Duty)) (md : Option Nat)
    (data : List (Option Duty)) (m : Option Nat) (h : (duties c k ds md).res = .ok (data, m))
    (j : Nat) (d : Duty) (hj : ds[j]? = some (some d)) :
    data[j]? = some (some { pubkey := (c.getPubShare d.pubkey).getD d.pubkey, rest := d.rest }) := by
  rw [(duties_response c k ds md data m h).1, List.getElem?_map, hj]
  simp only [Option.map_some, swapOne]
  cases c.getPubShare d.pubkey <;> rfl

example : ([some ⟨8, 5⟩, some ⟨7, 6⟩] : List (Option Duty))[1]? = some (some ⟨7, 6⟩) ∧
    (duties (newComponent [(7, [1, 2])] 2) .proposer [some ⟨8, 5⟩, some ⟨7, 6⟩] none).res =
      .ok ([some ⟨8, 5⟩, some ⟨2, 6⟩], none) := by decide

/-- With the lock's table the key in the response is `v.PubShares[shareIdx-1]` of the duty's validator. -/
theorem duties_pubkey_is_lock_share (L : Lock) (hL : (keysOf L).Nodup) (T : Tbl) (hT : T.Perm (appTable L))
    (v : LockVal) (hv : v ∈ L) (i : Nat) (hi : i < v.shares.length)
    (k : DutyKind) (ds : List (Option Duty)) (md : Option Nat) (data : List (Option Duty)) (m : Option Nat)
    (h : (duties (newComponent T ((i : Int) + 1)) k ds md).res = .ok (data, m))
    (j : Nat) (d : Duty) (hj : ds[j]? = some (some d)) (hd : d.pubkey = v.pubkey) :
    data[j]? = some (some { pubkey := v.shares[i], rest := d.rest }) := by
  rw [duties_only_pubkey_changes _ k ds md data m h j d hj, hd,
    (own_share_is_lock_share L hL T hT v hv i hi).1]
  rfl

example : (duties (newComponent (appTable [⟨7, [1, 2]⟩, ⟨8, [3, 4]⟩]) 2) .sync [some ⟨8, 5⟩] (some 9)).res =
    .ok ([some ⟨4, 5⟩], none) := by decide

/-- `ProposerDuties` passes the duty of a validator that is not in the lock through unchanged. -/
theorem proposer_passes_unknown_through (c : Comp) (ds : List (Option Duty)) (md : Option Nat)
    (data : List (Option Duty)) (m : Option Nat) (h : (duties c .proposer ds md).res = .ok (data, m))
    (j : Nat) (d : Duty) (hj : ds[j]? = some (some d)) (hu : c.getPubShare d.pubkey = none) :
    data[j]? = some (some d) := by
  rw [duties_only_pubkey_changes c _ ds md data m h j d hj, hu]
  rfl

example : (duties (newComponent [(7, [1, 2])] 2) .proposer [some ⟨8, 5⟩, some ⟨7, 6⟩] (some 9)).res =
    .ok ([some ⟨8, 5⟩, some ⟨2, 6⟩], some 9) := by decide

/-- `AttesterDuties` / `SyncCommitteeDuties` fail as a whole when one duty's validator is not in the lock. -/
theorem attester_sync_reject_unknown (c : Comp) (k : DutyKind) (ds : List (Option Duty)) (md : Option Nat)
    (d : Duty) (hk : k ≠ .proposer) (hd : some d ∈ ds) (hu : c.getPubShare d.pubkey = none) :
    ∃ e, (duties c k ds md).res = .error e := by
  cases hr : (duties c k ds md).res with
  | error e => exact ⟨e, rfl⟩
  | ok r => exact absurd hu (((duties_accept_iff c k ds md).1 ⟨r, hr⟩).2 hk d hd)

example : (duties (newComponent [(7, [1, 2])] 2) .sync [some ⟨7, 6⟩, some ⟨8, 5⟩] none).res = .error .notFound := by
  decide

/-- The response data IS the slice the provider handed over (same objects, written into) — not a copy. -/
theorem duties_response_is_the_handed_objects (c : Comp) (k : DutyKind) (ds : List (Option Duty))
    (md : Option Nat) (data : List (Option Duty)) (m : Option Nat) (h : (duties c k ds md).res = .ok (data, m)) :
    (duties c k ds md).handed = data := by
  obtain ⟨_, h2⟩ := (duties_ok_iff c k ds md _).1 h
  simp only [Prod.mk.injEq] at h2
  rw [duties_handed, h2.1]

example : (duties (newComponent [(7, [1, 2])] 2) .attester [some ⟨7, 6⟩] none).handed = [some ⟨2, 6⟩] := by decide

/-- On every path — the error paths included, where a prefix is already rewritten — the provider's objects are the
same in number, and each is either untouched or has only its key replaced by this node's share. -/
theorem duties_handed_only_key_written (c : Comp) (k : DutyKind) (ds : List (Option Duty)) (md : Option Nat) :
    (duties c k ds md).handed.length = ds.length ∧
      ∀ j : Nat, (duties c k ds md).handed[j]? = ds[j]? ∨
        (duties c k ds md).handed[j]? = (ds[j]?).map (Option.map (swapOne c)) := by
  rw [duties_handed]
  exact ⟨swapLoop_length c k ds, swapLoop_get c k ds⟩

example : (duties (newComponent [(7, [1, 2])] 2) .attester [some ⟨7, 6⟩, none, some ⟨7, 8⟩] none).handed =
    [some ⟨2, 6⟩, none, some ⟨7, 8⟩] := by decide

/-- The code writes into what it was handed: providers (`eth2Cl.*DutiesCache`) must hand out private copies. -/
theorem duties_write_into_provider_objects_witness :
    ∃ (c : Comp) (k : DutyKind) (ds : List (Option Duty)) (md : Option Nat), (duties c k ds md).handed ≠ ds :=
  ⟨newComponent [(7, [1, 2])] 2, .attester, [some ⟨7, 6⟩], none, by decide⟩

/-- An attester call that fails with "pubshare not found" has already rewritten the duties before the unknown one. -/
theorem attester_error_leaves_prefix_rewritten_witness :
    (duties (newComponent [(7, [1, 2])] 2) .attester [some ⟨7, 6⟩, some ⟨8, 5⟩] none).res = .error .notFound ∧
    (duties (newComponent [(7, [1, 2])] 2) .attester [some ⟨7, 6⟩, some ⟨8, 5⟩] none).handed =
      [some ⟨2, 6⟩, some ⟨8, 5⟩] := by decide

/-- Were the provider's objects shared (a cache handing out the same pointers twice), the second call would see
public shares where validator keys are expected and fail with "pubshare not found". -/
theorem second_pass_on_shared_objects_witness :
    (duties (newComponent [(7, [1, 2])] 2) .attester [some ⟨7, 6⟩] none).res = .ok ([some ⟨2, 6⟩], none) ∧
    (duties (newComponent [(7, [1, 2])] 2) .attester
      (duties (newComponent [(7, [1, 2])] 2) .attester [some ⟨7, 6⟩] none).handed none).res = .error .notFound := by
  decide

/-! ## D. `Validators` / `convertValidators` -/

/-- `convertValidators` succeeds iff no entry is nil and — unless `ignoreNotFound` — every validator is in the lock. -/
theorem convert_accept_iff (c : Comp) (ig : Bool) (m : VMap) :
    (∃ r, convert c ig m = .ok r) ↔
      (∀ e ∈ m, e.2 ≠ none) ∧ (ig = false → ∀ i v, (i, some v) ∈ m → c.getPubShare v.pubkey ≠ none) := by
  constructor
  · rintro ⟨r, h⟩; exact ((convert_ok_iff c ig m r).1 h).1
  · intro h; exact ⟨_, (convert_ok_iff c ig m _).2 ⟨h, rfl⟩⟩

example : (∃ r, convert (newComponent [(7, [1, 2])] 2) true [(3, some ⟨7, 5⟩), (4, some ⟨8, 6⟩)] = .ok r) ∧
    convert (newComponent [(7, [1, 2])] 2) false [(3, some ⟨7, 5⟩), (4, some ⟨8, 6⟩)] = .error .notFound :=
  ⟨⟨[(3, ⟨2, 5⟩), (4, ⟨8, 6⟩)], by decide⟩, by decide⟩

/-- The result has one NEW entry per entry of the beacon node's map, under the same validator index, with only the
key swapped for this node's share (left alone for a validator that is not in the lock, when those are ignored). -/
theorem convert_result (c : Comp) (ig : Bool) (m : VMap) (r : List (Nat × Val)) (h : convert c ig m = .ok r) :
    r = m.filterMap (fun e => e.2.map (fun v => (e.1, swapVal c v))) ∧ r.length = m.length := by
  obtain ⟨⟨h1, _⟩, h2⟩ := (convert_ok_iff c ig m r).1 h
  exact ⟨h2, by rw [h2, filterMap_length_of_all_some c m h1]⟩

example : convert (newComponent [(7, [1, 2])] 2) true [(3, some ⟨7, 5⟩), (4, some ⟨8, 6⟩)] =
    .ok [(3, ⟨2, 5⟩), (4, ⟨8, 6⟩)] := by decide

/-- A requested public share that is not this node's share of any validator (a foreign or mistyped share, another
node's share) fails the whole request BEFORE anything is asked of the beacon node. -/
theorem validators_rejects_foreign_share (c : Comp) (bn : List Key → List Nat → VMap) (cache : List (Nat × Val))
    (q : VReq) (s : Key) (hs : s ∈ q.pubkeys) (hn : c.keyByShare s = none) :
    ∃ e, (validators c bn cache q).res = .error (.key e) ∧ (validators c bn cache q).queries = [] := by
  obtain ⟨e, he⟩ := resolveShares_error c q.pubkeys s hs hn
  have hne : q.pubkeys.isEmpty = false := by
    cases hq : q.pubkeys with
    | nil => rw [hq] at hs; cases hs
    | cons a l => rfl
  refine ⟨e, ?_⟩
  simp [validators, hne, he]

example : (validators (newComponent [(7, [1, 2])] 2) (fun _ _ => []) [] ⟨[2, 1], []⟩).res = .error (.key .mismatch) := by
  decide

/-- With pairwise distinct own shares, share → key → share is the identity on every validator of the table: the
validator client gets back, under the share it asked for, the validator it meant. -/
theorem validators_share_roundtrip (T : Tbl) (hk : (T.map (·.1)).Nodup) (idx : Int)
    (hd : (T.map fun r => ownShare r.2 idx).Nodup) (r : Row) (hr : r ∈ T) :
    (newComponent T idx).getPubKey (ownShare r.2 idx) = .ok r.1 ∧
      (newComponent T idx).getPubShare r.1 = some (ownShare r.2 idx) := by
  have h := (inverse_iff_distinct T hk idx).2 hd r hr
  exact ⟨h, get_pubkey_sound T hk idx _ _ h⟩

example : (newComponent [(7, [1, 2]), (8, [3, 4])] 2).getPubKey 4 = .ok 8 ∧
    (newComponent [(7, [1, 2]), (8, [3, 4])] 2).getPubShare 8 = some 4 := by decide

/-- No keys and no indices requested: one beacon-node query for everything; validators that are not in the lock are
passed through with their own key. -/
theorem validators_all (c : Comp) (bn : List Key → List Nat → VMap) (cache : List (Nat × Val)) :
    (validators c bn cache ⟨[], []⟩).res = convert c true (bn [] []) ∧
      (validators c bn cache ⟨[], []⟩).queries = [([], [])] := by
  simp [validators]

example : (validators (newComponent [(7, [1, 2])] 2) (fun _ _ => [(3, some ⟨7, 5⟩), (4, some ⟨8, 6⟩)]) [] ⟨[], []⟩).res =
    .ok [(3, ⟨2, 5⟩), (4, ⟨8, 6⟩)] := by decide

/-- One share requested, its validator not in the complete-validators cache: the beacon node is asked for the
VALIDATOR key (never the share), and its answer is re-keyed. -/
theorem validators_uncached_single (c : Comp) (bn : List Key → List Nat → VMap) (cache : List (Nat × Val))
    (s pk : Key) (h : c.getPubKey s = .ok pk) (hc : ∀ e ∈ cache, e.2.pubkey ≠ pk) :
    (validators c bn cache ⟨[s], []⟩).queries = [([pk], [])] ∧
      (validators c bn cache ⟨[s], []⟩).res = convert c true (bn [pk] []) := by
  have hf : cache.find? (fun e => e.2.pubkey = pk) = none := by
    simp only [List.find?_eq_none, decide_eq_true_eq]; exact hc
  simp [validators, resolveShares_single h, splitCached, hf, mapsCopy_nil_left]

example : (validators (newComponent [(7, [1, 2])] 2) (fun pks _ => pks.map fun k => (3, some ⟨k, 5⟩)) [] ⟨[2], []⟩).res =
    .ok [(3, ⟨2, 5⟩)] := by decide

/-- One share requested, its validator in the cache: no beacon-node query, the cached validator re-keyed. -/
theorem validators_cached_no_query (c : Comp) (bn : List Key → List Nat → VMap) (cache : List (Nat × Val))
    (s pk : Key) (e : Nat × Val) (h : c.getPubKey s = .ok pk)
    (he : cache.find? (fun e => e.2.pubkey = pk) = some e) :
    (validators c bn cache ⟨[s], []⟩).queries = [] ∧
      (validators c bn cache ⟨[s], []⟩).res = convert c true [(e.1, some e.2)] := by
  simp [validators, resolveShares_single h, splitCached, he, mapsCopy_nil_right]

example : (validators (newComponent [(7, [1, 2])] 2) (fun _ _ => []) [(3, ⟨7, 5⟩)] ⟨[2], []⟩).res = .ok [(3, ⟨2, 5⟩)] ∧
    (validators (newComponent [(7, [1, 2])] 2) (fun _ _ => []) [(3, ⟨7, 5⟩)] ⟨[2], []⟩).queries = [] := by decide

/-- `opts.PubKeys = nonCachedPubkeys` assigns to the caller's options struct: after the call it holds validator keys
where the caller had put public shares. -/
theorem validators_writes_caller_opts_witness :
    (validators (newComponent [(7, [1, 2])] 2) (fun _ _ => []) [] ⟨[2], []⟩).optPks = [7] ∧
      (validators (newComponent [(7, [1, 2])] 2) (fun _ _ => []) [] ⟨[2], []⟩).optPks ≠
        (⟨[2], []⟩ : VReq).pubkeys := by decide

end CharonV.VapiMaps
