/-
C13, the session of the reliable broadcast: `dkg/bcast` signs `H(session, id, type url, value)`
(`Model/Bcast.lean`, `no_cross_session_replay`-style theorems assume that two ceremonies use
different sessions). Which session the DKG protocols configure is glue outside `dkg/bcast`; the table
below is regenerated from the source on every run (translator T-session).
-/
import CharonV.Generated.BcastSession

namespace CharonV.Bcast

open CharonV.Generated

/-- what each protocol has to hand to `bcast.New`: the initial ceremony knows no lock yet and uses
the hash of the definition being turned into a cluster; every ceremony that changes an existing
cluster uses that cluster's LOCK hash — the definition hash survives such a ceremony, the lock hash
does not, so signatures collected in one ceremony do not verify in the next one. -/
def expectedSessions : List (String × String) := [
  ("dkg/dkg.go", "def.DefinitionHash"),
  ("dkg/protocol_addoperators.go", "pctx.Lock.LockHash"),
  ("dkg/protocol_removeoperators.go", "pctx.Lock.LockHash"),
  ("dkg/protocol_replaceoperator.go", "pctx.Lock.LockHash"),
  ("dkg/protocol_reshare.go", "pctx.Lock.LockHash")
]

/-- **Every protocol configures a per-ceremony session.** The call sites of `bcast.New` in the
source are exactly the expected ones, each with the expected session argument (no shared helper, no
additional site). -/
theorem sessions_per_ceremony : BcastSession.sites = expectedSessions := by decide

end CharonV.Bcast
