/-
C04 — Consensus liveness, the provable core.

C04: "If at most f members crash (at any point, even halfway through a broadcast), start late or
stay silent, the other members keep running the duty's consensus instance with their proposals
available, and messages between running members arrive well within a round's timeout, then every
running member decides, within at most one full leader rotation after the last such fault. No
message sent by an honest member is ever rejected as unjustified by another honest member."

Real-time liveness is explored by the harness. Proved here, at the level of the implementation
model `CharonV.Model.Qbft` (one node = one `qbft.Run` call), for every `d : Def` with
`1 ≤ d.nodes`, every oracle (Go map order, possibly different in every step), every state reachable
by `step` from the initial state `{ proc := p }`:

A. `honest_msgs_justified` — whatever a node broadcasts passes `isJustified` of every receiver
   (for every value of the receiver's `compareFailureRound`), under
     H-cmp: every `recv` event carries `CmpOut.ok` or `.timeout`, never `.fail`
            (the compare-failure path is a documented known finding), and
     H-buf: every core of every received message (main or attachment) has `src < d.nodes`, and a
            PREPARE core has `value ≠ 0` and `round ≥ 1`           (`EvOk` = H-cmp ∧ H-buf).
   `honest_non_preprepare_justified`: for PREPARE / COMMIT / ROUND-CHANGE / DECIDED no hypothesis
   on the environment is needed at all (any messages, any compare outcome).
B. `leader_rotation` — in any `n` consecutive rounds every member leads exactly once.
C. `round_sync_*` — the F+1 rule only jumps forward and announces the new round; its detection is
   complete for every buffer order; `decided_resend`: a decided node answers a lagging member.
D. `honest_within_limits` — every attachment list a node sends has at most `2·nodes` entries
   (H-buf, and received DECIDEDs respecting that same limit: `EvLim`).
-/
import CharonV.Proofs.QbftLive

namespace CharonV.Qbft

/-! ### A. producer / verifier agreement -/

/-- **No message of an honest member is rejected as unjustified** (H-cmp, H-buf). -/
theorem honest_msgs_justified (d : Def) (hn : 1 ≤ d.nodes) (p : Nat) {n : NodeState}
    (hr : NodeReach d p (EvOk d) n) (o : Oracle) (e : Event) (he : EvOk d e)
    {typ round value pr pv : Nat} {just : List Core}
    (hout : Out.bcast typ round value pr pv just ∈ (step d o n e).2) (cfr' : Nat) :
    isJustified d { core := ⟨typ, n.proc, round, value, pr, pv⟩, just := just } cfr' = some true := by
  exact step_bcast_justified hn (liveInv_reach hn hr) (goodInv_reach hn hr) o e he hout cfr'

/-- the same for a whole `run` (one oracle): every broadcast of the step after any event list
satisfying H-cmp ∧ H-buf is justified. -/
theorem honest_msgs_justified_run (d : Def) (hn : 1 ≤ d.nodes) (p : Nat) (o : Oracle)
    (evs : List Event) (hevs : ∀ e ∈ evs, EvOk d e) (e : Event) (he : EvOk d e)
    {typ round value pr pv : Nat} {just : List Core}
    (hout : Out.bcast typ round value pr pv just ∈ (step d o (run d o { proc := p } evs).1 e).2)
    (cfr' : Nat) :
    isJustified d { core := ⟨typ, (run d o { proc := p } evs).1.proc, round, value, pr, pv⟩,
                    just := just } cfr' = some true :=
  honest_msgs_justified d hn p (NodeReach.run o evs NodeReach.init hevs) o e he hout cfr'

/-- PREPARE, COMMIT, ROUND-CHANGE and DECIDED messages are justified in *every* reachable state:
any received messages (Byzantine senders included), any compare outcome. -/
theorem honest_non_preprepare_justified (d : Def) (hn : 1 ≤ d.nodes) (p : Nat) {n : NodeState}
    (hr : NodeReach d p (fun _ => True) n) (o : Oracle) (e : Event)
    {typ round value pr pv : Nat} {just : List Core}
    (hout : Out.bcast typ round value pr pv just ∈ (step d o n e).2) (ht : typ ≠ tPrePrepare)
    (cfr' : Nat) :
    isJustified d { core := ⟨typ, n.proc, round, value, pr, pv⟩, just := just } cfr' = some true := by
  obtain ⟨_, hk⟩ := step_bcast hout
  have hl := liveInv_reach hn hr
  have hc0 : LiveCore d { n with started := true } :=
    ⟨hl.core.prepOk, hl.core.commitOk, hl.core.commitTimer, hl.core.cacheOk⟩
  exact bcastKind_justified_other hn hc0 hk ht cfr'

/-! ### B. leader rotation -/

/-- In any `n` consecutive rounds `r0 … r0+n-1` every member `p < n` leads exactly one round
(`leaderFn` = `core/consensus/qbft.leader`). -/
theorem leader_rotation (slot ty n : Nat) (hn : 1 ≤ n) (r0 p : Nat) (hp : p < n) :
    ∃ r, r0 ≤ r ∧ r < r0 + n ∧ leaderFn slot ty r n = p ∧
      ∀ r', r0 ≤ r' → r' < r0 + n → leaderFn slot ty r' n = p → r' = r := by
  obtain ⟨r, h1, h2, h3⟩ := leaderFn_exists slot ty n hn r0 p hp
  refine ⟨r, h1, h2, h3, ?_⟩
  intro r' h1' h2' h3'
  exact leaderFn_inj slot ty n r0 r' r h1' h2' h1 h2 (h3'.trans h3.symm)

/-! ### C. round synchronisation -/

/-- (i) the F+1 rule only jumps forward: the new round is strictly above the old one, the node's
own ROUND-CHANGE for the new round is broadcast, and no "bug:" panic is raised. -/
theorem round_sync_forward (d : Def) (s1 : NodeState) (just : List Core) (nr : Nat)
    (h : nextMinRound d just s1.round = some nr) :
    s1.round < nr ∧ (onFPlus1 d s1 just).1.round = nr ∧
    Out.bcast tRoundChange nr 0 s1.preparedRound s1.preparedValue s1.preparedJust ∈
      (onFPlus1 d s1 just).2 ∧
    ∀ out ∈ (onFPlus1 d s1 just).2, out.isBug = false :=
  onFPlus1_jump h

/-- (ii) completeness of the F+1 detection, for every order of the flattened buffer: ROUND-CHANGEs
above the current round from `f+1` distinct sources make `getFPlus1RoundChanges` succeed, with a
result `nextMinRound` accepts. -/
theorem round_sync_detect (d : Def) (all : List Core) (round : Nat) (S : List Nat) (hS : S.Nodup)
    (hlen : d.faulty + 1 ≤ S.length)
    (h : ∀ s ∈ S, ∃ c ∈ all, c.typ = tRoundChange ∧ c.src = s ∧ round < c.round) :
    ∃ frc nr, getFPlus1RoundChanges d all round = some frc ∧
      nextMinRound d frc round = some nr ∧ round < nr := by
  obtain ⟨frc, hf⟩ := getFPlus1_complete d all round S hS hlen h
  obtain ⟨nr, h1, h2⟩ := nextMinRound_of_fplus1 hf
  exact ⟨frc, nr, hf, h1, h2⟩

/-- (i)+(ii) as one step of `Run`: an undecided running node receiving a justified ROUND-CHANGE for
a higher round, with higher-round ROUND-CHANGEs of `f+1` distinct members buffered, moves to a
strictly higher round, keeps running, and broadcasts its ROUND-CHANGE for that round. -/
theorem round_sync_step (d : Def) (o : Oracle) (n : NodeState) (m : Msg) (cmp : CmpOut)
    (S : List Nat) (hd : n.dead = false) (hs : n.started = true) (hq : n.qCommit = [])
    (hj : isJustified d m n.compareFailureRound = some true)
    (ht : m.core.typ = tRoundChange) (hr : n.round < m.core.round)
    (hdd : (uFPlus1RoundChanges, m.core.round) ∉ n.dedup)
    (hS : S.Nodup) (hlen : d.faulty + 1 ≤ S.length)
    (hsrc : ∀ s ∈ S, ∃ c ∈ flatten o.srcOrd (bufferMsg d.fifo n.buffer m),
      c.typ = tRoundChange ∧ c.src = s ∧ n.round < c.round) :
    ∃ nr, n.round < nr ∧ (step d o n (.recv m cmp)).1.round = nr ∧
      (step d o n (.recv m cmp)).1.dead = false ∧
      Out.bcast tRoundChange nr 0 n.preparedRound n.preparedValue n.preparedJust ∈
        (step d o n (.recv m cmp)).2 :=
  fplus1_step S hd hs hq hj ht hr hdd hS hlen hsrc

/-- (iii) a decided node answers a ROUND-CHANGE of another member whose round is above every round
that member triggered a reply with before, as long as fewer than `maxDecidedResends` = 16 replies
were triggered by it: the only output is a DECIDED carrying `qCommit`, which every receiver accepts
as justified; the reply is recorded in the resend table. -/
theorem decided_resend (d : Def) (hn : 1 ≤ d.nodes) (p : Nat) {n : NodeState}
    (hreach : NodeReach d p (fun _ => True) n) (o : Oracle) (m : Msg) (cmp : CmpOut)
    (hd : n.dead = false) (hs : n.started = true) (hq : n.qCommit ≠ [])
    (hsrc : m.core.src ≠ n.proc) (ht : m.core.typ = tRoundChange)
    (hr : (resendOf n m.core.src).1 < m.core.round)
    (hc : (resendOf n m.core.src).2 < maxDecidedResends) :
    (step d o n (.recv m cmp)).2 = [Out.bcast tDecided n.round n.qCommitValue 0 0 n.qCommit] ∧
    resendOf (step d o n (.recv m cmp)).1 m.core.src =
      (m.core.round, (resendOf n m.core.src).2 + 1) ∧
    (step d o n (.recv m cmp)).1.qCommit = n.qCommit ∧
    ∀ cfr', isJustified d { core := ⟨tDecided, n.proc, n.round, n.qCommitValue, 0, 0⟩,
                             just := n.qCommit } cfr' = some true := by
  obtain ⟨h1, h2, h3⟩ := decided_resend_step (d := d) (o := o) (cmp := cmp) hd hs hq hsrc ht hr hc
  refine ⟨h1, h2, h3, ?_⟩
  intro cfr'
  exact honest_non_preprepare_justified d hn p hreach o (.recv m cmp)
    (by rw [h1]; exact List.mem_singleton.mpr rfl) (by decide) cfr'

/-! ### D. size limits -/

/-- Every attachment list a node broadcasts has at most `2·nodes` entries, provided received
messages satisfy H-buf and received DECIDEDs respect that limit themselves (`EvLim`). -/
theorem honest_within_limits (d : Def) (hn : 1 ≤ d.nodes) (p : Nat) {n : NodeState}
    (hr : NodeReach d p (EvLim d) n) (o : Oracle) (e : Event) (he : EvLim d e)
    {typ round value pr pv : Nat} {just : List Core}
    (hout : Out.bcast typ round value pr pv just ∈ (step d o n e).2) :
    just.length ≤ 2 * d.nodes := by
  exact step_bcast_length (limInv_reach hn hr) o e he hout

/-! ### Non-vacuity: concrete runs of a 4-member cluster (quorum 3, f = 1), member 2 -/

namespace C04Ex

def d4 : Def := { nodes := 4, fifo := 10, leader := fun r => r % 4 }

/-- null ROUND-CHANGE of `src` for `round`. -/
def rcNull (src round : Nat) : Msg := { core := ⟨tRoundChange, src, round, 0, 0, 0⟩ }
def prep (src round value : Nat) : Core := ⟨tPrepare, src, round, value, 0, 0⟩
def commit (src round value : Nat) : Core := ⟨tCommit, src, round, value, 0, 0⟩
/-- ROUND-CHANGE of `src` for round 2, prepared in round 1 on value 5 with PREPAREs of 0,1,3. -/
def rcPrepared (src : Nat) : Msg :=
  { core := ⟨tRoundChange, src, 2, 0, 1, 5⟩, just := [prep 0 1 5, prep 1 1 5, prep 3 1 5] }

/-- member 2 started, got its proposal, saw ROUND-CHANGEs for round 2 of members 0 and 1
(the second one fired the F+1 rule). -/
def evsA : List Event := [.start, .input 7, .recv (rcNull 0 2) .ok, .recv (rcNull 1 2) .ok]

-- A: the hypotheses of `honest_msgs_justified` hold on this run …
example : ∀ e ∈ evsA ++ [.recv (rcNull 3 2) .ok], EvOk d4 e := by decide
-- … the third ROUND-CHANGE makes member 2 (leader of round 2) send a PRE-PREPARE with its own
-- value and the null quorum as justification …
example : (step d4 {} (run d4 {} { proc := 2 } evsA).1 (.recv (rcNull 3 2) .ok)).2 =
    [.rule uQuorumRoundChanges 2,
     .bcast tPrePrepare 2 7 0 0 [(rcNull 0 2).core, (rcNull 1 2).core, (rcNull 3 2).core]] := by
  decide
-- … which a receiver accepts.
example : isJustified d4 ⟨⟨tPrePrepare, 2, 2, 7, 0, 0⟩,
    [(rcNull 0 2).core, (rcNull 1 2).core, (rcNull 3 2).core]⟩ 0 = some true := by decide

/-- same, but the others had prepared value 5 in round 1. -/
def evsP : List Event := [.start, .input 7, .recv (rcPrepared 0) .ok, .recv (rcPrepared 1) .ok]

example : ∀ e ∈ evsP ++ [.recv (rcPrepared 3) .ok], EvOk d4 e := by decide
-- the leader re-proposes the prepared value 5 (not its own 7), attaching quorum + PREPAREs (6 ≤ 2·4)
example : (step d4 {} (run d4 {} { proc := 2 } evsP).1 (.recv (rcPrepared 3) .ok)).2 =
    [.rule uQuorumRoundChanges 2,
     .bcast tPrePrepare 2 5 0 0 [(rcPrepared 0).core, (rcPrepared 1).core, (rcPrepared 3).core,
        prep 0 1 5, prep 1 1 5, prep 3 1 5]] := by decide
example : ∀ e ∈ evsP ++ [.recv (rcPrepared 3) .ok], EvLim d4 e := by decide

/-- **H-cmp is necessary** (known finding, compare failure): member 2's `compare` failed on the
round-1 PRE-PREPARE (`compareFailureRound = 1`); as leader of round 2 it then proposes its own
value 7 against the prepared certificate for 5, and a receiver whose own compare succeeded
(`compareFailureRound = 0`) rejects that PRE-PREPARE as unjustified. -/
def evsF : List Event :=
  [.start, .input 7, .recv { core := ⟨tPrePrepare, 1, 1, 5, 0, 0⟩ } .fail,
   .recv (rcPrepared 0) .ok, .recv (rcPrepared 1) .ok]

example : (step d4 {} (run d4 {} { proc := 2 } evsF).1 (.recv (rcPrepared 3) .ok)).2 =
    [.rule uQuorumRoundChanges 2,
     .bcast tPrePrepare 2 7 0 0 [(rcPrepared 1).core, (rcPrepared 0).core, (rcPrepared 3).core,
        prep 0 1 5, prep 1 1 5, prep 3 1 5]] := by decide
example : isJustified d4 ⟨⟨tPrePrepare, 2, 2, 7, 0, 0⟩,
    [(rcPrepared 1).core, (rcPrepared 0).core, (rcPrepared 3).core,
        prep 0 1 5, prep 1 1 5, prep 3 1 5]⟩ 0 = some false := by decide
-- (a receiver that had the same compare failure accepts it: round = compareFailureRound + 1)
example : isJustified d4 ⟨⟨tPrePrepare, 2, 2, 7, 0, 0⟩,
    [(rcPrepared 1).core, (rcPrepared 0).core, (rcPrepared 3).core,
        prep 0 1 5, prep 1 1 5, prep 3 1 5]⟩ 1 = some true := by decide

-- B: slot 10, duty type 1, rounds 3..6 of a 4-member cluster: leaders 2,3,0,1
example : (List.range 4).map (fun k => leaderFn 10 1 (3 + k) 4) = [2, 3, 0, 1] := by decide

-- C (i)+(ii): the second higher-round ROUND-CHANGE (f+1 = 2) moves member 2 from round 1 to 2
example : (step d4 {} (run d4 {} { proc := 2 } [.start, .input 7, .recv (rcNull 0 2) .ok]).1
      (.recv (rcNull 1 2) .ok)).2 =
    [.rule uFPlus1RoundChanges 1, .roundChange 1 2 uFPlus1RoundChanges, .stopTimer, .newTimer 2,
     .bcast tRoundChange 2 0 0 0 []] := by decide

/-- DECIDED of member 1 for round 1, value 5, with COMMITs of 0, 1, 3. -/
def decidedMsg : Msg :=
  { core := ⟨tDecided, 1, 1, 5, 0, 0⟩, just := [commit 0 1 5, commit 1 1 5, commit 3 1 5] }

-- C (iii): once decided, member 2 answers member 3's ROUND-CHANGE with the DECIDED quorum, once
example : (run d4 {} { proc := 2 }
      [.start, .recv decidedMsg .ok, .recv (rcNull 3 2) .ok, .recv (rcNull 3 2) .ok]).2 =
    [.newTimer 1, .rule uJustifiedDecided 1, .stopTimer,
     .decide 5 1 [commit 0 1 5, commit 1 1 5, commit 3 1 5],
     .bcast tDecided 1 5 0 0 [commit 0 1 5, commit 1 1 5, commit 3 1 5]] := by decide

end C04Ex

end CharonV.Qbft
