/-
C12 — signatures of cluster artifacts (`cluster/definition.go`, `cluster/lock.go`, `cluster/eip712sigs.go`,
`cluster/helpers.go`, `cluster/distvalidator.go`).

Model: `CharonV.Model.LockSigs` (the DECISION LOGIC of `Definition.VerifySignatures` and `Lock.VerifySignatures`,
symbolic cryptography: a valid signature names its key and its digest, an aggregate names its signers and its message).
Helper lemmas and the predicates `Unsigned`, `SignedOK`, `CreatorOK`: `CharonV.Proofs.LockSigs`.
All theorems hold for every definition / lock, every minor version `ver`, every number of operators and validators,
every hash type `η`, every hash functions `Hashes`, every `recover` (`tbls.RecoverPubkey`).

(A) definition, nil execution client (only EOA signatures): `def_accepted_iff` is the exact acceptance condition;
    the `def_…_rejected` theorems are its consequences (tampering, wrong signer, replay, swap, foreign definition,
    wrong EIP-712 primary type, half signed …); the `…_witness` theorems state what the code as it is does NOT check.
(B) lock: `node_sigs_accepted_iff`, `lock_accepted_iff`, `vals_accepted_iff`, consequences, witnesses.
(C) `distvalidator.go`.
(D) one finding, REPAIRED in /repo (5c353f3; model switch `Fixes`): `verifyBuilderRegistrations` indexed the validator
    addresses without a bound check — `Lock.VerifySignatures` panicked on a consistently signed v1.7+ lock with more
    validators than addresses (`lock_more_validators_than_addresses_panics_witness` about `Fixes.asFound`); now
    `regs_check_never_panics`, `verify_lock_never_panics` hold for every lock.
-/
import CharonV.Proofs.LockSigs

namespace CharonV.LockSigs
variable {η : Type} [DecidableEq η]
set_option linter.unusedSectionVars false

/-! ## (A1) one operator -/

/-- **Signed operator.** With a nil execution client the loop body classifies an operator as signed iff its address
is the address of a key `k` and both signatures are `k`'s, over the operator config digest of THIS version / chain /
stored config hash and over THIS operator's ENR. -/
theorem op_check_signed_iff (ver ch : Nat) (h : η) (o : Operator η) :
    opCheck none ver ch h o = .signed ↔ SignedOK ver ch h o :=
  opCheck_none_signed_iff ver ch h o

example : SignedOK (η := Nat) 5 1 77 ⟨.key 4, 9, some 4, .good 4 (.opCfg 1 77), .good 4 (.enr 1 9)⟩ :=
  ⟨4, rfl, rfl, rfl⟩

/-- **Unsigned operator** (for every execution client): empty address and both signatures empty. -/
theorem op_check_unsigned_iff (e : Option (Eth1 η)) (ver ch : Nat) (h : η) (o : Operator η) :
    opCheck e ver ch h o = .unsigned ↔ Unsigned o :=
  opCheck_unsigned_iff e ver ch h o

example : Unsigned (η := Nat) ⟨.empty, 9, some 4, .empty, .bytes 0⟩ := by decide

/-! ## (A2) `Definition.VerifySignatures(nil)` -/

/-- **Acceptance, exactly.** Versions ≤ v1.2: no operator carries any signature byte (nothing else is read).
From v1.3 on: the fork version is of a known network, the creator signature has a valid length, the operators are
ALL unsigned or ALL correctly signed (an empty operator list is both), and the creator: v1.3 no signature at all; from
v1.4 either (empty address, no signature, and at least one — hence every — operator unsigned) or correctly signed. -/
theorem def_accepted_iff (d : Definition η) :
    verifyDef none d = .ok ↔
      (if d.ver ≤ 2 then ∀ o ∈ d.ops, o.enrSig.size = 0 ∧ o.cfgSig.size = 0
       else ∃ ch, d.chain = some ch ∧ lenOk d.ver d.creator.cfgSig = true ∧
         ((∀ o ∈ d.ops, Unsigned o) ∨ (∀ o ∈ d.ops, SignedOK d.ver ch d.cfgHash o)) ∧
         (if d.ver = 3 then d.creator.cfgSig.size = 0
          else ((d.creator.addr = .empty ∧ d.creator.cfgSig.size = 0 ∧ ∃ o ∈ d.ops, Unsigned o) ∨
                CreatorOK ch d.cfgHash d.creator))) :=
  verifyDef_none_ok_iff d

/-- a signed v1.5 definition with two operators -/
def exDef : Definition Nat :=
  { ver := 5, content := 0, chain := some 1, numVals := 1, threshold := 2,
    ops := [⟨.key 4, 9, some 14, .good 4 (.opCfg 1 77), .good 4 (.enr 1 9)⟩,
            ⟨.key 5, 10, some 15, .good 5 (.opCfg 1 77), .good 5 (.enr 1 10)⟩],
    creator := ⟨.key 3, .good 3 (.creatorCfg 1 77)⟩, cfgHash := 77, defHash := 78 }

example : verifyDef none exDef = .ok := by decide

/-! ## (A3) consequences: what is rejected (ver ≥ 3, nil execution client, every operator count) -/

/-- **The stored config hash is signed.** Changing it in an accepted definition that carries a signature is rejected. -/
theorem def_config_hash_change_rejected (d : Definition η) (hv : 3 ≤ d.ver) (hok : verifyDef none d = .ok)
    (hsig : (∃ o ∈ d.ops, ¬ Unsigned o) ∨ d.creator.cfgSig.size ≠ 0) (h' : η) (hne : h' ≠ d.cfgHash) :
    verifyDef none { d with cfgHash := h' } ≠ .ok := by
  intro hok'
  exact hne (cfgHash_bound (d' := { d with cfgHash := h' }) hv rfl rfl rfl hsig hok hok')

example : verifyDef none { exDef with cfgHash := 76 } ≠ .ok := by decide

/-- **Tampered content.** Full verification = `VerifyHashes` and `VerifySignatures`. If the config hash function is
injective in the content, a fully verified definition that carries a signature cannot have its content changed —
whatever is written into the two stored hash fields. -/
theorem def_tampered_content_rejected (H : Hashes η) (z : η)
    (hinj : ∀ v c c' ch n t as a, H.cfg v c ch n t as a = H.cfg v c' ch n t as a → c = c')
    (d : Definition η) (hv : 3 ≤ d.ver) (hh : verifyDefHashes H z d = .ok) (hok : verifyDef none d = .ok)
    (hsig : (∃ o ∈ d.ops, ¬ Unsigned o) ∨ d.creator.cfgSig.size ≠ 0)
    (c' : Nat) (hc : c' ≠ d.content) (h1 h2 : η) :
    ¬ (verifyDefHashes H z { d with content := c', cfgHash := h1, defHash := h2 } = .ok ∧
       verifyDef none { d with content := c', cfgHash := h1, defHash := h2 } = .ok) := by
  rintro ⟨hh', hok'⟩
  have e1 : h1 = d.cfgHash :=
    cfgHash_bound (d' := { d with content := c', cfgHash := h1, defHash := h2 }) hv rfl rfl rfl hsig hok hok'
  have e2 : d.cfgHash = cfgHashOf H d := by
    unfold verifyDefHashes at hh
    split at hh
    · cases hh
    · rename_i hx; exact Classical.not_not.1 hx
  have e3 : h1 = cfgHashOf H { d with content := c', cfgHash := h1, defHash := h2 } := by
    unfold verifyDefHashes at hh'
    split at hh'
    · cases hh'
    · rename_i hx; exact Classical.not_not.1 hx
  rw [e1, e2] at e3
  exact hc (hinj _ _ _ _ _ _ _ _ e3).symm

/-- a config hash function that is injective in the content; `exDef` with content = config hash 77 fully verifies -/
def exHinj : Hashes Nat := ⟨fun _ c _ _ _ _ _ => c, fun _ => 78, fun _ _ => 5⟩

example : verifyDefHashes exHinj 0 { exDef with content := 77 } = .ok ∧
    verifyDef none { exDef with content := 77 } = .ok ∧ (∃ o ∈ exDef.ops, ¬ Unsigned o) := by decide

/-- **Wrong signer (config signature).** A valid signature by another key than the operator's address. -/
theorem def_wrong_signer_rejected (d : Definition η) (hv : 3 ≤ d.ver) (o : Operator η) (ho : o ∈ d.ops)
    (k k' : Key) (dg : Digest η) (ha : o.addr = .key k) (hs : o.cfgSig = .good k' dg) (hne : k' ≠ k) :
    verifyDef none d ≠ .ok := by
  intro hok
  obtain ⟨ch, _, hor⟩ := accepted_op hv hok ho
  rcases hor with hu | ⟨k2, h1, h2, _⟩
  · exact not_unsigned_of_key ha hu
  · rw [ha] at h1; rw [hs] at h2; cases h1; cases h2; exact hne rfl

/-- **Wrong signer (ENR signature).** -/
theorem def_wrong_enr_signer_rejected (d : Definition η) (hv : 3 ≤ d.ver) (o : Operator η) (ho : o ∈ d.ops)
    (k k' : Key) (dg : Digest η) (ha : o.addr = .key k) (hs : o.enrSig = .good k' dg) (hne : k' ≠ k) :
    verifyDef none d ≠ .ok := by
  intro hok
  obtain ⟨ch, _, hor⟩ := accepted_op hv hok ho
  rcases hor with hu | ⟨k2, h1, _, h2⟩
  · exact not_unsigned_of_key ha hu
  · rw [ha] at h1; rw [hs] at h2; cases h1; cases h2; exact hne rfl

example : verifyDef none { exDef with ops := [⟨.key 4, 9, some 14, .good 5 (.opCfg 1 77), .good 4 (.enr 1 9)⟩] } ≠ .ok := by
  decide

/-- **Replay.** Operator `b` (another address) carrying a copy of operator `a`'s config or ENR signature. -/
theorem def_replayed_signature_rejected (d : Definition η) (hv : 3 ≤ d.ver) (a b : Operator η)
    (_ha : a ∈ d.ops) (hb : b ∈ d.ops) (ka kb : Key) (_haa : a.addr = .key ka) (hba : b.addr = .key kb)
    (hne : ka ≠ kb) (d1 d2 : Digest η) (h1 : a.cfgSig = .good ka d1) (h2 : a.enrSig = .good ka d2)
    (hcopy : b.cfgSig = a.cfgSig ∨ b.enrSig = a.enrSig) :
    verifyDef none d ≠ .ok := by
  rcases hcopy with hc | hc
  · exact def_wrong_signer_rejected d hv b hb kb ka d1 hba (hc.trans h1) hne
  · exact def_wrong_enr_signer_rejected d hv b hb kb ka d2 hba (hc.trans h2) hne

/-- **Swap.** Two correctly signed operators with different addresses exchange their signature pairs. -/
theorem def_swapped_signatures_rejected (d : Definition η) (hv : 3 ≤ d.ver) (ch : Nat)
    (l1 l2 l3 : List (Operator η)) (a b : Operator η)
    (_hops : d.ops = l1 ++ a :: l2 ++ b :: l3)
    (hsa : SignedOK d.ver ch d.cfgHash a) (hsb : SignedOK d.ver ch d.cfgHash b) (hne : a.addr ≠ b.addr) :
    verifyDef none { d with ops := l1 ++ { a with cfgSig := b.cfgSig, enrSig := b.enrSig } :: l2 ++
                                      { b with cfgSig := a.cfgSig, enrSig := a.enrSig } :: l3 } ≠ .ok := by
  obtain ⟨ka, ha, _, _⟩ := hsa
  obtain ⟨kb, hb, hbc, _⟩ := hsb
  refine def_wrong_signer_rejected _ hv { a with cfgSig := b.cfgSig, enrSig := b.enrSig } (by simp) ka kb _ ha hbc ?_
  rintro rfl; exact hne (ha.trans hb.symm)

/-- **Signature made for another definition** (other config hash) **or another network** (other chain id). -/
theorem def_foreign_definition_signature_rejected (d : Definition η) (hv : 3 ≤ d.ver) (ch : Nat)
    (hch : d.chain = some ch) (o : Operator η) (ho : o ∈ d.ops) (k : Key) (ch' : Nat) (h' : η)
    (hs : o.cfgSig = .good k (opDigest d.ver ch' h')) (hne : h' ≠ d.cfgHash ∨ ch' ≠ ch) :
    verifyDef none d ≠ .ok := by
  refine cfgSig_digest_rejected hv ho hs ?_
  intro c hc heq
  rw [hch] at hc; cases hc
  obtain ⟨e1, e2⟩ := opDigest_inj heq
  rcases hne with h | h
  · exact h e2
  · exact h e1

/-- **Domain separation of the EIP-712 primary types.** A valid signature by the right key over the creator type, the
operator type of the other version family, the terms-and-conditions type, an ENR type, or the raw config hash is no
operator config signature. -/
theorem def_wrong_typed_data_rejected (d : Definition η) (hv : 3 ≤ d.ver) (o : Operator η) (ho : o ∈ d.ops)
    (k : Key) (dg : Digest η) (hs : o.cfgSig = .good k dg) (c : Nat) (h : η) (e : Nat)
    (hdg : dg = .creatorCfg c h ∨ (d.ver ≠ 3 ∧ dg = .legacyCfg c h) ∨ (d.ver = 3 ∧ dg = .opCfg c h) ∨
           dg = .terms c ∨ dg = .raw h ∨ dg = .enr c e) :
    verifyDef none d ≠ .ok := by
  refine cfgSig_digest_rejected hv ho hs ?_
  intro ch _ heq
  unfold opDigest at heq
  rcases hdg with rfl | ⟨h3, rfl⟩ | ⟨h3, rfl⟩ | rfl | rfl | rfl
  · split at heq <;> cases heq
  · rw [if_neg h3] at heq; cases heq
  · rw [if_pos h3] at heq; cases heq
  · split at heq <;> cases heq
  · split at heq <;> cases heq
  · split at heq <;> cases heq

example : verifyDef none { exDef with ops := [⟨.key 4, 9, some 14, .good 4 (.creatorCfg 1 77), .good 4 (.enr 1 9)⟩] } ≠ .ok := by
  decide

/-- **The ENR signature binds the ENR** (and the chain id). -/
theorem def_enr_signature_binds_enr (d : Definition η) (hv : 3 ≤ d.ver) (o : Operator η) (ho : o ∈ d.ops)
    (k : Key) (ch' e' : Nat) (hs : o.enrSig = .good k (.enr ch' e'))
    (hne : e' ≠ o.enr ∨ ∀ ch, d.chain = some ch → ch' ≠ ch) :
    verifyDef none d ≠ .ok := by
  intro hok
  obtain ⟨ch, hc, hor⟩ := accepted_op hv hok ho
  rcases hor with hu | ⟨k2, _, _, h2⟩
  · exact not_unsigned_of_enr_good hs hu
  · rw [hs] at h2
    have := (Sig.good.inj h2).2
    obtain ⟨e1, e2⟩ := Digest.enr.inj this
    rcases hne with h | h
    · exact h e2
    · exact h ch hc e1

/-- **Half signed.** -/
theorem def_half_signed_rejected (d : Definition η) (hv : 3 ≤ d.ver) (a b : Operator η) (ha : a ∈ d.ops)
    (hb : b ∈ d.ops) (hua : Unsigned a) (hnb : ¬ Unsigned b) : verifyDef none d ≠ .ok := by
  intro hok
  obtain ⟨ch, _, hall⟩ := accepted_signed_op hv hok hb hnb
  exact unsigned_not_signed hua (hall a ha)

/-- **Operators signed, creator did not** (from v1.4). -/
theorem def_operators_signed_creator_missing_rejected (d : Definition η) (hv : 4 ≤ d.ver) (o : Operator η)
    (ho : o ∈ d.ops) (hn : ¬ Unsigned o) (hc : d.creator.cfgSig.size = 0) : verifyDef none d ≠ .ok := by
  intro hok
  obtain ⟨ch, _, hcr⟩ := accepted_creator_v4 hv hok
  rcases hcr with ⟨_, _, u, hu, huu⟩ | ⟨k, _, hk⟩
  · exact def_half_signed_rejected d (by omega) u o hu ho huu hn hok
  · rw [hk] at hc; simp [Sig.size] at hc

/-- **Creator: wrong signer or wrong digest** (from v1.4). -/
theorem def_creator_wrong_signer_rejected (d : Definition η) (hv : 4 ≤ d.ver) (k k' : Key) (dg : Digest η)
    (ha : d.creator.addr = .key k) (hs : d.creator.cfgSig = .good k' dg)
    (hne : k' ≠ k ∨ ∀ ch, d.chain = some ch → dg ≠ .creatorCfg ch d.cfgHash) : verifyDef none d ≠ .ok := by
  intro hok
  obtain ⟨ch, hch, hcr⟩ := accepted_creator_v4 hv hok
  rcases hcr with ⟨he, _⟩ | ⟨k2, h1, h2⟩
  · rw [ha] at he; cases he
  · rw [ha] at h1; rw [hs] at h2; cases h1; cases h2
    rcases hne with h | h
    · exact h rfl
    · exact h ch hch rfl

/-- **v1.3 has no creator signature** (every execution client). -/
theorem def_v1_3_creator_signature_rejected (e : Option (Eth1 η)) (d : Definition η) (hv : d.ver = 3)
    (hc : d.creator.cfgSig.size > 0) : verifyDef e d ≠ .ok := by
  unfold verifyDef creatorCheck
  simp only [hv, hc, if_true]
  rw [if_neg (by omega)]
  split; · simp
  split; · simp
  split; · simp
  split <;> simp

/-- **Versions ≤ v1.2 support no signatures** (every execution client): exactly this error. -/
theorem def_legacy_signatures_rejected (e : Option (Eth1 η)) (d : Definition η) (hv : d.ver ≤ 2) (o : Operator η)
    (ho : o ∈ d.ops) (hs : o.enrSig.size ≠ 0 ∨ o.cfgSig.size ≠ 0) : verifyDef e d = .err .oldSigs := by
  unfold verifyDef
  rw [if_pos hv]
  have : sigsPresent d.ops = true := by
    cases hp : sigsPresent d.ops with
    | true => rfl
    | false =>
      have := (sigsPresent_false_iff d.ops).1 hp o ho
      omega
  rw [this]; rfl

/-! ## (A4) what `Definition.VerifySignatures` does NOT check (the code as it is) -/

/-- **Versions ≤ v1.2: nothing but "no signature bytes" is read** — not the addresses, the creator, the fork version
(`chain = none` is fine), the config hash; for every execution client. -/
theorem def_legacy_creator_and_chain_not_checked_witness (e : Option (Eth1 η)) (d : Definition η) (hv : d.ver ≤ 2)
    (hs : sigsPresent d.ops = false) : verifyDef e d = .ok := by
  unfold verifyDef
  rw [if_pos hv, hs]; rfl

example : verifyDef (η := Nat) none
    { ver := 2, content := 0, chain := none, numVals := 1, threshold := 1,
      ops := [⟨.malformed, 1, none, .empty, .empty⟩], creator := ⟨.malformed, .bytes 7⟩, cfgHash := 0, defHash := 0 } = .ok := by
  decide

/-- **v1.3: the creator address is never read.** -/
theorem def_v1_3_creator_address_not_checked_witness (e : Option (Eth1 η)) (d : Definition η) (hv : d.ver = 3)
    (a : Addr) : verifyDef e { d with creator := { d.creator with addr := a } } = verifyDef e d := by
  unfold verifyDef creatorCheck
  simp only [hv, if_true]

/-- **From v1.4: a creator-signed definition whose operators are all unsigned is accepted** (the state a definition
is in before the operators sign). -/
theorem def_creator_signed_operators_unsigned_accepted_witness (d : Definition η) (hv : 4 ≤ d.ver) (ch : Nat)
    (hch : d.chain = some ch) (hu : ∀ o ∈ d.ops, Unsigned o) (hc : CreatorOK ch d.cfgHash d.creator) :
    verifyDef none d = .ok := by
  rw [def_accepted_iff, if_neg (by omega)]
  refine ⟨ch, hch, ?_, Or.inl hu, ?_⟩
  · obtain ⟨k, _, hk⟩ := hc
    rw [hk]; exact lenOk_good _ _ _
  · rw [if_neg (by omega)]; exact Or.inr hc

example : verifyDef none { exDef with ops := [⟨.empty, 9, some 14, .empty, .empty⟩] } = .ok := by decide

/-- **No operators at all**: accepted when the creator signed; with an empty creator the error is "operators signed
while creator did not" (`noOpSigs = 0 = len(operators)`), for every execution client. -/
theorem def_no_operators_creator_signed_accepted_witness (d : Definition η) (hv : 4 ≤ d.ver) (ch : Nat)
    (hch : d.chain = some ch) (hops : d.ops = []) :
    (CreatorOK ch d.cfgHash d.creator → verifyDef none d = .ok) ∧
    (d.creator.addr = .empty → d.creator.cfgSig.size = 0 →
      ∀ e : Option (Eth1 η), verifyDef e d = .err .opsSignedCreatorNot) := by
  constructor
  · intro hc
    exact def_creator_signed_operators_unsigned_accepted_witness d hv ch hch (by simp [hops]) hc
  · intro ha hs e
    unfold verifyDef creatorCheck
    have hl : lenOk d.ver d.creator.cfgSig = true := by unfold lenOk; rw [if_pos hs]
    rw [if_neg (by omega), hl, hch, hops]
    have h3 : ¬ d.ver = 3 := by omega
    simp [opsLoop, ha, hs, h3]

example : verifyDef none { exDef with ops := [] } = .ok := by decide

/-- **`VerifySignatures` reads only the STORED config hash**: the content (every config-hashed field that is no
operator / creator field), the validator count, the threshold and the stored definition hash are never read; tying them
to the signed hash is left to `VerifyHashes`. -/
theorem def_stored_config_hash_only_witness (e : Option (Eth1 η)) (d : Definition η) (c' n' t' : Nat) (h2 : η) :
    verifyDef e { d with content := c', numVals := n', threshold := t', defHash := h2 } = verifyDef e d := by
  unfold verifyDef creatorCheck
  rfl

/-- **An ERC-1271 "yes" overrides everything**: 65 bytes that are nobody's signature, under any well-formed non-empty
address, are accepted when the execution client answers that the contract at that address approves. -/
theorem def_erc1271_yes_overrides_witness :
    verifyDef (η := Nat) (some ⟨fun _ _ _ => .yes⟩)
      { ver := 5, content := 0, chain := some 1, numVals := 1, threshold := 1,
        ops := [⟨.key 4, 9, some 14, .bytes 65, .bytes 65⟩], creator := ⟨.key 3, .bytes 65⟩,
        cfgHash := 77, defHash := 78 } = .ok ∧
    verifyDef (η := Nat) none
      { ver := 5, content := 0, chain := some 1, numVals := 1, threshold := 1,
        ops := [⟨.key 4, 9, some 14, .bytes 65, .bytes 65⟩], creator := ⟨.key 3, .bytes 65⟩,
        cfgHash := 77, defHash := 78 } = .err (.sigErr .opCfg .recErr) := by
  decide

/-- **v1.11 allows signature lengths 65·n (n ≤ 32)** (multisig contract signatures): with a nil execution client a
130 byte signature passes the length check and fails as an invalid signature; in any other version it is a length
error. -/
theorem def_v1_11_multisig_length_witness :
    lenOk (η := Nat) 11 (.bytes 130) = true ∧ lenOk (η := Nat) 10 (.bytes 130) = false ∧
    verifyDef (η := Nat) none
      { ver := 11, content := 0, chain := some 1, numVals := 1, threshold := 1,
        ops := [⟨.key 4, 9, some 14, .bytes 130, .bytes 130⟩], creator := ⟨.key 3, .good 3 (.creatorCfg 1 77)⟩,
        cfgHash := 77, defHash := 78 } = .err (.invalid .opCfg) ∧
    verifyDef (η := Nat) none
      { ver := 10, content := 0, chain := some 1, numVals := 1, threshold := 1,
        ops := [⟨.key 4, 9, some 14, .bytes 130, .bytes 130⟩], creator := ⟨.key 3, .good 3 (.creatorCfg 1 77)⟩,
        cfgHash := 77, defHash := 78 } = .err .opLen := by
  decide

/-! ## (B5) node signatures -/

/-- **Node signatures, exactly.** Before v1.7 there must be none; from v1.7 exactly one per operator and, POSITIONALLY
in operator order, the i-th is a signature by the key inside operator i's ENR over the STORED lock hash. -/
theorem node_sigs_accepted_iff (l : Lock η) :
    nodeSigsCheck l = none ↔
      (if l.defn.ver ≤ 6 then l.nodeSigs = []
       else l.nodeSigs.length = l.defn.ops.length ∧
         ∀ i (hi : i < l.defn.ops.length) (hj : i < l.nodeSigs.length),
           ∃ k, (l.defn.ops[i]).enrKey = some k ∧ l.nodeSigs[i] = .good k (.raw l.lockHash)) :=
  nodeSigsCheck_none_iff l

/-! ## (B6) `Lock.VerifySignatures` -/

/-- **Acceptance, exactly.** The definition's signatures verify and either (versions ≤ v1.1, empty aggregate: nothing
else is looked at) or the aggregate is a real aggregate whose signer set is — up to order — ALL public shares of ALL
validators (at least one), over the RECOMPUTED lock hash; every validator passes the share checks (`vals_accepted_iff`);
the registrations and the node signatures pass. -/
theorem lock_accepted_iff (e : Option (Eth1 η)) (H : Hashes η) (z : η) (R : List (Nat × BKey) → BKey) (l : Lock η) :
    verifyLock e H z R l = .ok ↔
      verifyDef e l.defn = .ok ∧
        ((l.agg.size = 0 ∧ l.defn.ver ≤ 1) ∨
         (∃ signers m, l.agg = .agg signers m ∧
            valsLoop R l.defn.ops.length l.defn.threshold l.vals [] = none ∧
            allShares l.vals ≠ [] ∧ signers.Perm (allShares l.vals) ∧ m = lockHashOf H z l ∧
            regsCheck l.defn.ver l.defn.numAddrs 0 l.vals = none ∧ nodeSigsCheck l = none)) :=
  verifyLock_ok_iff e H z R l

/-- hash functions, `recover` and a v1.7 lock (one operator, one validator) for the examples; the STORED lock hash (6)
differs from the recomputed one (5) -/
def exH : Hashes Nat := ⟨fun _ _ _ _ _ _ _ => 77, fun _ => 78, fun _ _ => 5⟩
def exR : List (Nat × BKey) → BKey := fun _ => .root 1
def exLock : Lock Nat :=
  { defn := { ver := 7, content := 0, chain := some 1, numVals := 1, threshold := 1,
              ops := [⟨.empty, 9, some 14, .empty, .empty⟩],
              creator := ⟨.key 3, .good 3 (.creatorCfg 1 77)⟩, cfgHash := 77, defHash := 78 },
    vals := [⟨some (.root 1), [some (.share 1 1)], .valid⟩],
    lockHash := 6, agg := .agg [.share 1 1] 5, nodeSigs := [.good 14 (.raw 6)] }

example : verifyLock none exH 0 exR exLock = .ok := by decide
example : nodeSigsCheck exLock = none := by decide

/-- a v1.7 lock with two operators (ENR keys 14, 15) and one validator with two public shares -/
def exLock2 : Lock Nat :=
  { defn := { ver := 7, content := 0, chain := some 1, numVals := 1, threshold := 1,
              ops := [⟨.empty, 9, some 14, .empty, .empty⟩, ⟨.empty, 10, some 15, .empty, .empty⟩],
              creator := ⟨.key 3, .good 3 (.creatorCfg 1 77)⟩, cfgHash := 77, defHash := 78 },
    vals := [⟨some (.root 1), [some (.share 1 1), some (.share 1 2)], .valid⟩],
    lockHash := 6, agg := .agg [.share 1 1, .share 1 2] 5, nodeSigs := [.good 14 (.raw 6), .good 15 (.raw 6)] }

example : verifyLock none exH 0 exR exLock2 = .ok := by decide

/-! ## (B7) the validators -/

/-- **The validator loop, exactly**: every validator has a well-formed group key, exactly one well-formed public share
per operator, no share twice, the shares pass `verifySharesReconstruct` for the threshold; no group key occurs twice. -/
theorem vals_accepted_iff (R : List (Nat × BKey) → BKey) (n t : Nat) (vs : List Validator) :
    valsLoop R n t vs [] = none ↔
      (∀ v ∈ vs, ∃ dv shares, v.pubKey = some dv ∧ v.shares = shares.map some ∧ shares.length = n ∧ shares.Nodup ∧
        sharesReconstruct R dv shares t = none) ∧
      (vs.filterMap (·.pubKey)).Nodup := by
  rw [valsLoop_none_iff]
  simp [ValOK]

example : valsLoop exR 1 1 exLock.vals [] = none := by decide

/-! ## (B8) consequences: what is rejected (every execution client, `recover`, hash functions) -/

/-- **Node signature dropped / appended** (from v1.7): the count must be the operator count. -/
theorem lock_node_sig_dropped_rejected (e : Option (Eth1 η)) (H : Hashes η) (z : η) (R : List (Nat × BKey) → BKey)
    (l : Lock η) (hv : 7 ≤ l.defn.ver) (hlen : l.nodeSigs.length ≠ l.defn.ops.length) :
    verifyLock e H z R l ≠ .ok := by
  intro hok
  obtain ⟨_, h⟩ := (lock_accepted_iff e H z R l).1 hok
  rcases h with ⟨_, h⟩ | ⟨_, _, _, _, _, _, _, _, hn⟩
  · omega
  · rw [node_sigs_accepted_iff, if_neg (by omega)] at hn
    exact hlen hn.1

example : verifyLock none exH 0 exR { exLock with nodeSigs := [] } ≠ .ok := by decide

/-- **Node signature by another key, or over something else than the stored lock hash** (from v1.7). -/
theorem lock_node_sig_wrong_signer_rejected (e : Option (Eth1 η)) (H : Hashes η) (z : η)
    (R : List (Nat × BKey) → BKey) (l : Lock η) (hv : 7 ≤ l.defn.ver) (i : Nat) (hi : i < l.defn.ops.length)
    (hj : i < l.nodeSigs.length) (k k' : Key) (dg : Digest η) (hk : (l.defn.ops[i]).enrKey = some k)
    (hs : l.nodeSigs[i] = .good k' dg) (hne : k' ≠ k ∨ dg ≠ .raw l.lockHash) :
    verifyLock e H z R l ≠ .ok := by
  intro hok
  have hn := lock_ok_nodeSigs hv hok
  rw [node_sigs_accepted_iff, if_neg (by omega)] at hn
  obtain ⟨k2, h1, h2⟩ := hn.2 i hi hj
  rw [hk] at h1; rw [hs] at h2; cases h1; cases h2
  rcases hne with h | h <;> exact h rfl

example : verifyLock none exH 0 exR { exLock with nodeSigs := [.good 15 (.raw 6)] } ≠ .ok := by decide

/-- **Node signatures reordered** (from v1.7): exchanging the signatures of two operators with different ENR keys. -/
theorem lock_node_sigs_reordered_rejected (e : Option (Eth1 η)) (H : Hashes η) (z : η)
    (R : List (Nat × BKey) → BKey) (l : Lock η) (hv : 7 ≤ l.defn.ver) (hok : verifyLock e H z R l = .ok)
    (i j : Nat) (hi : i < l.defn.ops.length) (hj : j < l.defn.ops.length)
    (hne : (l.defn.ops[i]).enrKey ≠ (l.defn.ops[j]).enrKey) (si sj : Sig η)
    (hsi : l.nodeSigs[i]? = some si) (hsj : l.nodeSigs[j]? = some sj) :
    verifyLock e H z R { l with nodeSigs := (l.nodeSigs.set i sj).set j si } ≠ .ok := by
  intro hok'
  exact nodeSigs_moved_absurd hv hok hok' hj hi hne.symm hsi (by
    have hj' : j < l.nodeSigs.length := by
      rcases List.getElem?_eq_some_iff.1 hsj with ⟨h, _⟩; exact h
    simp [hj'])

example : verifyLock none exH 0 exR { exLock2 with nodeSigs := [.good 15 (.raw 6), .good 14 (.raw 6)] } ≠ .ok := by
  decide

/-- **Node signature duplicated** (from v1.7): operator j carrying a copy of operator i's node signature. -/
theorem lock_node_sig_duplicated_rejected (e : Option (Eth1 η)) (H : Hashes η) (z : η)
    (R : List (Nat × BKey) → BKey) (l : Lock η) (hv : 7 ≤ l.defn.ver) (hok : verifyLock e H z R l = .ok)
    (i j : Nat) (hi : i < l.defn.ops.length) (hj : j < l.defn.ops.length)
    (hne : (l.defn.ops[i]).enrKey ≠ (l.defn.ops[j]).enrKey) (si : Sig η) (hsi : l.nodeSigs[i]? = some si) :
    verifyLock e H z R { l with nodeSigs := l.nodeSigs.set j si } ≠ .ok := by
  intro hok'
  have hn := lock_ok_nodeSigs hv hok
  rw [node_sigs_accepted_iff, if_neg (by omega)] at hn
  exact nodeSigs_moved_absurd hv hok hok' hj hi hne.symm hsi (by
    have hj' : j < l.nodeSigs.length := by omega
    simp [hj'])

example : verifyLock none exH 0 exR { exLock2 with nodeSigs := [.good 14 (.raw 6), .good 14 (.raw 6)] } ≠ .ok := by
  decide

/-- **The node signatures bind the STORED lock hash** (from v1.7, at least one operator). -/
theorem lock_hash_change_rejected (e : Option (Eth1 η)) (H : Hashes η) (z : η) (R : List (Nat × BKey) → BKey)
    (l : Lock η) (hv : 7 ≤ l.defn.ver) (hops : l.defn.ops ≠ []) (hok : verifyLock e H z R l = .ok) (h' : η)
    (hne : h' ≠ l.lockHash) : verifyLock e H z R { l with lockHash := h' } ≠ .ok := by
  intro hok'
  have hn := lock_ok_nodeSigs hv hok
  have hn' := lock_ok_nodeSigs (l := { l with lockHash := h' }) hv hok'
  rw [node_sigs_accepted_iff, if_neg (by omega)] at hn
  rw [node_sigs_accepted_iff] at hn'
  simp only [] at hn'
  rw [if_neg (by omega)] at hn'
  have h0 : 0 < l.defn.ops.length := List.length_pos_iff.2 hops
  obtain ⟨k, _, h1⟩ := hn.2 0 h0 (by omega)
  obtain ⟨k', _, h2⟩ := hn'.2 0 h0 (by have := hn'.1; omega)
  rw [h1] at h2
  exact hne (Digest.raw.inj (Sig.good.inj h2).2).symm

example : verifyLock none exH 0 exR { exLock with lockHash := 5 } ≠ .ok := by decide

/-- **The aggregate binds the RECOMPUTED lock hash**: the aggregate of an accepted lock is rejected on any lock whose
recomputed hash differs (another definition, other validators …). -/
theorem lock_content_change_rejected (e : Option (Eth1 η)) (H : Hashes η) (z : η) (R : List (Nat × BKey) → BKey)
    (l l' : Lock η) (signers : List BKey) (m : η) (hagg : l.agg = .agg signers m)
    (hok : verifyLock e H z R l = .ok) (hagg' : l'.agg = l.agg) (hne : lockHashOf H z l' ≠ lockHashOf H z l) :
    verifyLock e H z R l' ≠ .ok := by
  intro hok'
  obtain ⟨s1, m1, h1, _, _, _, hm1, _⟩ := lock_ok_agg (by rw [hagg]; simp [Agg.size]) hok
  obtain ⟨s2, m2, h2, _, _, _, hm2, _⟩ := lock_ok_agg (by rw [hagg', hagg]; simp [Agg.size]) hok'
  rw [hagg', h1] at h2
  cases h2
  exact hne (hm2.symm.trans hm1)

/-- **The aggregate binds the multiset of public shares**: the aggregate of an accepted lock is rejected on any lock
whose public shares are not a permutation of the original ones — WHATEVER its lock hash is (even recomputed and
re-stored). -/
theorem lock_public_share_replaced_rejected (e : Option (Eth1 η)) (H : Hashes η) (z : η)
    (R : List (Nat × BKey) → BKey) (l l' : Lock η) (signers : List BKey) (m : η) (hagg : l.agg = .agg signers m)
    (hok : verifyLock e H z R l = .ok) (hagg' : l'.agg = l.agg)
    (hne : ¬ (allShares l.vals).Perm (allShares l'.vals)) : verifyLock e H z R l' ≠ .ok := by
  intro hok'
  obtain ⟨s1, m1, h1, _, _, hp1, _⟩ := lock_ok_agg (by rw [hagg]; simp [Agg.size]) hok
  obtain ⟨s2, m2, h2, _, _, hp2, _⟩ := lock_ok_agg (by rw [hagg', hagg]; simp [Agg.size]) hok'
  rw [hagg', h1] at h2
  cases h2
  exact hne (hp1.symm.trans hp2)

example : verifyLock none exH 0 exR
    { exLock2 with vals := [⟨some (.root 1), [some (.share 1 1), some (.free 3)], .valid⟩] } ≠ .ok := by decide

/-- **The aggregate must be by ALL public shares of ALL validators**, no more, no fewer (multiplicities included). -/
theorem lock_aggregate_missing_share_rejected (e : Option (Eth1 η)) (H : Hashes η) (z : η)
    (R : List (Nat × BKey) → BKey) (l : Lock η) (signers : List BKey) (m : η) (hagg : l.agg = .agg signers m)
    (hne : ¬ signers.Perm (allShares l.vals)) : verifyLock e H z R l ≠ .ok := by
  intro hok
  obtain ⟨s1, m1, h1, _, _, hp1, _⟩ := lock_ok_agg (by rw [hagg]; simp [Agg.size]) hok
  rw [hagg] at h1; cases h1
  exact hne hp1

example : verifyLock none exH 0 exR { exLock with agg := .agg [.share 1 1, .share 1 2] 5 } ≠ .ok := by decide

/-- **Empty aggregate from v1.2 on**: exactly this error (given the definition verifies). -/
theorem lock_empty_aggregate_rejected (e : Option (Eth1 η)) (H : Hashes η) (z : η) (R : List (Nat × BKey) → BKey)
    (l : Lock η) (hv : 2 ≤ l.defn.ver) (h0 : l.agg.size = 0) (hd : verifyDef e l.defn = .ok) :
    verifyLock e H z R l = .err .emptyAgg := by
  unfold verifyLock
  rw [hd]
  simp only [h0, if_true]
  rw [if_neg (by omega)]

/-- **Invalid definition**: the definition's error is the lock's error. -/
theorem lock_invalid_definition_rejected (e : Option (Eth1 η)) (H : Hashes η) (z : η)
    (R : List (Nat × BKey) → BKey) (l : Lock η) (x : DefErr) (hd : verifyDef e l.defn = .err x) :
    verifyLock e H z R l = .err (.defn x) := by
  unfold verifyLock
  rw [hd]

/-! ## (B9) what `Lock.VerifySignatures` does NOT check (the code as it is) -/

/-- **Versions ≤ v1.1 with an empty aggregate: nothing of the lock is checked** — validators, node signatures and
lock hash are arbitrary. -/
theorem lock_legacy_empty_aggregate_nothing_checked_witness (e : Option (Eth1 η)) (H : Hashes η) (z : η)
    (R : List (Nat × BKey) → BKey) (l : Lock η) (hv : l.defn.ver ≤ 1) (h0 : l.agg.size = 0)
    (hd : verifyDef e l.defn = .ok) (vals : List Validator) (ns : List (Sig η)) (h : η) :
    verifyLock e H z R { l with vals := vals, nodeSigs := ns, lockHash := h } = .ok := by
  rw [lock_accepted_iff]
  exact ⟨hd, Or.inl ⟨h0, hv⟩⟩

/-- **Before v1.7 node signatures are only required to be absent** and the stored lock hash is never read. -/
theorem lock_node_sigs_not_checked_before_v1_7_witness (l : Lock η) (hv : l.defn.ver ≤ 6) :
    (nodeSigsCheck l = none ↔ l.nodeSigs = []) ∧
    ∀ (e : Option (Eth1 η)) (H : Hashes η) (z : η) (R : List (Nat × BKey) → BKey) (h' : η),
      verifyLock e H z R { l with lockHash := h' } = verifyLock e H z R l := by
  constructor
  · rw [node_sigs_accepted_iff, if_pos hv]
  · intro e H z R h'
    unfold verifyLock nodeSigsCheck
    simp only [hv, if_true]
    rfl

/-- **`VerifySignatures` alone does not tie the stored lock hash to the recomputed one**: the aggregate is checked
against the RECOMPUTED hash (5), the node signatures against the STORED one (6); this lock passes `VerifySignatures`
and is rejected by `VerifyHashes` only. -/
theorem lock_node_sigs_read_stored_hash_witness :
    exLock.lockHash ≠ lockHashOf exH 0 exLock ∧ verifyLock none exH 0 exR exLock = .ok ∧
    verifyLockHashes exH 0 exLock = .lock := by
  decide

/-- **The order of the signers in the aggregate is irrelevant.** -/
theorem lock_aggregate_order_not_checked_witness (e : Option (Eth1 η)) (H : Hashes η) (z : η)
    (R : List (Nat × BKey) → BKey) (l : Lock η) (signers signers' : List BKey) (m : η)
    (hagg : l.agg = .agg signers m) (hok : verifyLock e H z R l = .ok) (hp : signers'.Perm signers) :
    verifyLock e H z R { l with agg := .agg signers' m } = .ok := by
  obtain ⟨hd, _⟩ := (lock_accepted_iff e H z R l).1 hok
  obtain ⟨s1, m1, h1, h2, h3, h4, h5, h6, h7⟩ := lock_ok_agg (by rw [hagg]; simp [Agg.size]) hok
  rw [hagg] at h1; cases h1
  rw [lock_accepted_iff]
  exact ⟨hd, Or.inr ⟨signers', m, rfl, h2, h3, hp.trans h4, h5, h6, h7⟩⟩

example : verifyLock none exH 0 exR { exLock2 with agg := .agg [.share 1 2, .share 1 1] 5 } = .ok := by decide

/-- **`Definition.NumValidators` is not read** (it enters only through the lock hash): with the same recomputed lock
hash the result is the same for every value of the field — `len(Validators) == NumValidators` is `VerifyHashes`'. -/
theorem lock_num_validators_not_checked_witness (e : Option (Eth1 η)) (H : Hashes η) (z : η)
    (R : List (Nat × BKey) → BKey) (l : Lock η) (n : Nat)
    (hh : lockHashOf H z { l with defn := { l.defn with numVals := n } } = lockHashOf H z l) :
    verifyLock e H z R { l with defn := { l.defn with numVals := n } } = verifyLock e H z R l := by
  unfold verifyLock
  rw [hh]
  have hd : verifyDef e { l.defn with numVals := n } = verifyDef e l.defn := by
    unfold verifyDef creatorCheck; rfl
  have hn : nodeSigsCheck { l with defn := { l.defn with numVals := n } } = nodeSigsCheck l := by
    unfold nodeSigsCheck; rfl
  simp only [hd, hn]

example : verifyLock none exH 0 exR { exLock with defn := { exLock.defn with numVals := 9 } } = .ok := by decide

/-! ## (C) `distvalidator.go` -/

/-- **`PublicShare(i)` of an accepted lock is the share at operator position i** and one of the aggregate's keys. -/
theorem public_share_is_operator_position (R : List (Nat × BKey) → BKey) (n t : Nat) (vs : List Validator)
    (hok : valsLoop R n t vs [] = none) (v : Validator) (hv : v ∈ vs) (i : Nat) (hi : i < n) :
    ∃ k, publicShare v i = some k ∧ k ∈ allShares vs := by
  have := ((valsLoop_none_iff R n t vs []).1 hok).1 v hv
  exact publicShare_of_valOK hv this hi

example : publicShare ⟨some (.root 1), [some (.share 1 1)], .valid⟩ 0 = some (.share 1 1) := by decide

/-- **Out of range** (the Go code panics). -/
theorem public_share_out_of_range (v : Validator) (i : Nat) (hi : i ≥ v.shares.length) : publicShare v i = none := by
  unfold publicShare
  rw [List.getElem?_eq_none hi]; rfl

/-- **A zero registration is "no registration"** and no eth2 registration. -/
theorem zero_registration_is_no_registration (r : RegForm) (h : zeroRegistration r = true) :
    noRegistration r = true ∧ eth2RegistrationOk r = false := by
  unfold zeroRegistration at h
  unfold noRegistration eth2RegistrationOk
  simp only [decide_eq_true_eq] at h
  obtain ⟨h1, h2, h3, h4, h5⟩ := h
  simp [h1, h2, h3, h4, h5]

/-- **An eth2 registration is a registration** and not zero. -/
theorem eth2_registration_has_registration (r : RegForm) (h : eth2RegistrationOk r = true) :
    noRegistration r = false ∧ zeroRegistration r = false := by
  unfold eth2RegistrationOk at h
  unfold noRegistration zeroRegistration
  simp only [Bool.not_eq_true', Bool.or_eq_false_iff, decide_eq_false_iff_not, Decidable.not_not] at h
  obtain ⟨⟨⟨⟨h1, h2⟩, h3⟩, h4⟩, h5⟩ := h
  simp [h1, h2, h3, h4, h5]

example : eth2RegistrationOk ⟨96, 48, 20, 30000000, false⟩ = true := by decide

/-- **Neither zero nor present**: a registration with only the gas limit set is not `ZeroRegistration` yet counts as
"no registration" for `verifyBuilderRegistrations`. -/
theorem registration_neither_zero_nor_present_witness :
    zeroRegistration ⟨0, 0, 0, 30000000, true⟩ = false ∧ noRegistration ⟨0, 0, 0, 30000000, true⟩ = true := by
  decide

/-! ## (D) a finding, REPAIRED in /repo (5c353f3): `verifyBuilderRegistrations` indexed `l.FeeRecipientAddresses()` without a bound check

Statement: *`Lock.VerifySignatures` returns an error or nil for every lock — it never panics.* As found it did not hold:
from v1.7 on, a lock that is consistently hashed and signed but lists MORE validators than the definition has validator
addresses made `feeRecipientAddrs[i]` panic (index out of range) — after the aggregate signature had been verified, i.e.
the author of the file holds all key shares. `cluster.Load` runs `VerifyHashes` first (it reports the count mismatch), so
the panic needed `--no-verify`, where that error is only logged and `VerifySignatures` still runs. The repair
(`/verif/fixes/C12-locksigs-registration-index-panic.diff`, applied) returns "missing fee recipient address for
validator". The model has the switch `Fixes` (`Fixes.current` = /repo, `Fixes.asFound` = before); `regsCheck` /
`verifyLock` are the repaired code, the witness is a statement about `Fixes.asFound`. -/

/-- `verifyLock` is `verifyLockWith Fixes.current` (the two texts in the model agree). -/
theorem verify_lock_is_current_switch (e : Option (Eth1 η)) (H : Hashes η) (z : η) (R : List (Nat × BKey) → BKey)
    (l : Lock η) : verifyLockWith Fixes.current e H z R l = verifyLock e H z R l := by
  unfold verifyLockWith verifyLock regsCheck
  rfl

/-- **The registration check never panics** (repaired code): for every version, every number of validator addresses,
every validator list and loop index. -/
theorem regs_check_never_panics (ver nAddrs : Nat) (vals : List Validator) (i : Nat) :
    regsCheck ver nAddrs i vals ≠ some .regPanic := by
  unfold regsCheck
  induction vals generalizing i with
  | nil => simp [regsCheckWith]
  | cons v vs ih =>
    simp only [regsCheckWith, Fixes.current, ↓reduceIte]
    repeat' split
    all_goals first | exact ih (i + 1) | simp

/-- **`Lock.VerifySignatures` never panics** (repaired code): whatever the lock, the execution client, the hash
functions and `tbls.RecoverPubkey` are, the result is `ok` or an ordinary error class. (The other branches index slices
only below their length: `nodeSigsLoop` after the count check, `PubShares` by `range`, `shares[i]` for `i < len(shares)`.) -/
theorem verify_lock_never_panics (e : Option (Eth1 η)) (H : Hashes η) (z : η) (R : List (Nat × BKey) → BKey)
    (l : Lock η) : verifyLock e H z R l ≠ .err .regPanic := by
  have hr := regs_check_never_panics l.defn.ver l.defn.numAddrs l.vals 0
  have hv := valsLoop_ne_panic R l.defn.ops.length l.defn.threshold l.vals []
  have hn := nodeSigsCheck_ne_panic l
  unfold verifyLock
  repeat' split
  all_goals first
    | (simp; done)
    | (rename_i hx; intro hc; simp only [LockRes.err.injEq] at hc; subst hc
       first | exact hv hx | exact hr hx | exact hn hx)

example : verifyLock none exH 0 exR exLock2 = .ok := by decide

/-- As found (`Fixes.asFound`), with fewer validators than addresses the check did not reach the out-of-range index … -/
theorem regs_check_as_found_never_panics_partial (ver nAddrs : Nat) (vals : List Validator) (i : Nat)
    (h : i + vals.length ≤ nAddrs) : regsCheckWith Fixes.asFound ver nAddrs i vals ≠ some .regPanic := by
  induction vals generalizing i with
  | nil => simp [regsCheckWith]
  | cons v vs ih =>
    have h' : (i + 1) + vs.length ≤ nAddrs := by simp [List.length_cons] at h; omega
    have hi : ¬ i ≥ nAddrs := by simp [List.length_cons] at h; omega
    simp only [regsCheckWith, hi, ↓reduceIte]
    repeat' split
    all_goals first | exact ih (i + 1) h' | simp

/-- … **witness of the failure as found** (kernel-checked, about `Fixes.asFound`): the v1.7 lock `exLock2` with a second
validator under another group key and ONE validator address: every signature is right, and the registration check reached
`feeRecipientAddrs[1]`: panic. The repaired code (`verifyLock`) answers the new error on the same lock. -/
theorem lock_more_validators_than_addresses_panics_witness :
    regsCheckWith Fixes.asFound 7 1 0 [⟨some (.root 1), [], .valid⟩, ⟨some (.root 2), [], .valid⟩] = some .regPanic ∧
    verifyLockWith Fixes.asFound none exH 0 (fun l => match l with | (_, .share p _) :: _ => .root p | _ => .free 0)
      { exLock2 with
        defn := { exLock2.defn with numAddrs := 1 },
        vals := [⟨some (.root 1), [some (.share 1 1), some (.share 1 2)], .valid⟩,
                 ⟨some (.root 2), [some (.share 2 1), some (.share 2 2)], .valid⟩],
        agg := .agg [.share 1 1, .share 1 2, .share 2 1, .share 2 2] 5 } = .err .regPanic ∧
    verifyLock none exH 0 (fun l => match l with | (_, .share p _) :: _ => .root p | _ => .free 0)
      { exLock2 with
        defn := { exLock2.defn with numAddrs := 1 },
        vals := [⟨some (.root 1), [some (.share 1 1), some (.share 1 2)], .valid⟩,
                 ⟨some (.root 2), [some (.share 2 1), some (.share 2 2)], .valid⟩],
        agg := .agg [.share 1 1, .share 1 2, .share 2 1, .share 2 2] 5 } = .err .regNoAddr := by
  decide

end CharonV.LockSigs
