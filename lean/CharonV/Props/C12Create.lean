/-
C12, the glue of `charon create cluster` and `charon combine` (`cmd/createcluster.go`,
`cmd/combine/combine.go`, `KeyFiles.SequencedKeys`, the lock checks `cluster.LoadClusterLock` applies;
model `Model/CreateGlue.lean`, helper lemmas `Proofs/CreateGlue.lean`).

Setting (no bound on anything): any number of nodes `n`, threshold `t`, validators, any list of deposit
amounts; `p : Plan` is what `runCreateCluster` has decided when it starts to split keys
(`plan_establishes_wellformed_inputs` says what `plan` guarantees about it); `rand k` is the randomness
of the `k`-th `ThresholdSplit`, `clock k` the timestamp of the `k`-th registration, `io` decides which
write fails. Cryptography enters through `Laws` (hypotheses: a split hands out `n` shares of which any
`t` recover the secret and, as public keys, its public key; a signature verifies under its key; the
plain aggregate verifies under the list of keys) inside `GoodRun`; `threshold_bls_satisfies_laws`
discharges them for the threshold-BLS algebra of C08 over any scalar field.

`shareOf C rand n t secrets k i` is the key share with share index `i` (1-based) of the `k`-th
validator; node `i` (0-based) holds share index `i+1`.
-/
import CharonV.Proofs.CreateGlue

namespace CharonV.CreateGlue

open Polynomial CharonV.Tbls

section Generic
variable {PK SK Sig M R : Type} [DecidableEq PK] [Inhabited SK] [DecidableEq Sig] [DecidableEq M] [DecidableEq SK]

/-! ### (0) what `runCreateCluster` has checked before it generates anything -/

/-- **`plan` establishes well-formed inputs.** If `runCreateCluster` reaches `getTSSShares` then there is exactly
one secret, one fee recipient and one withdrawal address per validator, at least one deposit amount and at least
three nodes, and the threshold is in `2..n`: with flags by the command line check (`--threshold` absent: `ceil(2n/3)`),
from a definition file by `validateDef` (repair 5f2f8be; `fx.defThreshold = false` is the code before it, where the
definition's threshold was taken unchecked: `unfixed_definition_threshold_above_operators_was_accepted`). -/
theorem plan_establishes_wellformed_inputs (fx : Fixes) (c : Config) (d : Definition) (env : Env SK) (p : Plan SK)
    (h : plan fx c d env = .ok p) :
    p.secrets.length = p.numValidators ∧ p.wds.length = p.numValidators ∧ p.fees.length = p.numValidators ∧
    p.amounts ≠ [] ∧ minNodes ≤ p.n ∧ p.keysToDisk = c.kmAddrs.isEmpty ∧ p.useNow = c.splitKeys ∧
    (c.defFile = false → (c.thresholdFlag = false → c.threshold = 0) → 2 ≤ p.t ∧ p.t ≤ p.n) ∧
    (c.defFile = true → p.t = d.threshold ∧ p.n = d.numOperators ∧ (fx.defThreshold = true → 2 ≤ p.t ∧ p.t ≤ p.n)) :=
  plan_ok_inv fx c d env p h

/-- **`--split-existing-keys`: the validator secrets are the imported keys**, in the order the loader returned them
(strict file-index order when the addresses differ per validator, else the completion order of
`keystore.LoadFilesRecursively`'s workers — an oracle), and they are pairwise different (`checkUniqueKeys`, repair
c6adf89). -/
theorem split_mode_uses_imported_keys (fx : Fixes) (c : Config) (d : Definition) (env : Env SK) (p : Plan SK)
    (h : plan fx c d env = .ok p) (hs : c.splitKeys = true) :
    ∃ useSeq ks, env.loadKeys useSeq = some ks ∧ (ks ≠ [] → p.secrets = ks) ∧ (fx.uniqueKeys = true → ks.Nodup) :=
  plan_split_secrets fx c d env p h hs

/-- **The validator secrets of a plan are pairwise different** — imported keys because `getKeys` checks it, generated
keys if `tbls.GenerateSecretKey` never repeats (hypothesis `hfresh`). -/
theorem plan_secrets_are_distinct (c : Config) (d : Definition) (env : Env SK) (p : Plan SK) (h : plan {} c d env = .ok p)
    (hfresh : ∀ nv, ((List.range nv).map env.fresh).Nodup) : p.secrets.Nodup :=
  plan_secrets_nodup {} rfl c d env p h hfresh

/-! ### (1) share placement -/

/-- **Share placement.** In a run that succeeds, for every node `i < n` the `k`-th keystore written for node `i`
(`writeKeysToDisk`; the `k`-th keystore imported to node `i`'s keymanager in keymanager mode) holds the key share
with share index `i+1` of validator `k`, and its public key is `lock.Validators[k].PubShares[i]` — for every number
of nodes, validators and amounts. -/
theorem share_placement (C : Crypto PK SK Sig M R) (p : Plan SK) (rand : Nat → R) (good : R → Prop)
    (g : GoodRun C p rand good) (uuid : Nat) (clock : Nat → Nat) (io : Step → Bool) (lock : Lock PK Sig M)
    (hok : (runCreate C p rand uuid clock io).2 = .ok lock) (i : Nat) (hi : i < p.n) :
    (if p.keysToDisk then Write.keys i (nodeSecrets (createdSets C rand p.n p.t p.secrets) i)
      else Write.kmImport i (nodeSecrets (createdSets C rand p.n p.t p.secrets) i)) ∈ (runCreate C p rand uuid clock io).1 ∧
    Write.lock i lock ∈ (runCreate C p rand uuid clock io).1 ∧
    ∀ k < p.secrets.length,
      (nodeSecrets (createdSets C rand p.n p.t p.secrets) i)[k]? = some (shareOf C rand p.n p.t p.secrets k (i + 1)) ∧
      (lock.validators[k]?).map (fun v => v.pubShares[i]?) = some (some (C.pub (shareOf C rand p.n p.t p.secrets k (i + 1)))) := by
  obtain ⟨hlock, htrace⟩ := (runCreate_good C p rand good g uuid clock io).1 lock hok
  subst hlock
  rw [htrace]
  refine ⟨?_, ?_, ?_⟩
  · unfold fullTrace
    apply List.mem_append_left; apply List.mem_append_left; apply List.mem_append_right
    unfold keyPhase
    by_cases hk : p.keysToDisk = true
    · simp only [hk, if_true, keySteps, List.map_map, List.mem_map, List.mem_range]
      exact ⟨i, hi, rfl⟩
    · simp only [hk, Bool.false_eq_true, if_false, kmSteps, List.map_append, List.map_map, List.mem_append, List.mem_map, List.mem_range]
      exact Or.inr ⟨i, hi, rfl⟩
  · unfold fullTrace
    apply List.mem_append_right
    simp only [lockSteps, List.map_map, List.mem_map, List.mem_range]
    exact ⟨i, hi, rfl⟩
  · intro k hk
    constructor
    · rw [nodeSecrets_created C rand p.n p.t p.secrets i hi]
      simp [hk]
    · have h2 := congrArg (fun l => l[k]?) (createdLock_created C p rand uuid clock).pubShares
      simp only [List.getElem?_map, List.getElem?_range hk, Option.map_some] at h2
      cases hv : (createdLock C p rand uuid clock).validators[k]? with
      | none => simp [hv] at h2
      | some val =>
        simp only [hv, Option.map_some, Option.some.injEq] at h2 ⊢
        rw [h2]
        simp [hi]

/-! ### (2) every threshold subset recombines to the lock's validator key -/

/-- **Every threshold subset of a validator's written key shares recombines to the validator secret, whose public
key is `lock.Validators[k].PubKey`.** For every validator `k`, every list of at least `t` pairwise different share
indices in `1..n` (any order): `tbls.RecoverSecret` of those shares is the `k`-th secret — in
`--split-existing-keys` mode the imported key (`split_mode_uses_imported_keys`) — and the lock lists its public key. -/
theorem threshold_subsets_recombine (C : Crypto PK SK Sig M R) (p : Plan SK) (rand : Nat → R) (good : R → Prop)
    (g : GoodRun C p rand good) (uuid : Nat) (clock : Nat → Nat) (k : Nat) (hk : k < p.secrets.length)
    (ids : List Nat) (hnd : ids.Nodup) (hrange : ∀ i ∈ ids, 1 ≤ i ∧ i ≤ p.n) (hlen : p.t ≤ ids.length) :
    C.recover (ids.map fun i => (i, shareOf C rand p.n p.t p.secrets k i)) = some p.secrets[k] ∧
    ((createdLock C p rand uuid clock).validators[k]?).map (·.pubKey) = some (C.pub p.secrets[k]) := by
  obtain ⟨m, hm, _, hrec⟩ := g.laws.split_spec p.secrets[k] (rand k) (g.rand_good k) g.t_ge
  have hsm : splitMap C rand p.n p.t p.secrets k = m := by simp [splitMap, List.getElem?_eq_getElem hk, hm]
  constructor
  · have := (hrec ids hnd hrange hlen).1
    simpa [shareOf, hsm] using this
  · have h1 := congrArg (fun l => l[k]?) (createdLock_created C p rand uuid clock).pubKeys
    simpa [List.getElem?_map, List.getElem?_eq_getElem hk] using h1

/-! ### (3) deposit data and builder registrations -/

/-- **`deposit.DedupAmounts`: every configured amount exactly once, ascending.** -/
theorem dedup_amounts_once_ascending (xs : List Nat) :
    (dedupAmounts xs).Nodup ∧ (dedupAmounts xs).Pairwise (· ≤ ·) ∧ ∀ a, a ∈ dedupAmounts xs ↔ a ∈ xs :=
  dedupAmounts_spec xs

/-- **Deposit data and registrations of the lock.** Validator `k` of the lock of a good run carries — where the
definition's version supports it: all from v1.8, the first amount only in v1.6 / v1.7, none before; the registration
from v1.7 — one deposit data per deduplicated amount (ascending), each for the validator's own key, ITS configured
withdrawal address and that amount, signed by the validator secret over exactly that message (so it verifies under
the lock's validator key), and the builder registration for its key, ITS fee recipient, the configured gas limit
(0 ↦ 30000000) and the timestamp of the run (`clock k`: the genesis time of the network, the current time in
`--split-existing-keys` mode), signed by the validator secret. -/
theorem deposits_and_registrations (C : Crypto PK SK Sig M R) (p : Plan SK) (rand : Nat → R) (good : R → Prop)
    (g : GoodRun C p rand good) (uuid : Nat) (clock : Nat → Nat) (k : Nat) (hk : k < p.secrets.length) :
    ∃ v, (createdLock C p rand uuid clock).validators[k]? = some v ∧ v.pubKey = C.pub p.secrets[k] ∧
      v.deposits = (let all := (dedupAmounts p.amounts).map fun a => specDeposit C p.secrets[k] ((p.wds[k]?).getD 0) a
                    if p.minor ≥ 8 then all else if p.minor ≥ 6 then all.take 1 else []) ∧
      v.reg = (if p.minor ≥ 7 then some (specReg C p.secrets[k] ((p.fees[k]?).getD 0) (regGas p.gas) (clock k)) else none) ∧
      (∀ a, C.verify (C.pub p.secrets[k]) (C.depositRoot ⟨C.pub p.secrets[k], (p.wds[k]?).getD 0, a⟩)
        (specDeposit C p.secrets[k] ((p.wds[k]?).getD 0) a).sig = true) ∧
      C.verify (C.pub p.secrets[k]) (C.regRoot ⟨C.pub p.secrets[k], (p.fees[k]?).getD 0, regGas p.gas, clock k⟩)
        (specReg C p.secrets[k] ((p.fees[k]?).getD 0) (regGas p.gas) (clock k)).sig = true := by
  refine ⟨projectValidator p.minor (specVal C rand p.n p.t p.secrets p.wds p.fees p.amounts (regGas p.gas) clock k), ?_, ?_, ?_, ?_,
    fun a => g.laws.verify_sign _ _, g.laws.verify_sign _ _⟩
  · simp [createdLock_validators, createdVals, hk]
  · simp [projectValidator, specVal, List.getElem?_eq_getElem hk]
  · simp [projectValidator, specVal, List.getElem?_eq_getElem hk]
  · simp [projectValidator, specVal, List.getElem?_eq_getElem hk]

/-- **Deposit-data files.** A successful run writes into EVERY node directory exactly one deposit-data file per
deduplicated amount, each holding that amount's deposit data of ALL validators (in validator order; the file itself
is sorted by key). -/
theorem deposit_files_per_amount_and_node (C : Crypto PK SK Sig M R) (p : Plan SK) (rand : Nat → R) (good : R → Prop)
    (g : GoodRun C p rand good) (hne : p.secrets ≠ []) (uuid : Nat) (clock : Nat → Nat) (io : Step → Bool) (lock : Lock PK Sig M)
    (hok : (runCreate C p rand uuid clock io).2 = .ok lock) (a i : Nat) (entries : List (DepositData PK Sig)) :
    Write.dep a i entries ∈ (runCreate C p rand uuid clock io).1 ↔
      a ∈ dedupAmounts p.amounts ∧ i < p.n ∧ entries = (p.secrets.zip p.wds).map (fun sw => specDeposit C sw.1 sw.2 a) := by
  obtain ⟨_, htrace⟩ := (runCreate_good C p rand good g uuid clock io).1 lock hok
  rw [htrace]
  unfold fullTrace
  have h1 : Write.dep a i entries ∉ (p2pSteps (PK := PK) (SK := SK) (Sig := Sig) (M := M) p.n).map (·.2) := by simp [p2pSteps]
  have h2 : Write.dep a i entries ∉ (keyPhase (PK := PK) (Sig := Sig) (M := M) p (createdSets C rand p.n p.t p.secrets)).map (·.2) := by
    unfold keyPhase; split <;> simp [keySteps, kmSteps]
  have h4 : Write.dep a i entries ∉ (lockSteps (SK := SK) p.n (createdLock C p rand uuid clock)).map (·.2) := by simp [lockSteps]
  obtain ⟨e, r, hz⟩ : ∃ e r, p.secrets.zip p.wds = e :: r := by
    cases hsec : p.secrets with
    | nil => exact absurd hsec hne
    | cons s rs =>
      have := g.wds_len
      rw [hsec] at this
      cases hw : p.wds with
      | nil => rw [hw] at this; simp at this
      | cons w rw' => exact ⟨(s, w), rs.zip rw', rfl⟩
  simp only [List.mem_append, h1, h2, h4, false_or, or_false]
  simp only [depSteps, List.map_flatMap, List.mem_flatMap, List.map_map, List.mem_map, List.mem_range, Function.comp_def]
  constructor
  · rintro ⟨dd, ⟨a', ha', rfl⟩, j, hj, hw⟩
    simp only [Write.dep.injEq] at hw
    obtain ⟨hamt, rfl, rfl⟩ := hw
    simp only [hz, List.map_cons, List.head?_cons, Option.map_some, Option.getD_some, specDeposit] at hamt
    subst hamt
    exact ⟨ha', hj, rfl⟩
  · rintro ⟨ha, hi, rfl⟩
    refine ⟨_, ⟨a, ha, rfl⟩, i, hi, ?_⟩
    simp [hz, specDeposit]

/-! ### the lock `create cluster` writes passes the checks of `cluster.LoadClusterLock` — if the threshold is sane -/

/-- **The written lock verifies** (good-run form). For a good run with `t ≤ n` (and, as `VerifySignatures` itself
demands, pairwise different public shares per validator) the lock passes `Lock.VerifyHashes` and
`Lock.VerifySignatures`: validator count, lock hash, public-share count, no repeated validator key,
`verifySharesReconstruct` for every validator, the aggregate signature over the lock hash under ALL public shares,
every registration under its validator key with the definition's fee recipient, the node signatures — every version. -/
theorem good_run_lock_verifies (C : Crypto PK SK Sig M R) (p : Plan SK) (rand : Nat → R) (good : R → Prop)
    (g : GoodRun C p rand good) (uuid : Nat) (clock : Nat → Nat) (htn : p.t ≤ p.n) (hnv : p.numValidators = p.secrets.length)
    (hsn : ∀ k < p.secrets.length, ((List.range p.n).map fun i => C.pub (shareOf C rand p.n p.t p.secrets k (i + 1))).Nodup) :
    verifyLock C (createdLock C p rand uuid clock) = true :=
  verifyLock_created C p rand good g uuid clock htn hnv hsn

/-- **Whatever `create cluster` accepts, the lock it writes verifies** — the FULL statement of C12's first clause for
the code as it is now (both repairs in): for EVERY configuration, definition file and environment for which
`runCreateCluster` reaches the key generation (`plan {} … = .ok p`; `hcli`: a threshold only comes from the
`--threshold` flag), the assembled lock passes `Lock.VerifyHashes` and `Lock.VerifySignatures`. No hypothesis on the
threshold (checked in both modes) and none on imported keys (checked by `getKeys`). What remains assumed is
cryptographic: the laws, an injective `SecretToPublicKey`, generated keys that never repeat, and pairwise different
public shares per validator (two values of one random polynomial coincide with negligible probability). -/
theorem created_lock_verifies (C : Crypto PK SK Sig M R) (c : Config) (d : Definition) (env : Env SK) (p : Plan SK)
    (h : plan {} c d env = .ok p) (hcli : c.thresholdFlag = false → c.threshold = 0)
    (rand : Nat → R) (good : R → Prop) (laws : Laws C p.n p.t good) (hgood : ∀ k, good (rand k))
    (hinj : Function.Injective C.pub) (hfresh : ∀ nv, ((List.range nv).map env.fresh).Nodup) (uuid : Nat) (clock : Nat → Nat)
    (hsn : ∀ k < p.secrets.length, ((List.range p.n).map fun i => C.pub (shareOf C rand p.n p.t p.secrets k (i + 1))).Nodup) :
    verifyLock C (createdLock C p rand uuid clock) = true := by
  obtain ⟨h1, h2, h3, h4, _, _, _, hflags, hdef⟩ := plan_ok_inv {} c d env p h
  have ht : 2 ≤ p.t ∧ p.t ≤ p.n := by
    by_cases hdf : c.defFile = true
    · exact (hdef hdf).2.2 rfl
    · exact hflags (by simpa using hdf) hcli
  have g : GoodRun C p rand good :=
    { laws := laws, rand_good := hgood, t_ge := ht.1, wds_len := by rw [h1, h2], fees_len := by rw [h1, h3], amounts_ne := h4,
      keys_nodup := (plan_secrets_nodup {} rfl c d env p h hfresh).map hinj }
  exact verifyLock_created C p rand good g uuid clock ht.2 h1.symm hsn

/-
Before the repairs (`Fixes` switched off) the full statement did not hold: `validateDef` did not compare the
definition's threshold with its operators, and `getKeys` accepted a key twice. The witnesses are kept as statements
about the unrepaired switches: `unfixed_definition_threshold_above_operators_was_accepted`,
`unfixed_duplicate_split_key_was_accepted`; `lock_rejected_when_threshold_exceeds_nodes` is the general reason.
-/

/-- **A lock with `threshold > operators` is rejected** (`verifySharesReconstruct`: "invalid threshold") — which is why
`validateDef` now refuses such a definition: before the repair a run that was handed one succeeded, wrote key shares,
deposit data and a lock, and the lock it wrote was refused by `charon run` and `charon combine`. -/
theorem lock_rejected_when_threshold_exceeds_nodes (C : Crypto PK SK Sig M R) (p : Plan SK) (rand : Nat → R)
    (uuid : Nat) (clock : Nat → Nat) (hlt : p.n < p.t) (hne : p.secrets ≠ []) :
    verifyLock C (createdLock C p rand uuid clock) = false := by
  have hmem : projectValidator p.minor (specVal C rand p.n p.t p.secrets p.wds p.fees p.amounts (regGas p.gas) clock 0) ∈
      (createdLock C p rand uuid clock).validators := by
    rw [createdLock_validators]
    apply List.mem_map_of_mem
    simp only [createdVals, List.mem_map, List.mem_range]
    exact ⟨0, List.length_pos_of_ne_nil hne, rfl⟩
  have hall : ((createdLock C p rand uuid clock).validators.all fun v =>
      decide v.pubShares.Nodup && sharesReconstruct C v.pubKey v.pubShares (createdLock C p rand uuid clock).threshold) = false := by
    rw [List.all_eq_false]
    refine ⟨_, hmem, ?_⟩
    have : sharesReconstruct C (projectValidator p.minor (specVal C rand p.n p.t p.secrets p.wds p.fees p.amounts (regGas p.gas) clock 0)).pubKey
        (projectValidator p.minor (specVal C rand p.n p.t p.secrets p.wds p.fees p.amounts (regGas p.gas) clock 0)).pubShares p.t = false := by
      unfold sharesReconstruct
      have hc : (decide (p.t < 1) || decide (p.t > (projectValidator p.minor (specVal C rand p.n p.t p.secrets p.wds p.fees p.amounts (regGas p.gas) clock 0)).pubShares.length)) = true := by
        simp [projectValidator, specVal]; omega
      rw [if_pos hc]
    show ¬ (_ && sharesReconstruct C _ _ p.t) = true
    rw [this]; simp
  unfold verifyLock
  have e_sig : (createdLock C p rand uuid clock).sigAgg =
      some (aggSign C (createdSets C rand p.n p.t p.secrets) (createdLock C p rand uuid clock).hash) := rfl
  rw [e_sig]
  simp only [hall]
  simp

/-! ### (4) `combine ∘ create` -/

/-- **`combine` after `create cluster` returns exactly the validator secrets.** Take the directories of ANY nodes
`js` (pairwise different, at least `t` of them, in ANY order — `combine` never looks at a directory's name — with the key
files of each listed in any order): `Combine` accepts them and the keystores it writes hold, in validator order, exactly
the secrets `create cluster` split (with `--split-existing-keys`: the imported keys), with or without `--no-verify`;
an existing `keystore-0.json` in the output directory is only overwritten with `--force`. -/
theorem combine_after_create_is_identity (C : Crypto PK SK Sig M R) (p : Plan SK) (rand : Nat → R) (good : R → Prop)
    (g : GoodRun C p rand good) (uuid : Nat) (clock : Nat → Nat) (htn : p.t ≤ p.n) (hnv : p.numValidators = p.secrets.length)
    (hne : 0 < p.secrets.length)
    (hsn : ∀ k < p.secrets.length, ((List.range p.n).map fun i => C.pub (shareOf C rand p.n p.t p.secrets k (i + 1))).Nodup)
    (nv force out : Bool) (js : List Nat) (hjs : ∀ j ∈ js, j < p.n) (hjnd : js.Nodup) (hlen : p.t ≤ js.length)
    (order : Nat → List Nat) (hord : ∀ j ∈ js, (order j).Perm (List.range p.secrets.length)) :
    combine C nv force (js.map fun j => createdDir (createdLock C p rand uuid clock)
        (nodeSecrets (createdSets C rand p.n p.t p.secrets) j) (order j)) out =
      if out && !force then .error .exists else .ok p.secrets :=
  combine_created C p.n p.t good g.laws rand g.rand_good g.t_ge p.secrets hne _ (createdLock_created C p rand uuid clock) nv force out
    (Or.inr (verifyLock_created C p rand good g uuid clock htn hnv hsn)) hsn js hjs hjnd hlen order hord

/-- **Whatever `combine` accepts, it outputs the keys of the lock it read** — for ANY input directories (tampered,
mixed, foreign): if `Combine` returns keystores then they are one per keystore POSITION present in the directories
(`secrets.length` = the largest number of keystores in a directory — NOT the number of validators of the lock: see
`combine_fewer_keystores_than_validators`), the `k`-th one has the public key `lock.Validators[k].PubKey` of the lock
that was loaded (the last directory's), at least `lock.Threshold` directories contributed a share for position `k`,
and EVERY contributed share was matched against `lock.Validators[k].PubShares` by its public key (membership: which
directory a share sits in is never checked). Output over an existing `keystore-0.json` only with `--force`. -/
theorem combine_output_is_the_locks_key (C : Crypto PK SK Sig M R) (nv force : Bool) (dirs : List (Dir PK SK Sig M)) (out : Bool)
    (secrets : List SK) (h : combine C nv force dirs out = .ok secrets) :
    ∃ lock perDir,
      loadManifest C nv dirs none [] = .ok (lock, dirs.filter keyed) ∧ loadAllKeys (dirs.filter keyed) = .ok perDir ∧
      secrets.length = numKeyIdx perDir ∧ (out = false ∨ force = true) ∧
      ∀ k (hk : k < secrets.length), lock.threshold ≤ (pkSet perDir k).length ∧
        ∃ val, lock.validators[k]? = some val ∧ C.pub secrets[k] = val.pubKey ∧ ∀ x ∈ pkSet perDir k, C.pub x ∈ val.pubShares :=
  combine_ok_inv C nv force dirs out secrets h

/-- **Different lock hashes are refused** (without `--no-verify`): if two of the directories that carry key shares
hold locks with different `lock_hash`, or one of them holds a lock that does not pass `VerifyHashes` /
`VerifySignatures`, or none at all, `Combine` returns an error. With `--no-verify` neither is checked: the LAST
directory's lock is used as it is. -/
theorem combine_refuses_mismatching_lock (C : Crypto PK SK Sig M R) (force : Bool) (dirs : List (Dir PK SK Sig M)) (out : Bool)
    (d1 d2 : Dir PK SK Sig M) (h1 : d1 ∈ dirs) (h2 : d2 ∈ dirs) (hk1 : keyed d1 = true) (hk2 : keyed d2 = true)
    (hbad : (∀ l1 l2, d1.lock = some l1 → d2.lock = some l2 → l1.hash ≠ l2.hash) ∨ d1.lock = none ∨
      (∃ l, d1.lock = some l ∧ verifyLock C l = false)) :
    ∃ e, combine C false force dirs out = .error e := by
  cases hc : combine C false force dirs out with
  | error e => exact ⟨e, rfl⟩
  | ok secrets =>
    obtain ⟨lock, perDir, hm, _⟩ := combine_ok_inv C false force dirs out secrets hc
    obtain ⟨_, hall, _, _⟩ := loadManifest_ok_inv C false dirs none [] lock _ hm
    obtain ⟨l1, hl1, hh1⟩ := hall d1 h1 hk1
    obtain ⟨l2, hl2, hh2⟩ := hall d2 h2 hk2
    have load_some : ∀ (d : Dir PK SK Sig M) (l : Lock PK Sig M), loadClusterLock C false d.lock = some l →
        d.lock = some l ∧ verifyLock C l = true := by
      intro d l hl
      unfold loadClusterLock at hl
      cases hd : d.lock with
      | none => simp [hd] at hl
      | some l' =>
        simp only [hd, Bool.false_or] at hl
        split_ifs at hl with hv
        cases hl
        exact ⟨rfl, hv⟩
    obtain ⟨e1, v1⟩ := load_some d1 l1 hl1
    obtain ⟨e2, _⟩ := load_some d2 l2 hl2
    rcases hbad with hne | hnone | ⟨l, hl, hv⟩
    · exact absurd ((hh1 rfl).trans (hh2 rfl).symm) (hne l1 l2 e1 e2)
    · rw [hnone] at e1; cases e1
    · rw [hl] at e1; cases e1; rw [hv] at v1; cases v1

/-- **A share that is not one of the lock's public shares of that validator is refused**: if some directory with key
shares holds, at keystore position `k`, a secret whose public key is not among `lock.Validators[k].PubShares` of the
lock `Combine` loads — a foreign key, a share of another cluster, a share of ANOTHER validator of the same cluster —
`Combine` returns an error. (A share of the right validator that sits in ANOTHER node's directory is accepted:
`combine_after_create_is_identity` holds for any assignment of directories.) -/
theorem combine_refuses_foreign_share (C : Crypto PK SK Sig M R) (nv force : Bool) (dirs : List (Dir PK SK Sig M)) (out : Bool)
    (lock : Lock PK Sig M) (perDir : List (List SK))
    (hm : loadManifest C nv dirs none [] = .ok (lock, dirs.filter keyed)) (hk : loadAllKeys (dirs.filter keyed) = .ok perDir)
    (k : Nat) (x : SK) (hx : x ∈ pkSet perDir k)
    (hforeign : ∀ val, lock.validators[k]? = some val → C.pub x ∉ val.pubShares) :
    ∃ e, combine C nv force dirs out = .error e := by
  cases hc : combine C nv force dirs out with
  | error e => exact ⟨e, rfl⟩
  | ok secrets =>
    obtain ⟨lock', perDir', hm', hk', hlen, _, hall⟩ := combine_ok_inv C nv force dirs out secrets hc
    rw [hm] at hm'; rw [hk] at hk'
    cases hm'; cases hk'
    have hklt : k < secrets.length := by
      rw [hlen]
      -- position `k` exists in some directory, so it is below the largest keystore count
      unfold pkSet at hx
      obtain ⟨l, hl, hlk⟩ := List.mem_filterMap.mp hx
      have hkl : k < l.length := by
        by_contra hge
        rw [List.getElem?_eq_none (by omega)] at hlk
        cases hlk
      have key : ∀ (ls : List (List SK)) (m : Nat), l ∈ ls → l.length ≤ ls.foldl (fun m x => max m x.length) m := by
        intro ls
        induction ls with
        | nil => intro m h; cases h
        | cons a r ih =>
          intro m h
          simp only [List.foldl_cons]
          rcases List.mem_cons.mp h with rfl | h
          · have mono : ∀ (r : List (List SK)) (m : Nat), m ≤ r.foldl (fun m x => max m x.length) m := by
              intro r
              induction r with
              | nil => intro m; exact Nat.le_refl _
              | cons b r ih2 => intro m; simp only [List.foldl_cons]; exact Nat.le_trans (Nat.le_max_left _ _) (ih2 _)
            exact Nat.le_trans (Nat.le_max_right _ _) (mono r _)
          · exact ih _ h
      exact Nat.lt_of_lt_of_le hkl (key perDir 0 hl)
    obtain ⟨_, val, hv, _, hmem⟩ := hall k hklt
    exact absurd (hmem x hx) (hforeign val hv)

/-- **Fewer than threshold directories are refused.** -/
theorem combine_refuses_below_threshold (C : Crypto PK SK Sig M R) (nv force : Bool) (dirs : List (Dir PK SK Sig M)) (out : Bool)
    (lock : Lock PK Sig M) (hm : loadManifest C nv dirs none [] = .ok (lock, dirs.filter keyed))
    (hfew : (dirs.filter keyed).length < lock.threshold) :
    ∃ e, combine C nv force dirs out = .error e := by
  cases hc : combine C nv force dirs out with
  | error e => exact ⟨e, rfl⟩
  | ok secrets =>
    obtain ⟨lock', perDir, hm', hk, hlen, _, hall⟩ := combine_ok_inv C nv force dirs out secrets hc
    rw [hm] at hm'; cases hm'
    -- every loaded directory has at least one keystore, so there is a position 0
    have hper : perDir.length = (dirs.filter keyed).length ∧ ∀ l ∈ perDir, l ≠ [] := by
      have key : ∀ (ds : List (Dir PK SK Sig M)) (pd : List (List SK)), loadAllKeys ds = .ok pd → pd.length = ds.length ∧ ∀ l ∈ pd, l ≠ [] := by
        intro ds
        induction ds with
        | nil => intro pd h; simp only [loadAllKeys, Except.ok.injEq] at h; subst h; simp
        | cons d r ih =>
          intro pd h
          simp only [loadAllKeys] at h
          cases hf : d.files with
          | none => simp [hf] at h
          | some files =>
            cases files with
            | nil => simp [hf] at h
            | cons f fs =>
              simp only [hf] at h
              cases hs : sequencedKeys (f :: fs) with
              | none => simp [hs] at h
              | some secs =>
                simp only [hs] at h
                cases hr : loadAllKeys r with
                | error e => simp [hr] at h
                | ok pr =>
                  simp only [hr, Except.ok.injEq] at h
                  subst h
                  obtain ⟨h1, h2⟩ := ih pr hr
                  refine ⟨by simp [h1], ?_⟩
                  intro l hl
                  rcases List.mem_cons.mp hl with rfl | hl
                  · unfold sequencedKeys at hs
                    split_ifs at hs
                    simp only [Option.some.injEq] at hs
                    subst hs
                    simp
                  · exact h2 l hl
      exact key _ _ hk
    have hdirs : (dirs.filter keyed) ≠ [] := by
      obtain ⟨_, _, _, h4⟩ := loadManifest_ok_inv C nv dirs none [] lock _ hm
      rcases h4 with ⟨d, hd, hkd, _⟩ | ⟨h, _⟩
      · intro hnil
        have : d ∈ dirs.filter keyed := List.mem_filter.mpr ⟨hd, hkd⟩
        rw [hnil] at this; cases this
      · cases h
    have hpne : perDir ≠ [] := by
      intro h; rw [h] at hper; simp at hper; exact hdirs (List.eq_nil_of_length_eq_zero hper.symm)
    obtain ⟨l0, hl0⟩ := List.exists_mem_of_ne_nil perDir hpne
    have h0 : 0 < secrets.length := by
      rw [hlen]
      have hl0len : 0 < l0.length := List.length_pos_of_ne_nil (hper.2 l0 hl0)
      have key : ∀ (ls : List (List SK)) (m : Nat), l0 ∈ ls → l0.length ≤ ls.foldl (fun m x => max m x.length) m := by
        intro ls
        induction ls with
        | nil => intro m h; cases h
        | cons a r ih =>
          intro m h
          simp only [List.foldl_cons]
          rcases List.mem_cons.mp h with rfl | h
          · have mono : ∀ (r : List (List SK)) (m : Nat), m ≤ r.foldl (fun m x => max m x.length) m := by
              intro r
              induction r with
              | nil => intro m; exact Nat.le_refl _
              | cons b r ih2 => intro m; simp only [List.foldl_cons]; exact Nat.le_trans (Nat.le_max_left _ _) (ih2 _)
            exact Nat.le_trans (Nat.le_max_right _ _) (mono r _)
          · exact ih _ h
      exact Nat.lt_of_lt_of_le hl0len (key perDir 0 hl0)
    obtain ⟨hthr, _⟩ := hall 0 h0
    have : (pkSet perDir 0).length ≤ perDir.length := by
      unfold pkSet; exact List.length_filterMap_le _ _
    omega

/-! ### (5) error paths -/

/-- **A failed `create cluster` leaves nothing `combine` accepts.** Whatever write (or keymanager request) fails
— p2p key, key shares, deposit file, lock file, of any node — and whatever computation fails after keys were
written, `Combine` on the cluster directory left behind returns an error, with or without `--no-verify` / `--force`. -/
theorem failed_create_leaves_nothing_combine_accepts (C : Crypto PK SK Sig M R) (p : Plan SK) (rand : Nat → R) (uuid : Nat)
    (clock : Nat → Nat) (io : Step → Bool) (e : Err) (herr : (runCreate C p rand uuid clock io).2 = .error e)
    (nv force out : Bool) :
    ∃ ce, combine C nv force (diskDirs p.n (runCreate C p rand uuid clock io).1) out = .error ce :=
  failed_create_refused C p rand uuid clock io e herr nv force out

/-- **The lock is written last, node by node.** If ANY node directory carries a `cluster-lock.json` after a run —
successful or not — then every node's p2p key, every node's key shares (disk mode) and every deposit-data file were
written before, and that lock is the fully assembled one (hash, aggregate signature, node signatures). So a node
directory with a lock is complete; `charon run` can never load a lock of a run that failed before the lock phase. -/
theorem lock_is_written_after_everything_else (C : Crypto PK SK Sig M R) (p : Plan SK) (rand : Nat → R) (uuid : Nat)
    (clock : Nat → Nat) (io : Step → Bool) (i : Nat) (l : Lock PK Sig M)
    (h : Write.lock i l ∈ (runCreate C p rand uuid clock io).1) :
    ∃ pubkeys sets dds regs vals,
      tssShares C rand p.n p.t p.secrets = some (pubkeys, sets) ∧ createDepositDatas C p.wds p.secrets p.amounts = .ok dds ∧
      createRegs C p.fees p.secrets p.gas clock = .ok regs ∧ getValidators C pubkeys sets dds regs = .ok vals ∧
      l = mkLock C p uuid vals sets ∧
      (∀ j < p.n, Write.p2p j ∈ (runCreate C p rand uuid clock io).1) ∧
      (p.keysToDisk = true → ∀ j < p.n, Write.keys j (nodeSecrets sets j) ∈ (runCreate C p rand uuid clock io).1) ∧
      (∀ w ∈ (depSteps (SK := SK) (M := M) p.n dds).map (·.2), w ∈ (runCreate C p rand uuid clock io).1) := by
  rcases runCreate_cases C p rand uuid clock io with ⟨_, hno⟩ | ⟨pubkeys, sets, dds, regs, vals, h1, h2, h3, h4, htr, _⟩
  · have := hno _ h
    simp [isLockW] at this
  · refine ⟨pubkeys, sets, dds, regs, vals, h1, h2, h3, h4, ?_, ?_, ?_, ?_⟩
    · rw [htr] at h
      rcases List.mem_append.mp h with h | h
      · rcases List.mem_append.mp h with h | h
        · rcases List.mem_append.mp h with h | h
          · have := p2pSteps_noLock p.n _ h; simp [isLockW] at this
          · have := keyPhase_noLock p sets _ h; simp [isLockW] at this
        · have := depSteps_noLock p.n dds _ h; simp [isLockW] at this
      · have := writeSeq_subset io _ _ h
        simp only [lockSteps, List.map_map, List.mem_map, List.mem_range] at this
        obtain ⟨j, _, hj⟩ := this
        simp only [Function.comp_def, Write.lock.injEq] at hj
        exact hj.2.symm
    · intro j hj
      rw [htr]
      apply List.mem_append_left; apply List.mem_append_left; apply List.mem_append_left
      simp only [p2pSteps, List.map_map, List.mem_map, List.mem_range]
      exact ⟨j, hj, rfl⟩
    · intro hk j hj
      rw [htr]
      apply List.mem_append_left; apply List.mem_append_left; apply List.mem_append_right
      simp only [keyPhase, hk, if_true, keySteps, List.map_map, List.mem_map, List.mem_range]
      exact ⟨j, hj, rfl⟩
    · intro w hw
      rw [htr]
      apply List.mem_append_left; apply List.mem_append_right
      exact hw

/-- **A good run fails only at a write**, and succeeds if every write does. -/
theorem good_run_fails_only_at_a_write (C : Crypto PK SK Sig M R) (p : Plan SK) (rand : Nat → R) (good : R → Prop)
    (g : GoodRun C p rand good) (uuid : Nat) (clock : Nat → Nat) (io : Step → Bool) :
    (∀ e, (runCreate C p rand uuid clock io).2 = .error e → ∃ s, e = .io s ∧ io s = false) ∧
    ((∀ s, io s = true) → (runCreate C p rand uuid clock io).2 = .ok (createdLock C p rand uuid clock)) :=
  ⟨(runCreate_good C p rand good g uuid clock io).2.1, (runCreate_good C p rand good g uuid clock io).2.2⟩

end Generic

/-! ### the cryptographic hypotheses hold for threshold BLS; what `verifySharesReconstruct` establishes -/

section Algebra
variable {F : Type} [Field F] [Inhabited F] {G1 G2 : Type} [AddCommGroup G1] [Module F G1] [AddCommGroup G2] [Module F G2]
variable [DecidableEq G1] {M : Type}

/-- **The hypotheses on the cryptography hold for threshold BLS** over any scalar field `F` and modules `G1`, `G2`:
`ThresholdSplit` of `s` with random tail `ρ` (degree `< t-1`) hands out the values of `s + X·ρ` at `1..n`; any `t`
of them recover `s`, and their public keys recover `s • g1`, by Lagrange interpolation at 0 (C08); so every theorem
above holds for it. (Share identifiers `1..n` pairwise different as scalars: `n` below the group order.) -/
theorem threshold_bls_satisfies_laws (g1 : G1) (Hm : M → G2) (droot : DepositMsg G1 → M) (rroot : RegMsg G1 → M)
    (lh : Nat → Nat → Nat → Nat → Nat → List Nat → List (DistValidator G1 G2) → M) (n t : ℕ)
    (hinj : IdsDistinct F (List.range' 1 n).toFinset) :
    Laws (algCrypto (F := F) g1 Hm droot rroot lh) n t (fun ρ => ρ.degree < ((t - 1 : ℕ) : WithBot ℕ)) :=
  alg_laws g1 Hm droot rroot lh n t hinj

/-- **What `verifySharesReconstruct` establishes.** If the check of `cluster/lock.go` — the first `t` public shares
recover the validator key AND every further share `i` together with the first `t-1` recovers it — accepts the `n`
public shares of a validator, then EVERY set of at least `t` share indices recovers the validator key: all `n`
public shares lie on one polynomial of degree `< t` (in the exponent) whose value at 0 is the validator key. Hence a
lock that passes cannot list a public share that is inconsistent with the others. -/
theorem accepted_public_shares_lie_on_one_polynomial (g1 : G1) (Hm : M → G2) (droot : DepositMsg G1 → M) (rroot : RegMsg G1 → M)
    (lh : Nat → Nat → Nat → Nat → Nat → List Nat → List (DistValidator G1 G2) → M) (K : G1) (shares : List G1) (t : ℕ)
    (hinj : IdsDistinct F (List.range (shares.length + 1)).toFinset)
    (h : sharesReconstruct (algCrypto (F := F) g1 Hm droot rroot lh) K shares t = true)
    (S : Finset ℕ) (hS : ∀ j ∈ S, 1 ≤ j ∧ j ≤ shares.length) (hcard : t ≤ S.card) :
    recoverG F S (pubShareAt shares) = K :=
  sharesReconstruct_alg_sound g1 Hm droot rroot lh K shares t hinj h S hS hcard

end Algebra

/-- **ONE interpolation over all `n` public shares does not have that property** (witness: the variant of
`verifySharesReconstruct` that replaces the per-share loop by a single `RecoverPubkey` of all shares). Over `ℚ`,
`t = 2`, `n = 4`: the shares `5, 7, 9, 11` of `3 + 2X` with shares 3 and 4 shifted by `δ₃ = 1`, `δ₄ = 4`
(`δ₃·λ₃ + δ₄·λ₄ = 4 − 4 = 0`): all four interpolate to the key 3 at 0 and so do the first two, but the threshold
subset `{1, 3}` recovers another key. -/
theorem single_interpolation_accepts_inconsistent_public_shares :
    recoverG ℚ ({1, 2, 3, 4} : Finset ℕ) yEx = 3 ∧ recoverG ℚ ({1, 2} : Finset ℕ) yEx = 3 ∧
    recoverG ℚ ({1, 3} : Finset ℕ) yEx ≠ 3 :=
  single_interpolation_accepts_inconsistent_shares

/-! ### Non-vacuity: the hypotheses are satisfiable and the model computes (`toyCrypto`) -/

section Examples

/-- 3-of-4, two validators, amounts `32, 1, 32` ETH, v1.11. -/
def planEx : Plan (List Nat) :=
  { n := 4, t := 3, numValidators := 2, fees := [7, 8], wds := [5, 6], amounts := [32000000000, 1000000000, 32000000000],
    gas := 0, minor := 11, secrets := [[100], [200]], useNow := false, keysToDisk := true }

/-- the hypotheses of the theorems are satisfiable. -/
example : GoodRun toyCrypto planEx (fun _ => ()) (fun _ => True) where
  laws := toy_laws 4 3
  rand_good _ := trivial
  t_ge := by decide
  wds_len := rfl
  fees_len := rfl
  amounts_ne := by decide
  keys_nodup := by decide

/-- the run writes 4 p2p keys, 4 × key shares, 2 amounts × 4 deposit files, 4 locks, and the lock verifies. -/
example : (runCreate toyCrypto planEx (fun _ => ()) 1 (fun _ => 0) (fun _ => true)).2 =
    .ok (createdLock toyCrypto planEx (fun _ => ()) 1 (fun _ => 0)) ∧
    (runCreate toyCrypto planEx (fun _ => ()) 1 (fun _ => 0) (fun _ => true)).1.length = 4 + 4 + 8 + 4 ∧
    verifyLock toyCrypto (createdLock toyCrypto planEx (fun _ => ()) 1 (fun _ => 0)) = true := by decide

/-- node 2's keystores are share 3 of both validators; the lock lists their public keys at position 2. -/
example : nodeSecrets (createdSets toyCrypto (fun _ => ()) 4 3 [[100], [200]]) 2 = [[3, 100], [3, 200]] ∧
    (createdLock toyCrypto planEx (fun _ => ()) 1 (fun _ => 0)).validators.map (fun v => v.pubShares[2]?) =
      [some [3, 100], some [3, 200]] := by decide

/-- deposits: amounts deduplicated and ascending, per validator its own withdrawal address. -/
example : (createdLock toyCrypto planEx (fun _ => ()) 1 (fun _ => 0)).validators.map (fun v => v.deposits.map fun d => (d.wd, d.amount)) =
    [[(5, 1000000000), (5, 32000000000)], [(6, 1000000000), (6, 32000000000)]] := by decide

/-- `combine` over the directories of nodes 3, 0, 2 (key files listed backwards) returns the two secrets;
over two directories it refuses. -/
example : combine toyCrypto false false ([3, 0, 2].map fun j => createdDir (createdLock toyCrypto planEx (fun _ => ()) 1 (fun _ => 0))
      (nodeSecrets (createdSets toyCrypto (fun _ => ()) 4 3 [[100], [200]]) j) [1, 0]) false = .ok [[100], [200]] ∧
    combine toyCrypto false false ([3, 0].map fun j => createdDir (createdLock toyCrypto planEx (fun _ => ()) 1 (fun _ => 0))
      (nodeSecrets (createdSets toyCrypto (fun _ => ()) 4 3 [[100], [200]]) j) [0, 1]) false = .error .insufficient := by decide

/-- **Fewer keystores than validators** (witness): when every directory holds only `keystore-0`, `Combine` succeeds
and returns ONE key for a lock of TWO validators — it never compares the number of keystores with the lock. -/
theorem combine_fewer_keystores_than_validators :
    combine toyCrypto false false ([0, 1, 2].map fun j => createdDir (createdLock toyCrypto planEx (fun _ => ()) 1 (fun _ => 0))
      (nodeSecrets (createdSets toyCrypto (fun _ => ()) 4 3 [[100], [200]]) j) [0]) false = .ok [[100]] := by decide

/-- a share of validator 1 at keystore position 0, the lock of another cluster in one directory, a missing lock. -/
example :
    combine toyCrypto false false ([0, 1, 2].map fun j => createdDir (createdLock toyCrypto planEx (fun _ => ()) 1 (fun _ => 0))
      ((nodeSecrets (createdSets toyCrypto (fun _ => ()) 4 3 [[100], [200]]) j).reverse) [0, 1]) false = .error .notFound ∧
    combine toyCrypto false false
      ((createdDir (createdLock toyCrypto planEx (fun _ => ()) 2 (fun _ => 0)) (nodeSecrets (createdSets toyCrypto (fun _ => ()) 4 3 [[100], [200]]) 3) [0, 1]) ::
       [0, 1, 2].map fun j => createdDir (createdLock toyCrypto planEx (fun _ => ()) 1 (fun _ => 0))
        (nodeSecrets (createdSets toyCrypto (fun _ => ()) 4 3 [[100], [200]]) j) [0, 1]) false = .error .lockMismatch ∧
    combine toyCrypto false false
      (({ lock := none, files := some [⟨some 0, [4, 100]⟩] } : Dir (List Nat) (List Nat) (List (List Nat) × Nat) Nat) ::
       [0, 1, 2].map fun j => createdDir (createdLock toyCrypto planEx (fun _ => ()) 1 (fun _ => 0))
        (nodeSecrets (createdSets toyCrypto (fun _ => ()) 4 3 [[100], [200]]) j) [0, 1]) false = .error .manifestLoad := by decide

/-- a run whose lock write fails at node 2: nodes 0 and 1 carry the lock, `combine` on the directory refuses. -/
example : (runCreate toyCrypto planEx (fun _ => ()) 1 (fun _ => 0) (fun s => s != .lock 2)).2 = .error (.io (.lock 2)) ∧
    combine toyCrypto false false (diskDirs 4 (runCreate toyCrypto planEx (fun _ => ()) 1 (fun _ => 0) (fun s => s != .lock 2)).1) false =
      .error .manifestLoad := by decide

/-- **Before repair 5f2f8be a definition file with `threshold > operators` was accepted** (witness, switch
`defThreshold := false`): `plan` returns a plan with `t = 5 > n = 4`, the run succeeds and writes a lock `verifyLock`
rejects. With the repair (default) the same input is refused with `defThreshold` before anything is written. -/
theorem unfixed_definition_threshold_above_operators_was_accepted :
    (match plan (SK := List Nat) { defThreshold := false } { defFile := true, insecure := true }
        { numValidators := 1, threshold := 5, numOperators := 4, fees := [7], wds := [5] }
        { existingLock := fun _ => false, loadKeys := fun _ => none, fresh := fun k => [100 + k] } with
      | .ok p => decide (p.t = 5 ∧ p.n = 4) &&
          (match (runCreate toyCrypto p (fun _ => ()) 1 (fun _ => 0) (fun _ => true)).2 with
           | .ok l => !verifyLock toyCrypto l
           | .error _ => false)
      | .error _ => false) = true ∧
    (match plan (SK := List Nat) {} { defFile := true, insecure := true }
        { numValidators := 1, threshold := 5, numOperators := 4, fees := [7], wds := [5] }
        { existingLock := fun _ => false, loadKeys := fun _ => none, fresh := fun k => [100 + k] } with
      | .error e => decide (e = .defThreshold)
      | .ok _ => false) = true := by decide

/-- **Before repair c6adf89 a split-keys directory holding one key twice was accepted** (witness, switch
`uniqueKeys := false`): the run succeeds and writes a lock with two validators of one key that `verifyLock` rejects.
With the repair (default) `getKeys` refuses with `dupKey` before anything is written. -/
theorem unfixed_duplicate_split_key_was_accepted :
    (match plan (SK := List Nat) { uniqueKeys := false }
        { numNodes := 4, numDVs := 0, splitKeys := true, splitDirSet := true, fees := [7], wds := [5] } {}
        { existingLock := fun _ => false, loadKeys := fun _ => some [[100], [100]], fresh := fun k => [100 + k] } with
      | .ok p => decide (p.secrets = [[100], [100]]) &&
          (match (runCreate toyCrypto p (fun _ => ()) 1 (fun _ => 0) (fun _ => true)).2 with
           | .ok l => !verifyLock toyCrypto l
           | .error _ => false)
      | .error _ => false) = true ∧
    (match plan (SK := List Nat) {}
        { numNodes := 4, numDVs := 0, splitKeys := true, splitDirSet := true, fees := [7], wds := [5] } {}
        { existingLock := fun _ => false, loadKeys := fun _ => some [[100], [100]], fresh := fun k => [100 + k] } with
      | .error e => decide (e = .dupKey)
      | .ok _ => false) = true := by decide

/-- with flags a threshold above the nodes is refused by the command line check. -/
example : (match plan (SK := List Nat) {} { numNodes := 4, threshold := 5, thresholdFlag := true, numDVs := 1, fees := [7], wds := [5] } {}
    { existingLock := fun _ => false, loadKeys := fun _ => none, fresh := fun k => [100 + k] } with
    | .error e => decide (e = .thresholdHigh)
    | .ok _ => false) = true := by decide

end Examples

end CharonV.CreateGlue
